(** Proofs about Model/Render.v (C20). *)
From Coq Require Import ZArith NArith List Bool Lia.
From Coq Require Import ZifyBool ZifyNat ZifyN.
From Snel Require Import Base.Bytes Gen.Params Model.Render.
Import ListNotations.
Ltac Zify.zify_post_hook ::= Z.div_mod_to_equations.
Open Scope N_scope.

(** * Part 1 — the writer *)

(** The row loop returning the accepted rows themselves instead of their indices. *)
Fixpoint accept_direct (cfg : wcfg) (mode : dedup_mode) (idx : option N) (st : wstate) (rows : list row)
  : wstate * list row :=
  match rows with
  | [] => (st, [])
  | r :: rest =>
      let '(st1, ok) := accept_row cfg mode st (row_event_id idx r) in
      if st_done st1 then (st1, if ok then [r] else [])
      else
        let '(st2, l) := accept_direct cfg mode idx st1 rest in
        (st2, if ok then r :: l else l)
  end.

Lemma select_rows_cons : forall b i l,
  select_rows b (i :: l) =
  (match nth_error b (N.to_nat i) with Some r => [r] | None => [] end) ++ select_rows b l.
Proof. reflexivity. Qed.

Lemma nth_error_middle : forall (pre : list row) r rest,
  nth_error (pre ++ r :: rest) (length pre) = Some r.
Proof. induction pre as [|x pre IH]; intros; cbn; auto. Qed.

(** indices returned by [accept_rows] select exactly the rows [accept_direct] returns *)
Lemma accept_rows_direct : forall cfg mode idx rows st i st' sel (pre : list row),
  accept_rows cfg mode idx st rows i = (st', sel) ->
  N.of_nat (length pre) = i ->
  accept_direct cfg mode idx st rows = (st', select_rows (pre ++ rows) sel)
  /\ length (select_rows (pre ++ rows) sel) = length sel.
Proof.
  induction rows as [|r rest IH]; intros st i st' sel pre H Hi; cbn [accept_rows accept_direct] in *.
  - inversion H. subst. split; reflexivity.
  - destruct (accept_row cfg mode st (row_event_id idx r)) as [st1 ok] eqn:E1.
    assert (Hn : nth_error (pre ++ r :: rest) (N.to_nat i) = Some r).
    { subst i. rewrite Nnat.Nat2N.id. apply nth_error_middle. }
    destruct (st_done st1) eqn:Ed.
    + inversion H. subst st' sel. destruct ok; cbn [select_rows flat_map]; [rewrite Hn|]; split; reflexivity.
    + destruct (accept_rows cfg mode idx st1 rest (N.succ i)) as [st2 l] eqn:E2.
      inversion H. subst st' sel. clear H.
      specialize (IH st1 (N.succ i) st2 l (pre ++ [r]) E2).
      rewrite <- app_assoc in IH. cbn [app] in IH.
      destruct IH as [IH1 IH2]. { rewrite app_length. cbn [length]. lia. }
      rewrite IH1. destruct ok.
      * rewrite select_rows_cons, Hn. cbn [app length]. split; [reflexivity|]. f_equal. exact IH2.
      * split; [reflexivity|exact IH2].
Qed.

Lemma accept_row_batches : forall cfg mode st eid st1 ok,
  accept_row cfg mode st eid = (st1, ok) -> st_batches st1 = st_batches st.
Proof.
  intros cfg mode st eid st1 ok H. unfold accept_row in H.
  repeat match type of H with
  | (if ?c then _ else _) = _ => destruct c
  | (let _ := _ in _) = _ => cbv zeta in H
  end; inversion H; reflexivity.
Qed.

Lemma accept_row_emitted : forall cfg mode st eid st1 ok,
  accept_row cfg mode st eid = (st1, ok) ->
  st_emitted st1 = st_emitted st + (if ok then 1 else 0).
Proof.
  intros cfg mode st eid st1 ok H. unfold accept_row in H. cbv zeta in H.
  repeat match type of H with
  | (if ?c then _ else _) = _ => destruct c
  end; inversion H; cbn [st_emitted]; lia.
Qed.

Lemma accept_direct_emitted : forall cfg mode idx rows st st' l,
  accept_direct cfg mode idx st rows = (st', l) ->
  st_emitted st' = st_emitted st + N.of_nat (length l).
Proof.
  induction rows as [|r rest IH]; intros st st' l H; cbn [accept_direct] in H.
  - inversion H. cbn. lia.
  - destruct (accept_row cfg mode st (row_event_id idx r)) as [st1 ok] eqn:E1.
    pose proof (accept_row_emitted _ _ _ _ _ _ E1) as He.
    destruct (st_done st1).
    + inversion H. subst. destruct ok; cbn [length]; lia.
    + destruct (accept_direct cfg mode idx st1 rest) as [st2 l2] eqn:E2.
      inversion H. subst. apply IH in E2. destruct ok; cbn [length]; lia.
Qed.

Definition bump (st : wstate) : wstate :=
  mkState (st_seen st) (st_skipped st) (st_emitted st) (st_done st) (N.succ (st_batches st)).

(** the batch loop, returning the accepted rows of every frame *)
Fixpoint run_direct (cfg : wcfg) (idx : option N) (st : wstate) (bs : list batch)
  : wstate * list (list row) :=
  match bs with
  | [] => (st, [])
  | b :: rest =>
      if st_done st then (st, [])
      else
        match b with
        | [] => run_direct cfg idx st rest
        | _ =>
            let '(st1, l) := accept_direct cfg (dedup_mode_of (w_kind cfg) (st_batches st)) idx st b in
            let '(st3, out) := run_direct cfg idx (bump st1) rest in
            (st3, match l with [] => out | _ => l :: out end)
        end
  end.

Definition frame_rows (p : batch * list N) : list row := select_rows (fst p) (snd p).

Lemma run_batches_direct : forall cfg idx bs st st' out,
  run_batches cfg idx st bs = (st', out) ->
  run_direct cfg idx st bs = (st', map frame_rows out)
  /\ Forall (fun p => snd p <> [] /\ length (frame_rows p) = length (snd p) /\
                      exists st0 st1, accept_rows cfg (dedup_mode_of (w_kind cfg) (st_batches st0)) idx st0 (fst p) 0 = (st1, snd p)) out.
Proof.
  induction bs as [|b rest IH]; intros st st' out H; cbn [run_batches run_direct] in *.
  - inversion H. split; [reflexivity|constructor].
  - destruct (st_done st). { inversion H. split; [reflexivity|constructor]. }
    destruct b as [|r b']. { apply IH. exact H. }
    remember (r :: b') as b eqn:Hb.
    destruct (accept_rows cfg (dedup_mode_of (w_kind cfg) (st_batches st)) idx st b 0) as [st1 sel] eqn:E1.
    destruct (accept_rows_direct _ _ _ _ _ _ _ _ [] E1 eq_refl) as [D1 D2]. cbn [app] in D1, D2.
    rewrite D1.
    change (mkState (st_seen st1) (st_skipped st1) (st_emitted st1) (st_done st1) (N.succ (st_batches st1)))
      with (bump st1) in H.
    destruct (run_batches cfg idx (bump st1) rest) as [st3 out3] eqn:E3.
    destruct (IH _ _ _ E3) as [R1 R2]. rewrite R1.
    inversion H. subst st' out. clear H.
    destruct sel as [|s0 sel'].
    + cbn [select_rows flat_map]. split; [reflexivity|exact R2].
    + destruct (select_rows b (s0 :: sel')) eqn:Es; [cbn in D2; discriminate|].
      split; [cbn [map]; change (frame_rows (b, s0 :: sel')) with (select_rows b (s0 :: sel')); rewrite Es; reflexivity|].
      constructor; [|exact R2]. cbn [fst snd]. split; [discriminate|]. split.
      * unfold frame_rows. cbn [fst snd]. rewrite Es. exact D2.
      * exists st, st1. exact E1.
Qed.

Lemma run_direct_emitted : forall cfg idx bs st st' out,
  run_direct cfg idx st bs = (st', out) ->
  st_emitted st' = st_emitted st + N.of_nat (length (concat out)).
Proof.
  induction bs as [|b rest IH]; intros st st' out H; cbn [run_direct] in H.
  - inversion H. cbn. lia.
  - destruct (st_done st). { inversion H. cbn. lia. }
    destruct b as [|r b']. { apply IH. exact H. }
    destruct (accept_direct cfg (dedup_mode_of (w_kind cfg) (st_batches st)) idx st (r :: b')) as [st1 l] eqn:E1.
    destruct (run_direct cfg idx (bump st1) rest) as [st3 out3] eqn:E3.
    apply accept_direct_emitted in E1. apply IH in E3. cbn [bump st_emitted] in E3.
    inversion H. subst. destruct l; cbn [concat]; [cbn in E1; lia|].
    rewrite app_length. cbn [length] in *. lia.
Qed.

Lemma accepted_rows_direct : forall cfg cols bs,
  accepted_rows cfg cols bs = concat (snd (run_direct cfg (event_id_idx cols) st0 bs)).
Proof.
  intros. unfold accepted_rows.
  destruct (run_batches cfg (event_id_idx cols) st0 bs) as [st' out] eqn:E.
  destruct (run_batches_direct _ _ _ _ _ _ E) as [R _]. rewrite R. cbn [snd].
  rewrite flat_map_concat_map. reflexivity.
Qed.


(** ** JSON frames: the announced count and the rows, for every batch size *)

Definition wf_batches (cols : list column) (bs : list batch) : Prop :=
  Forall (fun b => Forall (fun r : row => length r = length cols) b) bs.

Lemma json_rows_app : forall a b, json_rows (a ++ b) = json_rows a ++ json_rows b.
Proof. intros. unfold json_rows. apply flat_map_app. Qed.

Lemma map_snd_combine : forall (A B : Type) (a : list A) (b : list B),
  (length b <= length a)%nat -> map snd (combine a b) = b.
Proof.
  induction a as [|x a IH]; intros [|y b] H; cbn in *; try reflexivity; [lia|].
  f_equal. apply IH. lia.
Qed.

Lemma json_rows_frames_len : forall cfg cols b sel,
  length (json_rows (json_frames_of cfg cols b sel)) = length (select_rows b sel).
Proof.
  intros. unfold json_frames_of. destruct (0 <? w_batch_size cfg).
  - cbn. rewrite app_nil_r, map_length. reflexivity.
  - induction (select_rows b sel) as [|r l IH]; [reflexivity|].
    cbn [map]. change (json_rows (?x :: ?y)) with (jframe_rows x ++ json_rows y).
    rewrite app_length, IH. reflexivity.
Qed.

Lemma json_rows_frames_of : forall cfg cols b sel,
  Forall (fun r : row => length r = length cols) (select_rows b sel) ->
  json_rows (json_frames_of cfg cols b sel) = map json_row (select_rows b sel).
Proof.
  intros cfg cols b sel Hwf. unfold json_frames_of. destruct (0 <? w_batch_size cfg).
  - cbn. rewrite app_nil_r. reflexivity.
  - induction (select_rows b sel) as [|r l IH]; [reflexivity|].
    cbn [map]. change (json_rows (?x :: ?y)) with (jframe_rows x ++ json_rows y).
    inversion Hwf as [|? ? Hr Hl]. subst. rewrite (IH Hl). cbn [jframe_rows app]. f_equal.
    apply map_snd_combine. unfold json_row. rewrite !map_length. lia.
Qed.

Lemma select_rows_In : forall b sel r, In r (select_rows b sel) -> In r b.
Proof.
  intros b sel r H. unfold select_rows in H. apply in_flat_map in H. destruct H as [i [_ H]].
  destruct (nth_error b (N.to_nat i)) eqn:E; [|destruct H].
  destruct H as [H|[]]. subst. eapply nth_error_In. exact E.
Qed.

Lemma run_batches_fst_In : forall cfg idx bs st st' out p,
  run_batches cfg idx st bs = (st', out) -> In p out -> In (fst p) bs.
Proof.
  induction bs as [|b rest IH]; intros st st' out p H Hin; cbn [run_batches] in H.
  - inversion H. subst. destruct Hin.
  - destruct (st_done st). { inversion H. subst. destruct Hin. }
    destruct b as [|r b']. { right. eapply IH; eauto. }
    destruct (accept_rows cfg (dedup_mode_of (w_kind cfg) (st_batches st)) idx st (r :: b') 0) as [st1 sel].
    match type of H with context [run_batches cfg idx ?s rest] => destruct (run_batches cfg idx s rest) as [st3 out3] eqn:E3 end.
    inversion H. subst. destruct sel.
    + right. eapply IH; eauto.
    + destruct Hin as [Hp|Hp]; [subst p; left; reflexivity|right; eapply IH; eauto].
Qed.

Lemma json_announced_app_end : forall fs n,
  (forall f, In f fs -> match f with JEnd _ => False | _ => True end) ->
  json_announced (fs ++ [JEnd n]) = Some n.
Proof.
  induction fs as [|f fs IH]; intros n H; [reflexivity|].
  cbn [app json_announced]. pose proof (H f (or_introl eq_refl)) as Hf.
  destruct f; try (apply IH; intros; apply H; right; assumption). destruct Hf.
Qed.

Lemma frames_no_end : forall cfg cols out f,
  In f (flat_map (fun p => json_frames_of cfg cols (fst p) (snd p)) out) ->
  match f with JEnd _ => False | _ => True end.
Proof.
  intros cfg cols out f H. apply in_flat_map in H. destruct H as [p [_ H]].
  unfold json_frames_of in H. destruct (0 <? w_batch_size cfg).
  - destruct H as [H|[]]. subst. exact I.
  - apply in_map_iff in H. destruct H as [r [H _]]. subst. exact I.
Qed.

Lemma json_rows_flat : forall cfg cols out,
  length (json_rows (flat_map (fun p => json_frames_of cfg cols (fst p) (snd p)) out))
  = length (concat (map frame_rows out)).
Proof.
  induction out as [|p out IH]; [reflexivity|].
  cbn [flat_map map concat]. rewrite json_rows_app, !app_length, IH, json_rows_frames_len. reflexivity.
Qed.

(** the row count announced in the end frame equals the number of rows emitted in the batch /
    row frames, for every writer kind, LIMIT, OFFSET and batch size *)
Theorem row_count_matches : forall cfg cols bs,
  json_announced (write_json cfg cols bs) = Some (N.of_nat (length (json_rows (write_json cfg cols bs)))).
Proof.
  intros. unfold write_json.
  destruct (run_batches cfg (event_id_idx cols) st0 bs) as [st out] eqn:E.
  destruct (run_batches_direct _ _ _ _ _ _ E) as [R _].
  pose proof (run_direct_emitted _ _ _ _ _ _ R) as He. cbn [st0 st_emitted] in He.
  change (JSchema ?c :: ?x ++ ?y) with ((JSchema c :: x) ++ y).
  rewrite json_announced_app_end.
  - f_equal. rewrite json_rows_app. change (json_rows (JSchema ?c :: ?x)) with (json_rows x).
    rewrite app_length, json_rows_flat. change (json_rows [JEnd (st_emitted st)]) with (@nil (list dcell)).
    cbn [length]. lia.
  - intros f [Hf|Hf]; [subst; exact I|]. eapply frames_no_end. exact Hf.
Qed.

(** ... and those rows are the JSON renderings of the accepted rows, in order *)
Theorem json_rows_accepted : forall cfg cols bs,
  wf_batches cols bs ->
  json_rows (write_json cfg cols bs) = map json_row (accepted_rows cfg cols bs).
Proof.
  intros cfg cols bs Hwf. unfold write_json, accepted_rows.
  destruct (run_batches cfg (event_id_idx cols) st0 bs) as [st out] eqn:E. cbn [snd].
  change (JSchema ?c :: ?x ++ ?y) with ((JSchema c :: x) ++ y).
  rewrite json_rows_app. change (json_rows (JSchema ?c :: ?x)) with (json_rows x).
  cbn [json_rows flat_map jframe_rows]. rewrite app_nil_r.
  assert (Hout : forall p, In p out -> In (fst p) bs) by (intros; eapply run_batches_fst_In; eauto).
  clear E. induction out as [|p out IH]; [reflexivity|].
  cbn [flat_map]. rewrite json_rows_app, map_app, IH by (intros; apply Hout; right; assumption).
  f_equal. apply json_rows_frames_of.
  apply Forall_forall. intros r Hr. apply select_rows_In in Hr.
  unfold wf_batches in Hwf. rewrite Forall_forall in Hwf.
  specialize (Hwf _ (Hout p (or_introl eq_refl))). rewrite Forall_forall in Hwf. auto.
Qed.

(** ** The QUERY writer computes LIMIT (OFFSET (dedup rows)) *)

Lemma accept_direct_app : forall cfg mode idx r1 r2 st,
  st_done st = false ->
  accept_direct cfg mode idx st (r1 ++ r2) =
  let '(st1, l1) := accept_direct cfg mode idx st r1 in
  if st_done st1 then (st1, l1)
  else let '(st2, l2) := accept_direct cfg mode idx st1 r2 in (st2, l1 ++ l2).
Proof.
  induction r1 as [|r r1 IH]; intros r2 st Hd; cbn [app accept_direct].
  - rewrite Hd. destruct (accept_direct cfg mode idx st r2). reflexivity.
  - destruct (accept_row cfg mode st (row_event_id idx r)) as [st1 ok] eqn:E1.
    destruct (st_done st1) eqn:Ed.
    + rewrite Ed. reflexivity.
    + rewrite IH by exact Ed.
      destruct (accept_direct cfg mode idx st1 r1) as [st2 l1].
      destruct (st_done st2); [reflexivity|].
      destruct (accept_direct cfg mode idx st2 r2) as [st3 l2]. destruct ok; reflexivity.
Qed.

Lemma accept_direct_done_bump : forall cfg mode idx rows st,
  accept_direct cfg mode idx (bump st) rows =
  let '(st', l) := accept_direct cfg mode idx st rows in (bump st', l).
Proof.
  induction rows as [|r rest IH]; intros st; cbn [accept_direct]; [reflexivity|].
  assert (Hrow : accept_row cfg mode (bump st) (row_event_id idx r) =
                 let '(s, ok) := accept_row cfg mode st (row_event_id idx r) in (bump s, ok)).
  { unfold accept_row, bump. cbn [st_seen st_skipped st_emitted st_done st_batches].
    repeat match goal with |- context [if ?c then _ else _] => destruct c end; reflexivity. }
  rewrite Hrow. destruct (accept_row cfg mode st (row_event_id idx r)) as [s ok].
  change (st_done (bump s)) with (st_done s). destruct (st_done s); [reflexivity|].
  rewrite IH. destruct (accept_direct cfg mode idx s rest). reflexivity.
Qed.

(** for QUERY the batch structure is invisible: one pass over the concatenated rows *)
Lemma run_direct_query_concat : forall cfg idx bs st,
  w_kind cfg = WQuery -> st_done st = false ->
  concat (snd (run_direct cfg idx st bs)) = snd (accept_direct cfg DedupOn idx st (concat bs)).
Proof.
  intros cfg idx bs. induction bs as [|b rest IH]; intros st Hk Hd; cbn [run_direct concat].
  - reflexivity.
  - rewrite Hd. destruct b as [|r b'].
    + cbn [app]. apply IH; assumption.
    + remember (r :: b') as b. rewrite accept_direct_app by exact Hd.
      rewrite Hk. cbn [dedup_mode_of].
      destruct (accept_direct cfg DedupOn idx st b) as [st1 l] eqn:E1.
      destruct (st_done st1) eqn:Ed1.
      * (* limit reached inside this batch: nothing else is received *)
        destruct rest as [|b2 rest2]; cbn [run_direct]; [|change (st_done (bump st1)) with (st_done st1); rewrite Ed1];
          cbn [snd]; destruct l; cbn [concat snd]; rewrite ?app_nil_r; reflexivity.
      * specialize (IH (bump st1) Hk Ed1). rewrite accept_direct_done_bump in IH.
        destruct (run_direct cfg idx (bump st1) rest) as [st3 out3].
        destruct (accept_direct cfg DedupOn idx st1 (concat rest)) as [st4 l4].
        cbn [snd] in *. destruct l; cbn [concat snd]; rewrite IH; reflexivity.
Qed.

Definition lim_left (cfg : wcfg) (st : wstate) (l : list row) : list row :=
  match w_limit cfg with Some lim => firstn (N.to_nat (lim - st_emitted st)) l | None => l end.
Definition off_left (cfg : wcfg) (st : wstate) (l : list row) : list row :=
  match w_offset cfg with Some off => skipn (N.to_nat (off - st_skipped st)) l | None => l end.

Lemma accept_direct_spec : forall cfg idx rows st,
  st_done st = false ->
  snd (accept_direct cfg DedupOn idx st rows)
  = lim_left cfg st (off_left cfg st (dedup_first idx (st_seen st) rows)).
Proof.
  intros cfg idx. induction rows as [|r rest IH]; intros st Hd; cbn [accept_direct dedup_first].
  - unfold lim_left, off_left. destruct (w_limit cfg), (w_offset cfg); cbn; rewrite ?firstn_nil, ?skipn_nil, ?firstn_nil; reflexivity.
  - unfold accept_row. cbv zeta.
    destruct (row_event_id idx r) as [id|] eqn:Eid.
    + destruct (mem_N id (st_seen st)) eqn:Em.
      * (* duplicate *)
        cbn [st_done]. rewrite Hd.
        match goal with |- context [accept_direct cfg DedupOn idx ?s rest] => specialize (IH s eq_refl) end.
        cbn [st_seen] in IH.
        destruct (accept_direct cfg DedupOn idx _ rest) as [s2 l2]. cbn [snd] in *. exact IH.
      * (* first occurrence *)
        destruct (match w_offset cfg with Some off => st_skipped st <? off | None => false end) eqn:Eo.
        -- cbn [st_done]. rewrite Hd.
           match goal with |- context [accept_direct cfg DedupOn idx ?s rest] => specialize (IH s eq_refl) end.
           destruct (accept_direct cfg DedupOn idx _ rest) as [s2 l2]. cbn [snd] in *. rewrite IH.
           unfold lim_left, off_left. cbn [st_emitted st_skipped st_seen].
           destruct (w_offset cfg) as [off|]; [|discriminate].
           replace (N.to_nat (off - st_skipped st)) with (S (N.to_nat (off - N.succ (st_skipped st)))) by lia.
           reflexivity.
        -- destruct (match w_limit cfg with Some lim => lim <=? st_emitted st | None => false end) eqn:El.
           ++ cbn [st_done snd]. unfold lim_left. destruct (w_limit cfg) as [lim|]; [|discriminate].
              replace (N.to_nat (lim - st_emitted st)) with O by lia. reflexivity.
           ++ cbn [st_done]. rewrite Hd.
              match goal with |- context [accept_direct cfg DedupOn idx ?s rest] => specialize (IH s eq_refl) end.
              destruct (accept_direct cfg DedupOn idx _ rest) as [s2 l2]. cbn [snd] in *. rewrite IH.
              unfold lim_left, off_left. cbn [st_emitted st_skipped st_seen].
              assert (Hoff : match w_offset cfg with Some off => skipn (N.to_nat (off - st_skipped st)) (r :: dedup_first idx (id :: st_seen st) rest) | None => r :: dedup_first idx (id :: st_seen st) rest end
                             = r :: match w_offset cfg with Some off => skipn (N.to_nat (off - st_skipped st)) (dedup_first idx (id :: st_seen st) rest) | None => dedup_first idx (id :: st_seen st) rest end).
              { destruct (w_offset cfg) as [off|]; [|reflexivity].
                replace (N.to_nat (off - st_skipped st)) with O by lia. reflexivity. }
              rewrite Hoff. destruct (w_limit cfg) as [lim|]; [|reflexivity].
              replace (N.to_nat (lim - st_emitted st)) with (S (N.to_nat (lim - N.succ (st_emitted st)))) by lia.
              reflexivity.
    + (* no event id: never a duplicate *)
      destruct (match w_offset cfg with Some off => st_skipped st <? off | None => false end) eqn:Eo.
      * cbn [st_done]. rewrite Hd.
        match goal with |- context [accept_direct cfg DedupOn idx ?s rest] => specialize (IH s eq_refl) end.
        destruct (accept_direct cfg DedupOn idx _ rest) as [s2 l2]. cbn [snd] in *. rewrite IH.
        unfold lim_left, off_left. cbn [st_emitted st_skipped st_seen].
        destruct (w_offset cfg) as [off|]; [|discriminate].
        replace (N.to_nat (off - st_skipped st)) with (S (N.to_nat (off - N.succ (st_skipped st)))) by lia.
        reflexivity.
      * destruct (match w_limit cfg with Some lim => lim <=? st_emitted st | None => false end) eqn:El.
        -- cbn [st_done snd]. unfold lim_left. destruct (w_limit cfg) as [lim|]; [|discriminate].
           replace (N.to_nat (lim - st_emitted st)) with O by lia. reflexivity.
        -- cbn [st_done]. rewrite Hd.
           match goal with |- context [accept_direct cfg DedupOn idx ?s rest] => specialize (IH s eq_refl) end.
           destruct (accept_direct cfg DedupOn idx _ rest) as [s2 l2]. cbn [snd] in *. rewrite IH.
           unfold lim_left, off_left. cbn [st_emitted st_skipped st_seen].
           assert (Hoff : match w_offset cfg with Some off => skipn (N.to_nat (off - st_skipped st)) (r :: dedup_first idx (st_seen st) rest) | None => r :: dedup_first idx (st_seen st) rest end
                          = r :: match w_offset cfg with Some off => skipn (N.to_nat (off - st_skipped st)) (dedup_first idx (st_seen st) rest) | None => dedup_first idx (st_seen st) rest end).
           { destruct (w_offset cfg) as [off|]; [|reflexivity].
             replace (N.to_nat (off - st_skipped st)) with O by lia. reflexivity. }
           rewrite Hoff. destruct (w_limit cfg) as [lim|]; [|reflexivity].
           replace (N.to_nat (lim - st_emitted st)) with (S (N.to_nat (lim - N.succ (st_emitted st)))) by lia.
           reflexivity.
Qed.

(** QUERY: the rows handed to any renderer are LIMIT (OFFSET (first occurrence per event id)) of
    the rows of the stream, whatever the batch boundaries. *)
Theorem writer_spec_query : forall cfg cols bs,
  w_kind cfg = WQuery ->
  accepted_rows cfg cols bs = writer_spec cfg cols bs.
Proof.
  intros cfg cols bs Hk. rewrite accepted_rows_direct, run_direct_query_concat by (auto; reflexivity).
  rewrite accept_direct_spec by reflexivity.
  unfold writer_spec, lim_left, off_left, opt_take, opt_skip. cbn [st0 st_emitted st_skipped st_seen].
  destruct (w_limit cfg), (w_offset cfg); rewrite ?N.sub_0_r; reflexivity.
Qed.

(** ** Every encoder receives the same rows *)

Lemma is_iota_select : forall sel (pre rows : list row),
  is_iota sel (N.of_nat (length pre)) = true -> length sel = length rows ->
  select_rows (pre ++ rows) sel = rows.
Proof.
  induction sel as [|x sel IH]; intros pre rows Hi Hl.
  - destruct rows; [reflexivity|discriminate].
  - destruct rows as [|r rows]; [discriminate|].
    cbn [is_iota] in Hi. apply andb_true_iff in Hi. destruct Hi as [Hx Hi]. apply N.eqb_eq in Hx. subst x.
    rewrite select_rows_cons, Nnat.Nat2N.id, nth_error_middle. cbn [app]. f_equal.
    specialize (IH (pre ++ [r]) rows). rewrite <- app_assoc in IH. cbn [app] in IH. apply IH.
    + rewrite app_length. cbn [length]. replace (N.of_nat (length pre + 1)) with (N.succ (N.of_nat (length pre))) by lia. exact Hi.
    + cbn [length] in Hl. lia.
Qed.

Lemma whole_batch_select : forall b sel, whole_batch b sel = true -> select_rows b sel = b.
Proof.
  intros b sel H. unfold whole_batch in H. apply andb_true_iff in H. destruct H as [Hl Hi].
  apply N.eqb_eq in Hl. apply (is_iota_select sel [] b); [exact Hi|lia].
Qed.

Definition arrow_row_of (cols : list column) (out : list dcell) (r : row) : Prop :=
  out = arrow_row PWhole cols r \/ out = arrow_row PRow cols r.

Lemma Forall2_map_l : forall (A B : Type) (f : A -> B) (P : B -> A -> Prop) l,
  (forall x, In x l -> P (f x) x) -> Forall2 P (map f l) l.
Proof. induction l as [|x l IH]; intros H; cbn; constructor; [apply H; left; reflexivity|apply IH; intros; apply H; right; assumption]. Qed.

Lemma arrow_frame_rows : forall cols b sel,
  Forall2 (arrow_row_of cols) (aframe_rows (arrow_frame_of cols b sel)) (select_rows b sel).
Proof.
  intros. unfold arrow_frame_of. destruct (whole_batch b sel) eqn:E; cbn [aframe_rows].
  - rewrite (whole_batch_select _ _ E). apply Forall2_map_l. intros; left; reflexivity.
  - apply Forall2_map_l. intros; right; reflexivity.
Qed.

(** All encoders are handed the same accepted rows in the same order: the JSON and text frames
    carry their [to_json] renderings (batch frames or row frames), every Arrow record batch carries
    them through the whole-batch or the row-index conversion; column names coincide. *)
Theorem writer_same_rows : forall cfg cols bs,
  wf_batches cols bs ->
  json_names (write_json cfg cols bs) = map c_name cols /\
  arrow_names (write_arrow cfg cols bs) = map c_name cols /\
  json_rows (write_json cfg cols bs) = map json_row (accepted_rows cfg cols bs) /\
  Forall2 (arrow_row_of cols) (arrow_rows (write_arrow cfg cols bs)) (accepted_rows cfg cols bs).
Proof.
  intros cfg cols bs Hwf. split; [|split; [|split]].
  - unfold write_json. destruct (run_batches cfg (event_id_idx cols) st0 bs). cbn [json_names].
    rewrite map_map. reflexivity.
  - unfold write_arrow. destruct (run_batches cfg (event_id_idx cols) st0 bs). cbn [arrow_names].
    rewrite map_map. reflexivity.
  - apply json_rows_accepted. exact Hwf.
  - unfold write_arrow, accepted_rows. destruct (run_batches cfg (event_id_idx cols) st0 bs) as [st out].
    cbn [snd]. unfold arrow_rows. cbn [flat_map aframe_rows app].
    induction out as [|p out IH]; cbn [map flat_map]; [constructor|].
    apply Forall2_app; [apply arrow_frame_rows|exact IH].
Qed.

(** * Part 2 — cells *)

Lemma bytes_eqb_refl : forall a, bytes_eqb a a = true.
Proof. induction a as [|x a IH]; cbn [bytes_eqb]; [reflexivity|]. rewrite N.eqb_refl, IH. reflexivity. Qed.

(** side condition on the regenerated tables: the stream schema (arrow.rs) and the whole-batch
    arrays (batch.rs) type every logical type name alike *)
Lemma tables_agree : forall lt, arrow_type_batch lt = arrow_type_schema lt.
Proof. intro lt. reflexivity. Qed.

Lemma finite_not_nan : forall b, f64_finite b = true -> f64_is_nan b = false.
Proof.
  intros b H. unfold f64_finite in H. unfold f64_is_nan.
  destruct ((b / 2 ^ 52) mod 2 ^ 11 =? 2047); [discriminate|reflexivity].
Qed.

Lemma f64_eq_refl : forall b, f64_finite b = true -> f64_eq b b = true.
Proof. intros b H. unfold f64_eq. rewrite (finite_not_nan _ H), N.eqb_refl. reflexivity. Qed.

Ltac flags :=
  unfold render_w_int_int64, render_w_int_ts, render_w_int_utf8, render_w_float_float, render_w_float_int64,
    render_w_float_utf8, render_w_bool_bool, render_w_bool_utf8, render_w_bool_int64, render_w_ts_ts,
    render_w_ts_int64, render_w_ts_utf8, render_r_int_int64, render_r_int_ts, render_r_int_utf8,
    render_r_float_float, render_r_float_int64, render_r_float_utf8, render_r_bool_bool, render_r_bool_utf8,
    render_r_bool_int64, render_r_ts_ts, render_r_ts_int64, render_r_ts_utf8 in *.

(** When the runtime kind of a cell matches the declared type of its column — and the value is not
    one of the three value-dependent exceptions (a string holding an array/object text, a string
    holding a u64 above i64::MAX, a non-finite float) — JSON, text and both Arrow conversions decode
    to the same value. *)
Theorem cells_agree_typed : forall lt v,
  kind_matches (arrow_type_schema lt) v = true -> reparsed_or_nonfinite v = false ->
  cell_all_agree lt v = true.
Proof.
  intros lt v Hk Hr. unfold cell_all_agree, arrow_cell, text_cell. change (arrow_type_batch lt) with (arrow_type_schema lt).
  destruct (arrow_type_schema lt), v as [|b|z|bits disp|z|s [c|] fl|b]; cbn [kind_matches] in Hk; try discriminate;
    cbn [reparsed_or_nonfinite] in Hr; try discriminate;
    cbn [json_cell arrow_cell_whole arrow_cell_row]; flags; cbn [cell_agree to_string_repr opt_int];
    rewrite ?Z.eqb_refl, ?eqb_reflx, ?bytes_eqb_refl; try reflexivity.
  - (* finite float in a Float column *)
    apply negb_false_iff in Hr. rewrite Hr. cbn [cell_agree]. rewrite (f64_eq_refl _ Hr). reflexivity.
  - (* plain string in a string column *)
    destruct (big_u64 s); [discriminate|]. cbn [cell_agree]. rewrite bytes_eqb_refl. reflexivity.
Qed.

Example cells_agree_typed_sat :
  kind_matches (arrow_type_schema [70;108;111;97;116]) (SFloat 4609434218613702656 [49;46;53]) = true /\
  reparsed_or_nonfinite (SFloat 4609434218613702656 [49;46;53]) = false.
Proof. vm_compute. split; reflexivity. Qed.

(** ** The exact set of disagreeing cells *)

Lemma cell_agree_null_l : forall d, cell_agree DNull d = match d with DNull => true | _ => false end.
Proof. destruct d; reflexivity. Qed.

Lemma f64_int_value_finite : forall b y, f64_int_value b = Some y -> f64_finite b = true.
Proof. intros b y H. unfold f64_int_value in H. destruct (f64_finite b); [reflexivity|discriminate]. Qed.

(** an Int64 cell of a Float column (both Arrow conversions write [z as f64]) agrees with the JSON
    integer exactly when the conversion is exact *)
Lemma int_in_float_agree : forall z,
  (cell_agree (DInt z) (DFloat (f64_of_Z z)) && cell_agree (DInt z) (DFloat (f64_of_Z z)) &&
   cell_agree (DFloat (f64_of_Z z)) (DFloat (f64_of_Z z)) && cell_agree (DInt z) (DInt z)) = int_exact_in_f64 z.
Proof.
  intro z. unfold int_exact_in_f64. cbn [cell_agree].
  destruct (f64_int_value (f64_of_Z z)) as [y|] eqn:E; [|reflexivity].
  rewrite (f64_eq_refl _ (f64_int_value_finite _ _ E)), Z.eqb_refl, !andb_true_r, (Z.eqb_sym y z).
  destruct (z =? y)%Z; reflexivity.
Qed.

(** [known_class] is exact: a cell decodes alike from every encoding if and only if it lies outside
    all eight classes. *)
Theorem known_class_exact : forall lt v,
  known_class lt v = None <-> cell_all_agree lt v = true.
Proof.
  intros lt v. unfold known_class, cell_all_agree, arrow_cell, text_cell. change (arrow_type_batch lt) with (arrow_type_schema lt).
  destruct (arrow_type_schema lt), v as [|b|z|bits disp|z|s [c|] fl|b];
    cbn [known_class_t mismatch_class json_cell arrow_cell_whole arrow_cell_row]; flags;
    try (cbn [andb]; rewrite int_in_float_agree; destruct (int_exact_in_f64 z); split; intro H; try reflexivity; discriminate);
    cbn [cell_agree to_string_repr opt_int andb];
    rewrite ?Z.eqb_refl, ?eqb_reflx, ?bytes_eqb_refl, ?andb_false_r; cbn [andb];
    try (split; [reflexivity|discriminate] || (intros; discriminate));
    try (split; intro H; [reflexivity|reflexivity]);
    try (split; intro H; discriminate).
  all: try (destruct (f64_finite bits) eqn:Ef; cbn [cell_agree andb];
            rewrite ?(f64_eq_refl _ Ef), ?andb_false_r; cbn [andb]; split; intro H; try reflexivity; try discriminate).
  all: try (destruct (big_u64 s) eqn:Eb; cbn [cell_agree andb]; rewrite ?bytes_eqb_refl, ?andb_false_r; cbn [andb];
            split; intro H; try reflexivity; try discriminate).
  all: try (destruct (parse_i64 s); cbn [opt_int cell_agree andb] in *; rewrite ?andb_false_r in *; try discriminate).
  all: try (destruct fl; cbn [cell_agree andb] in *; rewrite ?andb_false_r in *; try discriminate).
  all: try (destruct (bool_word s); cbn [cell_agree andb] in *; rewrite ?andb_false_r in *; try discriminate).
Qed.

(** ** Witnesses: the full agreement claim is false *)

Definition s_integer : bytes := [73;110;116;101;103;101;114].
Definition s_float : bytes := [70;108;111;97;116].
Definition s_string : bytes := [83;116;114;105;110;103].
Definition s_boolean : bytes := [66;111;111;108;101;97;110].
(* "18446744073709551615" *)
Definition s_u64max : bytes := [49;56;52;52;54;55;52;52;48;55;51;55;48;57;53;53;49;54;49;53].
Definition nan_bits : N := 9221120237041090560.

(** one witness per class, each a single cell *)
Theorem agree_refuted :
  cell_all_agree s_integer (SUtf8 s_u64max None (Some 4895412794951729152)) = false /\
  json_cell (SUtf8 s_u64max None (Some 4895412794951729152)) = DInt 18446744073709551615 /\
  arrow_cell PWhole s_integer (SUtf8 s_u64max None (Some 4895412794951729152)) = DNull /\
  cell_all_agree s_string (SUtf8 [91;49;44;50;93] (Some [91;49;44;50;93]) None) = false /\
  cell_all_agree s_float (SFloat nan_bits [78;97;78]) = false /\
  cell_all_agree s_integer (SFloat 4609434218613702656 [49;46;53]) = false /\
  cell_all_agree s_float (SInt 9007199254740993) = false /\
  cell_all_agree s_boolean (SInt 1) = false /\
  cell_all_agree s_string (SInt 1) = false.
Proof. vm_compute. repeat split; reflexivity. Qed.

(** the two Arrow conversions disagree with each other: digits in an Integer column, a boolean word
    in a Boolean column *)
Theorem arrow_paths_disagree_refuted :
  cell_agree (arrow_cell PWhole s_integer (SUtf8 [52;50] None (Some 4631107791820423168)))
             (arrow_cell PRow s_integer (SUtf8 [52;50] None (Some 4631107791820423168))) = false /\
  arrow_cell PWhole s_integer (SUtf8 [52;50] None (Some 4631107791820423168)) = DInt 42 /\
  arrow_cell PRow s_integer (SUtf8 [52;50] None (Some 4631107791820423168)) = DNull /\
  arrow_cell PWhole s_boolean (SUtf8 [116;114;117;101] None None) = DBool true /\
  arrow_cell PRow s_boolean (SUtf8 [116;114;117;101] None None) = DNull.
Proof. vm_compute. repeat split; reflexivity. Qed.

(** after fix fba8206 the two conversions agree on every Int64 cell of a Float column *)
Theorem arrow_paths_agree_int_in_float : forall lt z,
  arrow_type_schema lt = AFloat64 ->
  arrow_cell PWhole lt (SInt z) = arrow_cell PRow lt (SInt z) /\
  arrow_cell PWhole lt (SInt z) = DFloat (f64_of_Z z).
Proof.
  intros lt z H. unfold arrow_cell. change (arrow_type_batch lt) with (arrow_type_schema lt). rewrite H.
  cbn [arrow_cell_whole arrow_cell_row]. flags. split; reflexivity.
Qed.

(** a whole response: one Integer column, one row holding the string "18446744073709551615" *)
Theorem responses_agree_refuted :
  exists cfg cols bs, wf_batches cols bs /\ responses_agree cfg cols bs = false.
Proof.
  exists (mkCfg None None 1000 WQuery), [mkColumn [118] s_integer], [[[SUtf8 s_u64max None None]]].
  split; [repeat constructor|vm_compute; reflexivity].
Qed.

(** ** Outside the known classes the decoded responses agree *)

Lemma cell_all_agree_parts : forall lt v, cell_all_agree lt v = true ->
  cell_agree (json_cell v) (arrow_cell PWhole lt v) = true /\
  cell_agree (json_cell v) (arrow_cell PRow lt v) = true.
Proof.
  intros lt v H. unfold cell_all_agree in H.
  repeat (apply andb_true_iff in H; destruct H as [H ?]). auto.
Qed.

Definition row_outside_known (cols : list column) (r : row) : Prop :=
  Forall (fun cv => known_class (c_type (fst cv)) (snd cv) = None) (combine cols r).

Lemma row_agrees : forall cols r out,
  length r = length cols -> row_outside_known cols r -> arrow_row_of cols out r ->
  (Nat.eqb (length (json_row r)) (length out)) && forallb (fun p => cell_agree (fst p) (snd p)) (combine (json_row r) out) = true.
Proof.
  intros cols r out Hl Hk Ho.
  assert (forall p, out = arrow_row p cols r ->
          (Nat.eqb (length (json_row r)) (length out)) && forallb (fun q => cell_agree (fst q) (snd q)) (combine (json_row r) out) = true).
  { intros p ->. unfold json_row, arrow_row.
    apply andb_true_iff. split.
    - rewrite !map_length, combine_length, Hl, Nat.min_id. apply Nat.eqb_refl.
    - unfold row_outside_known in Hk. clear Ho. revert cols Hl Hk.
      induction r as [|v r IH]; intros [|c cols] Hl Hk; cbn in *; try reflexivity; try discriminate.
      inversion Hk as [|? ? Hv Hrest]. subst. cbn [fst snd] in Hv.
      apply known_class_exact in Hv. destruct (cell_all_agree_parts _ _ Hv) as [A B].
      apply andb_true_iff. split; [destruct p; assumption|apply IH; [lia|exact Hrest]]. }
  destruct Ho as [Ho|Ho]; eauto.
Qed.

Lemma rows_agree_forall2 : forall cols (outs : list (list dcell)) (rows : list row),
  Forall (fun r => length r = length cols /\ row_outside_known cols r) rows ->
  Forall2 (arrow_row_of cols) outs rows ->
  rows_agree (map json_row rows) outs = true.
Proof.
  intros cols outs rows Hr H2. induction H2 as [|o r outs rows Ho H2 IH]; [reflexivity|].
  inversion Hr as [|? ? [Hl Hk] Hrest]. subst. cbn [map rows_agree].
  rewrite (row_agrees _ _ _ Hl Hk Ho). cbn [andb]. apply IH. exact Hrest.
Qed.

Lemma accepted_rows_In : forall cfg cols bs r, In r (accepted_rows cfg cols bs) -> exists b, In b bs /\ In r b.
Proof.
  intros cfg cols bs r H. unfold accepted_rows in H.
  destruct (run_batches cfg (event_id_idx cols) st0 bs) as [st out] eqn:E. cbn [snd] in H.
  apply in_flat_map in H. destruct H as [p [Hp Hr]]. exists (fst p). split.
  - eapply run_batches_fst_In; eauto.
  - eapply select_rows_In; eauto.
Qed.

(** The strongest true form of the property on the model: for every schema, stream, LIMIT, OFFSET,
    batch size and writer kind, if no cell of an emitted row lies in a known class then the JSON
    (= text) stream and the Arrow stream decode to the same column names, the same number of rows,
    pairwise agreeing cells, and the announced row count is the number of rows. *)
Theorem agree_outside_known : forall cfg cols bs,
  wf_batches cols bs ->
  Forall (row_outside_known cols) (accepted_rows cfg cols bs) ->
  responses_agree cfg cols bs = true.
Proof.
  intros cfg cols bs Hwf Hk. unfold responses_agree.
  destruct (writer_same_rows cfg cols bs Hwf) as [Hjn [Han [Hjr Har]]].
  assert (Hall : Forall (fun r => length r = length cols /\ row_outside_known cols r) (accepted_rows cfg cols bs)).
  { rewrite Forall_forall in *. intros r Hr. split; [|apply Hk; exact Hr].
    destruct (accepted_rows_In _ _ _ _ Hr) as [b [Hb Hrb]].
    unfold wf_batches in Hwf. rewrite Forall_forall in Hwf. specialize (Hwf _ Hb).
    rewrite Forall_forall in Hwf. auto. }
  rewrite Hjn, Han, row_count_matches, Hjr, map_length, N.eqb_refl.
  rewrite (rows_agree_forall2 cols _ _ Hall Har).
  rewrite Nat.eqb_refl. rewrite !andb_true_r.
  clear. induction (map c_name cols) as [|n l IH]; [reflexivity|]. cbn [combine forallb fst snd].
  rewrite bytes_eqb_refl. exact IH.
Qed.

Example agree_outside_known_sat :
  let cols := [mkColumn [118] s_integer; mkColumn [115] s_string] in
  let bs := [[[SInt 5; SUtf8 [104;105] None None]; [SNull; SBin [1;2]]]] in
  wf_batches cols bs /\ Forall (row_outside_known cols) (accepted_rows (mkCfg (Some 5) None 0 WQuery) cols bs)
  /\ accepted_rows (mkCfg (Some 5) None 0 WQuery) cols bs <> [].
Proof.
  cbv zeta. split; [repeat constructor|].
  match goal with |- context [accepted_rows ?c ?cs ?b] =>
    assert (E : accepted_rows c cs b = [[SInt 5; SUtf8 [104;105] None None]; [SNull; SBin [1;2]]]) by (vm_compute; reflexivity);
    rewrite E end.
  split; [|discriminate].
  unfold row_outside_known. cbn [combine fst snd].
  repeat (constructor; cbn [fst snd c_type]).
Qed.

(** * Part 3 — error responses *)

(** the status a reader finds in the body is the same in all three encodings (for the text
    rendering it is parsed back from the rendered bytes, whatever the message) *)
Theorem error_status_same_body : forall s msg,
  body_status EJson s msg = Some (status_code s) /\
  body_status EText s msg = Some (status_code s) /\
  body_status EArrow s msg = Some (status_code s).
Proof.
  intros s msg. split; [reflexivity|]. split; [|reflexivity].
  unfold body_status, render_error.
  destruct s; vm_compute (dec_of_N (status_code _)); vm_compute (status_code _); cbn [app]; reflexivity.
Qed.

(** ** The HTTP status derived from the body (after fix c214409) *)

(** the text rendering starts with its three status digits and a blank: the dispatcher answers a
    text error of any length with its own status *)
Theorem http_text_status_correct : forall s msg, http_status_of_error EText s msg = status_code s.
Proof.
  intros s msg. unfold http_status_of_error, render_error.
  destruct s; vm_compute (dec_of_N (status_code _)); cbn [app]; vm_compute; reflexivity.
Qed.

Lemma has_window_app : forall w pre s fuel,
  is_prefix w s = true -> (length w <= length s)%nat -> s <> [] -> (length pre < fuel)%nat ->
  has_window w (pre ++ s) fuel = true.
Proof.
  intros w pre. induction pre as [|x pre IH]; intros s fuel Hp Hl Hs Hf.
  - destruct fuel as [|f]; [lia|]. destruct s as [|c r]; [contradiction|]. cbn [app has_window].
    rewrite Hp. apply Nat.leb_le in Hl. rewrite Hl. reflexivity.
  - destruct fuel as [|f]; [cbn in Hf; lia|]. cbn [app has_window]. rewrite (IH s f Hp Hl Hs); [apply orb_true_r|cbn in Hf; lia].
Qed.

Lemma firstn_length_all : forall (A : Type) (l : list A), firstn (N.to_nat (N.of_nat (length l))) l = l.
Proof. intros. rewrite Nnat.Nat2N.id. apply firstn_all. Qed.

(** a JSON or Arrow-fallback error body below the full-parse limit yields its own status *)
Lemma http_json_short : forall s msg,
  N.of_nat (length (render_error EJson s msg)) < render_http_parse_full_below ->
  http_status_of_error EJson s msg = status_code s.
Proof.
  intros s msg Hlen. unfold http_status_of_error.
  set (out := render_error EJson s msg) in *.
  assert (Hout : out = [123;34;99;111;117;110;116;34;58;48;44;34] ++ (status_word ++ skipn 18 out)).
  { unfold out, render_error, js_head. cbn [app skipn]. reflexivity. }
  destruct out as [|c r] eqn:Eo; [discriminate|].
  assert (Hc : c = 123) by (inversion Hout; reflexivity). subst c. cbn [N.eqb Pos.eqb negb].
  apply N.ltb_lt in Hlen. rewrite Hlen. unfold render_http_sniff_window.
  rewrite firstn_length_all. rewrite Hout at 1 2.
  rewrite has_window_app; [|reflexivity|cbn; lia|discriminate|rewrite app_length; cbn; lia].
  cbn [negb]. destruct s; vm_compute; reflexivity.
Qed.

Lemma http_arrow_short : forall s msg,
  N.of_nat (length (render_error EArrow s msg)) < render_http_parse_full_below ->
  http_status_of_error EArrow s msg = status_code s.
Proof.
  intros s msg Hlen. unfold http_status_of_error.
  set (out := render_error EArrow s msg) in *.
  assert (Hout : out = (ar_head ++ json_string msg ++ [44;34;114;101;115;117;108;116;115;34;58;91;93;44;34])
                       ++ (status_word ++ [34;58] ++ dec_of_N (status_code s) ++ [125; 10])).
  { unfold out, render_error, ar_results_status, status_word. rewrite <- !app_assoc. reflexivity. }
  destruct out as [|c r] eqn:Eo; [destruct (ar_head ++ json_string msg ++ _) in Hout; discriminate|].
  assert (Hc : c = 123) by (unfold ar_head in Hout; cbn [app] in Hout; inversion Hout; reflexivity). subst c.
  cbn [N.eqb Pos.eqb negb].
  apply N.ltb_lt in Hlen. rewrite Hlen. unfold render_http_sniff_window.
  rewrite firstn_length_all. rewrite Hout at 1 2.
  rewrite has_window_app; [|reflexivity|rewrite app_length; unfold status_word; cbn [length]; lia|discriminate
                          |rewrite (app_length _ (status_word ++ _)), (app_length status_word); unfold status_word; cbn [length]; lia].
  cbn [negb]. destruct s; vm_compute; reflexivity.
Qed.

(** Outside the remaining known class — the error bodies stay below the full-parse limit — the
    dispatcher answers every encoding of an error with the error's own status. *)
Theorem http_status_correct_outside_known : forall s msg,
  N.of_nat (length (render_error EJson s msg)) < render_http_parse_full_below ->
  N.of_nat (length (render_error EArrow s msg)) < render_http_parse_full_below ->
  http_status_of_error EJson s msg = status_code s /\
  http_status_of_error EText s msg = status_code s /\
  http_status_of_error EArrow s msg = status_code s.
Proof.
  intros s msg Hj Ha. split; [apply http_json_short; exact Hj|]. split; [apply http_text_status_correct|apply http_arrow_short; exact Ha].
Qed.

Lemma http_ok_always_200 : forall e msg, http_status_of_error e StOk msg = 200.
Proof.
  intros e msg. destruct e; [| apply http_text_status_correct |]; unfold http_status_of_error, render_error.
  - unfold js_head. cbn [app N.eqb Pos.eqb negb].
    repeat match goal with |- context [if ?a then _ else _] => destruct a end; reflexivity.
  - unfold ar_head. cbn [app N.eqb Pos.eqb negb].
    repeat match goal with |- context [if ?a then _ else _] => destruct a end; reflexivity.
Qed.

(** The claim is still FALSE for long error messages: a 400 whose message has 460 bytes gives a JSON
    (and Arrow) body of more than 500 bytes, of which only the first 200 are parsed — HTTP 200 —
    while the text rendering of the same error is answered with 400. *)
Definition long_msg : bytes := repeat 101 460.
Theorem http_status_same_refuted :
  http_status_same StBadRequest long_msg = false /\
  http_status_of_error EJson StBadRequest long_msg = 200 /\
  http_status_of_error EArrow StBadRequest long_msg = 200 /\
  http_status_of_error EText StBadRequest long_msg = 400 /\
  http_known StBadRequest long_msg = true.
Proof. vm_compute. repeat split; reflexivity. Qed.

(** Outside the known class all three encodings of an error are answered with the same status. *)
Theorem http_status_outside_known : forall s msg,
  http_known s msg = false -> http_status_same s msg = true.
Proof.
  intros s msg Hk. unfold http_status_same.
  assert (Hall : http_status_of_error EJson s msg = status_code s /\
                 http_status_of_error EText s msg = status_code s /\
                 http_status_of_error EArrow s msg = status_code s).
  { destruct s; try (cbn [http_known] in Hk; apply orb_false_iff in Hk; destruct Hk as [Hj Ha];
                     apply N.leb_gt in Hj; apply N.leb_gt in Ha; apply http_status_correct_outside_known; assumption).
    rewrite !http_ok_always_200. repeat split; reflexivity. }
  destruct Hall as [-> [-> ->]]. rewrite N.eqb_refl. reflexivity.
Qed.

Example http_status_outside_known_sat :
  http_known StNotFound [110;111;32;115;117;99;104;32;116;121;112;101] = false /\
  http_status_of_error EArrow StNotFound [110;111;32;115;117;99;104;32;116;121;112;101] = 404 /\
  http_status_of_error EText StBadRequest [104;105] = 400.
Proof. vm_compute. repeat split; reflexivity. Qed.
