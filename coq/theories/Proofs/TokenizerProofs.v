(** The tokenizer model consumes at least one byte per step, so [length s] steps of fuel are
    enough: more fuel gives the same token list. *)
From Coq Require Import NArith List Bool Lia.
From Snel Require Import Base.Bytes Model.Tokenizer.
Import ListNotations.
Open Scope N_scope.

Lemma span_len : forall p s a r, span p s = (a, r) -> (length r <= length s)%nat.
Proof.
  induction s as [|c s IH]; intros a r H; cbn in H.
  - inversion H; subst. auto.
  - destruct (p c).
    + destruct (span p s) as [a' r'] eqn:S. inversion H; subst. specialize (IH _ _ eq_refl). cbn. lia.
    + inversion H; subst. auto.
Qed.

Lemma scan_string_len : forall s acc str r, scan_string s acc = (str, r) -> (length r <= length s)%nat.
Proof.
  fix IH 1. intros [|c s] acc str r H; cbn in H.
  - inversion H; subst. auto.
  - destruct (c =? 34); [inversion H; subst; cbn; lia|].
    destruct (c =? 92).
    + destruct s as [|e s']; [inversion H; subst; cbn; lia|]. apply IH in H. cbn. lia.
    + apply IH in H. cbn. lia.
Qed.

Lemma next_token_len : forall c r t r', next_token c r = (t, r') -> (length r' <= length r)%nat.
Proof.
  intros c r t r' H. unfold next_token in H.
  repeat match type of H with
         | (if ?b then _ else _) = _ => destruct b
         | (let '(_, _) := scan_string ?s ?a in _) = _ =>
             let E := fresh "E" in destruct (scan_string s a) eqn:E; apply scan_string_len in E
         | (let '(_, _) := span ?p ?s in _) = _ =>
             let E := fresh "E" in destruct (span p s) eqn:E; apply span_len in E
         end; inversion H; subst; auto.
Qed.

Lemma tokenize_fuel_nil : forall f, tokenize_fuel f [] = [].
Proof. intros [|f]; reflexivity. Qed.

Lemma tokenize_fuel_indep : forall f1 f2 s, (length s <= f1)%nat -> (length s <= f2)%nat ->
  tokenize_fuel f1 s = tokenize_fuel f2 s.
Proof.
  induction f1 as [|f1 IH]; intros f2 s H1 H2.
  - destruct s; [|cbn in H1; lia]. rewrite !tokenize_fuel_nil. reflexivity.
  - destruct s as [|c r]; [rewrite !tokenize_fuel_nil; reflexivity|].
    destruct f2 as [|f2]; [cbn in H2; lia|]. cbn [tokenize_fuel].
    destruct (next_token c r) as [t r'] eqn:E. apply next_token_len in E. cbn [length] in *.
    rewrite (IH f2 r') by lia. reflexivity.
Qed.

Theorem tokenize_fuel_enough : forall f s, (length s <= f)%nat -> tokenize_fuel f s = tokenize s.
Proof. intros f s H. unfold tokenize. apply tokenize_fuel_indep; auto. Qed.
