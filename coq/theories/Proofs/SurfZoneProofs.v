(** Proofs about Model/ZoneSurf.v (C08): the builder only inserts 8-byte keys; the
    builder + pruner pair never drops a zone holding a satisfying row outside three known
    classes; witnesses that each class is a real false negative. *)
From Coq Require Import ZArith NArith List Bool Lia.
From Coq Require Import ZifyBool ZifyNat ZifyN.
From Snel Require Import Base.Bytes Gen.Params Model.SurfEnc Model.Trie Model.ZoneSurf.
From Snel Require Import Proofs.SurfLexProofs Proofs.SurfEncProofs Proofs.SurfTrieProofs.
Import ListNotations.
Open Scope N_scope.

(** * sort / dedup keep the key set *)

Lemma bytes_eqb_eq : forall a b, bytes_eqb a b = true -> a = b.
Proof.
  induction a as [|x a IH]; intros [|y b] H; cbn [bytes_eqb] in H; try discriminate; [reflexivity|].
  apply andb_prop in H as [H1 H2]. apply N.eqb_eq in H1. subst y. f_equal. now apply IH.
Qed.

Lemma key_insert_in : forall k l x, In x (key_insert k l) <-> x = k \/ In x l.
Proof.
  intros k l x. induction l as [|y r IH]; cbn [key_insert].
  - cbn. intuition.
  - destruct (bytes_cmp k y); cbn [In]; try rewrite IH; cbn [In]; intuition.
Qed.

Lemma key_sort_in : forall l x, In x (key_sort l) <-> In x l.
Proof.
  induction l as [|k r IH]; intros x; cbn [key_sort fold_right]; [tauto|].
  fold (key_sort r). rewrite key_insert_in, IH. cbn [In]. intuition.
Qed.

Lemma key_dedup_in : forall l x, In x (key_dedup l) <-> In x l.
Proof.
  induction l as [|a r IH]; intros x; [cbn; tauto|].
  cbn [key_dedup]. destruct r as [|b r'].
  - tauto.
  - destruct (bytes_eqb a b) eqn:E.
    + apply bytes_eqb_eq in E. subst b. rewrite IH. cbn [In]. tauto.
    + cbn [In]. rewrite IH. cbn [In]. tauto.
Qed.

Lemma present_keys_in : forall rows k,
  In k (present_keys rows) <-> exists v, In (Some v) rows /\ encode_value v = Some k.
Proof.
  induction rows as [|r rest IH]; intros k; cbn [present_keys].
  - cbn. split; [intros []|intros (v & [] & _)].
  - destruct r as [v|].
    + destruct (encode_value v) as [b|] eqn:E; cbn [In]; rewrite IH; split.
      * intros [<-|(v' & H1 & H2)]; [exists v; auto|exists v'; auto].
      * intros (v' & [H1|H1] & H2); [injection H1 as <-; left; congruence|right; now exists v'].
      * intros (v' & H1 & H2). exists v'. auto.
      * intros (v' & [H1|H1] & H2); [injection H1 as <-; congruence|now exists v'].
    + rewrite IH. split; intros (v' & H1 & H2); exists v'; cbn [In] in *; intuition congruence.
Qed.

(** * The numeric-consistency gate *)

Lemma gate_rows_some : forall rows st k,
  gate_rows rows st = Some k ->
  st <> None /\ forall v, In (Some v) rows -> kind_of v <> None.
Proof.
  induction rows as [|r rest IH]; intros st k H; cbn [gate_rows] in H.
  - split; [congruence|]. intros v [].
  - destruct st as [k0|]; [|discriminate]. split; [discriminate|].
    destruct r as [v0|].
    + destruct (kind_of v0) as [this|] eqn:Hk; [|discriminate].
      assert (Hrest : forall v, In (Some v) rest -> kind_of v <> None).
      { destruct k0 as [k1|].
        - destruct (kind_eqb k1 this); [|discriminate]. now apply (IH _ _ H).
        - now apply (IH _ _ H). }
      intros v [E|Hin]; [injection E as <-; congruence|now apply Hrest].
    + destruct (IH _ _ H) as (_ & Hr). intros v [E|Hin]; [discriminate|now apply Hr].
Qed.

Lemma gate_zones_some : forall zs st k,
  gate_zones zs st = Some k ->
  st <> None /\ forall id rows v, In (id, rows) zs -> In (Some v) rows -> kind_of v <> None.
Proof.
  induction zs as [|z rest IH]; intros st k H; cbn [gate_zones] in H.
  - split; [congruence|]. intros id rows v [].
  - destruct (IH _ _ H) as (Hst & Hr).
    destruct (gate_rows (snd z) st) as [k1|] eqn:Hg; [|congruence].
    destruct (gate_rows_some _ _ _ Hg) as (Hst' & Hz). split; [assumption|].
    intros id rows v [E|Hin] Hv; [subst z; now apply Hz|now apply (Hr id rows)].
Qed.

Lemma gate_true : forall zs, gate zs = true ->
  forall id rows v, In (id, rows) zs -> In (Some v) rows -> kind_of v <> None.
Proof.
  intros zs H. unfold gate in H. destruct (gate_zones zs (Some None)) as [k|] eqn:Hg; [|discriminate].
  now destruct (gate_zones_some _ _ _ Hg).
Qed.

(** a value that passes the gate is encoded on 8 bytes *)
Lemma float_route_len8 : forall b, exists k, enc_route (float_route b) = Some k /\ length k = 8%nat.
Proof.
  intros b. destruct (float_route_cases b) as (r & Hr & Hc). rewrite Hr.
  destruct r; try contradiction; cbn [enc_route]; eexists; split; reflexivity.
Qed.

Lemma kind_len8 : forall v, kind_of v <> None -> exists k, encode_value v = Some k /\ length k = 8%nat.
Proof.
  intros v H. unfold encode_value. destruct v as [|b|z|z|b|s h|]; cbn [kind_of] in H; try congruence.
  - cbn [route_of enc_route]. eexists; split; reflexivity.
  - cbn [route_of enc_route]. eexists; split; reflexivity.
  - cbn [route_of]. apply float_route_len8.
  - cbn [route_of]. destruct (parse_i64 s); [cbn [enc_route]; eexists; split; reflexivity|].
    destruct (parse_u64 s); [cbn [enc_route]; eexists; split; reflexivity|].
    destruct h; [apply float_route_len8|congruence].
Qed.

(** Every key the builder inserts into a zone's trie is 8 bytes long. *)
Theorem surf_keys_len8 : forall zs id rows k,
  gate zs = true -> In (id, rows) zs ->
  In k (key_dedup (key_sort (present_keys rows))) -> length k = 8%nat.
Proof.
  intros zs id rows k Hg Hin Hk. apply key_dedup_in, key_sort_in, present_keys_in in Hk.
  destruct Hk as (v & Hv & He).
  destruct (kind_len8 v (gate_true zs Hg id rows v Hin Hv)) as (k' & He' & Hl). congruence.
Qed.

(** * Entries and probes *)

Lemma entries_of_in : forall zs z e, In z zs -> zone_entry z = Some e -> In e (entries_of zs).
Proof.
  induction zs as [|z0 rest IH]; intros z e Hin He; [destruct Hin|].
  cbn [entries_of]. destruct Hin as [->|Hin].
  - rewrite He. now left.
  - destruct (zone_entry z0); [right|]; now apply (IH z e).
Qed.

Lemma entry_insert_in : forall e l x, In x (entry_insert e l) <-> x = e \/ In x l.
Proof.
  intros e l x. induction l as [|y r IH]; cbn [entry_insert].
  - cbn. intuition.
  - destruct (fst e <? fst y); cbn [In]; try rewrite IH; intuition.
Qed.

Lemma entry_sort_in : forall l x, In x (entry_sort l) <-> In x l.
Proof.
  intros l x. unfold entry_sort.
  assert (G : forall l acc, In x (fold_left (fun acc e => entry_insert e acc) l acc) <-> In x l \/ In x acc).
  { induction l0 as [|e r IH]; intros acc; cbn [fold_left]; [cbn; tauto|].
    rewrite IH, entry_insert_in. cbn [In]. intuition. }
  rewrite G. cbn. tauto.
Qed.

Lemma zones_ge_in : forall es b incl id t,
  In (id, t) es -> may_overlap_ge t b incl = true -> In id (zones_overlapping_ge es b incl).
Proof.
  induction es as [|[id0 t0] r IH]; intros b incl id t Hin Hm; [destruct Hin|].
  cbn [zones_overlapping_ge]. destruct Hin as [E|Hin].
  - injection E as E1 E2. subst id0 t0. rewrite Hm. now left.
  - destruct (may_overlap_ge t0 b incl); [right|]; now apply (IH b incl id t).
Qed.

Lemma zones_le_in : forall es b incl id t,
  In (id, t) es -> may_overlap_le t b incl = true -> In id (zones_overlapping_le es b incl).
Proof.
  induction es as [|[id0 t0] r IH]; intros b incl id t Hin Hm; [destruct Hin|].
  cbn [zones_overlapping_le]. destruct Hin as [E|Hin].
  - injection E as E1 E2. subst id0 t0. rewrite Hm. now left.
  - destruct (may_overlap_le t0 b incl); [right|]; now apply (IH b incl id t).
Qed.

(** a value with a number has a lane *)
Lemma float_lane : forall b, match float_route b with RI _ | RU _ | RF _ => True | _ => False end.
Proof. intros b. destruct (float_route_cases b) as (r & -> & H). exact H. Qed.

Lemma num_has_lane : forall v a, num_of v = Some a -> lane_of v <> None.
Proof.
  intros v a H. unfold lane_of. rewrite H.
  destruct v as [|b|z|z|b|s h|]; try discriminate H; cbn [route_of]; try discriminate.
  - pose proof (float_lane b). destruct (float_route b); try contradiction; discriminate.
  - unfold num_of in H. destruct (parse_i64 s); [discriminate|]. destruct (parse_u64 s); [discriminate|].
    destruct h as [f|]; [|discriminate H].
    pose proof (float_lane f). destruct (float_route f); try contradiction; discriminate.
Qed.

Lemma lane_eqb_eq : forall a b, lane_eqb a b = true -> a = b.
Proof. intros [] []; cbn; congruence. Qed.

(** * Soundness outside the known classes *)

Definition op_lower (op : cmp_op) : option bool :=   (* Some incl for > / >= *)
  match op with OGt => Some false | OGte => Some true | _ => None end.

Theorem surf_sound_outside_known : forall zs op p res id rows v,
  prune zs op p = Some res ->
  In (id, rows) zs -> In (Some v) rows ->
  sval_wf v = true -> sval_wf p = true ->
  sat op v p = true ->
  known_class rows v p = None ->
  In id res.
Proof.
  intros zs op p res id rows v Hp Hz Hv Wv Wp Hsat Hk.
  (* the known-class test *)
  unfold known_class in Hk.
  destruct (zone_has_field rows) eqn:Hf; [|discriminate Hk]. cbn [negb] in Hk.
  destruct (saturates v) eqn:Sv; [discriminate Hk|]. destruct (saturates p) eqn:Sp; [discriminate Hk|].
  cbn [orb] in Hk.
  (* numbers and lanes *)
  unfold sat in Hsat.
  destruct (num_of v) as [a|] eqn:Na; [|discriminate Hsat].
  destruct (num_of p) as [b|] eqn:Nb; [|discriminate Hsat].
  pose proof (num_has_lane v a Na) as Lv. pose proof (num_has_lane p b Nb) as Lp.
  destruct (lane_of v) as [lv|] eqn:Elv; [|congruence].
  destruct (lane_of p) as [lp|] eqn:Elp; [|congruence].
  destruct (lane_eqb lv lp) eqn:El; [|discriminate Hk]. apply lane_eqb_eq in El. subst lp.
  destruct (same_lane_key_order v p lv Wv Wp Sv Sp Elv Elp)
    as (kv & kp & a' & b' & Ev & Ep & Na' & Nb' & Lkv & Lkp & Hcmp).
  rewrite Na in Na'. injection Na' as <-. rewrite Nb in Nb'. injection Nb' as <-.
  (* the builder *)
  unfold prune, apply_surf in Hp.
  assert (Hop : op = OGt \/ op = OGte \/ op = OLt \/ op = OLte)
    by (destruct op; try discriminate Hp; auto).
  unfold build_filter in Hp.
  destruct (gate zs) eqn:Hg; [|destruct op; discriminate Hp].
  destruct (entries_of zs) as [|e0 es0] eqn:He; [destruct op; discriminate Hp|].
  set (es := entry_sort (e0 :: es0)) in *.
  destruct (nlen es =? 0); [destruct op; discriminate Hp|].
  rewrite Ep in Hp.
  set (ks := key_dedup (key_sort (present_keys rows))).
  assert (Hkv : In kv ks).
  { apply key_dedup_in, key_sort_in, present_keys_in. now exists v. }
  assert (Hentry : In (id, t_build ks) es).
  { apply entry_sort_in. rewrite <- He. apply (entries_of_in zs (id, rows)); [assumption|].
    unfold zone_entry. cbn [snd fst]. rewrite Hf.
    destruct (present_keys rows) as [|k0 kr] eqn:Hpk.
    - exfalso. assert (Hx : In kv (present_keys rows)) by (apply present_keys_in; now exists v).
      rewrite Hpk in Hx. destruct Hx.
    - reflexivity. }
  assert (Hlen : forall k, In k ks -> length k = 8%nat).
  { intros k Hk'. now apply (surf_keys_len8 zs id rows). }
  assert (Hnpp : forall k, In k ks -> ~ proper_prefix k kp).
  { intros k Hk' (s & Hs & E). apply Hlen in Hk'. rewrite E, app_length in Lkp.
    destruct s; [congruence|cbn [length] in Lkp; lia]. }
  (* the probe *)
  assert (Hres : In id (match op with
                        | OGt => zones_overlapping_ge es kp false
                        | OGte => zones_overlapping_ge es kp true
                        | OLt => zones_overlapping_le es kp false
                        | _ => zones_overlapping_le es kp true
                        end)).
  { destruct Hop as [ -> | [ -> | [ -> | -> ]]].
    - apply (zones_ge_in es kp false id (t_build ks) Hentry). apply may_overlap_ge_exact.
      exists kv. split; [assumption|]. unfold cmp_lower, blt.
      rewrite bytes_cmp_antisym, Hcmp. apply Z.ltb_lt in Hsat. apply Z.compare_gt_iff in Hsat.
      rewrite Hsat. reflexivity.
    - apply (zones_ge_in es kp true id (t_build ks) Hentry). apply may_overlap_ge_exact.
      exists kv. split; [assumption|]. unfold cmp_lower, ble.
      rewrite bytes_cmp_antisym, Hcmp. apply Z.leb_le in Hsat.
      destruct (Z.compare_spec a b); cbn [CompOpp]; try discriminate. lia.
    - apply (zones_le_in es kp false id (t_build ks) Hentry). apply may_overlap_le_sound; [assumption|].
      exists kv. split; [assumption|]. unfold cmp_upper, blt. rewrite Hcmp.
      apply Z.ltb_lt in Hsat. now apply Z.compare_lt_iff.
    - apply (zones_le_in es kp true id (t_build ks) Hentry). apply may_overlap_le_sound; [assumption|].
      exists kv. split; [assumption|]. unfold cmp_upper, ble. rewrite Hcmp.
      apply Z.leb_le in Hsat. destruct (Z.compare_spec a b); try discriminate. lia. }
  destruct Hop as [ -> | [ -> | [ -> | -> ]]];
    match type of Hp with (if ?c then _ else _) = _ => destruct c; [discriminate Hp|] end;
    injection Hp as <-; exact Hres.
Qed.

(** Values and probe in one lane, every row has the field: every zone holding a
    satisfying row is returned (any number of zones; the 90 % rule answers [None]). *)
Theorem surf_sound_same_lane : forall zs op p l res,
  (forall id rows r, In (id, rows) zs -> In r rows ->
     exists v, r = Some v /\ sval_wf v = true /\ saturates v = false /\ lane_of v = Some l) ->
  sval_wf p = true -> saturates p = false -> lane_of p = Some l ->
  prune zs op p = Some res ->
  forall id rows v, In (id, rows) zs -> In (Some v) rows -> sat op v p = true -> In id res.
Proof.
  intros zs op p l res Hall Wp Sp Lp Hp id rows v Hz Hv Hsat.
  destruct (Hall id rows (Some v) Hz Hv) as (v' & E & Wv & Sv & Lv). injection E as <-.
  apply (surf_sound_outside_known zs op p res id rows v); try assumption.
  assert (Hf : zone_has_field rows = true).
  { unfold zone_has_field. destruct surf_keys_from_first_event.
    - destruct rows as [|r0 rows']; [destruct Hv|].
      destruct (Hall id (r0 :: rows') r0 Hz (or_introl eq_refl)) as (v0 & -> & _). reflexivity.
    - apply existsb_exists. exists (Some v). split; [assumption|reflexivity]. }
  unfold known_class. rewrite Hf, Sv, Sp, Lv, Lp. cbn [negb orb]. destruct l; reflexivity.
Qed.

(** the hypotheses of [surf_sound_same_lane] are satisfiable with a non-trivial result *)
Example surf_sound_same_lane_inhabited :
  exists zs op p l res,
    (forall id rows r, In (id, rows) zs -> In r rows ->
       exists v, r = Some v /\ sval_wf v = true /\ saturates v = false /\ lane_of v = Some l) /\
    sval_wf p = true /\ saturates p = false /\ lane_of p = Some l /\
    prune zs op p = Some res /\ res = [1].
Proof.
  exists [(0, [Some (VInt (-5)); Some (VInt 3)]); (1, [Some (VInt 7)])], OGt, (VInt 4), LI, [1].
  split.
  - intros id rows r [E|[E|[]]] Hr; injection E as <- <-.
    + destruct Hr as [<-|[<-|[]]]; eexists; repeat split; reflexivity.
    + destruct Hr as [<-|[]]; eexists; repeat split; reflexivity.
  - repeat split; vm_compute; reflexivity.
Qed.

(** * Refutations: each known class is a real false negative of the faithful model *)

Definition false_negative (zs : list zone) (op : cmp_op) (p : sval) (cls : kclass) : Prop :=
  exists res id rows v,
    prune zs op p = Some res /\ In (id, rows) zs /\ In (Some v) rows /\
    sval_wf v = true /\ sval_wf p = true /\ sat op v p = true /\
    known_class rows v p = Some cls /\ ~ In id res.

Ltac fn_witness res id rows v :=
  exists res, id, rows, v;
  split; [vm_compute; reflexivity|];
  split; [cbn; auto|]; split; [cbn; auto|];
  split; [reflexivity|]; split; [reflexivity|];
  split; [vm_compute; reflexivity|]; split; [vm_compute; reflexivity|];
  cbn; tauto.

(** a float column holding 2.0, probed with [>= 1.7]: 2.0 is keyed in the i64 lane
    (0x8000000000000002), 1.7 in the f64 lane (0xBFFB333333333333) *)
Theorem surf_refuted_float_lanes :
  false_negative [(0, [Some (VFloat 4611686018427387904)])] OGte (VFloat 4610334938539176755) SurfCrossLane.
Proof. fn_witness (@nil N) 0 [Some (VFloat 4611686018427387904)] (VFloat 4611686018427387904). Qed.

(** a u64 column holding 2^63+5 (a digit string, raw u64 lane 0x8000000000000005), probed
    with [> 10] (i64 lane 0x800000000000000A) *)
Definition str_2p63_5 : bytes := [57;50;50;51;51;55;50;48;51;54;56;53;52;55;55;53;56;49;51].
Theorem surf_refuted_u64_lane :
  false_negative [(0, [Some (VStr str_2p63_5 None)])] OGt (VInt 10) SurfCrossLane.
Proof. fn_witness (@nil N) 0 [Some (VStr str_2p63_5 None)] (VStr str_2p63_5 None). Qed.

(** an integer column holding 2, probed with [> 1.5] *)
Theorem surf_refuted_int_vs_fraction :
  false_negative [(0, [Some (VInt 2)])] OGt (VFloat 4609434218613702656) SurfCrossLane.
Proof. fn_witness (@nil N) 0 [Some (VInt 2)] (VInt 2). Qed.

(** a float column holding 2^65 probed with [> 2^64]: both saturate to the key 0xFF..FF *)
Theorem surf_refuted_saturation :
  false_negative [(0, [Some (VFloat 4899916394579099648)])] OGt (VFloat 4895412794951729152) SurfSaturatedFloat.
Proof. fn_witness (@nil N) 0 [Some (VFloat 4899916394579099648)] (VFloat 4899916394579099648). Qed.

(** zone 0: first event without the (optional) field, second event holds 5; probe [> 1]
    (while the builder takes the field set from the first event only) *)
Theorem surf_refuted_first_row :
  surf_keys_from_first_event = true ->
  false_negative [(0, [None; Some (VInt 5)]); (1, [Some (VInt 0)])] OGt (VInt 1) SurfFirstRowLacksField.
Proof.
  intros Hparam.
  first [ discriminate Hparam | fn_witness (@nil N) 0 [@None sval; Some (VInt 5)] (VInt 5) ].
Qed.
