(** C16 — "the same instant on every path": the call sites of Model/TimeSites.v agree
    on every literal, up to the classified exceptions; the temporal pruner never loses a
    matching zone outside the known classes. *)
From Coq Require Import ZArith NArith List Bool Lia.
From Coq Require Import ZifyBool ZifyNat ZifyN.
From Snel Require Import Base.Bytes Base.Civil Gen.Params Model.Time Model.TimeSites
                         Proofs.TimeProofs Proofs.TimeIsoProofs.
Import ListNotations.
Ltac Zify.zify_post_hook ::= Z.div_mod_to_equations.
Open Scope Z_scope.

(** * Numeric strings always reach [normalize_integer_epoch] *)

Lemma all_digits_forall : forall r acc v,
  all_digits_val r acc = Some v -> forallb is_digit r = true.
Proof.
  induction r as [|a r IH]; intros acc v H; cbn [all_digits_val forallb] in *; [reflexivity|].
  destruct (is_digit a) eqn:E; [|discriminate]. cbn [andb]. eapply IH; eauto.
Qed.

Lemma digits_last : forall l,
  l <> [] -> forallb is_digit l = true ->
  exists b la, l = b ++ [la] /\ is_digit la = true.
Proof.
  intros l Hne Hd. destruct (exists_last Hne) as [b [la E]]. subst l.
  rewrite forallb_app in Hd. apply andb_prop in Hd. destruct Hd as [_ Hl].
  cbn [forallb] in Hl. rewrite andb_true_r in Hl. exists b, la. split; [reflexivity|exact Hl].
Qed.

Lemma parse_int_str_other : forall c r,
  c <> 45%N -> c <> 43%N -> parse_int_str (c :: r) = all_digits_val (c :: r) 0.
Proof.
  intros c r H45 H43. unfold parse_int_str.
  destruct c as [|p]; [reflexivity|].
  do 6 (try (destruct p as [p|p|]; try reflexivity)); congruence.
Qed.

Lemma parse_int_str_shape : forall s z,
  parse_int_str s = Some z ->
  exists c r b l, s = c :: r /\ s = b ++ [l] /\ is_ascii_ws c = false /\ is_ascii_ws l = false.
Proof.
  intros s z H. destruct s as [|c r]; [discriminate|].
  assert (Sign : forall sg, (sg = 45 \/ sg = 43)%N ->
            forall v, (exists f : Z -> Z, option_map f (all_digits_val r 0) = Some v) -> r <> [] ->
            exists c0 r0 b l, sg :: r = c0 :: r0 /\ sg :: r = b ++ [l]
                              /\ is_ascii_ws sg = false /\ is_ascii_ws l = false).
  { intros sg Hsg v [f Hf] Hne.
    destruct (all_digits_val r 0) as [w|] eqn:E; [|discriminate].
    pose proof (all_digits_forall _ _ _ E) as Hd.
    destruct (digits_last r Hne Hd) as [b [la [Eb Hla]]].
    exists sg, r, (sg :: b), la. split; [reflexivity|]. split; [rewrite Eb; reflexivity|].
    split; [destruct Hsg; subst; reflexivity | apply digit_not_ws; exact Hla]. }
  destruct (N.eqb_spec c 45) as [->|H45].
  - destruct r as [|x r']; [discriminate|].
    destruct (Sign 45%N (or_introl eq_refl) z) as [c0 [r0 [b [l [A [B [C D]]]]]]];
      [exists Z.opp; exact H | discriminate |].
    exists 45%N, (x :: r'), b, l. repeat split; assumption.
  - destruct (N.eqb_spec c 43) as [->|H43].
    + destruct r as [|x r']; [discriminate|].
      destruct (Sign 43%N (or_intror eq_refl) z) as [c0 [r0 [b [l [A [B [C D]]]]]]];
        [exists (fun x => x); cbn [parse_int_str] in H; destruct (all_digits_val (x :: r') 0); exact H
        | discriminate |].
      exists 43%N, (x :: r'), b, l. repeat split; assumption.
    + rewrite parse_int_str_other in H by assumption.
      pose proof (all_digits_forall _ _ _ H) as Hd.
      destruct (digits_last (c :: r) ltac:(discriminate) Hd) as [b [la [Eb Hla]]].
      exists c, r, b, la. split; [reflexivity|]. split; [exact Eb|].
      cbn [forallb] in Hd. apply andb_prop in Hd. destruct Hd as [Hc _].
      split; apply digit_not_ws; assumption.
Qed.

Lemma trim_of_int_str : forall s z, parse_int_str s = Some z -> trim s = s.
Proof.
  intros s z H. destruct (parse_int_str_shape s z H) as [c [r [b [l [Ec [El [Hc Hl]]]]]]].
  pose proof (trim_padded [] [] s c r b l eq_refl eq_refl Ec El Hc Hl) as T.
  cbn [app] in T. rewrite app_nil_r in T. exact T.
Qed.

Lemma normalize_in_range : forall n,
  Z.abs n < 10 ^ 19 -> exists v, normalize_integer_epoch n = Some v.
Proof.
  intros n Hn.
  destruct (Z_lt_ge_dec (Z.abs n) (10 ^ 11)); [eexists; apply normalize_seconds; lia|].
  destruct (Z_lt_ge_dec (Z.abs n) (10 ^ 14)); [eexists; apply normalize_ms; lia|].
  destruct (Z_lt_ge_dec (Z.abs n) (10 ^ 16)); [eexists; apply normalize_us; lia|].
  eexists; apply normalize_ns; lia.
Qed.

Lemma parse_str_of_int_str : forall s z,
  parse_int_str s = Some z -> Z.abs z < 10 ^ 19 ->
  exists v, parse_str_to_epoch_seconds s = Some v.
Proof.
  intros s z H Hz. unfold parse_str_to_epoch_seconds. cbv zeta.
  rewrite (trim_of_int_str s z H).
  destruct (parse_rfc3339 s); [eexists; reflexivity|].
  destruct (parse_date_only s); [eexists; reflexivity|].
  rewrite H. apply normalize_in_range. exact Hz.
Qed.

(** The [since.parse::<i64>()] / [as_i64] fall-backs behind the time parser are dead:
    whatever parses as i64 was already accepted by [parse_str_to_epoch_seconds]. *)
Lemma i64_fallback_dead : forall s z,
  parse_i64_str s = Some z -> exists v, parse_str_to_epoch_seconds s = Some v.
Proof.
  intros s z H. unfold parse_i64_str in H.
  destruct (parse_int_str s) as [w|] eqn:E; [|discriminate].
  unfold try_i64, i64_min, i64_max in H.
  destruct ((- 2 ^ 63 <=? w) && (w <=? 2 ^ 63 - 1)) eqn:B; [|discriminate].
  apply (parse_str_of_int_str s w E). lia.
Qed.

Definition u64_checked (d : bytes) : option Z :=
  match all_digits_val d 0 with
  | Some z => if z <=? u64_max then Some z else None
  | None => None
  end.

Lemma parse_u64_other : forall c r, c <> 43%N -> parse_u64_str (c :: r) = u64_checked (c :: r).
Proof.
  intros c r H43. unfold parse_u64_str, u64_checked.
  destruct c as [|p]; [reflexivity|].
  do 6 (try (destruct p as [p|p|]; try reflexivity)); congruence.
Qed.

Lemma all_digits_nonneg : forall d a v, 0 <= a -> all_digits_val d a = Some v -> 0 <= v.
Proof.
  induction d as [|c d IH]; intros a v Ha Hv; cbn [all_digits_val] in Hv.
  - injection Hv as <-. exact Ha.
  - destruct (is_digit c); [|discriminate]. eapply IH; [|exact Hv]. lia.
Qed.

Lemma u64_checked_spec : forall d u,
  u64_checked d = Some u -> all_digits_val d 0 = Some u /\ 0 <= u <= u64_max.
Proof.
  intros d u H. unfold u64_checked in H.
  destruct (all_digits_val d 0) as [w|] eqn:E; [|discriminate].
  destruct (Z.leb_spec w u64_max); [|discriminate]. injection H as <-.
  split; [reflexivity|]. split; [eapply all_digits_nonneg; [|exact E]; lia | lia].
Qed.

Lemma parse_u64_is_int_str : forall s u,
  parse_u64_str s = Some u -> parse_int_str s = Some u /\ 0 <= u <= u64_max.
Proof.
  intros s u H. destruct s as [|c r]; [discriminate|].
  destruct (N.eqb_spec c 43) as [->|H43].
  - destruct r as [|x r']; [discriminate|].
    change (parse_u64_str (43%N :: x :: r')) with (u64_checked (x :: r')) in H.
    destruct (u64_checked_spec _ _ H) as [E Hu].
    split; [cbn [parse_int_str]; exact E | exact Hu].
  - rewrite parse_u64_other in H by exact H43.
    destruct (u64_checked_spec _ _ H) as [E Hu].
    pose proof (all_digits_forall _ _ _ E) as Hd. cbn [forallb] in Hd.
    apply andb_prop in Hd. destruct Hd as [Hc _]. apply is_digit_range in Hc.
    rewrite parse_int_str_other by lia.
    split; [exact E | exact Hu].
Qed.

(** The pruner's [s.parse::<u64>()] fall-back fires only for 20-digit numbers
    10^19 .. 2^64-1, all of which wrap to a NEGATIVE [i64]. *)
Lemma u64_fallback_wraps_negative : forall s u,
  parse_str_to_epoch_seconds s = None -> parse_u64_str s = Some u ->
  10 ^ 19 <= u <= u64_max /\ wrap_i64 u < 0.
Proof.
  intros s u Hn Hu. destruct (parse_u64_is_int_str s u Hu) as [Hi [H0 Hmax]].
  destruct (Z_lt_ge_dec u (10 ^ 19)) as [Hs|Hb].
  - destruct (parse_str_of_int_str s u Hi ltac:(lia)) as [v Hv]. congruence.
  - unfold u64_max in *. split; [lia|]. unfold wrap_i64.
    destruct (Z.ltb_spec u (2 ^ 63)); lia.
Qed.

(** * All sites on one literal *)

Definition temporal_ft (ft : ftype) : Prop := is_temporal ft = true.

(** what the pruner makes of an instant [z] (clamped at 0 in the pinned tree) *)
Definition pruner_view (z : Z) : Z := if tsite_pruner_clamps then Z.max z 0 else z.

Theorem sites_agree_gen : forall (s : bytes) (ft : ftype),
  temporal_ft ft ->
  match parse_str_to_epoch_seconds s with
  | Some z =>
      site_payload ft (Some (TStr s)) = PNum z
      /\ site_where (TStr s) = CNum z
      /\ site_since_row s = SinceNum z
      /\ site_filter ft (TStr s) = SInt z
      /\ pruner_ts (site_since_filter s) = pruner_view z
      /\ pruner_ts (site_filter ft (TStr s)) = pruner_view z
      /\ parse_since_epoch s = Some (Z.max z 0)
  | None =>
      site_payload ft (Some (TStr s)) = PErr
      /\ site_where (TStr s) = CStr
      /\ site_since_row s = SinceIgnored
      /\ site_filter ft (TStr s) = SUtf8 s
      /\ (pruner_ts (SUtf8 s) = tsite_pruner_unparsable
          \/ (tsite_pruner_u64_fallback = true /\ wrap_i64 (pruner_ts (SUtf8 s)) < 0))
  end.
Proof.
  intros s ft Hft. unfold temporal_ft in Hft.
  destruct (parse_str_to_epoch_seconds s) as [z|] eqn:E.
  - repeat split.
    + unfold site_payload. rewrite Hft. cbn [is_null andb]. rewrite andb_false_r.
      cbn [normalize_json_value]. rewrite E. reflexivity.
    + unfold site_where. cbn [scalar_of]. rewrite E. reflexivity.
    + unfold site_since_row. rewrite E. reflexivity.
    + unfold site_filter. rewrite Hft. cbn [scalar_of]. rewrite E. reflexivity.
    + unfold site_since_filter, pruner_ts, pruner_ts_gen, pruner_view. rewrite E. reflexivity.
    + unfold site_filter. rewrite Hft. cbn [scalar_of]. rewrite E. reflexivity.
    + unfold parse_since_epoch. rewrite E. reflexivity.
  - assert (I64 : parse_i64_str s = None).
    { destruct (parse_i64_str s) as [w|] eqn:F; [|reflexivity].
      destruct (i64_fallback_dead s w F) as [v Hv]. congruence. }
    repeat split.
    + unfold site_payload. rewrite Hft. cbn [is_null andb]. rewrite andb_false_r.
      cbn [normalize_json_value]. rewrite E. reflexivity.
    + unfold site_where. cbn [scalar_of scalar_as_i64]. rewrite E, I64. reflexivity.
    + unfold site_since_row. rewrite E, I64. reflexivity.
    + unfold site_filter. rewrite Hft. cbn [scalar_of]. rewrite E. reflexivity.
    + unfold pruner_ts, pruner_ts_gen. rewrite E.
      destruct tsite_pruner_u64_fallback; [|left; reflexivity].
      destruct (parse_u64_str s) as [u|] eqn:U; [right|left; reflexivity].
      split; [reflexivity | exact (proj2 (u64_fallback_wraps_negative s u E U))].
Qed.

(** The repaired tree ([tsite_pruner_clamps = false], no u64 fall-back): every site reads a
    parsable literal as exactly the same second, negative instants included; only the
    materialiser (spec.rs, unsigned watermark) still clamps at 0.  A literal no parser accepts is
    [i64::MIN] for the pruner, i.e. it restricts nothing. *)
Theorem sites_agree : forall (s : bytes) (ft : ftype),
  temporal_ft ft ->
  match parse_str_to_epoch_seconds s with
  | Some z =>
      site_payload ft (Some (TStr s)) = PNum z
      /\ site_where (TStr s) = CNum z
      /\ site_since_row s = SinceNum z
      /\ site_filter ft (TStr s) = SInt z
      /\ pruner_ts (site_since_filter s) = z
      /\ pruner_ts (site_filter ft (TStr s)) = z
      /\ parse_since_epoch s = Some (Z.max z 0)
  | None =>
      site_payload ft (Some (TStr s)) = PErr
      /\ site_where (TStr s) = CStr
      /\ site_since_row s = SinceIgnored
      /\ site_filter ft (TStr s) = SUtf8 s
      /\ pruner_ts (SUtf8 s) = - 2 ^ 63
  end.
Proof.
  intros s ft Hft. pose proof (sites_agree_gen s ft Hft) as H.
  destruct (parse_str_to_epoch_seconds s) as [z|].
  - unfold pruner_view, tsite_pruner_clamps in H. exact H.
  - destruct H as [A [B [C [D E]]]]. repeat split; try assumption.
    destruct E as [E|[E _]]; [exact E | unfold tsite_pruner_u64_fallback in E; discriminate].
Qed.

(** the materialiser's [parse::<u64>()] fall-back only takes 20-digit numbers 10^19..2^64-1 *)
Lemma matspec_u64_fallback_range : forall s u,
  parse_str_to_epoch_seconds s = None -> parse_since_epoch s = Some u -> 10 ^ 19 <= u <= u64_max.
Proof.
  intros s u Hn Hu. unfold parse_since_epoch in Hu. rewrite Hn in Hu.
  exact (proj1 (u64_fallback_wraps_negative s u Hn Hu)).
Qed.

(** the pruner treats the raw literal and the literal normalised by the planner alike *)
Lemma prune_literal_same : forall f op s z zones,
  parse_str_to_epoch_seconds s = Some z ->
  prune f op (SUtf8 s) zones = prune f op (SInt z) zones.
Proof. intros f op s z zones E. unfold prune, prune_gen, pruner_ts_gen. rewrite E. reflexivity. Qed.

(** * The pruner keeps every zone that holds a match (outside the known classes) *)

Lemma fold_min_spec : forall l x,
  fold_left Z.min l x <= x /\ forall t, In t l -> fold_left Z.min l x <= t.
Proof.
  induction l as [|a l IH]; intros x; cbn [fold_left].
  - split; [lia | intros t []].
  - destruct (IH (Z.min x a)) as [H1 H2]. split; [lia|].
    intros t [<-|Ht]; [lia | apply H2; exact Ht].
Qed.

Lemma fold_max_spec : forall l x,
  x <= fold_left Z.max l x /\ forall t, In t l -> t <= fold_left Z.max l x.
Proof.
  induction l as [|a l IH]; intros x; cbn [fold_left].
  - split; [lia | intros t []].
  - destruct (IH (Z.max x a)) as [H1 H2]. split; [lia|].
    intros t [<-|Ht]; [lia | apply H2; exact Ht].
Qed.

Lemma zone_bounds : forall z t, In t (z_ts z) -> zmin z <= t <= zmax z.
Proof.
  intros z t Ht. unfold zmin, zmax. destruct (z_ts z) as [|x r]; [destruct Ht|].
  destruct (fold_min_spec r x) as [A1 A2]. destruct (fold_max_spec r x) as [B1 B2].
  destruct Ht as [<-|Ht]; [lia|]. specialize (A2 t Ht). specialize (B2 t Ht). lia.
Qed.

Lemma buckets_in : forall g lo hi k,
  0 < g -> lo / g <= k <= hi / g -> In ((k * g) mod u32_mod) (buckets g lo hi).
Proof.
  intros g lo hi k Hg Hk. unfold buckets. apply in_map_iff.
  exists (Z.to_nat (k - lo / g)). split.
  - f_equal. f_equal. lia.
  - apply in_seq. lia.
Qed.

(** the comparison "stored stamp [t] <op> literal [v]" *)
Definition cmp_holds (op : cmpop) (t v : Z) : Prop :=
  match op with
  | OEq => t = v
  | OGt => v < t
  | OGte => v <= t
  | OLt => t < v
  | OLte => t <= v
  | _ => False
  end.

Lemma in_nonempty_filter : forall (f : zone -> bool) zones other z,
  In z (filter f zones) ->
  In z (match filter f zones with [] => other | hz => hz end).
Proof. intros f zones other z H. destruct (filter f zones); [destruct H | exact H]. Qed.

Lemma bucket_small : forall x g,
  0 <= x < 2 ^ 32 -> 0 < g -> ((x / g) * g) mod 2 ^ 32 = (x / g) * g.
Proof.
  intros x g Hx Hg. apply Z.mod_small.
  pose proof (Z.mul_div_le x g Hg). pose proof (Z.div_pos x g ltac:(lia) Hg). nia.
Qed.

Lemma bucket_mono : forall a b g, 0 < g -> a <= b -> a / g * g <= b / g * g.
Proof. intros a b g Hg Hab. pose proof (Z.div_le_mono a b g Hg Hab). nia. Qed.

Lemma div_between : forall a b c g, 0 < g -> a <= b -> b <= c -> a / g <= b / g <= c / g.
Proof.
  intros a b c g Hg H1 H2. split; apply Z.div_le_mono; assumption.
Qed.

(** Generic in the shapes that the proposed repair changes: [guard] (only zones without
    pre-epoch stamps enter the calendar) and [clamps] (the pruner clamps the literal). *)
Theorem prune_gen_sound : forall guard clamps fb dflt flag op v zones z t,
  - 2 ^ 63 <= v < u32_mod ->
  (clamps = true -> 0 <= v) ->
  (guard = true -> 0 <= zmin z) ->
  In z zones -> zmax z < u32_mod ->
  In t (z_ts z) -> cmp_holds op t v ->
  exists ids, prune_gen guard clamps fb dflt flag op (SInt v) zones = Some ids /\ In (z_id z) ids.
Proof.
  intros guard clamps fb dflt flag op v zones z t Hv Hcl Hgd Hz Hhi Ht Hc.
  pose proof (zone_bounds z t Ht) as Hb.
  unfold u32_mod, tsite_bucket_mod in *.
  remember (Z.max 0 (zmin z)) as lo eqn:Elo.
  remember (Z.max 0 (zmax z)) as hi eqn:Ehi.
  remember (Z.max v 0) as vc eqn:Evc0.
  assert (Hcal : in_cal_gen guard z = true).
  { unfold in_cal_gen. destruct guard; [specialize (Hgd eq_refl); clear - Hgd Hb; lia | reflexivity]. }
  assert (Hex : existsb (in_cal_gen guard) zones = true)
    by (apply existsb_exists; exists z; split; assumption).
  assert (Ets : wrap_i64 (pruner_ts_gen clamps fb dflt (SInt v)) = v).
  { cbn [pruner_ts_gen]. unfold wrap_i64.
    destruct clamps; [specialize (Hcl eq_refl); rewrite Z.max_l by (clear - Hcl; lia)|];
      destruct (Z.ltb_spec v (2 ^ 63)); clear - Hv H; lia. }
  assert (Evc : (if clamps then v else Z.max v 0) = vc).
  { destruct clamps; [specialize (Hcl eq_refl); clear - Hcl Evc0; lia | symmetry; exact Evc0]. }
  assert (Hvc : 0 <= vc < 2 ^ 32) by (clear - Evc0 Hv; lia).
  assert (Hlo : 0 <= lo < 2 ^ 32) by (clear - Elo Hhi Hb; lia).
  assert (Hhi' : 0 <= hi < 2 ^ 32) by (clear - Ehi Hhi; lia).
  assert (Hlh : lo <= hi) by (clear - Elo Ehi Hb; lia).
  assert (Hneg : (vc <? 0) = false) by (clear - Hvc; lia).
  assert (P86400 : 0 < 86400) by reflexivity.
  assert (P3600 : 0 < 3600) by reflexivity.
  assert (Bk : forall g k, 0 < g -> lo / g <= k <= hi / g ->
               In ((k * g) mod 2 ^ 32) (zone_buckets_gen guard g z)).
  { intros g k Hg Hk. unfold zone_buckets_gen. rewrite Hcal, <- Elo, <- Ehi.
    apply (buckets_in g lo hi k Hg Hk). }
  assert (DayHi : In (hi / 86400 * 86400) (zone_buckets_gen guard 86400 z)).
  { rewrite <- (bucket_small hi 86400 Hhi' P86400). apply Bk; [exact P86400|].
    split; [apply Z.div_le_mono; assumption | apply Z.le_refl]. }
  assert (DayLo : In (lo / 86400 * 86400) (zone_buckets_gen guard 86400 z)).
  { rewrite <- (bucket_small lo 86400 Hlo P86400). apply Bk; [exact P86400|].
    split; [apply Z.le_refl | apply Z.div_le_mono; assumption]. }
  assert (Bv : forall g, 0 < g -> bucket_id g vc = vc / g * g).
  { intros g Hg. unfold bucket_id, u32_mod, tsite_bucket_mod. apply bucket_small; assumption. }
  assert (Ge : v <= zmax z -> In z (cal_zones_ge_gen guard vc zones)).
  { intros Hle. unfold cal_zones_ge_gen, tsite_bucket_day. apply filter_In. split; [exact Hz|].
    apply existsb_exists. exists (hi / 86400 * 86400). split; [exact DayHi|].
    rewrite Bv by exact P86400.
    assert (Hvh : vc <= hi) by (clear - Evc0 Ehi Hle; lia).
    pose proof (bucket_mono vc hi 86400 P86400 Hvh) as M. clear - M. lia. }
  assert (Le : zmin z <= v -> In z (cal_zones_le_gen guard vc zones)).
  { intros Hle. unfold cal_zones_le_gen, tsite_bucket_day. apply filter_In. split; [exact Hz|].
    apply existsb_exists. exists (lo / 86400 * 86400). split; [exact DayLo|].
    rewrite Bv by exact P86400.
    assert (Hlv : lo <= vc) by (clear - Evc0 Elo Hle; lia).
    pose proof (bucket_mono lo vc 86400 P86400 Hlv) as M. clear - M. lia. }
  unfold prune_gen. cbv zeta. rewrite Ets, Evc, Hex, Hneg. cbn [negb].
  destruct op; cbn [cmp_holds] in Hc; try contradiction;
    (eexists; split; [reflexivity|]; apply in_map; apply filter_In; split).
  - (* Eq: calendar *)
    subst t. unfold cal_zones_eq_gen, tsite_bucket_hour. apply in_nonempty_filter.
    apply filter_In. split; [exact Hz|].
    unfold has_bucket_gen. apply existsb_exists. exists (bucket_id 3600 vc). split; [|apply Z.eqb_refl].
    unfold bucket_id, u32_mod, tsite_bucket_mod. apply Bk; [exact P3600|].
    apply div_between; [exact P3600 | clear - Elo Evc0 Hb; lia | clear - Ehi Evc0 Hb; lia].
  - subst t. cbn [zti_ok]. apply existsb_exists. exists v. split; [exact Ht | apply Z.eqb_refl].
  - apply Ge. clear - Hc Hb. lia.
  - cbn [zti_ok]. clear - Hc Hb. lia.
  - apply Ge. clear - Hc Hb. lia.
  - cbn [zti_ok]. clear - Hc Hb. lia.
  - apply Le. clear - Hc Hb. lia.
  - cbn [zti_ok]. clear - Hc Hb. lia.
  - apply Le. clear - Hc Hb. lia.
  - cbn [zti_ok]. clear - Hc Hb. lia.
Qed.

Lemma zmin_le_zmax : forall z, zmin z <= zmax z.
Proof.
  intros z. unfold zmin, zmax. destruct (z_ts z) as [|x r]; [lia|].
  pose proof (proj1 (fold_min_spec r x)). pose proof (proj1 (fold_max_spec r x)). lia.
Qed.

(** The current (repaired) tree: every literal second from i64::MIN up to 2^32 and every zone
    whose stamps are below 2^32 — pre-1970 literals and stamps included.  The only remaining
    exclusion is the u32 truncation of bucket ids (class CalendarBucketWrapsAfter2106). *)
Theorem prune_sound : forall flag op v zones z t,
  - 2 ^ 63 <= v < u32_mod ->
  In z zones -> zmax z < u32_mod ->
  In t (z_ts z) -> cmp_holds op t v ->
  exists ids, prune flag op (SInt v) zones = Some ids /\ In (z_id z) ids.
Proof.
  intros flag op v zones z t Hv Hz Hhi Ht Hc. unfold prune.
  apply (prune_gen_sound _ _ _ _ flag op v zones z t); auto;
    [unfold tsite_pruner_clamps | unfold tsite_cal_guard]; discriminate.
Qed.

(** ** ... and through the raw string literal (SINCE, or WHERE without planner rewriting) *)
Corollary prune_sound_literal : forall flag op s v zones z t,
  parse_str_to_epoch_seconds s = Some v ->
  - 2 ^ 63 <= v < u32_mod ->
  In z zones -> zmax z < u32_mod ->
  In t (z_ts z) -> cmp_holds op t v ->
  exists ids, prune flag op (SUtf8 s) zones = Some ids /\ In (z_id z) ids.
Proof.
  intros flag op s v zones z t E. rewrite (prune_literal_same flag op s v zones E).
  apply prune_sound.
Qed.

(** ** A SINCE literal that no parser accepts is ignored by the row filter — and restricts no
    zone either: every zone of the segment stays, whatever its stamps (no 2^32 bound). *)
Theorem unparsable_since_keeps_all : forall flag s zones z,
  parse_str_to_epoch_seconds s = None ->
  In z zones -> - 2 ^ 63 <= zmax z ->
  site_since_row s = SinceIgnored /\
  exists ids, prune flag OGte (site_since_filter s) zones = Some ids /\ In (z_id z) ids.
Proof.
  intros flag s zones z E Hz Hmax.
  split; [pose proof (sites_agree s FDateTime eq_refl) as H; rewrite E in H; tauto|].
  unfold site_since_filter, prune, prune_gen, pruner_ts_gen. rewrite E.
  unfold tsite_pruner_u64_fallback, tsite_pruner_unparsable, tsite_pruner_clamps, tsite_cal_guard.
  cbv zeta.
  assert (W : wrap_i64 (- 2 ^ 63) = - 2 ^ 63) by reflexivity. rewrite W.
  assert (V : Z.max (- 2 ^ 63) 0 = 0) by reflexivity. rewrite V.
  assert (Hex : existsb (in_cal_gen false) zones = true)
    by (apply existsb_exists; exists z; split; [exact Hz | reflexivity]).
  rewrite Hex. cbn [negb Z.ltb Z.compare].
  eexists. split; [reflexivity|]. apply in_map. apply filter_In. split.
  - unfold cal_zones_ge_gen, tsite_bucket_day. apply filter_In. split; [exact Hz|].
    apply existsb_exists.
    pose proof (zmin_le_zmax z) as Hmm.
    exists (((Z.max 0 (zmin z)) / 86400 * 86400) mod 2 ^ 32). split.
    + unfold zone_buckets_gen, in_cal_gen.
      apply (buckets_in 86400 (Z.max 0 (zmin z)) (Z.max 0 (zmax z)) (Z.max 0 (zmin z) / 86400)); [reflexivity|].
      split; [apply Z.le_refl | apply Z.div_le_mono; [reflexivity | clear - Hmm; lia]].
    + unfold bucket_id, u32_mod, tsite_bucket_mod. change (0 / 86400 * 86400) with 0.
      change (0 mod 2 ^ 32) with 0.
      pose proof (Z.mod_pos_bound (Z.max 0 (zmin z) / 86400 * 86400) (2 ^ 32) eq_refl) as B.
      clear - B. lia.
  - cbn [zti_ok]. clear - Hmax. lia.
Qed.

(** * The field selector: the pruner's answer, or every zone when it has none for [!=] *)

(** "stored stamp [t] <op> literal [v]", with [!=] *)
Definition cmp_holds_sel (op : cmpop) (t v : Z) : Prop :=
  match op with ONeq => t <> v | _ => cmp_holds op t v end.

Theorem select_sound : forall flag op v zones z t,
  - 2 ^ 63 <= v < u32_mod ->
  In z zones -> zmax z < u32_mod ->
  In t (z_ts z) -> cmp_holds_sel op t v ->
  In (z_id z) (select_zones flag op (SInt v) zones).
Proof.
  intros flag op v zones z t Hv Hz Hhi Ht Hc. unfold select_zones.
  destruct (match op with ONeq => true | _ => false end) eqn:Eop.
  - destruct op; try discriminate.
    change (prune flag ONeq (SInt v) zones) with (@None (list N)).
    unfold select_gen, tsite_selector_neq_all_zones. cbn [andb op_unanswered].
    apply in_map. exact Hz.
  - assert (Hc' : cmp_holds op t v) by (destruct op; try discriminate; exact Hc).
    destruct (prune_sound flag op v zones z t Hv Hz Hhi Ht Hc') as [ids [E Hin]].
    rewrite E. exact Hin.
Qed.

(** [!=] needs no bound at all: no zone of the segment is ruled out *)
Theorem select_neq_keeps_all : forall flag sv zones z,
  In z zones -> In (z_id z) (select_zones flag ONeq sv zones).
Proof.
  intros flag sv zones z Hz. unfold select_zones.
  change (prune flag ONeq sv zones) with (@None (list N)).
  unfold select_gen, tsite_selector_neq_all_zones. cbn [andb op_unanswered]. apply in_map. exact Hz.
Qed.

(** the witnesses of the repaired classes now give the right zones *)
Example fixed_witnesses :
  (* was PreEpochZoneNotInCalendar *)
  prune false OEq (SInt 500) [mkZone 1 [0; 0]; mkZone 4 [-5; 500]] = Some [4%N]
  /\ prune false OGte (SInt 0) [mkZone 1 [0; 0]; mkZone 4 [-5; 500]] = Some [1%N; 4%N]
  /\ prune false OEq (SInt (-50)) [mkZone 0 [-100; -50]; mkZone 1 [0; 0]] = Some [0%N]
  (* was NegativeInstantClampedByPruner *)
  /\ prune false OGt (SInt (-1)) [mkZone 1 [0; 0]; mkZone 2 [10; 20]] = Some [1%N; 2%N]
  (* was UnparsableSinceU64WrapsNegative *)
  /\ prune false OGte (SUtf8 [49;48;48;48;48;48;48;48;48;48;48;48;48;48;48;48;48;48;48;48]%N)
       [mkZone 0 [-100; -50]; mkZone 1 [0; 0]; mkZone 2 [10; 20]] = Some [0%N; 1%N; 2%N]
  (* was TemporalNeqPrunesAllZones *)
  /\ select_zones false ONeq (SInt 500) [mkZone 0 [0; 0]; mkZone 1 [10; 20]] = [0%N; 1%N].
Proof. repeat split; vm_compute; reflexivity. Qed.

(** hypotheses of [prune_sound] are satisfiable, for every operator *)
Example prune_sound_witness :
  prune false OEq (SInt 104) [mkZone 1 [100; 104]; mkZone 2 [200]] = Some [1%N]
  /\ prune false OGt (SInt 104) [mkZone 1 [100; 104]; mkZone 2 [200]] = Some [2%N]
  /\ prune false OGte (SInt 104) [mkZone 1 [100; 104]; mkZone 2 [200]] = Some [1%N; 2%N]
  /\ prune false OLt (SInt 104) [mkZone 1 [100; 104]; mkZone 2 [200]] = Some [1%N]
  /\ prune false OLte (SInt 100) [mkZone 1 [100; 104]; mkZone 2 [200]] = Some [1%N].
Proof. repeat split; vm_compute; reflexivity. Qed.

(** * Remaining known class: the pruner LOSES zones that hold matching events *)

(** [CalendarBucketWrapsAfter2106]: bucket ids are truncated to u32, so range lookups
    compare wrapped ids: a stamp in 2106 is not found by [t >= 1980-01-01]. *)
Example bucket_wrap_refuted :
  prune false OGte (SInt 315532800) [mkZone 3 [4295399296; 4295399297]] = Some []
  /\ cmp_holds OGte 4295399296 315532800.
Proof. split; [vm_compute; reflexivity | cbn; lia]. Qed.

(** * Numeric strings: [parse_str_to_epoch_seconds] of a decimal string IS
      [normalize_integer_epoch] of the number (the RFC 3339 and date-only branches reject it) *)

Lemma int_str_cases : forall s z,
  parse_int_str s = Some z ->
  (exists sg r, (sg = 45 \/ sg = 43)%N /\ s = sg :: r /\ r <> [] /\ forallb is_digit r = true)
  \/ (s <> [] /\ forallb is_digit s = true).
Proof.
  intros s z H. destruct s as [|c r]; [discriminate|].
  destruct (N.eqb_spec c 45) as [->|H45].
  - left. destruct r as [|x r']; [discriminate|]. cbn [parse_int_str] in H.
    destruct (all_digits_val (x :: r') 0) as [w|] eqn:E; [|discriminate].
    exists 45%N, (x :: r'). repeat split; auto; [discriminate | eapply all_digits_forall; exact E].
  - destruct (N.eqb_spec c 43) as [->|H43].
    + left. destruct r as [|x r']; [discriminate|]. cbn [parse_int_str] in H.
      exists 43%N, (x :: r'). repeat split; auto; [discriminate | eapply all_digits_forall; exact H].
    + right. rewrite parse_int_str_other in H by assumption.
      split; [discriminate | eapply all_digits_forall; exact H].
Qed.

Lemma scan_number_aux_rest_digits : forall max ds min acc v rest,
  forallb is_digit ds = true -> scan_number_aux ds min max acc = Some (v, rest) ->
  forallb is_digit rest = true.
Proof.
  induction max as [|max IH]; intros ds min acc v rest Hd H.
  - destruct ds; cbn [scan_number_aux] in H; destruct min; try discriminate;
      injection H as _ <-; exact Hd.
  - destruct ds as [|c r]; cbn [scan_number_aux] in H.
    + destruct min; [injection H as _ <-; reflexivity | discriminate].
    + cbn [forallb] in Hd. apply andb_prop in Hd. destruct Hd as [Hc Hr]. rewrite Hc in H.
      eapply IH; [exact Hr | exact H].
Qed.

Lemma scan_char_digits_none : forall rest, forallb is_digit rest = true -> scan_char rest 45 = None.
Proof.
  intros rest H. destruct rest as [|c r]; [reflexivity|].
  cbn [forallb] in H. apply andb_prop in H. destruct H as [Hc _]. apply is_digit_range in Hc.
  unfold scan_char. destruct (N.eqb_spec c 45); [lia | reflexivity].
Qed.

Lemma scan_digits_all_digits : forall ds acc seen,
  forallb is_digit ds = true ->
  scan_digits_all ds acc seen = None \/ exists v, scan_digits_all ds acc seen = Some (v, []).
Proof.
  induction ds as [|c r IH]; intros acc seen Hd; cbn [scan_digits_all].
  - destruct seen; [right; eexists; reflexivity | left; reflexivity].
  - cbn [forallb] in Hd. apply andb_prop in Hd. destruct Hd as [Hc Hr]. rewrite Hc.
    destruct (acc * 10 + Z.of_N (digit_val c) >? i64_max); [left; reflexivity | apply IH; exact Hr].
Qed.

Lemma rfc3339_rejects_int_str : forall s z, parse_int_str s = Some z -> parse_rfc3339 s = None.
Proof.
  intros s z H. destruct (int_str_cases s z H) as [[sg [r [Hsg [-> [Hne Hd]]]]]|[Hne Hd]].
  - unfold parse_rfc3339, scan_number. destruct Hsg; subst; reflexivity.
  - unfold parse_rfc3339. destruct (scan_number s 4 4) as [[y rest]|] eqn:E; [|reflexivity].
    unfold scan_number in E.
    rewrite (scan_char_digits_none rest (scan_number_aux_rest_digits _ _ _ _ _ _ Hd E)). reflexivity.
Qed.

Lemma date_only_rejects_int_str : forall s z, parse_int_str s = Some z -> parse_date_only s = None.
Proof.
  intros s z H. destruct (int_str_cases s z H) as [[sg [r [Hsg [-> [Hne Hd]]]]]|[Hne Hd]].
  - unfold parse_date_only, scan_year. cbv zeta.
    destruct Hsg; subst sg; (rewrite trim_start_nonws by reflexivity); cbv beta iota;
      destruct (scan_digits_all_digits r 0 false Hd) as [E|[v E]]; rewrite E; reflexivity.
  - destruct s as [|c r]; [congruence|].
    assert (Hc : is_digit c = true) by (cbn [forallb] in Hd; apply andb_prop in Hd; tauto).
    unfold parse_date_only. rewrite scan_year_digit by exact Hc.
    destruct (scan_number (c :: r) 1 4) as [[y rest]|] eqn:E; [|reflexivity].
    unfold scan_number in E.
    rewrite (scan_char_digits_none rest (scan_number_aux_rest_digits _ _ _ _ _ _ Hd E)). reflexivity.
Qed.

Theorem numeric_string_is_integer : forall s z,
  parse_int_str s = Some z -> parse_str_to_epoch_seconds s = normalize_integer_epoch z.
Proof.
  intros s z H. unfold parse_str_to_epoch_seconds. cbv zeta.
  rewrite (trim_of_int_str s z H), (rfc3339_rejects_int_str s z H), (date_only_rejects_int_str s z H), H.
  reflexivity.
Qed.

(** ** the decimal rendering of an integer parses back to it *)

Lemma all_digits_app : forall ds tl a,
  all_digits_val (ds ++ tl) a =
  match all_digits_val ds a with Some v => all_digits_val tl v | None => None end.
Proof.
  induction ds as [|c r IH]; intros tl a; cbn [app all_digits_val]; [reflexivity|].
  destruct (is_digit c); [apply IH | reflexivity].
Qed.

Lemma dec_digits_fuel_spec : forall f n acc,
  (n < 2 ^ N.of_nat f)%N -> (0 < f)%nat ->
  exists ds k, dec_digits_fuel f n acc = ds ++ acc /\ ds <> []
    /\ forall a, all_digits_val ds a = Some (a * 10 ^ k + Z.of_N n) /\ 0 <= k.
Proof.
  induction f as [|f IH]; intros n acc Hn Hf; [lia|].
  cbn [dec_digits_fuel]. cbv zeta.
  destruct (N.eqb_spec (n / 10) 0) as [Hz|Hnz].
  - exists [(48 + n mod 10)%N], 1. split; [reflexivity|]. split; [discriminate|].
    intros a. cbn [all_digits_val]. rewrite is_digit_48 by lia. rewrite digit_val_48.
    split; [f_equal; lia | lia].
  - assert (Hf' : (0 < f)%nat).
    { destruct f; [|lia]. change (2 ^ N.of_nat 1)%N with 2%N in Hn. lia. }
    assert (Hn' : (n / 10 < 2 ^ N.of_nat f)%N).
    { rewrite Nat2N.inj_succ, N.pow_succ_r' in Hn. remember (2 ^ N.of_nat f)%N as P. lia. }
    destruct (IH (n / 10)%N ((48 + n mod 10)%N :: acc) Hn' Hf') as [ds [k [E [Hne Hv]]]].
    exists (ds ++ [(48 + n mod 10)%N]), (k + 1). split; [rewrite E, <- app_assoc; reflexivity|].
    split; [destruct ds; discriminate|].
    intros a. destruct (Hv a) as [Hva Hk]. rewrite all_digits_app, Hva. cbn [all_digits_val].
    rewrite is_digit_48 by lia. rewrite digit_val_48. split; [|lia].
    f_equal. rewrite Z.pow_add_r by lia. change (10 ^ 1) with 10. lia.
Qed.

Lemma dec_of_N_spec : forall n,
  exists ds, dec_of_N n = ds /\ ds <> [] /\ all_digits_val ds 0 = Some (Z.of_N n).
Proof.
  intros n. unfold dec_of_N.
  assert (Hn : (n < 2 ^ N.of_nat (S (N.to_nat (N.log2 n))))%N).
  { rewrite Nat2N.inj_succ, N2Nat.id. destruct (N.eqb_spec n 0) as [->|Hnz]; [reflexivity|].
    apply N.log2_spec. lia. }
  destruct (dec_digits_fuel_spec _ n [] Hn ltac:(lia)) as [ds [k [E [Hne Hv]]]].
  exists ds. rewrite E, app_nil_r. split; [reflexivity|]. split; [exact Hne|].
  destruct (Hv 0) as [Hv0 _]. rewrite Hv0. f_equal; lia.
Qed.

Lemma parse_dec_of_Z : forall n, parse_int_str (dec_of_Z n) = Some n.
Proof.
  intros n. destruct n as [|p|p]; [reflexivity| |].
  - cbn [dec_of_Z]. destruct (dec_of_N_spec (Npos p)) as [ds [-> [Hne Hv]]].
    destruct ds as [|c r]; [congruence|].
    pose proof (all_digits_forall _ _ _ Hv) as Hd. cbn [forallb] in Hd.
    apply andb_prop in Hd. destruct Hd as [Hc _]. apply is_digit_range in Hc.
    rewrite parse_int_str_other by lia. exact Hv.
  - cbn [dec_of_Z]. destruct (dec_of_N_spec (Npos p)) as [ds [-> [Hne Hv]]].
    destruct ds as [|c r]; [congruence|].
    cbn [parse_int_str]. rewrite Hv. reflexivity.
Qed.

Theorem decimal_string_is_integer : forall n,
  parse_str_to_epoch_seconds (dec_of_Z n) = normalize_integer_epoch n.
Proof. intros n. apply numeric_string_is_integer, parse_dec_of_Z. Qed.

(** ** All STRING spellings of one instant — ISO with any offset/fraction, and the decimal
    strings of its second / millisecond / microsecond / nanosecond counts inside their
    bands — go to the same second through [parse_str_to_epoch_seconds]. *)
Theorem all_string_spellings_agree : forall t frac sep off tz ws1 ws2 rms rus rns,
  iso_t_lo <= t <= iso_t_hi ->
  forallb is_digit frac = true -> sep_ok sep = true ->
  Z.abs off <= 1439 -> tz_ok off tz ->
  forallb is_ascii_ws ws1 = true -> forallb is_ascii_ws ws2 = true ->
  0 <= rms < 1000 -> 0 <= rus < 1000000 -> 0 <= rns < 1000000000 ->
  parse_str_to_epoch_seconds (ws1 ++ TimePrint.print_instant_gen t frac sep off tz ++ ws2) = Some t /\
  (Z.abs t < 10 ^ 11 -> parse_str_to_epoch_seconds (dec_of_Z t) = Some t) /\
  (10 ^ 11 <= Z.abs (t * 1000 + rms) < 10 ^ 14 ->
     parse_str_to_epoch_seconds (dec_of_Z (t * 1000 + rms)) = Some t) /\
  (10 ^ 14 <= Z.abs (t * 1000000 + rus) < 10 ^ 16 ->
     parse_str_to_epoch_seconds (dec_of_Z (t * 1000000 + rus)) = Some t) /\
  (10 ^ 16 <= Z.abs (t * 1000000000 + rns) < 10 ^ 19 ->
     parse_str_to_epoch_seconds (dec_of_Z (t * 1000000000 + rns)) = Some t).
Proof.
  intros t frac sep off tz ws1 ws2 rms rus rns Ht Hfr Hsep Hoff Htz H1 H2 Hms Hus Hns.
  destruct (unit_spellings_agree t rms rus rns Hms Hus Hns) as [A [B [C D]]].
  split; [apply iso_string_agree; assumption|].
  repeat split; intros Hb; rewrite decimal_string_is_integer; auto.
Qed.
