(** Proofs about Model/Time.v (C16). *)
From Coq Require Import ZArith NArith List Bool Lia.
From Coq Require Import ZifyBool ZifyNat ZifyN.
From Snel Require Import Base.Bytes Base.Civil Gen.Params Model.Time.
Import ListNotations.
Ltac Zify.zify_post_hook ::= Z.div_mod_to_equations.

(** * Digit counting *)

Lemma ndf_ge : forall f x c, (c <= num_digits_fuel f x c)%N.
Proof.
  induction f as [|f IH]; intros x c; cbn [num_digits_fuel]; [lia|].
  destruct (x =? 0)%N; [lia|].
  specialize (IH (x / 10)%N (N.succ c)). lia.
Qed.

Lemma ndf_spec : forall f x c k,
  (x < 10 ^ N.of_nat f)%N ->
  ((num_digits_fuel f x c <= c + k)%N <-> (x < 10 ^ k)%N).
Proof.
  induction f as [|f IH]; intros x c k Hx.
  - cbn [num_digits_fuel]. change (10 ^ N.of_nat 0)%N with 1%N in Hx.
    assert (x = 0%N) by lia. subst x.
    assert (0 < 10 ^ k)%N by (apply N.neq_0_lt_0, N.pow_nonzero; lia). split; lia.
  - cbn [num_digits_fuel]. destruct (N.eqb_spec x 0) as [->|Hnz].
    + assert (0 < 10 ^ k)%N by (apply N.neq_0_lt_0, N.pow_nonzero; lia). split; lia.
    + rewrite Nat2N.inj_succ, N.pow_succ_r' in Hx.
      destruct (N.eqb_spec k 0) as [->|Hk].
      * pose proof (ndf_ge f (x / 10)%N (N.succ c)). change (10 ^ 0)%N with 1%N. split; lia.
      * replace k with (N.succ (k - 1)) at 2 by lia. rewrite N.pow_succ_r'.
        remember (10 ^ N.of_nat f)%N as P. remember (10 ^ (k - 1))%N as Q.
        assert (Hd : (x / 10 < P)%N) by lia.
        specialize (IH (x / 10)%N (N.succ c) (k - 1)%N Hd). rewrite <- HeqQ in IH.
        replace (N.succ c + (k - 1))%N with (c + k)%N in IH by lia.
        rewrite IH. split; lia.
Qed.

Lemma num_digits_le : forall x k,
  (x < 10 ^ 40)%N -> (1 <= k)%N ->
  ((num_digits x <=? k)%N = (x <? 10 ^ k)%N).
Proof.
  intros x k Hx Hk. unfold num_digits.
  destruct (N.eqb_spec x 0) as [->|Hnz].
  - assert (0 < 10 ^ k)%N by (apply N.neq_0_lt_0, N.pow_nonzero; lia). lia.
  - pose proof (ndf_spec 40 x 0 k Hx) as H. rewrite N.add_0_l in H.
    destruct (N.leb_spec (num_digits_fuel 40 x 0) k); destruct (N.ltb_spec x (10 ^ k)); lia.
Qed.

(** values beyond the fuel still count more than 19 digits *)
Lemma num_digits_big : forall x, (10 ^ 40 <= x)%N -> (40 <= num_digits x)%N.
Proof.
  intros x Hx. unfold num_digits.
  destruct (N.eqb_spec x 0) as [->|_]; [vm_compute in Hx; lia|].
  assert (G : forall f y c, (10 ^ N.of_nat f <= y)%N -> (c + N.of_nat f <= num_digits_fuel f y c)%N).
  { induction f as [|f IH]; intros y c Hy; cbn [num_digits_fuel]; [lia|].
    rewrite Nat2N.inj_succ, N.pow_succ_r' in Hy.
    assert (0 < 10 ^ N.of_nat f)%N by (apply N.neq_0_lt_0, N.pow_nonzero; lia).
    destruct (N.eqb_spec y 0); [lia|].
    remember (10 ^ N.of_nat f)%N as P.
    assert (P <= y / 10)%N by lia.
    specialize (IH (y / 10)%N (N.succ c) H0). lia. }
  specialize (G 40%nat x 0%N Hx). lia.
Qed.

(** * [normalize_integer_epoch] *)

Open Scope Z_scope.

Lemma band_test : forall n k,
  (1 <= k)%N -> Z.abs n < 10 ^ 40 ->
  (num_digits (Z.abs_N n) <=? k)%N = (Z.abs n <? 10 ^ Z.of_N k).
Proof.
  intros n k Hk Hn.
  assert (E40 : Z.of_N (10 ^ 40)%N = 10 ^ 40) by reflexivity.
  rewrite num_digits_le; [|lia|exact Hk].
  assert (E : Z.of_N (10 ^ k)%N = 10 ^ Z.of_N k) by (rewrite N2Z.inj_pow; reflexivity).
  destruct (N.ltb_spec (Z.abs_N n) (10 ^ k)%N); destruct (Z.ltb_spec (Z.abs n) (10 ^ Z.of_N k)); lia.
Qed.

Lemma try_i64_ok : forall z, - 2 ^ 63 <= z <= 2 ^ 63 - 1 -> try_i64 z = Some z.
Proof.
  intros z Hz. unfold try_i64, i64_min, i64_max.
  destruct (Z.leb_spec (- 2 ^ 63) z); destruct (Z.leb_spec z (2 ^ 63 - 1)); cbn; try reflexivity; lia.
Qed.

Ltac bands :=
  unfold normalize_integer_epoch, time_band_s_hi, time_band_ms_hi, time_band_us_hi, time_band_ns_hi;
  repeat (rewrite band_test; [|lia|lia]);
  change (Z.of_N 11) with 11; change (Z.of_N 14) with 14;
  change (Z.of_N 16) with 16; change (Z.of_N 19) with 19.

Lemma normalize_seconds : forall t,
  Z.abs t < 10 ^ 11 -> normalize_integer_epoch t = Some t.
Proof.
  intros t Ht. bands.
  destruct (Z.ltb_spec (Z.abs t) (10 ^ 11)); [|lia].
  apply try_i64_ok. lia.
Qed.

(** The sub-second bands: the result is [time_div n d]; with the [Params]
    regenerated from the repaired source, [time_div] is floor division. *)
Lemma normalize_ms : forall n,
  10 ^ 11 <= Z.abs n < 10 ^ 14 -> normalize_integer_epoch n = Some (time_div n 1000).
Proof.
  intros n Hn. bands.
  destruct (Z.ltb_spec (Z.abs n) (10 ^ 11)); [lia|].
  destruct (Z.ltb_spec (Z.abs n) (10 ^ 14)); [|lia].
  unfold time_div_ms, time_div. apply try_i64_ok. lia.
Qed.

Lemma normalize_us : forall n,
  10 ^ 14 <= Z.abs n < 10 ^ 16 -> normalize_integer_epoch n = Some (time_div n 1000000).
Proof.
  intros n Hn. bands.
  destruct (Z.ltb_spec (Z.abs n) (10 ^ 11)); [lia|].
  destruct (Z.ltb_spec (Z.abs n) (10 ^ 14)); [lia|].
  destruct (Z.ltb_spec (Z.abs n) (10 ^ 16)); [|lia].
  unfold time_div_us, time_div. apply try_i64_ok. lia.
Qed.

Lemma normalize_ns : forall n,
  10 ^ 16 <= Z.abs n < 10 ^ 19 -> normalize_integer_epoch n = Some (time_div n 1000000000).
Proof.
  intros n Hn. bands.
  destruct (Z.ltb_spec (Z.abs n) (10 ^ 11)); [lia|].
  destruct (Z.ltb_spec (Z.abs n) (10 ^ 14)); [lia|].
  destruct (Z.ltb_spec (Z.abs n) (10 ^ 16)); [lia|].
  destruct (Z.ltb_spec (Z.abs n) (10 ^ 19)); [|lia].
  unfold time_div_ns, time_div. apply try_i64_ok. lia.
Qed.

Lemma normalize_reject : forall n,
  10 ^ 19 <= Z.abs n -> normalize_integer_epoch n = None.
Proof.
  intros n Hn.
  destruct (Z.lt_ge_cases (Z.abs n) (10 ^ 40)) as [Hs|Hb].
  - bands.
    destruct (Z.ltb_spec (Z.abs n) (10 ^ 11)); [lia|].
    destruct (Z.ltb_spec (Z.abs n) (10 ^ 14)); [lia|].
    destruct (Z.ltb_spec (Z.abs n) (10 ^ 16)); [lia|].
    destruct (Z.ltb_spec (Z.abs n) (10 ^ 19)); [lia|]. reflexivity.
  - unfold normalize_integer_epoch.
    assert (B : (40 <= num_digits (Z.abs_N n))%N).
    { apply num_digits_big. assert (E : Z.of_N (10 ^ 40)%N = 10 ^ 40) by reflexivity. lia. }
    unfold time_band_s_hi, time_band_ms_hi, time_band_us_hi, time_band_ns_hi.
    repeat match goal with |- context [(?a <=? ?b)%N] => destruct (N.leb_spec a b); [lia|] end.
    reflexivity.
Qed.

(** ** All integer spellings of one instant agree (floor of the instant).
    An instant is [t] whole seconds plus a sub-second remainder. *)
Theorem unit_spellings_agree : forall t rms rus rns,
  0 <= rms < 1000 -> 0 <= rus < 1000000 -> 0 <= rns < 1000000000 ->
  (Z.abs t < 10 ^ 11 -> normalize_integer_epoch t = Some t) /\
  (10 ^ 11 <= Z.abs (t * 1000 + rms) < 10 ^ 14 ->
     normalize_integer_epoch (t * 1000 + rms) = Some t) /\
  (10 ^ 14 <= Z.abs (t * 1000000 + rus) < 10 ^ 16 ->
     normalize_integer_epoch (t * 1000000 + rus) = Some t) /\
  (10 ^ 16 <= Z.abs (t * 1000000000 + rns) < 10 ^ 19 ->
     normalize_integer_epoch (t * 1000000000 + rns) = Some t).
Proof.
  intros t rms rus rns Hms Hus Hns. repeat split; intros H.
  - apply normalize_seconds; exact H.
  - rewrite normalize_ms by exact H. f_equal. unfold time_div. lia.
  - rewrite normalize_us by exact H. f_equal. unfold time_div. lia.
  - rewrite normalize_ns by exact H. f_equal. unfold time_div. lia.
Qed.

(** Non-vacuity: a negative instant with a sub-second part lies in the bands. *)
Example unit_spellings_witness :
  normalize_integer_epoch (-100000001 * 1000 + 500) = Some (-100000001)
  /\ 10 ^ 11 <= Z.abs (-100000001 * 1000 + 500) < 10 ^ 14.
Proof. split; [vm_compute; reflexivity | lia]. Qed.

(** ** JSON numbers that serde_json keeps as f64 (decimals, exponents, integers outside
    [i64::MIN, u64::MAX]) are read as float SECONDS: the stored value is the floor of the
    written value, or the value is rejected — never a saturated second count
    ([time_float_checks_i64_range], regenerated from src/shared/time.rs). *)
Theorem json_float_floor_or_rejected : forall m e z,
  normalize_json_number (JDec m e) = Some z -> z = floor_dec m e /\ i64_min <= z <= i64_max.
Proof.
  intros m e z H. cbn [normalize_json_number] in H. unfold time_float_checks_i64_range in H.
  unfold try_i64 in H.
  destruct ((i64_min <=? floor_dec m e) && (floor_dec m e <=? i64_max)) eqn:B; [|discriminate].
  injection H as <-. split; [reflexivity | lia].
Qed.

Theorem json_float_in_range_accepted : forall m e,
  i64_min <= floor_dec m e <= i64_max ->
  normalize_json_number (JDec m e) = Some (floor_dec m e).
Proof.
  intros m e H. cbn [normalize_json_number]. unfold time_float_checks_i64_range, try_i64.
  destruct ((i64_min <=? floor_dec m e) && (floor_dec m e <=? i64_max)) eqn:B; [reflexivity | lia].
Qed.

(** How serde_json holds an integer literal: i64 / u64 when it fits, f64 otherwise. *)
Definition jnum_of_integer (z : Z) : jnum :=
  if (i64_min <=? z) && (z <=? 2 ^ 64 - 1) then JInt z else JDec z 0.

(** A JSON integer literal of ANY size in a time field is normalised exactly like the same
    digits written as a string, or it is rejected; it is never stored as another second.
    (Was the known class JsonIntegerBelowI64ReadAsFloatSeconds: below i64::MIN the literal
    was read as float seconds and saturated to i64::MIN.) *)
Theorem json_integer_never_misread : forall z,
  normalize_json_number (jnum_of_integer z) = normalize_integer_epoch z
  \/ normalize_json_number (jnum_of_integer z) = None.
Proof.
  intros z. unfold jnum_of_integer.
  destruct ((i64_min <=? z) && (z <=? 2 ^ 64 - 1)) eqn:B; [left; reflexivity|].
  right. cbn [normalize_json_number]. unfold time_float_checks_i64_range, floor_dec.
  cbn [Z.leb Z.compare]. change (10 ^ 0) with 1. rewrite Z.mul_1_r.
  unfold try_i64, i64_min, i64_max in *.
  destruct ((- 2 ^ 63 <=? z) && (z <=? 2 ^ 63 - 1)) eqn:C; [lia | reflexivity].
Qed.

(** the former witness: the nanosecond count of an instant in 1653 as a JSON number is now
    rejected; the same digits as a string give the right second *)
Example json_integer_below_i64_rejected :
  normalize_json_number (jnum_of_integer (-9999999997000000001)) = None
  /\ normalize_integer_epoch (-9999999997000000001) = Some (-9999999998)
  /\ normalize_json_number (JDec 1 300) = None.
Proof. repeat split; vm_compute; reflexivity. Qed.

(** Outside that class JSON integers and numeric strings agree: both go through
    [normalize_integer_epoch]. *)
Lemma json_integer_same_as_string : forall z,
  normalize_json_number (JInt z) = normalize_integer_epoch z.
Proof. reflexivity. Qed.
