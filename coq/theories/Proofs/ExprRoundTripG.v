(** The round trip of ExprRoundTrip.v for the expression rules over an arbitrary leaf parser: if every
    well-formed leaf, printed, is parsed back by the leaf parser (and does not look like NOT or a
    parenthesis), then so is every expression built from such leaves with AND / OR / NOT, at all
    three rule levels.  Instantiated for the PLOT FILTER grammar in PlotRoundTrip.v. *)
From Coq Require Import NArith ZArith List Bool Lia.
From Coq Require Import ZifyBool ZifyNat ZifyN.
From Snel Require Import Base.Bytes Model.Tokenizer Model.Parser Model.Printer Proofs.ParserBasics Proofs.ExprRoundTrip.
Import ListNotations.
Open Scope N_scope.

Ltac norm_app := repeat (rewrite <- app_assoc || rewrite <- app_comm_cons); cbn [app].
Ltac kw_in := cbn; tauto.

Definition is_leafe (e : expr) : bool := match e with ECmp _ _ _ | EIn _ _ => true | _ => false end.

Section G.
Variable lf : P expr.
Variable sp : bytes -> bytes.
Hypothesis Hsp : speller_ok sp.
Variable wfl : expr -> bool.

Fixpoint wf_g (e : expr) : bool :=
  match e with
  | ECmp _ _ _ | EIn _ _ => wfl e
  | EAnd x y | EOr x y => wf_g x && wf_g y
  | ENot x => wf_g x
  end.

Hypothesis leaf_ok : forall e lvl rest, is_leafe e = true -> wfl e = true -> fstop rest ->
  ci K_NOT (print_expr_at sp lvl e ++ rest) = None /\ lit 40 (print_expr_at sp lvl e ++ rest) = None /\
  lf (print_expr_at sp lvl e ++ rest) = Ok (e, rest).
Hypothesis leaf_head : forall e lvl rest, is_leafe e = true -> wfl e = true ->
  exists c r, print_expr_at sp lvl e ++ rest = c :: r /\ goodhead c = true.

Definition rt_at_g (e : expr) (f0 : nat) : Prop :=
  forall f, (f0 <= f)%nat -> forall rest,
    (ostop rest -> or_expr_g lf f (print_expr_at sp 0 e ++ rest) = Ok (e, rest)) /\
    (astop rest -> and_expr_g lf f (print_expr_at sp 1 e ++ rest) = Ok (e, rest)) /\
    (fstop rest -> factor_g lf f (print_expr_at sp 2 e ++ rest) = Ok (e, rest)).

(** from the factor level to the levels above, for an expression printed without parentheses *)
Lemma lift_levels_g : forall e txt f rest,
  (forall rest', fstop rest' -> factor_g lf f (txt ++ rest') = Ok (e, rest')) ->
  (astop rest -> and_expr_g lf (S f) (txt ++ rest) = Ok (e, rest)) /\
  (ostop rest -> or_expr_g lf (S (S f)) (txt ++ rest) = Ok (e, rest)).
Proof.
  intros e txt f rest H.
  assert (Ha : astop rest -> and_expr_g lf (S f) (txt ++ rest) = Ok (e, rest)).
  { intros [Hf Hand]. rewrite and_expr_g_S, (H _ Hf), Hand. auto. }
  split; auto.
  intros [Hast Hor]. rewrite or_expr_g_S, (Ha Hast), Hor. auto.
Qed.


Lemma print_head_g : forall e lvl rest, wf_g e = true ->
  exists c r, print_expr_at sp lvl e ++ rest = c :: r /\ goodhead c = true.
Proof.
  induction e as [f o v | f vs | x IHx y IHy | x IHx y IHy | x IHx]; intros lvl rest Hw.
  - apply leaf_head; auto.
  - apply leaf_head; auto.
  - cbn [wf_g print_expr_at] in *. apply andb_prop in Hw as [Hx Hy].
    destruct (Nat.ltb 1 lvl); norm_app.
    + exists 40, (print_expr_at sp 2 x ++ 32 :: sp K_AND ++ 32 :: print_expr_at sp 1 y ++ 41 :: rest). auto.
    + apply IHx; auto.
  - cbn [wf_g print_expr_at] in *. apply andb_prop in Hw as [Hx Hy].
    destruct (Nat.ltb 0 lvl); norm_app.
    + exists 40, (print_expr_at sp 1 x ++ 32 :: sp K_OR ++ 32 :: print_expr_at sp 0 y ++ 41 :: rest). auto.
    + apply IHx; auto.
  - cbn [wf_g print_expr_at] in *. norm_app. apply (sp_goodhead sp Hsp). kw_in.
Qed.

Lemma print_nows_g : forall e lvl rest, wf_g e = true -> ws (print_expr_at sp lvl e ++ rest) = print_expr_at sp lvl e ++ rest.
Proof.
  intros e lvl rest Hw. destruct (print_head_g e lvl rest Hw) as (c & r & E & Hc). rewrite E.
  apply ws_nows, goodhead_nows; auto.
Qed.

Lemma leaf_lvl : forall e l1 l2, is_leafe e = true -> print_expr_at sp l1 e = print_expr_at sp l2 e.
Proof. intros [f o v|f vs|x y|x y|x] l1 l2 H; try discriminate; reflexivity. Qed.

Lemma factor_leaf_g : forall s e f rest,
  ci K_NOT s = None -> lit 40 s = None -> lf s = Ok (e, rest) ->
  factor_g lf (S f) s = Ok (e, rest).
Proof. intros s e f rest H1 H2 H3. rewrite factor_g_S, H1. unfold paren_or_leaf_g. rewrite H2. auto. Qed.

Lemma rt_from_factor_g : forall e txt f0,
  print_expr_at sp 0 e = txt -> print_expr_at sp 1 e = txt -> print_expr_at sp 2 e = txt ->
  (forall f, (f0 <= f)%nat -> forall rest, fstop rest -> factor_g lf f (txt ++ rest) = Ok (e, rest)) ->
  rt_at_g e (S (S f0)).
Proof.
  intros e txt f0 E0 E1 E2 H f Hf rest. rewrite E0, E1, E2.
  destruct f as [|[|f]]; try lia.
  destruct (lift_levels_g e txt f rest (H f ltac:(lia))) as [_ Ho].
  destruct (lift_levels_g e txt (S f) rest (H (S f) ltac:(lia))) as [Ha _].
  repeat split; auto. apply H. lia.
Qed.

Lemma paren_wrap_g : forall e txt f,
  (forall rest, head_is is_tws (txt ++ rest) = false) ->
  (forall rest, ostop rest -> or_expr_g lf f (txt ++ rest) = Ok (e, rest)) ->
  forall rest, factor_g lf (S f) (40 :: txt ++ 41 :: rest) = Ok (e, rest).
Proof.
  intros e txt f Hh H rest. rewrite factor_g_S. rewrite (ci_nonalpha K_NOT (40 :: _) eq_refl).
  unfold paren_or_leaf_g. rewrite lit_hit, (ws_nows _ (Hh _)), (H _ (ostop_paren rest)).
  rewrite (ws_nows (41 :: rest) eq_refl), lit_hit. auto.
Qed.

Lemma rt_expr_g : forall e, wf_g e = true -> exists f0, rt_at_g e f0.
Proof.
  assert (Hleaf : forall e, is_leafe e = true -> wfl e = true -> exists f0, rt_at_g e f0).
  { intros e Hl Hw. exists 3%nat.
    apply (rt_from_factor_g _ (print_expr_at sp 0 e) 1); auto using leaf_lvl.
    intros fu Hfu rest Hst. destruct fu as [|fu]; [lia|].
    destruct (leaf_ok e 0 rest Hl Hw Hst) as (H1 & H2 & H3). apply factor_leaf_g; auto. }
  induction e as [f o v | f vs | x IHx y IHy | x IHx y IHy | x IHx]; intro Hw.
  - apply Hleaf; auto.
  - apply Hleaf; auto.
  - (* AND *)
    cbn [wf_g] in Hw. apply andb_prop in Hw as [Hx Hy].
    destruct (IHx Hx) as [fx0 Rx]. destruct (IHy Hy) as [fy0 Ry].
    exists (S (S (S (fx0 + fy0)))).
    set (txt := print_expr_at sp 2 x ++ 32 :: sp K_AND ++ 32 :: print_expr_at sp 1 y).
    assert (L1 : forall f, (fx0 + fy0 <= f)%nat -> forall rest, astop rest ->
                 and_expr_g lf (S f) (txt ++ rest) = Ok (EAnd x y, rest)).
    { intros f Hf rest Hst. unfold txt. norm_app. rewrite and_expr_g_S.
      destruct (Rx f ltac:(lia) (32 :: sp K_AND ++ 32 :: print_expr_at sp 1 y ++ rest)) as (_ & _ & Hfac).
      rewrite Hfac by (apply (fstop_kw sp Hsp); [kw_in|vm_compute; discriminate|reflexivity]).
      rewrite ws_space, (ws_nows _ (alpha_not_ws _ (sp_head_alpha sp Hsp K_AND _ ltac:(kw_in)))).
      rewrite (ci_sp sp Hsp K_AND (32 :: _) ltac:(kw_in) eq_refl).
      rewrite ws_space, (print_nows_g y 1 rest Hy).
      destruct (Ry f ltac:(lia) rest) as (_ & Hand & _). rewrite (Hand Hst). auto. }
    assert (L0 : forall f, (fx0 + fy0 <= f)%nat -> forall rest, ostop rest ->
                 or_expr_g lf (S (S f)) (txt ++ rest) = Ok (EAnd x y, rest)).
    { intros f Hf rest [Hast Hor]. rewrite or_expr_g_S, (L1 f Hf rest Hast), Hor. auto. }
    assert (Hh : forall rest, head_is is_tws (txt ++ rest) = false).
    { intro rest. unfold txt. norm_app. destruct (print_head_g x 2 (32 :: sp K_AND ++ 32 :: print_expr_at sp 1 y ++ rest) Hx) as (c & r & E & Hc).
      rewrite E. apply goodhead_nows; auto. }
    intros f Hf rest. destruct f as [|[|[|f]]]; try lia.
    cbn [print_expr_at Nat.ltb Nat.leb]. fold txt. repeat split.
    + apply L0. lia.
    + apply L1. lia.
    + intros _. norm_app. apply (paren_wrap_g (EAnd x y) txt (S (S f)) Hh). intros r Hr. apply L0; auto. lia.
  - (* OR *)
    cbn [wf_g] in Hw. apply andb_prop in Hw as [Hx Hy].
    destruct (IHx Hx) as [fx0 Rx]. destruct (IHy Hy) as [fy0 Ry].
    exists (S (S (S (fx0 + fy0)))).
    set (txt := print_expr_at sp 1 x ++ 32 :: sp K_OR ++ 32 :: print_expr_at sp 0 y).
    assert (L0 : forall f, (fx0 + fy0 <= f)%nat -> forall rest, ostop rest ->
                 or_expr_g lf (S f) (txt ++ rest) = Ok (EOr x y, rest)).
    { intros f Hf rest Hst. unfold txt. norm_app. rewrite or_expr_g_S.
      destruct (Rx f ltac:(lia) (32 :: sp K_OR ++ 32 :: print_expr_at sp 0 y ++ rest)) as (_ & Hand & _).
      rewrite Hand by (apply (astop_kw sp Hsp); [kw_in|vm_compute; discriminate|vm_compute; discriminate|reflexivity]).
      rewrite ws_space, (ws_nows _ (alpha_not_ws _ (sp_head_alpha sp Hsp K_OR _ ltac:(kw_in)))).
      rewrite (ci_sp sp Hsp K_OR (32 :: _) ltac:(kw_in) eq_refl).
      rewrite ws_space, (print_nows_g y 0 rest Hy).
      destruct (Ry f ltac:(lia) rest) as (Hor & _ & _). rewrite (Hor Hst). auto. }
    assert (Hh : forall rest, head_is is_tws (txt ++ rest) = false).
    { intro rest. unfold txt. norm_app. destruct (print_head_g x 1 (32 :: sp K_OR ++ 32 :: print_expr_at sp 0 y ++ rest) Hx) as (c & r & E & Hc).
      rewrite E. apply goodhead_nows; auto. }
    assert (L2 : forall f, (fx0 + fy0 <= f)%nat -> forall rest,
                 factor_g lf (S (S f)) (40 :: txt ++ 41 :: rest) = Ok (EOr x y, rest)).
    { intros f Hf rest. apply (paren_wrap_g (EOr x y) txt (S f) Hh). intros r Hr. apply L0; auto. }
    intros f Hf rest. destruct f as [|[|[|f]]]; try lia.
    cbn [print_expr_at Nat.ltb Nat.leb]. fold txt. repeat split.
    + apply L0. lia.
    + intros [Hfs Hand]. norm_app. rewrite and_expr_g_S, (L2 f ltac:(lia) rest), Hand. auto.
    + intros _. norm_app. apply L2. lia.
  - (* NOT *)
    cbn [wf_g] in Hw. destruct (IHx Hw) as [fx0 Rx].
    exists (S (S (S fx0))).
    apply (rt_from_factor_g _ (print_expr_at sp 0 (ENot x)) (S fx0)); try reflexivity.
    intros fu Hfu rest Hst. destruct fu as [|fu]; [lia|]. cbn [print_expr_at]. norm_app.
    rewrite factor_g_S, (ci_sp sp Hsp K_NOT (32 :: _) ltac:(kw_in) eq_refl), ws_space, (print_nows_g x 2 rest Hw).
    destruct (Rx fu ltac:(lia) rest) as (_ & _ & Hfac). rewrite (Hfac Hst). auto.
Qed.


End G.
