From Coq Require Import ZArith Lia List.
From Snel Require Import Gen.Params Base.Civil Model.Bucket Model.BucketTz Model.BucketZone.
Import ListNotations.
Open Scope Z_scope.

(** a zone without transitions is the fixed-offset model of BucketTz.v *)
Lemma bucket_zone_fixed : forall strict ws off secs g,
  bucket_zone_with strict ws (off, []) secs g = Some (calendar_bucket_secs_off ws off secs g).
Proof.
  intros strict ws off secs g. unfold bucket_zone_with, calendar_bucket_secs_off.
  change (offset_at (off, []) secs) with off.
  generalize (calendar_bucket_secs ws (secs + off) g).
  intro b. unfold resolve_local, zone_offsets, offset_at. cbn [fst snd map offset_from filter].
  replace (b - (b - off)) with off by lia. rewrite Z.eqb_refl. cbn [nodup In].
  destruct (in_dec Z.eq_dec (b - off) []) as [H | _]; [destruct H |]. reflexivity.
Qed.

(** the answer for a row of a sequence is the answer for that instant alone: nothing that was
    bucketed before (or after) it has any influence *)
Lemma bucket_zone_seq_pointwise : forall ws zn g pre secs post,
  nth_error (bucket_zone_seq ws zn g (pre ++ secs :: post)) (length pre) = Some (bucket_zone ws zn secs g).
Proof.
  intros. unfold bucket_zone_seq, sink_bucket_is_pure. rewrite map_app. cbn [map].
  rewrite nth_error_app2; rewrite map_length; [| lia]. rewrite Nat.sub_diag. reflexivity.
Qed.

(** US/Eastern 2024 (EST -18000, EDT from 1710054000, EST from 1730613600):
    Monday 2024-03-11 00:30 EDT lies in Monday's day bucket although it is less than 86400 s after the
    start of Sunday's (the spring-forward day has 23 hours); in the repeated hour of the fall-back
    [unwrap] panics, the resolved form answers the hour of the occurrence. America/Havana 2024-03-10
    has no 00:00 (CST -18000 -> CDT -14400 at 1710046800): the day starts at 01:00 CDT. *)
Example us_eastern_2024 :
  let zn := (-18000, [(1710054000, -14400); (1730613600, -18000)]) in
  (forall strict, bucket_zone_with strict 0 zn 1710086400 GDay = Some 1710046800) /\
  (forall strict, bucket_zone_with strict 0 zn 1710131400 GDay = Some 1710129600) /\
  1710131400 - 1710046800 < 86400 /\
  bucket_zone_with true 0 zn 1730611800 GHour = None /\
  bucket_zone_with false 0 zn 1730611800 GHour = Some 1730610000 /\
  bucket_zone_with false 0 zn 1730615400 GHour = Some 1730613600 /\
  bucket_zone_with false 0 (-18000, [(1710046800, -14400)]) 1710072000 GDay = Some 1710046800.
Proof. repeat split; try (intros []); vm_compute; reflexivity. Qed.
