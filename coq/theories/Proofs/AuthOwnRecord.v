(** Proofs about Model/Auth.v (property C13), part 2: the permission cache answers for a user id
    from that user's own record only - no other account (in particular none whose id differs
    only in letter case) has any influence on it. *)
From Coq Require Import NArith List Bool String.
From Snel Require Import Base.Bytes Gen.Params Model.Auth Proofs.AuthProofs.
Import ListNotations.
Open Scope N_scope.

Lemma may_read_own : forall us us' uid t,
  alookup uid us = alookup uid us' -> may_read us uid t -> may_read us' uid t.
Proof.
  intros us us' uid t E [u [H R]]. exists u. split; [rewrite <- E; exact H|exact R].
Qed.

Lemma may_write_own : forall us us' uid t,
  alookup uid us = alookup uid us' -> may_write us uid t -> may_write us' uid t.
Proof.
  intros us us' uid t E [u [H R]]. exists u. split; [rewrite <- E; exact H|exact R].
Qed.

Theorem can_read_own_record : forall s s' uid t, reachable s -> reachable s' ->
  alookup uid (st_users s) = alookup uid (st_users s') ->
  can_read (st_cache s) uid t = can_read (st_cache s') uid t.
Proof.
  intros s s' uid t Hs Hs' E.
  pose proof (can_read_reachable s uid t Hs) as H1. pose proof (can_read_reachable s' uid t Hs') as H2.
  destruct (can_read (st_cache s) uid t) eqn:E1; destruct (can_read (st_cache s') uid t) eqn:E2; try reflexivity.
  - assert (M : may_read (st_users s') uid t) by (apply (may_read_own _ _ _ _ E); apply H1; reflexivity).
    apply H2 in M. discriminate M.
  - assert (M : may_read (st_users s) uid t) by (apply (may_read_own _ _ _ _ (eq_sym E)); apply H2; reflexivity).
    apply H1 in M. discriminate M.
Qed.

Theorem can_write_own_record : forall s s' uid t, reachable s -> reachable s' ->
  alookup uid (st_users s) = alookup uid (st_users s') ->
  can_write (st_cache s) uid t = can_write (st_cache s') uid t.
Proof.
  intros s s' uid t Hs Hs' E.
  pose proof (can_write_reachable s uid t Hs) as H1. pose proof (can_write_reachable s' uid t Hs') as H2.
  destruct (can_write (st_cache s) uid t) eqn:E1; destruct (can_write (st_cache s') uid t) eqn:E2; try reflexivity.
  - assert (M : may_write (st_users s') uid t) by (apply (may_write_own _ _ _ _ E); apply H1; reflexivity).
    apply H2 in M. discriminate M.
  - assert (M : may_write (st_users s) uid t) by (apply (may_write_own _ _ _ _ (eq_sym E)); apply H2; reflexivity).
    apply H1 in M. discriminate M.
Qed.

(** an id without an account is granted nothing, whatever other accounts exist *)
Theorem unknown_id_denied : forall s uid t, reachable s ->
  alookup uid (st_users s) = None ->
  can_read (st_cache s) uid t = false /\ can_write (st_cache s) uid t = false.
Proof.
  intros s uid t Hs E. split.
  - destruct (can_read (st_cache s) uid t) eqn:E1; [|reflexivity].
    apply (can_read_reachable s uid t Hs) in E1. destruct E1 as [u [H _]]. rewrite E in H. discriminate H.
  - destruct (can_write (st_cache s) uid t) eqn:E1; [|reflexivity].
    apply (can_write_reachable s uid t Hs) in E1. destruct E1 as [u [H _]]. rewrite E in H. discriminate H.
Qed.
