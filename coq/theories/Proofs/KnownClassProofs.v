(** Outside the known class the QUERY grammar does not panic.

    [has_bad s]: at some position of [s] starts either a numeral that [number] would convert and
    that is outside i64 / overflows f64, or LIMIT / OFFSET followed by an integer outside u32.
    If no position is bad, [parse_query false s] is not a panic — for every input, by threading
    "the rest is a suffix of the input" through every rule of the grammar. *)
From Coq Require Import NArith ZArith List Bool Lia.
From Snel Require Import Base.Bytes Model.Tokenizer Model.Parser Model.Command
  Proofs.ParserBasics Proofs.FuelProofs Proofs.PanicProofs Proofs.CommandProofs.
Import ListNotations.
Open Scope N_scope.

(** * The known class, as a decidable predicate on the input *)

Definition out_u32 (neg : bool) (d : bytes) : bool := neg || negb (digits_val d 0 <? 4294967296).
Definition out_i64 (neg : bool) (d : bytes) : bool :=
  let v := Z.of_N (digits_val d 0) in
  let z := if neg then (- v)%Z else v in
  negb ((- 9223372036854775808 <=? z) && (z <=? 9223372036854775807))%Z.

Definition bad_num_at (t : bytes) : bool :=
  match number_text t with
  | Some ((neg, d, None), _) => out_i64 neg d
  | Some ((neg, d, Some fd), _) => float_overflows d fd
  | None => false
  end.

Definition bad_u32_at (k : bytes) (t : bytes) : bool :=
  match ci k t with
  | Some r => match integer (ws r) with
              | Some ((neg, d), _) => out_u32 neg d
              | None => false
              end
  | None => false
  end.

Definition bad_at (t : bytes) : bool := bad_num_at t || bad_u32_at K_LIMIT t || bad_u32_at K_OFFSET t.

Fixpoint has_bad (s : bytes) : bool :=
  bad_at s || match s with [] => false | _ :: r => has_bad r end.

(** * Suffixes *)

Definition suffix (t s : bytes) : Prop := exists pre, s = pre ++ t.

Lemma suffix_refl : forall s, suffix s s.
Proof. intro s. exists []. reflexivity. Qed.
Lemma suffix_trans : forall a b c, suffix a b -> suffix b c -> suffix a c.
Proof. intros a b c [p ->] [q ->]. exists (q ++ p). rewrite app_assoc. reflexivity. Qed.
Lemma suffix_cons : forall c s, suffix s (c :: s).
Proof. intros c s. exists [c]. reflexivity. Qed.
Lemma suffix_app : forall a r, suffix r (a ++ r).
Proof. intros a r. exists a. reflexivity. Qed.

Lemma has_bad_suffix : forall s t, suffix t s -> has_bad s = false -> has_bad t = false.
Proof.
  intros s t [pre ->]. induction pre as [|c pre IH]; intro H; [exact H|].
  apply IH. cbn [app has_bad] in H. apply orb_false_elim in H. tauto.
Qed.

Lemma has_bad_here : forall s, has_bad s = false -> bad_at s = false.
Proof. intros [|c r] H; cbn [has_bad] in H; apply orb_false_elim in H; tauto. Qed.

(** * Rules that keep a suffix and do not panic on safe input *)

Definition good {A} (p : P A) : Prop :=
  forall s, has_bad s = false ->
    (forall k, p s <> Panic k) /\ (forall a r, p s = Ok (a, r) -> suffix r s).

Lemma ret_g : forall A (a : A), good (ret a).
Proof. intros A a s _. unfold ret. split; [discriminate|]. intros a' r E. inversion E; subst. apply suffix_refl. Qed.

Lemma bind_g : forall A B (p : P A) (f : A -> P B), good p -> (forall a, good (f a)) -> good (bind p f).
Proof.
  intros A B p f Hp Hf s Hs. destruct (Hp s Hs) as [Hp1 Hp2]. unfold bind.
  destruct (p s) as [[a r1]| |k'|] eqn:E1.
  - specialize (Hp2 a r1 eq_refl). destruct (Hf a r1 (has_bad_suffix _ _ Hp2 Hs)) as [Hf1 Hf2]. split; auto.
    intros b r E. eapply suffix_trans; [eapply Hf2; eauto|exact Hp2].
  - split; discriminate.
  - exfalso. eapply Hp1; eauto.
  - split; discriminate.
Qed.

Lemma alt_g : forall A (p q : P A), good p -> good q -> good (alt p q).
Proof.
  intros A p q Hp Hq s Hs. destruct (Hp s Hs) as [Hp1 Hp2]. destruct (Hq s Hs) as [Hq1 Hq2]. unfold alt.
  destruct (p s) as [[a r1]| |k'|] eqn:E1.
  - split; [discriminate|]. intros a' r E. inversion E; subst. eapply Hp2; reflexivity.
  - split; auto.
  - exfalso. eapply Hp1; eauto.
  - split; discriminate.
Qed.

Lemma opt_g : forall A (p : P A), good p -> good (opt p).
Proof.
  intros A p Hp s Hs. destruct (Hp s Hs) as [Hp1 Hp2]. unfold opt.
  destruct (p s) as [[a r1]| |k'|] eqn:E1.
  - split; [discriminate|]. intros a' r E. inversion E; subst. eapply Hp2; reflexivity.
  - split; [discriminate|]. intros a' r E. inversion E; subst. apply suffix_refl.
  - exfalso. eapply Hp1; eauto.
  - split; discriminate.
Qed.

Lemma lift_g : forall A (t : bytes -> option (A * bytes)),
  (forall s a r, t s = Some (a, r) -> suffix r s) -> good (lift t).
Proof.
  intros A t H s _. unfold lift. destruct (t s) as [[a r]|] eqn:E; split; try discriminate.
  intros a' r' E'. inversion E'; subst. eauto.
Qed.

Lemma span_suffix : forall p s a r, span p s = (a, r) -> suffix r s.
Proof. intros p s a r H. apply span_spec in H as (-> & _). apply suffix_app. Qed.

Lemma ws_suffix : forall s, suffix (ws s) s.
Proof.
  unfold ws. induction s as [|c r IH]; [apply suffix_refl|]. cbn [drop_while].
  destruct (is_tws c); [|apply suffix_refl]. eapply suffix_trans; [exact IH|apply suffix_cons].
Qed.

Lemma ci_suffix : forall k s r, ci k s = Some r -> suffix r s.
Proof.
  intros k s r H. unfold ci in H. destruct (span is_alpha s) as [w r'] eqn:S. apply span_suffix in S.
  destruct w; [discriminate|]. destruct (ci_eqb _ _); inversion H; subst. auto.
Qed.

Lemma lit_suffix : forall c s r, lit c s = Some r -> suffix r s.
Proof. intros c s r H. unfold lit in H. destruct s as [|x s']; [discriminate|]. destruct (x =? c); inversion H; subst. apply suffix_cons. Qed.

Lemma kw_g : forall k, good (kw k).
Proof.
  intros k s _. unfold kw. destruct (ci k s) eqn:E; split; try discriminate.
  intros a r E'. inversion E'; subst. eapply ci_suffix; eauto.
Qed.
Lemma sym_g : forall c, good (sym c).
Proof.
  intros c s _. unfold sym. destruct (lit c s) eqn:E; split; try discriminate.
  intros a r E'. inversion E'; subst. eapply lit_suffix; eauto.
Qed.
Lemma skip_g : good skip.
Proof. intros s _. unfold skip. split; [discriminate|]. intros a r E. inversion E; subst. apply ws_suffix. Qed.
Lemma notp_g : forall A (t : bytes -> option A), good (notp t).
Proof. intros A t s _. unfold notp. destruct (t s); split; try discriminate. intros a r E. inversion E; subst. apply suffix_refl. Qed.
Lemma eof_g : good eof.
Proof. intros s _. unfold eof. destruct s; split; try discriminate. intros a r E. inversion E; subst. apply suffix_refl. Qed.

Lemma many_g : forall A (p : P A), good p -> forall f, good (many f p).
Proof.
  intros A p Hp. induction f as [|f IH]; intros s Hs; cbn [many]; [split; discriminate|].
  destruct (Hp s Hs) as [Hp1 Hp2]. destruct (p s) as [[a r1]| |k'|] eqn:E1.
  - specialize (Hp2 a r1 eq_refl). destruct (IH r1 (has_bad_suffix _ _ Hp2 Hs)) as [I1 I2].
    destruct (many f p r1) as [[l r']| |k''|] eqn:E2; split; try discriminate.
    + intros a' r E. inversion E; subst. eapply suffix_trans; eauto.
    + exfalso. eapply I1; eauto.
  - split; [discriminate|]. intros a' r E. inversion E; subst. apply suffix_refl.
  - exfalso. eapply Hp1; eauto.
  - split; discriminate.
Qed.

Lemma many_self_g : forall A (p : P A), good p -> good (fun s => many (S (length s)) p s).
Proof. intros A p Hp s Hs. apply many_g; auto. Qed.

Lemma sepstep_g : forall A (p : P A) sep, good p -> (forall s r, sep s = Some r -> suffix r s) -> good (sepstep p sep).
Proof.
  intros A p sep Hp Hsep s Hs. unfold sepstep. destruct (sep s) as [s2|] eqn:E; [|split; discriminate].
  pose proof (Hsep _ _ E) as Hsuf. destruct (Hp s2 (has_bad_suffix _ _ Hsuf Hs)) as [H1 H2]. split; auto.
  intros a r E'. eapply suffix_trans; eauto.
Qed.

Lemma sep_list_g : forall A (p : P A) sep, good p -> (forall s r, sep s = Some r -> suffix r s) -> good (sep_list p sep).
Proof.
  intros A p sep Hp Hsep s Hs. destruct (Hp s Hs) as [Hp1 Hp2]. unfold sep_list.
  destruct (p s) as [[a r1]| |k'|] eqn:E1.
  - specialize (Hp2 a r1 eq_refl). fold (sepstep p sep).
    destruct (many_g _ _ (sepstep_g _ p sep Hp Hsep) (S (length r1)) r1 (has_bad_suffix _ _ Hp2 Hs)) as [I1 I2].
    destruct (many _ _ r1) as [[l r']| |k''|] eqn:E2; split; try discriminate.
    + intros a' r E. inversion E; subst. eapply suffix_trans; eauto.
    + exfalso. eapply I1; eauto.
  - split; [discriminate|]. intros a' r E. inversion E; subst. apply suffix_refl.
  - exfalso. eapply Hp1; eauto.
  - split; discriminate.
Qed.

Lemma sep_list1_g : forall A (p : P A) sep, good p -> (forall s r, sep s = Some r -> suffix r s) -> good (sep_list1 p sep).
Proof.
  intros A p sep Hp Hsep s Hs. destruct (sep_list_g _ p sep Hp Hsep s Hs) as [H1 H2]. unfold sep_list1.
  destruct (sep_list p sep s) as [[[|a l] r']| |k'|] eqn:E.
  - split; discriminate.
  - split; [discriminate|]. intros a' r E'. inversion E'; subst. eapply H2; reflexivity.
  - split; discriminate.
  - exfalso. eapply H1; eauto.
  - split; discriminate.
Qed.

(** terminals *)
Lemma ident_with_suffix : forall cont s a r, ident_with cont s = Some (a, r) -> suffix r s.
Proof.
  intros cont s a r E. unfold ident_with in E. destruct s as [|c s']; [discriminate|].
  destruct (is_ident_start c); [|discriminate]. destruct (span cont s') as [x y] eqn:S. inversion E; subst.
  eapply suffix_trans; [eapply span_suffix; eauto|apply suffix_cons].
Qed.

Lemma field_suffix : forall s a r, field s = Some (a, r) -> suffix r s.
Proof.
  intros s a r E. unfold field in E. destruct (ident s) as [[i r0]|] eqn:E0; [|discriminate].
  apply ident_with_suffix in E0. destruct r0 as [|c r1]; [inversion E; subst; auto|].
  destruct (c =? 46).
  - destruct (ident r1) as [[j r2]|] eqn:E1; inversion E; subst; auto.
    apply ident_with_suffix in E1. eapply suffix_trans; [exact E1|]. eapply suffix_trans; [apply suffix_cons|exact E0].
  - inversion E; subst; auto.
Qed.

Lemma string_lit_suffix : forall s a r, string_lit s = Some (a, r) -> suffix r s.
Proof.
  intros s a r E. unfold string_lit in E. destruct s as [|c s']; [discriminate|].
  destruct (c =? 34); [|discriminate]. destruct (span _ s') as [x y] eqn:S.
  destruct y as [|q y']; [discriminate|]. destruct (q =? 34); [|discriminate]. inversion E; subst.
  apply span_suffix in S. eapply suffix_trans; [apply suffix_cons|]. eapply suffix_trans; [exact S|apply suffix_cons].
Qed.

Lemma integer_suffix : forall s a r, integer s = Some (a, r) -> suffix r s.
Proof.
  intros s a r E. unfold integer in E.
  destruct (match s with c :: r0 => if c =? 45 then (true, r0) else (false, s) | [] => (false, s) end) as [neg r0] eqn:E0.
  assert (H0 : suffix r0 s).
  { destruct s as [|c s']; [inversion E0; subst; apply suffix_refl|].
    destruct (c =? 45); inversion E0; subst; [apply suffix_cons|apply suffix_refl]. }
  destruct (span is_digit r0) as [d r'] eqn:S. apply span_suffix in S.
  destruct d; [discriminate|]. inversion E; subst. eapply suffix_trans; eauto.
Qed.

Lemma number_text_suffix : forall s a r, number_text s = Some (a, r) -> suffix r s.
Proof.
  intros s a r E. unfold number_text in E. destruct (integer s) as [[[neg d] r0]|] eqn:E0; [|discriminate].
  apply integer_suffix in E0. destruct r0 as [|c r1]; [inversion E; subst; auto|].
  destruct (c =? 46).
  - destruct (span is_digit r1) as [fd r2] eqn:S. apply span_suffix in S.
    destruct fd; inversion E; subst; auto.
    eapply suffix_trans; [exact S|]. eapply suffix_trans; [apply suffix_cons|exact E0].
  - inversion E; subst; auto.
Qed.

Lemma cmp_op_suffix : forall s a r, cmp_op s = Some (a, r) -> suffix r s.
Proof.
  intros s a r E. unfold cmp_op, cmp_op1 in E. destruct s as [|c [|d r']]; [discriminate| |].
  - destruct (c =? 61); [inversion E; subst; apply suffix_cons|].
    destruct (c =? 62); [inversion E; subst; apply suffix_cons|].
    destruct (c =? 60); [inversion E; subst; apply suffix_cons|discriminate].
  - assert (S2 : suffix r' (c :: d :: r')) by (exists [c; d]; reflexivity).
    destruct ((c =? 33) && (d =? 61)); [inversion E; subst; exact S2|].
    destruct ((c =? 62) && (d =? 61)); [inversion E; subst; exact S2|].
    destruct ((c =? 60) && (d =? 61)); [inversion E; subst; exact S2|].
    destruct (c =? 61); [inversion E; subst; apply suffix_cons|].
    destruct (c =? 62); [inversion E; subst; apply suffix_cons|].
    destruct (c =? 60); [inversion E; subst; apply suffix_cons|discriminate].
Qed.

Lemma comma_sep_suffix : forall s r, comma_sep s = Some r -> suffix r s.
Proof.
  intros s r E. unfold comma_sep in E. destruct (lit 44 (ws s)) as [r0|] eqn:L; [|discriminate]. inversion E; subst.
  apply lit_suffix in L. eapply suffix_trans; [apply ws_suffix|]. eapply suffix_trans; [exact L|apply ws_suffix].
Qed.

Lemma fieldp_g : good fieldp. Proof. apply lift_g, field_suffix. Qed.
Lemma identp_g : good identp. Proof. apply lift_g. exact (ident_with_suffix is_ident_char). Qed.
Lemma strp_g : good strp. Proof. apply lift_g, string_lit_suffix. Qed.
Lemma intp_g : good intp. Proof. apply lift_g, integer_suffix. Qed.
Lemma cmp_opp_g : good (lift cmp_op). Proof. apply lift_g, cmp_op_suffix. Qed.

#[global] Hint Resolve ret_g bind_g alt_g opt_g kw_g sym_g skip_g notp_g eof_g many_self_g sep_list_g sep_list1_g
  fieldp_g identp_g strp_g intp_g cmp_opp_g comma_sep_suffix : gd.

(** * The conversions do not fail on safe input *)

Lemma number_g : good (number false).
Proof.
  intros s Hs. pose proof (has_bad_here _ Hs) as Hb. unfold bad_at in Hb.
  apply orb_false_elim in Hb as [Hb _]. apply orb_false_elim in Hb as [Hb _]. unfold bad_num_at in Hb.
  unfold number. destruct (number_text s) as [[[[neg d] [fd|]] r0]|] eqn:E.
  - apply number_text_suffix in E. rewrite Hb. split; [discriminate|]. intros a r E'. inversion E'; subst. auto.
  - apply number_text_suffix in E. unfold conv_i64, numfail. unfold out_i64 in Hb. apply negb_false_iff in Hb. rewrite Hb.
    split; [discriminate|]. intros a r E'. inversion E'; subst. auto.
  - split; discriminate.
Qed.

Lemma value_g : good (value false).
Proof.
  unfold value. apply alt_g; [|apply alt_g; [apply number_g|]].
  - intros s _. destruct (string_lit s) as [[x y]|] eqn:E; split; try discriminate.
    intros a r E'. inversion E'; subst. eapply string_lit_suffix; eauto.
  - intros s _. destruct (ident s) as [[x y]|] eqn:E; split; try discriminate.
    intros a r E'. inversion E'; subst. eapply ident_with_suffix; eauto.
Qed.
#[global] Hint Resolve value_g : gd.

Lemma leaf_g : good (leaf false).
Proof.
  unfold leaf. apply alt_g; [|apply alt_g].
  - unfold comparison. auto 30 with gd.
  - unfold in_expr. auto 40 with gd.
  - unfold atom. auto with gd.
Qed.

Lemma u32_clause_g : forall K site mk, (K = K_LIMIT \/ K = K_OFFSET) ->
  good (let* _ := kw K in let* _ := skip in let* n := intp in conv_clause false site mk n).
Proof.
  intros K site mk HK s Hs. pose proof (has_bad_here _ Hs) as Hb. unfold bad_at in Hb.
  apply orb_false_elim in Hb as [Hb Ho]. apply orb_false_elim in Hb as [_ Hl].
  assert (Hk : bad_u32_at K s = false) by (destruct HK; subst; auto).
  unfold bad_u32_at in Hk. unfold bind, kw, skip, intp, lift.
  destruct (ci K s) as [r|] eqn:C; [|split; discriminate].
  apply ci_suffix in C. destruct (integer (ws r)) as [[[neg d] r']|] eqn:I; [|split; discriminate].
  apply integer_suffix in I. unfold conv_clause, conv_u32, numfail. cbn [fst snd]. unfold out_u32 in Hk.
  apply orb_false_elim in Hk as [Hn Hv]. rewrite Hn. apply negb_false_iff in Hv. rewrite Hv.
  split; [discriminate|]. intros a r0 E. inversion E; subst.
  eapply suffix_trans; [exact I|]. eapply suffix_trans; [apply ws_suffix|exact C].
Qed.

(** * The expression grammar *)

Lemma expr_g : forall f, good (or_expr false f) /\ good (and_expr false f) /\ good (factor false f).
Proof.
  induction f as [|f (IHo & IHa & IHf)].
  - split; [|split]; intros s _; split; discriminate.
  - assert (Hfac : good (factor false (S f))).
    { intros s Hs. rewrite factor_S.
      assert (Hpl : (forall k, paren_or_leaf false f s <> Panic k) /\
                    (forall a r, paren_or_leaf false f s = Ok (a, r) -> suffix r s)).
      { unfold paren_or_leaf. destruct (leaf_g s Hs) as [L1 L2].
        destruct (lit 40 s) as [r1|] eqn:L; [|split; auto].
        apply lit_suffix in L. pose proof (suffix_trans _ _ _ (ws_suffix r1) L) as Sw.
        destruct (IHo (ws r1) (has_bad_suffix _ _ Sw Hs)) as [O1 O2].
        destruct (or_expr false f (ws r1)) as [[e r2]| |k'|] eqn:O.
        - specialize (O2 e r2 eq_refl). destruct (lit 41 (ws r2)) as [r3|] eqn:L'.
          + split; [discriminate|]. intros a r E. inversion E; subst. apply lit_suffix in L'.
            eapply suffix_trans; [exact L'|]. eapply suffix_trans; [apply ws_suffix|]. eapply suffix_trans; eauto.
          + split; auto.
        - split; auto.
        - exfalso. eapply O1; eauto.
        - split; discriminate. }
      destruct Hpl as [P1 P2].
      destruct (ci K_NOT s) as [r1|] eqn:C; [|split; auto].
      apply ci_suffix in C. pose proof (suffix_trans _ _ _ (ws_suffix r1) C) as Sw.
      destruct (IHf (ws r1) (has_bad_suffix _ _ Sw Hs)) as [F1 F2].
      destruct (factor false f (ws r1)) as [[x r2]| |k'|] eqn:F.
      - split; [discriminate|]. intros a r E. inversion E; subst. eapply suffix_trans; eauto.
      - split; auto.
      - exfalso. eapply F1; eauto.
      - split; discriminate. }
    assert (Hand : good (and_expr false (S f))).
    { intros s Hs. rewrite and_expr_S. destruct (IHf s Hs) as [F1 F2].
      destruct (factor false f s) as [[x r0]| |k'|] eqn:F.
      - specialize (F2 x r0 eq_refl). destruct (ci K_AND (ws r0)) as [r1|] eqn:C.
        + apply ci_suffix in C.
          assert (Sw : suffix (ws r1) s).
          { eapply suffix_trans; [apply ws_suffix|]. eapply suffix_trans; [exact C|]. eapply suffix_trans; [apply ws_suffix|exact F2]. }
          destruct (IHa (ws r1) (has_bad_suffix _ _ Sw Hs)) as [A1 A2].
          destruct (and_expr false f (ws r1)) as [[y r2]| |k''|] eqn:A.
          * split; [discriminate|]. intros a r E. inversion E; subst. eapply suffix_trans; eauto.
          * split; [discriminate|]. intros a r E. inversion E; subst. auto.
          * exfalso. eapply A1; eauto.
          * split; discriminate.
        + split; [discriminate|]. intros a r E. inversion E; subst. auto.
      - split; discriminate.
      - exfalso. eapply F1; eauto.
      - split; discriminate. }
    repeat split; try apply Hand; try apply Hfac; auto.
    + intros k. rewrite or_expr_S. destruct (IHa s H) as [A1 A2].
      destruct (and_expr false f s) as [[x r0]| |k'|] eqn:F; try discriminate.
      * specialize (A2 x r0 eq_refl). destruct (ci K_OR (ws r0)) as [r1|] eqn:C; [|discriminate].
        apply ci_suffix in C.
        assert (Sw : suffix (ws r1) s).
        { eapply suffix_trans; [apply ws_suffix|]. eapply suffix_trans; [exact C|]. eapply suffix_trans; [apply ws_suffix|exact A2]. }
        destruct (IHo (ws r1) (has_bad_suffix _ _ Sw H)) as [O1 O2].
        destruct (or_expr false f (ws r1)) as [[y r2]| |k''|] eqn:O; try discriminate. intro E. inversion E; subst. eapply O1; eauto.
      * intro E. inversion E; subst. eapply A1; eauto.
    + intros a r. rewrite or_expr_S. destruct (IHa s H) as [A1 A2].
      destruct (and_expr false f s) as [[x r0]| |k'|] eqn:F; try discriminate.
      specialize (A2 x r0 eq_refl). destruct (ci K_OR (ws r0)) as [r1|] eqn:C.
      * apply ci_suffix in C.
        assert (Sw : suffix (ws r1) s).
        { eapply suffix_trans; [apply ws_suffix|]. eapply suffix_trans; [exact C|]. eapply suffix_trans; [apply ws_suffix|exact A2]. }
        destruct (IHo (ws r1) (has_bad_suffix _ _ Sw H)) as [O1 O2].
        destruct (or_expr false f (ws r1)) as [[y r2]| |k''|] eqn:O; try discriminate; intro E; inversion E; subst; auto.
        eapply suffix_trans; eauto.
      * intro E. inversion E; subst. auto.
Qed.

Lemma parse_expr_at_g : good (parse_expr_at false).
Proof. intros s Hs. unfold parse_expr_at. apply (proj1 (expr_g _)); auto. Qed.
#[global] Hint Resolve parse_expr_at_g : gd.

(** * Clauses and the query rule *)

Lemma group_rest_g : good (fun s => many (S (length s)) (fun s1 => match comma_sep s1 with Some s2 => fieldp s2 | None => Err end) s).
Proof. apply (many_self_g _ (sepstep fieldp comma_sep)), sepstep_g; auto with gd. Qed.
#[global] Hint Resolve group_rest_g : gd.

Lemma agg_field_g : forall k mk, good (agg_field k mk).
Proof. intros. unfold agg_field. auto 40 with gd. Qed.
#[global] Hint Resolve agg_field_g : gd.
Lemma agg_spec_g : good agg_spec.
Proof. unfold agg_spec. repeat apply alt_g; auto 40 with gd. Qed.
#[global] Hint Resolve agg_spec_g : gd.
Lemma granularity_g : good granularity. Proof. unfold granularity. repeat apply alt_g; auto 20 with gd. Qed.
Lemma opt_using_g : good opt_using. Proof. unfold opt_using. auto 40 with gd. Qed.
#[global] Hint Resolve granularity_g opt_using_g : gd.

Lemma clause_p_g : good (clause_p false).
Proof.
  unfold clause_p. repeat apply alt_g.
  - unfold for_clause. auto 40 with gd.
  - unfold since_clause. auto 40 with gd.
  - unfold return_clause, return_item. auto 60 with gd.
  - unfold linked_clause. auto 40 with gd.
  - unfold where_clause. auto 40 with gd.
  - unfold using_time_clause. auto 40 with gd.
  - unfold using_clause. auto 40 with gd.
  - unfold agg_clause. auto 40 with gd.
  - unfold time_clause. auto 40 with gd.
  - unfold group_clause. auto 40 with gd.
  - unfold limit_clause. apply u32_clause_g. auto.
  - unfold offset_clause. apply u32_clause_g. auto.
  - unfold order_clause. auto 60 with gd.
Qed.

Lemma query_rule_g : good (query_rule false).
Proof.
  unfold query_rule, event_sequence, seq_link.
  apply bind_g; auto with gd. intros _. apply bind_g; auto with gd. intros _.
  apply bind_g; auto with gd. intros _. apply bind_g.
  - apply bind_g; auto with gd. intros hd. apply bind_g; auto with gd. apply many_self_g. auto 60 with gd.
  - intros hd. apply bind_g; auto with gd. intros _. apply bind_g.
    + apply many_self_g. apply bind_g; auto with gd. intros _. apply clause_p_g.
    + intros cl. auto 20 with gd.
Qed.

(** outside the known class the QUERY grammar does not panic *)
Theorem no_panic_outside_known : forall s, has_bad s = false -> forall k, parse_query false s <> Panic k.
Proof.
  intros s Hs k. unfold parse_query. destruct (query_rule_g s Hs) as [H1 _].
  destruct (query_rule false s) as [[q r]| |k'|] eqn:E; try discriminate. intro E'. inversion E'; subst. eapply H1; eauto.
Qed.

(** every panic of [parse_command] is a panic of the QUERY grammar on a text of the known class *)
Theorem command_panic_in_known : forall s k, parse_command false s = PPanic k ->
  exists q, has_bad q = true /\ parse_query false q = Panic k.
Proof.
  intros s k H. destruct (panic_only_in_query false s k H) as (q & Hq). exists q. split; auto.
  destruct (has_bad q) eqn:E; auto. exfalso. eapply no_panic_outside_known; eauto.
Qed.

(** the hypothesis is satisfiable, and the witnesses are in the class *)
Example outside_known_example :
  has_bad [81;85;69;82;89;32;101;32;76;73;77;73;84;32;53] = false (* QUERY e LIMIT 5 *) /\
  has_bad txt_limit = true /\ has_bad txt_offset = true /\
  has_bad txt_int = true /\ has_bad txt_float = true.
Proof. repeat split; vm_compute; reflexivity. Qed.
