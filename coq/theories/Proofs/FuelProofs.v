(** The fuel supplied by the entry points never runs out: every repetition consumes input,
    so [OOF] is unreachable; and more fuel never changes a result. *)
From Coq Require Import NArith ZArith List Bool Lia.
From Coq Require Import ZifyBool ZifyNat ZifyN.
From Snel Require Import Base.Bytes Model.Tokenizer Model.Parser Proofs.ParserBasics.
Import ListNotations.
Open Scope N_scope.

(** * Parsers that do not lengthen / that shorten the input *)

Definition shrinks {A} (p : P A) : Prop := forall s a r, p s = Ok (a, r) -> (length r <= length s)%nat.
Definition consumes {A} (p : P A) : Prop := forall s a r, p s = Ok (a, r) -> (length r < length s)%nat.
Definition noof {A} (p : P A) : Prop := forall s, p s <> OOF.

Lemma consumes_shrinks : forall A (p : P A), consumes p -> shrinks p.
Proof. intros A p H s a r E. apply H in E. lia. Qed.

Lemma ret_shrinks : forall A (a : A), shrinks (ret a).
Proof. intros A a s a' r E. unfold ret in E. inversion E; subst. lia. Qed.

Lemma bind_shrinks : forall A B (p : P A) (f : A -> P B),
  shrinks p -> (forall a, shrinks (f a)) -> shrinks (bind p f).
Proof.
  intros A B p f Hp Hf s b r E. unfold bind in E. destruct (p s) as [[a r1]| | |] eqn:E1; try discriminate.
  apply Hp in E1. apply Hf in E. lia.
Qed.

Lemma bind_consumes_l : forall A B (p : P A) (f : A -> P B),
  consumes p -> (forall a, shrinks (f a)) -> consumes (bind p f).
Proof.
  intros A B p f Hp Hf s b r E. unfold bind in E. destruct (p s) as [[a r1]| | |] eqn:E1; try discriminate.
  apply Hp in E1. apply Hf in E. lia.
Qed.

Lemma bind_consumes_r : forall A B (p : P A) (f : A -> P B),
  shrinks p -> (forall a, consumes (f a)) -> consumes (bind p f).
Proof.
  intros A B p f Hp Hf s b r E. unfold bind in E. destruct (p s) as [[a r1]| | |] eqn:E1; try discriminate.
  apply Hp in E1. apply Hf in E. lia.
Qed.

Lemma alt_shrinks : forall A (p q : P A), shrinks p -> shrinks q -> shrinks (alt p q).
Proof.
  intros A p q Hp Hq s a r E. unfold alt in E. destruct (p s) as [[a1 r1]| | |] eqn:E1; try discriminate.
  - inversion E; subst. eapply Hp; eauto.
  - eapply Hq; eauto.
Qed.

Lemma alt_consumes : forall A (p q : P A), consumes p -> consumes q -> consumes (alt p q).
Proof.
  intros A p q Hp Hq s a r E. unfold alt in E. destruct (p s) as [[a1 r1]| | |] eqn:E1; try discriminate.
  - inversion E; subst. eapply Hp; eauto.
  - eapply Hq; eauto.
Qed.

Lemma opt_shrinks : forall A (p : P A), shrinks p -> shrinks (opt p).
Proof.
  intros A p Hp s a r E. unfold opt in E. destruct (p s) as [[a1 r1]| | |] eqn:E1; try discriminate;
    inversion E; subst; [eapply Hp; eauto|lia].
Qed.

Lemma lift_consumes : forall A (t : bytes -> option (A * bytes)),
  (forall s a r, t s = Some (a, r) -> (length r < length s)%nat) -> consumes (lift t).
Proof.
  intros A t H s a r E. unfold lift in E. destruct (t s) as [[a1 r1]|] eqn:E1; try discriminate.
  inversion E; subst. eauto.
Qed.

Lemma kw_consumes : forall k, consumes (kw k).
Proof.
  intros k s a r E. unfold kw in E. destruct (ci k s) eqn:E1; try discriminate. inversion E; subst.
  eapply ci_length; eauto.
Qed.

Lemma sym_consumes : forall c, consumes (sym c).
Proof.
  intros c s a r E. unfold sym, lit in E. destruct s as [|x s']; try discriminate.
  destruct (x =? c); try discriminate. inversion E; subst. cbn. lia.
Qed.

Lemma skip_shrinks : shrinks skip.
Proof. intros s a r E. unfold skip in E. inversion E; subst. apply ws_length. Qed.

Lemma notp_shrinks : forall A (t : bytes -> option A), shrinks (notp t).
Proof. intros A t s a r E. unfold notp in E. destruct (t s); try discriminate. inversion E; subst. lia. Qed.

Lemma eof_shrinks : shrinks eof.
Proof. intros s a r E. unfold eof in E. destruct s; try discriminate. inversion E; subst. lia. Qed.

Lemma many_shrinks : forall A (p : P A), shrinks p -> forall f, shrinks (many f p).
Proof.
  intros A p Hp. induction f as [|f IH]; intros s l r E; cbn in E; try discriminate.
  destruct (p s) as [[a r1]| | |] eqn:E1; try discriminate.
  - destruct (many f p r1) as [[l' r']| | |] eqn:E2; try discriminate. inversion E; subst.
    apply Hp in E1. apply IH in E2. lia.
  - inversion E; subst. lia.
Qed.

Definition sepstep {A} (p : P A) (sep : bytes -> option bytes) : P A :=
  fun s1 => match sep s1 with Some s2 => p s2 | None => Err end.

Lemma sepstep_consumes : forall A (p : P A) sep,
  consumes p -> (forall s r, sep s = Some r -> (length r <= length s)%nat) -> consumes (sepstep p sep).
Proof.
  intros A p sep Hp Hs s a r E. unfold sepstep in E. destruct (sep s) eqn:E1; try discriminate.
  apply Hs in E1. apply Hp in E. lia.
Qed.

Lemma sep_list_shrinks : forall A (p : P A) sep,
  consumes p -> (forall s r, sep s = Some r -> (length r <= length s)%nat) -> shrinks (sep_list p sep).
Proof.
  intros A p sep Hp Hs s l r E. unfold sep_list in E.
  destruct (p s) as [[a r1]| | |] eqn:E1; try discriminate.
  - fold (sepstep p sep) in E.
    destruct (many (S (length r1)) (sepstep p sep) r1) as [[l' r']| | |] eqn:E2; try discriminate.
    inversion E; subst. apply Hp in E1.
    apply (many_shrinks _ _ (consumes_shrinks _ _ (sepstep_consumes _ _ _ Hp Hs))) in E2. lia.
  - inversion E; subst. lia.
Qed.

Lemma sep_list1_consumes : forall A (p : P A) sep,
  consumes p -> (forall s r, sep s = Some r -> (length r <= length s)%nat) -> consumes (sep_list1 p sep).
Proof.
  intros A p sep Hp Hs s l r E. unfold sep_list1 in E.
  destruct (sep_list p sep s) as [[l' r']| | |] eqn:E1; try discriminate.
  destruct l' as [|a l'']; try discriminate. inversion E; subst.
  unfold sep_list in E1. destruct (p s) as [[a1 r1]| | |] eqn:E2; try discriminate.
  fold (sepstep p sep) in E1.
  destruct (many (S (length r1)) (sepstep p sep) r1) as [[l3 r3]| | |] eqn:E3; try discriminate.
  inversion E1; subst. apply Hp in E2.
  apply (many_shrinks _ _ (consumes_shrinks _ _ (sepstep_consumes _ _ _ Hp Hs))) in E3. lia.
Qed.

(** * No out-of-fuel *)

Lemma ret_noof : forall A (a : A), noof (ret a).
Proof. intros A a s. unfold ret. discriminate. Qed.

Lemma bind_noof : forall A B (p : P A) (f : A -> P B), noof p -> (forall a, noof (f a)) -> noof (bind p f).
Proof.
  intros A B p f Hp Hf s. unfold bind. destruct (p s) as [[a r1]| | |] eqn:E1; try discriminate.
  - apply Hf.
  - exfalso. eapply Hp; eauto.
Qed.

Lemma alt_noof : forall A (p q : P A), noof p -> noof q -> noof (alt p q).
Proof.
  intros A p q Hp Hq s. unfold alt. destruct (p s) as [[a r1]| | |] eqn:E1; try discriminate.
  - apply Hq.
  - exfalso. eapply Hp; eauto.
Qed.

Lemma opt_noof : forall A (p : P A), noof p -> noof (opt p).
Proof. intros A p Hp s. unfold opt. destruct (p s) as [[a r1]| | |] eqn:E1; try discriminate. exfalso. eapply Hp; eauto. Qed.

Lemma lift_noof : forall A (t : bytes -> option (A * bytes)), noof (lift t).
Proof. intros A t s. unfold lift. destruct (t s); discriminate. Qed.
Lemma kw_noof : forall k, noof (kw k).
Proof. intros k s. unfold kw. destruct (ci k s); discriminate. Qed.
Lemma sym_noof : forall c, noof (sym c).
Proof. intros c s. unfold sym. destruct (lit c s); discriminate. Qed.
Lemma skip_noof : noof skip.
Proof. intros s. unfold skip. discriminate. Qed.
Lemma notp_noof : forall A (t : bytes -> option A), noof (notp t).
Proof. intros A t s. unfold notp. destruct (t s); discriminate. Qed.
Lemma eof_noof : noof eof.
Proof. intros s. unfold eof. destruct s; discriminate. Qed.

Lemma many_noof : forall A (p : P A), consumes p -> noof p ->
  forall f s, (length s < f)%nat -> many f p s <> OOF.
Proof.
  intros A p Hc Hn. induction f as [|f IH]; intros s Hl; [lia|]. cbn.
  destruct (p s) as [[a r1]| | |] eqn:E1; try discriminate.
  - apply Hc in E1. specialize (IH r1 ltac:(lia)).
    destruct (many f p r1) as [[l' r']| | |]; try discriminate. congruence.
  - exfalso. eapply Hn; eauto.
Qed.

Lemma many_self_noof : forall A (p : P A), consumes p -> noof p ->
  noof (fun s => many (S (length s)) p s).
Proof. intros A p Hc Hn s. apply many_noof; auto. Qed.

Lemma sepstep_noof : forall A (p : P A) sep, noof p -> noof (sepstep p sep).
Proof. intros A p sep Hp s. unfold sepstep. destruct (sep s); [apply Hp|discriminate]. Qed.

Lemma sep_list_noof : forall A (p : P A) sep,
  consumes p -> (forall s r, sep s = Some r -> (length r <= length s)%nat) -> noof p -> noof (sep_list p sep).
Proof.
  intros A p sep Hc Hs Hn s. unfold sep_list. destruct (p s) as [[a r1]| | |] eqn:E1; try discriminate.
  - fold (sepstep p sep).
    pose proof (many_noof _ (sepstep p sep) (sepstep_consumes _ _ _ Hc Hs) (sepstep_noof _ _ _ Hn) (S (length r1)) r1 ltac:(lia)) as H.
    destruct (many (S (length r1)) (sepstep p sep) r1) as [[l' r']| | |]; try discriminate. congruence.
  - exfalso. eapply Hn; eauto.
Qed.

Lemma sep_list1_noof : forall A (p : P A) sep,
  consumes p -> (forall s r, sep s = Some r -> (length r <= length s)%nat) -> noof p -> noof (sep_list1 p sep).
Proof.
  intros A p sep Hc Hs Hn s. unfold sep_list1.
  pose proof (sep_list_noof _ p sep Hc Hs Hn s) as H.
  destruct (sep_list p sep s) as [[[|a l] r']| | |]; try discriminate. congruence.
Qed.

(** * Terminals *)

Lemma ident_with_len : forall cont s a r, ident_with cont s = Some (a, r) -> (length r < length s)%nat.
Proof.
  intros cont s a r E. unfold ident_with in E. destruct s as [|c s']; try discriminate.
  destruct (is_ident_start c); try discriminate. destruct (span cont s') as [x y] eqn:S.
  inversion E; subst. apply span_length in S. cbn. lia.
Qed.

Lemma field_len : forall s a r, field s = Some (a, r) -> (length r < length s)%nat.
Proof.
  intros s a r E. unfold field in E. destruct (ident s) as [[i r0]|] eqn:E0; try discriminate.
  apply ident_with_len in E0. destruct r0 as [|c r1]; [inversion E; subst; auto|].
  destruct (c =? 46).
  - destruct (ident r1) as [[j r2]|] eqn:E1; inversion E; subst; auto.
    apply ident_with_len in E1. cbn in *. lia.
  - inversion E; subst; auto.
Qed.

Lemma string_lit_len : forall s a r, string_lit s = Some (a, r) -> (length r < length s)%nat.
Proof.
  intros s a r E. unfold string_lit in E. destruct s as [|c s']; try discriminate.
  destruct (c =? 34); try discriminate. destruct (span _ s') as [x y] eqn:S.
  destruct y as [|q y']; try discriminate. destruct (q =? 34); try discriminate.
  inversion E; subst. apply span_length in S. cbn in *. lia.
Qed.

Lemma integer_len : forall s a r, integer s = Some (a, r) -> (length r < length s)%nat.
Proof.
  intros s a r E. unfold integer in E.
  destruct (match s with c :: r0 => if c =? 45 then (true, r0) else (false, s) | [] => (false, s) end) as [neg r0] eqn:E0.
  assert (H0 : (length r0 <= length s)%nat).
  { destruct s as [|c s']; [inversion E0; subst; auto|]. destruct (c =? 45); inversion E0; subst; cbn; lia. }
  destruct (span is_digit r0) as [d r'] eqn:S. apply span_length in S.
  destruct d; try discriminate. inversion E; subst. cbn in S. lia.
Qed.

Lemma number_text_len : forall s a r, number_text s = Some (a, r) -> (length r < length s)%nat.
Proof.
  intros s a r E. unfold number_text in E. destruct (integer s) as [[[neg d] r0]|] eqn:E0; try discriminate.
  apply integer_len in E0. destruct r0 as [|c r1]; [inversion E; subst; auto|].
  destruct (c =? 46).
  - destruct (span is_digit r1) as [fd r2] eqn:S. apply span_length in S.
    destruct fd; inversion E; subst; auto. cbn in *. lia.
  - inversion E; subst; auto.
Qed.

Lemma cmp_op_len : forall s a r, cmp_op s = Some (a, r) -> (length r < length s)%nat.
Proof.
  intros s a r E. unfold cmp_op, cmp_op1 in E. destruct s as [|c [|d r']]; try discriminate.
  - destruct (c =? 61); [inversion E; subst; cbn; lia|].
    destruct (c =? 62); [inversion E; subst; cbn; lia|].
    destruct (c =? 60); [inversion E; subst; cbn; lia|discriminate].
  - destruct ((c =? 33) && (d =? 61)); [inversion E; subst; cbn; lia|].
    destruct ((c =? 62) && (d =? 61)); [inversion E; subst; cbn; lia|].
    destruct ((c =? 60) && (d =? 61)); [inversion E; subst; cbn; lia|].
    destruct (c =? 61); [inversion E; subst; cbn; lia|].
    destruct (c =? 62); [inversion E; subst; cbn; lia|].
    destruct (c =? 60); [inversion E; subst; cbn; lia|discriminate].
Qed.

Lemma comma_sep_len : forall s r, comma_sep s = Some r -> (length r <= length s)%nat.
Proof.
  intros s r E. unfold comma_sep, lit in E. destruct (ws s) as [|x s'] eqn:W; try discriminate.
  destruct (x =? 44); try discriminate. inversion E; subst.
  pose proof (ws_length s). pose proof (ws_length s'). rewrite W in *. cbn in *. lia.
Qed.

#[global] Hint Resolve consumes_shrinks ret_shrinks bind_shrinks alt_shrinks alt_consumes opt_shrinks kw_consumes
  sym_consumes skip_shrinks notp_shrinks eof_shrinks many_shrinks sep_list_shrinks sep_list1_consumes
  comma_sep_len ret_noof bind_noof alt_noof opt_noof lift_noof kw_noof sym_noof skip_noof notp_noof eof_noof
  sep_list_noof sep_list1_noof many_self_noof : pc.

Lemma fieldp_consumes : consumes fieldp.
Proof. apply lift_consumes, field_len. Qed.
Lemma identp_consumes : consumes identp.
Proof. apply lift_consumes. exact (ident_with_len is_ident_char). Qed.
Lemma strp_consumes : consumes strp.
Proof. apply lift_consumes, string_lit_len. Qed.
Lemma intp_consumes : consumes intp.
Proof. apply lift_consumes, integer_len. Qed.
Lemma cmp_opp_consumes : consumes (lift cmp_op).
Proof. apply lift_consumes, cmp_op_len. Qed.
Lemma fieldp_noof : noof fieldp. Proof. apply lift_noof. Qed.
Lemma identp_noof : noof identp. Proof. apply lift_noof. Qed.
Lemma strp_noof : noof strp. Proof. apply lift_noof. Qed.
Lemma intp_noof : noof intp. Proof. apply lift_noof. Qed.
#[global] Hint Resolve fieldp_consumes identp_consumes strp_consumes intp_consumes cmp_opp_consumes
  fieldp_noof identp_noof strp_noof intp_noof : pc.

Section WithMode.
Variable fx : bool.

Lemma number_consumes : consumes (number fx).
Proof.
  intros s a r E. unfold number in E. destruct (number_text s) as [[[[neg d] [fd|]] r0]|] eqn:E0; try discriminate.
  - apply number_text_len in E0. destruct (float_overflows d fd); [destruct fx; discriminate|]. inversion E; subst. auto.
  - apply number_text_len in E0. destruct (conv_i64 fx neg d); try discriminate. inversion E; subst. auto.
Qed.

Lemma number_noof : noof (number fx).
Proof.
  intros s. unfold number. destruct (number_text s) as [[[[neg d] [fd|]] r0]|]; try discriminate.
  - destruct (float_overflows d fd); [destruct fx; discriminate|discriminate].
  - unfold conv_i64, numfail. destruct (_ && _)%bool; [discriminate|destruct fx; discriminate].
Qed.

Lemma value_consumes : consumes (value fx).
Proof.
  unfold value. apply alt_consumes; [|apply alt_consumes].
  - intros s a r E. destruct (string_lit s) as [[x y]|] eqn:E0; try discriminate. inversion E; subst.
    eapply string_lit_len; eauto.
  - apply number_consumes.
  - intros s a r E. destruct (ident s) as [[x y]|] eqn:E0; try discriminate. inversion E; subst.
    eapply ident_with_len; eauto.
Qed.

Lemma value_noof : noof (value fx).
Proof.
  unfold value. apply alt_noof; [|apply alt_noof].
  - intros s. destruct (string_lit s) as [[x y]|]; discriminate.
  - apply number_noof.
  - intros s. destruct (ident s) as [[x y]|]; discriminate.
Qed.

Hint Resolve value_consumes value_noof : pc.

Lemma comparison_consumes : consumes (comparison fx).
Proof. unfold comparison. apply bind_consumes_l; auto 20 with pc. Qed.
Lemma in_expr_consumes : consumes (in_expr fx).
Proof. unfold in_expr. apply bind_consumes_l; auto 30 with pc. Qed.
Lemma atom_consumes : consumes atom.
Proof. unfold atom. apply bind_consumes_l; auto with pc. Qed.
Lemma leaf_consumes : consumes (leaf fx).
Proof. unfold leaf. auto using alt_consumes, comparison_consumes, in_expr_consumes, atom_consumes. Qed.

Lemma comparison_noof : noof (comparison fx).
Proof. unfold comparison. auto 20 with pc. Qed.
Lemma in_expr_noof : noof (in_expr fx).
Proof. unfold in_expr. auto 30 with pc. Qed.
Lemma atom_noof : noof atom.
Proof. unfold atom. auto with pc. Qed.
Lemma leaf_noof : noof (leaf fx).
Proof. unfold leaf. auto using alt_noof, comparison_noof, in_expr_noof, atom_noof. Qed.

(** * The expression grammar *)

Lemma lit_len : forall c s r, lit c s = Some r -> (length r < length s)%nat.
Proof. intros c s r E. unfold lit in E. destruct s as [|x s']; try discriminate. destruct (x =? c); inversion E; subst. cbn. lia. Qed.

Lemma expr_consumes : forall f,
  consumes (or_expr fx f) /\ consumes (and_expr fx f) /\ consumes (factor fx f).
Proof.
  induction f as [|f (IHo & IHa & IHf)].
  - repeat split; intros s a r E; discriminate.
  - assert (Hfac : consumes (factor fx (S f))).
    { intros s a r E. rewrite factor_S in E. unfold paren_or_leaf in E.
      assert (Hpl : forall a r, (match (match lit 40 s with
               | Some r1 => match or_expr fx f (ws r1) with
                            | Ok (e, r2) => match lit 41 (ws r2) with Some r3 => Ok (e, r3) | None => Err end
                            | other => other end
               | None => Err end) with Err => leaf fx s | other => other end) = Ok (a, r) -> (length r < length s)%nat).
      { intros a0 r0 E0. destruct (lit 40 s) as [r1|] eqn:L1.
        - apply lit_len in L1. destruct (or_expr fx f (ws r1)) as [[e r2]| | |] eqn:O; try discriminate.
          + apply IHo in O. pose proof (ws_length r1).
            destruct (lit 41 (ws r2)) as [r3|] eqn:L2.
            * inversion E0; subst. apply lit_len in L2. pose proof (ws_length r2). lia.
            * eapply leaf_consumes; eauto.
          + eapply leaf_consumes; eauto.
        - eapply leaf_consumes; eauto. }
      destruct (ci K_NOT s) as [r1|] eqn:C; [|eauto].
      apply ci_length in C. destruct (factor fx f (ws r1)) as [[x r2]| | |] eqn:F; try discriminate; eauto.
      inversion E; subst. apply IHf in F. pose proof (ws_length r1). lia. }
    assert (Hand : consumes (and_expr fx (S f))).
    { intros s a r E. rewrite and_expr_S in E. destruct (factor fx f s) as [[x r0]| | |] eqn:F; try discriminate.
      apply IHf in F. destruct (ci K_AND (ws r0)) as [r1|] eqn:C.
      - apply ci_length in C. pose proof (ws_length r0).
        destruct (and_expr fx f (ws r1)) as [[y r2]| | |] eqn:A; try discriminate; inversion E; subst; auto.
        apply IHa in A. pose proof (ws_length r1). lia.
      - inversion E; subst; auto. }
    repeat split; auto.
    intros s a r E. rewrite or_expr_S in E. destruct (and_expr fx f s) as [[x r0]| | |] eqn:F; try discriminate.
    apply IHa in F. destruct (ci K_OR (ws r0)) as [r1|] eqn:C.
    + apply ci_length in C. pose proof (ws_length r0).
      destruct (or_expr fx f (ws r1)) as [[y r2]| | |] eqn:A; try discriminate; inversion E; subst; auto.
      apply IHo in A. pose proof (ws_length r1). lia.
    + inversion E; subst; auto.
Qed.

Lemma expr_noof : forall f s,
  ((3 * length s + 3 <= f)%nat -> or_expr fx f s <> OOF) /\
  ((3 * length s + 2 <= f)%nat -> and_expr fx f s <> OOF) /\
  ((3 * length s + 1 <= f)%nat -> factor fx f s <> OOF).
Proof.
  induction f as [|f IH]; intro s.
  - repeat split; intro; lia.
  - assert (Hfac : (3 * length s + 1 <= S f)%nat -> factor fx (S f) s <> OOF).
    { intro Hl. rewrite factor_S. unfold paren_or_leaf.
      assert (Hpl : (match (match lit 40 s with
               | Some r1 => match or_expr fx f (ws r1) with
                            | Ok (e, r2) => match lit 41 (ws r2) with Some r3 => Ok (e, r3) | None => Err end
                            | other => other end
               | None => Err end) with Err => leaf fx s | other => other end) <> OOF).
      { destruct (lit 40 s) as [r1|] eqn:L1; [|apply leaf_noof].
        apply lit_len in L1. pose proof (ws_length r1).
        destruct (IH (ws r1)) as (Ho & _ & _). specialize (Ho ltac:(lia)).
        destruct (or_expr fx f (ws r1)) as [[e r2]| | |]; try discriminate; try apply leaf_noof; try congruence.
        destruct (lit 41 (ws r2)); [discriminate|apply leaf_noof]. }
      destruct (ci K_NOT s) as [r1|] eqn:C; [|auto].
      apply ci_length in C. pose proof (ws_length r1).
      destruct (IH (ws r1)) as (_ & _ & Hf). specialize (Hf ltac:(lia)).
      destruct (factor fx f (ws r1)) as [[x r2]| | |]; try discriminate; auto. }
    assert (Hand : (3 * length s + 2 <= S f)%nat -> and_expr fx (S f) s <> OOF).
    { intro Hl. rewrite and_expr_S. destruct (IH s) as (_ & _ & Hf). specialize (Hf ltac:(lia)).
      destruct (factor fx f s) as [[x r0]| | |] eqn:F; try discriminate; try congruence.
      apply (proj2 (proj2 (expr_consumes f))) in F.
      destruct (ci K_AND (ws r0)) as [r1|] eqn:C; [|discriminate].
      apply ci_length in C. pose proof (ws_length r0). pose proof (ws_length r1).
      destruct (IH (ws r1)) as (_ & Ha & _). specialize (Ha ltac:(lia)).
      destruct (and_expr fx f (ws r1)) as [[y r2]| | |]; try discriminate; congruence. }
    repeat split; auto.
    intro Hl. rewrite or_expr_S. destruct (IH s) as (_ & Ha & _). specialize (Ha ltac:(lia)).
    destruct (and_expr fx f s) as [[x r0]| | |] eqn:F; try discriminate; try congruence.
    apply (proj1 (proj2 (expr_consumes f))) in F.
    destruct (ci K_OR (ws r0)) as [r1|] eqn:C; [|discriminate].
    apply ci_length in C. pose proof (ws_length r0). pose proof (ws_length r1).
    destruct (IH (ws r1)) as (Ho & _ & _). specialize (Ho ltac:(lia)).
    destruct (or_expr fx f (ws r1)) as [[y r2]| | |]; try discriminate; congruence.
Qed.

(** more fuel does not change a result that was not [OOF] *)
Lemma expr_mono : forall f s,
  (forall r, or_expr fx f s = r -> r <> OOF -> or_expr fx (S f) s = r) /\
  (forall r, and_expr fx f s = r -> r <> OOF -> and_expr fx (S f) s = r) /\
  (forall r, factor fx f s = r -> r <> OOF -> factor fx (S f) s = r).
Proof.
  induction f as [|f IH]; intro s.
  - repeat split; intros r E Hn; cbn in E; congruence.
  - assert (Hfac : forall r, factor fx (S f) s = r -> r <> OOF -> factor fx (S (S f)) s = r).
    { intros r E Hn. rewrite factor_S in E. rewrite factor_S. unfold paren_or_leaf in *.
      assert (Hpl : forall r0, (match (match lit 40 s with
               | Some r1 => match or_expr fx f (ws r1) with
                            | Ok (e, r2) => match lit 41 (ws r2) with Some r3 => Ok (e, r3) | None => Err end
                            | other => other end
               | None => Err end) with Err => leaf fx s | other => other end) = r0 -> r0 <> OOF ->
               (match (match lit 40 s with
               | Some r1 => match or_expr fx (S f) (ws r1) with
                            | Ok (e, r2) => match lit 41 (ws r2) with Some r3 => Ok (e, r3) | None => Err end
                            | other => other end
               | None => Err end) with Err => leaf fx s | other => other end) = r0).
      { intros r0 E0 Hn0. destruct (lit 40 s) as [r1|]; auto.
        destruct (IH (ws r1)) as (Ho & _ & _).
        destruct (or_expr fx f (ws r1)) as [[e r2]| | |] eqn:O.
        - rewrite (Ho _ eq_refl ltac:(discriminate)). auto.
        - rewrite (Ho _ eq_refl ltac:(discriminate)). auto.
        - rewrite (Ho _ eq_refl ltac:(discriminate)). auto.
        - congruence. }
      destruct (ci K_NOT s) as [r1|]; auto.
      destruct (IH (ws r1)) as (_ & _ & Hf).
      destruct (factor fx f (ws r1)) as [[x r2]| | |] eqn:F.
      - rewrite (Hf _ eq_refl ltac:(discriminate)). auto.
      - rewrite (Hf _ eq_refl ltac:(discriminate)). auto.
      - rewrite (Hf _ eq_refl ltac:(discriminate)). auto.
      - congruence. }
    assert (Hand : forall r, and_expr fx (S f) s = r -> r <> OOF -> and_expr fx (S (S f)) s = r).
    { intros r E Hn. rewrite and_expr_S in E. rewrite and_expr_S. destruct (IH s) as (_ & _ & Hf).
      destruct (factor fx f s) as [[x r0]| | |] eqn:F; try congruence;
        rewrite (Hf _ eq_refl ltac:(discriminate)); auto.
      destruct (ci K_AND (ws r0)) as [r1|]; auto.
      destruct (IH (ws r1)) as (_ & Ha & _).
      destruct (and_expr fx f (ws r1)) as [[y r2]| | |] eqn:A; try congruence;
        rewrite (Ha _ eq_refl ltac:(discriminate)); auto. }
    repeat split; auto.
    intros r E Hn. rewrite or_expr_S in E. rewrite or_expr_S. destruct (IH s) as (_ & Ha & _).
    destruct (and_expr fx f s) as [[x r0]| | |] eqn:F; try congruence;
      rewrite (Ha _ eq_refl ltac:(discriminate)); auto.
    destruct (ci K_OR (ws r0)) as [r1|]; auto.
    destruct (IH (ws r1)) as (Ho & _ & _).
    destruct (or_expr fx f (ws r1)) as [[y r2]| | |] eqn:A; try congruence;
      rewrite (Ho _ eq_refl ltac:(discriminate)); auto.
Qed.

Lemma or_expr_mono : forall f f' s r, (f <= f')%nat -> or_expr fx f s = r -> r <> OOF -> or_expr fx f' s = r.
Proof.
  intros f f' s r Hle. induction Hle; intros E Hn; auto.
  apply (proj1 (expr_mono m s)); auto.
Qed.

Lemma parse_expr_at_noof : noof (parse_expr_at fx).
Proof. intro s. unfold parse_expr_at, expr_fuel. apply (proj1 (expr_noof _ s)). lia. Qed.

Lemma parse_expr_at_consumes : consumes (parse_expr_at fx).
Proof. intros s a r E. unfold parse_expr_at in E. eapply (proj1 (expr_consumes _)); eauto. Qed.

End WithMode.

(** the same for any leaf parser that consumes input and never runs out of fuel (plotql.rs carries a second copy of the rules) *)
Section ExprFuelG.
Variable lf : P expr.
Hypothesis Hlc : consumes lf.
Hypothesis Hln : noof lf.

Lemma expr_consumes_g : forall f,
  consumes (or_expr_g lf f) /\ consumes (and_expr_g lf f) /\ consumes (factor_g lf f).
Proof.
  induction f as [|f (IHo & IHa & IHf)].
  - repeat split; intros s a r E; discriminate.
  - assert (Hfac : consumes (factor_g lf (S f))).
    { intros s a r E. rewrite factor_g_S in E. unfold paren_or_leaf_g in E.
      assert (Hpl : forall a r, (match (match lit 40 s with
               | Some r1 => match or_expr_g lf f (ws r1) with
                            | Ok (e, r2) => match lit 41 (ws r2) with Some r3 => Ok (e, r3) | None => Err end
                            | other => other end
               | None => Err end) with Err => lf s | other => other end) = Ok (a, r) -> (length r < length s)%nat).
      { intros a0 r0 E0. destruct (lit 40 s) as [r1|] eqn:L1.
        - apply lit_len in L1. destruct (or_expr_g lf f (ws r1)) as [[e r2]| | |] eqn:O; try discriminate.
          + apply IHo in O. pose proof (ws_length r1).
            destruct (lit 41 (ws r2)) as [r3|] eqn:L2.
            * inversion E0; subst. apply lit_len in L2. pose proof (ws_length r2). lia.
            * eapply Hlc; eauto.
          + eapply Hlc; eauto.
        - eapply Hlc; eauto. }
      destruct (ci K_NOT s) as [r1|] eqn:C; [|eauto].
      apply ci_length in C. destruct (factor_g lf f (ws r1)) as [[x r2]| | |] eqn:F; try discriminate; eauto.
      inversion E; subst. apply IHf in F. pose proof (ws_length r1). lia. }
    assert (Hand : consumes (and_expr_g lf (S f))).
    { intros s a r E. rewrite and_expr_g_S in E. destruct (factor_g lf f s) as [[x r0]| | |] eqn:F; try discriminate.
      apply IHf in F. destruct (ci K_AND (ws r0)) as [r1|] eqn:C.
      - apply ci_length in C. pose proof (ws_length r0).
        destruct (and_expr_g lf f (ws r1)) as [[y r2]| | |] eqn:A; try discriminate; inversion E; subst; auto.
        apply IHa in A. pose proof (ws_length r1). lia.
      - inversion E; subst; auto. }
    repeat split; auto.
    intros s a r E. rewrite or_expr_g_S in E. destruct (and_expr_g lf f s) as [[x r0]| | |] eqn:F; try discriminate.
    apply IHa in F. destruct (ci K_OR (ws r0)) as [r1|] eqn:C.
    + apply ci_length in C. pose proof (ws_length r0).
      destruct (or_expr_g lf f (ws r1)) as [[y r2]| | |] eqn:A; try discriminate; inversion E; subst; auto.
      apply IHo in A. pose proof (ws_length r1). lia.
    + inversion E; subst; auto.
Qed.

Lemma expr_noof_g : forall f s,
  ((3 * length s + 3 <= f)%nat -> or_expr_g lf f s <> OOF) /\
  ((3 * length s + 2 <= f)%nat -> and_expr_g lf f s <> OOF) /\
  ((3 * length s + 1 <= f)%nat -> factor_g lf f s <> OOF).
Proof.
  induction f as [|f IH]; intro s.
  - repeat split; intro; lia.
  - assert (Hfac : (3 * length s + 1 <= S f)%nat -> factor_g lf (S f) s <> OOF).
    { intro Hl. rewrite factor_g_S. unfold paren_or_leaf_g.
      assert (Hpl : (match (match lit 40 s with
               | Some r1 => match or_expr_g lf f (ws r1) with
                            | Ok (e, r2) => match lit 41 (ws r2) with Some r3 => Ok (e, r3) | None => Err end
                            | other => other end
               | None => Err end) with Err => lf s | other => other end) <> OOF).
      { destruct (lit 40 s) as [r1|] eqn:L1; [|apply Hln].
        apply lit_len in L1. pose proof (ws_length r1).
        destruct (IH (ws r1)) as (Ho & _ & _). specialize (Ho ltac:(lia)).
        destruct (or_expr_g lf f (ws r1)) as [[e r2]| | |]; try discriminate; try apply Hln; try congruence.
        destruct (lit 41 (ws r2)); [discriminate|apply Hln]. }
      destruct (ci K_NOT s) as [r1|] eqn:C; [|auto].
      apply ci_length in C. pose proof (ws_length r1).
      destruct (IH (ws r1)) as (_ & _ & Hf). specialize (Hf ltac:(lia)).
      destruct (factor_g lf f (ws r1)) as [[x r2]| | |]; try discriminate; auto. }
    assert (Hand : (3 * length s + 2 <= S f)%nat -> and_expr_g lf (S f) s <> OOF).
    { intro Hl. rewrite and_expr_g_S. destruct (IH s) as (_ & _ & Hf). specialize (Hf ltac:(lia)).
      destruct (factor_g lf f s) as [[x r0]| | |] eqn:F; try discriminate; try congruence.
      apply (proj2 (proj2 (expr_consumes_g f))) in F.
      destruct (ci K_AND (ws r0)) as [r1|] eqn:C; [|discriminate].
      apply ci_length in C. pose proof (ws_length r0). pose proof (ws_length r1).
      destruct (IH (ws r1)) as (_ & Ha & _). specialize (Ha ltac:(lia)).
      destruct (and_expr_g lf f (ws r1)) as [[y r2]| | |]; try discriminate; congruence. }
    repeat split; auto.
    intro Hl. rewrite or_expr_g_S. destruct (IH s) as (_ & Ha & _). specialize (Ha ltac:(lia)).
    destruct (and_expr_g lf f s) as [[x r0]| | |] eqn:F; try discriminate; try congruence.
    apply (proj1 (proj2 (expr_consumes_g f))) in F.
    destruct (ci K_OR (ws r0)) as [r1|] eqn:C; [|discriminate].
    apply ci_length in C. pose proof (ws_length r0). pose proof (ws_length r1).
    destruct (IH (ws r1)) as (Ho & _ & _). specialize (Ho ltac:(lia)).
    destruct (or_expr_g lf f (ws r1)) as [[y r2]| | |]; try discriminate; congruence.
Qed.

(** more fuel does not change a result that was not [OOF] *)
Lemma expr_mono_g : forall f s,
  (forall r, or_expr_g lf f s = r -> r <> OOF -> or_expr_g lf (S f) s = r) /\
  (forall r, and_expr_g lf f s = r -> r <> OOF -> and_expr_g lf (S f) s = r) /\
  (forall r, factor_g lf f s = r -> r <> OOF -> factor_g lf (S f) s = r).
Proof.
  induction f as [|f IH]; intro s.
  - repeat split; intros r E Hn; cbn in E; congruence.
  - assert (Hfac : forall r, factor_g lf (S f) s = r -> r <> OOF -> factor_g lf (S (S f)) s = r).
    { intros r E Hn. rewrite factor_g_S in E. rewrite factor_g_S. unfold paren_or_leaf_g in *.
      assert (Hpl : forall r0, (match (match lit 40 s with
               | Some r1 => match or_expr_g lf f (ws r1) with
                            | Ok (e, r2) => match lit 41 (ws r2) with Some r3 => Ok (e, r3) | None => Err end
                            | other => other end
               | None => Err end) with Err => lf s | other => other end) = r0 -> r0 <> OOF ->
               (match (match lit 40 s with
               | Some r1 => match or_expr_g lf (S f) (ws r1) with
                            | Ok (e, r2) => match lit 41 (ws r2) with Some r3 => Ok (e, r3) | None => Err end
                            | other => other end
               | None => Err end) with Err => lf s | other => other end) = r0).
      { intros r0 E0 Hn0. destruct (lit 40 s) as [r1|]; auto.
        destruct (IH (ws r1)) as (Ho & _ & _).
        destruct (or_expr_g lf f (ws r1)) as [[e r2]| | |] eqn:O.
        - rewrite (Ho _ eq_refl ltac:(discriminate)). auto.
        - rewrite (Ho _ eq_refl ltac:(discriminate)). auto.
        - rewrite (Ho _ eq_refl ltac:(discriminate)). auto.
        - congruence. }
      destruct (ci K_NOT s) as [r1|]; auto.
      destruct (IH (ws r1)) as (_ & _ & Hf).
      destruct (factor_g lf f (ws r1)) as [[x r2]| | |] eqn:F.
      - rewrite (Hf _ eq_refl ltac:(discriminate)). auto.
      - rewrite (Hf _ eq_refl ltac:(discriminate)). auto.
      - rewrite (Hf _ eq_refl ltac:(discriminate)). auto.
      - congruence. }
    assert (Hand : forall r, and_expr_g lf (S f) s = r -> r <> OOF -> and_expr_g lf (S (S f)) s = r).
    { intros r E Hn. rewrite and_expr_g_S in E. rewrite and_expr_g_S. destruct (IH s) as (_ & _ & Hf).
      destruct (factor_g lf f s) as [[x r0]| | |] eqn:F; try congruence;
        rewrite (Hf _ eq_refl ltac:(discriminate)); auto.
      destruct (ci K_AND (ws r0)) as [r1|]; auto.
      destruct (IH (ws r1)) as (_ & Ha & _).
      destruct (and_expr_g lf f (ws r1)) as [[y r2]| | |] eqn:A; try congruence;
        rewrite (Ha _ eq_refl ltac:(discriminate)); auto. }
    repeat split; auto.
    intros r E Hn. rewrite or_expr_g_S in E. rewrite or_expr_g_S. destruct (IH s) as (_ & Ha & _).
    destruct (and_expr_g lf f s) as [[x r0]| | |] eqn:F; try congruence;
      rewrite (Ha _ eq_refl ltac:(discriminate)); auto.
    destruct (ci K_OR (ws r0)) as [r1|]; auto.
    destruct (IH (ws r1)) as (Ho & _ & _).
    destruct (or_expr_g lf f (ws r1)) as [[y r2]| | |] eqn:A; try congruence;
      rewrite (Ho _ eq_refl ltac:(discriminate)); auto.
Qed.

Lemma or_expr_mono_g : forall f f' s r, (f <= f')%nat -> or_expr_g lf f s = r -> r <> OOF -> or_expr_g lf f' s = r.
Proof.
  intros f f' s r Hle. induction Hle; intros E Hn; auto.
  apply (proj1 (expr_mono_g m s)); auto.
Qed.

End ExprFuelG.
