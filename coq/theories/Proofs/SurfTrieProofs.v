(** Proofs about Model/Trie.v (C08): the trie built from a key list holds exactly those keys;
    specification of [find_first_key_geq] (all key sets), of [find_last_key_leq] (keys of the
    target's length: exact; no key a proper prefix of the target: no false "none"), and of
    [may_overlap_ge] / [may_overlap_le]. *)
From Coq Require Import NArith List Bool Lia.
From Coq Require Import ZifyBool ZifyNat ZifyN.
From Snel Require Import Base.Bytes Model.Trie Proofs.SurfLexProofs.
Import ListNotations.
Open Scope N_scope.

(** * Key set, membership of children, well-formedness *)

Fixpoint keys_t (t : trie) : list bytes :=
  match t with
  | Node tm f => (if tm then [[]] else []) ++ keys_f f
  end
with keys_f (f : forest) : list bytes :=
  match f with
  | FNil => []
  | FCons l c r => map (cons l) (keys_t c) ++ keys_f r
  end.

Fixpoint In_f (l : N) (c : trie) (f : forest) : Prop :=
  match f with
  | FNil => False
  | FCons l' c' r => (l = l' /\ c = c') \/ In_f l c r
  end.

(** children sorted by strictly increasing label, every child holds a key *)
Fixpoint wf_t (t : trie) : Prop :=
  match t with Node _ f => wf_f f end
with wf_f (f : forest) : Prop :=
  match f with
  | FNil => True
  | FCons l c r => wf_t c /\ keys_t c <> [] /\ wf_f r /\ (forall l' c', In_f l' c' r -> l < l')
  end.

Scheme trie_mut := Induction for trie Sort Prop
  with forest_mut := Induction for forest Sort Prop.

Lemma forest_ind_simple : forall Q : forest -> Prop,
  Q FNil -> (forall l c r, Q r -> Q (FCons l c r)) -> forall f, Q f.
Proof.
  intros Q H0 H1. fix IH 1. intros [|l c r]; [exact H0|]. apply H1. apply IH.
Qed.

(** induction with the hypothesis for every child *)
Lemma trie_ind_children : forall P : trie -> Prop,
  (forall tm f, (forall l c, In_f l c f -> P c) -> P (Node tm f)) -> forall t, P t.
Proof.
  intros P H.
  apply (trie_mut P (fun f => forall l c, In_f l c f -> P c)).
  - intros tm f Hf. now apply H.
  - intros l c [].
  - intros l c Hc r Hr l' c' [[-> ->]|Hin]; [assumption|now apply (Hr l' c')].
Qed.

Lemma in_keys_f : forall f k,
  In k (keys_f f) <-> exists l c k', In_f l c f /\ k = l :: k' /\ In k' (keys_t c).
Proof.
  induction f as [|l c r IH] using forest_ind_simple; intros k.
  - cbn. split; [intros []|intros (l & c & k' & [] & _)].
  - cbn [keys_f In_f]. rewrite in_app_iff, in_map_iff, IH. split.
    + intros [(k' & <- & Hk')|(l2 & c2 & k' & Hin & -> & Hk')].
      * exists l, c, k'. auto.
      * exists l2, c2, k'. auto.
    + intros (l2 & c2 & k' & [[-> ->]|Hin] & -> & Hk').
      * left. now exists k'.
      * right. now exists l2, c2, k'.
Qed.

Lemma in_keys_t : forall tm f k,
  In k (keys_t (Node tm f)) <-> (tm = true /\ k = []) \/ In k (keys_f f).
Proof.
  intros tm f k. cbn [keys_t]. rewrite in_app_iff. destruct tm; cbn [In]; split.
  - intros [[<-|[]]|H]; auto.
  - intros [[_ ->]|H]; auto.
  - intros [[]|H]; auto.
  - intros [[H _]|H]; [discriminate|auto].
Qed.

Lemma wf_child : forall f l c, wf_f f -> In_f l c f -> wf_t c /\ keys_t c <> [].
Proof.
  induction f as [|l0 c0 r IH] using forest_ind_simple;
    intros l c Hwf Hin.
  - destruct Hin.
  - cbn [wf_f] in Hwf. destruct Hwf as (W1 & W2 & W3 & W4).
    destruct Hin as [[-> ->]|Hin]; [auto|now apply (IH l c)].
Qed.

(** labels determine the child *)
Lemma In_f_label_unique : forall f l c c', wf_f f -> In_f l c f -> In_f l c' f -> c = c'.
Proof.
  induction f as [|l0 c0 r IH] using forest_ind_simple;
    intros l c c' Hwf H1 H2.
  - destruct H1.
  - cbn [wf_f] in Hwf. destruct Hwf as (_ & _ & W3 & W4).
    destruct H1 as [[-> ->]|H1], H2 as [[E ->]|H2].
    + reflexivity.
    + apply W4 in H2. lia.
    + apply W4 in H1. lia.
    + now apply (IH l).
Qed.

Lemma nonempty_ex : forall (l : list bytes), l <> [] -> exists k, In k l.
Proof. intros [|k l] H; [congruence|]. exists k. now left. Qed.

(** a well-formed trie without keys is the empty root *)
Lemma wf_nokeys : forall t, wf_t t -> keys_t t = [] -> t = t_empty.
Proof.
  intros [tm f] Hwf Hk. cbn [keys_t] in Hk. apply app_eq_nil in Hk as [H1 H2].
  destruct tm; [discriminate|]. destruct f as [|l c r]; [reflexivity|].
  cbn [wf_t wf_f] in Hwf. destruct Hwf as (_ & Hne & _).
  cbn [keys_f] in H2. apply app_eq_nil in H2 as [H2 _].
  destruct (keys_t c); [congruence|discriminate].
Qed.

(** * The builder *)

Lemma f_ins_spec : forall b (ins_r : trie -> trie) (rk : bytes),
  (forall t, wf_t t -> wf_t (ins_r t) /\
             forall k, In k (keys_t (ins_r t)) <-> k = rk \/ In k (keys_t t)) ->
  forall f, wf_f f ->
    wf_f (f_ins b ins_r f) /\
    (forall k, In k (keys_f (f_ins b ins_r f)) <-> k = b :: rk \/ In k (keys_f f)) /\
    (forall l c, In_f l c (f_ins b ins_r f) -> l = b \/ exists c', In_f l c' f).
Proof.
  intros b ins_r rk Hr.
  assert (Hnew : wf_t (ins_r t_empty) /\ keys_t (ins_r t_empty) <> [] /\
                 forall k, In k (keys_t (ins_r t_empty)) <-> k = rk).
  { destruct (Hr t_empty I) as (W & K). split; [assumption|]. split.
    - intros E. assert (In rk (keys_t (ins_r t_empty))) by (apply K; now left).
      rewrite E in H. destruct H.
    - intros k. rewrite K. cbn. tauto. }
  destruct Hnew as (Wn & Nn & Kn).
  induction f as [|l c r IH] using forest_ind_simple; intros Hwf.
  - cbn [f_ins]. split; [|split].
    + cbn [wf_f]. split; [assumption|]. split; [assumption|]. split; [exact I|]. intros l' c' [].
    + intros k. cbn [keys_f]. rewrite app_nil_r, in_map_iff. split.
      * intros (k' & <- & Hk'). left. f_equal. now apply Kn.
      * intros [->|[]]. exists rk. split; [reflexivity|now apply Kn].
    + intros l' c' [[-> _]|[]]. now left.
  - cbn [wf_f] in Hwf. destruct Hwf as (W1 & W2 & W3 & W4).
    cbn [f_ins]. fold (f_ins b ins_r).
    destruct (N.ltb_spec b l) as [Hlt|Hge].
    + split; [|split].
      * cbn [wf_f]. split; [assumption|]. split; [assumption|]. split; [cbn [wf_f]; auto|].
        intros l' c' [[-> ->]|Hin]; [assumption|]. apply W4 in Hin. lia.
      * intros k. cbn [keys_f]. rewrite !in_app_iff, !in_map_iff. split.
        -- intros [(k' & <- & Hk')|H]; [left; f_equal; now apply Kn|now right].
        -- intros [->|H]; [left; exists rk; split; [reflexivity|now apply Kn]|now right].
      * intros l' c' [[-> _]|Hin]; [now left|]. right. now exists c'.
    + destruct (N.eqb_spec b l) as [->|Hne].
      * destruct (Hr c W1) as (Wc & Kc). split; [|split].
        -- cbn [wf_f]. split; [assumption|]. split; [|split; assumption].
           intros E. assert (Hin : In rk (keys_t (ins_r c))) by (apply Kc; now left).
           rewrite E in Hin. destruct Hin.
        -- intros k. cbn [keys_f]. rewrite !in_app_iff, !in_map_iff. split.
           ++ intros [(k' & <- & Hk')|H]; [|auto].
              apply Kc in Hk' as [->|Hk']; [now left|]. right. left. now exists k'.
           ++ intros [->|[(k' & <- & Hk')|H]]; [| |auto].
              ** left. exists rk. split; [reflexivity|]. apply Kc. now left.
              ** left. exists k'. split; [reflexivity|]. apply Kc. now right.
        -- intros l' c' [[-> _]|Hin]; [now left|]. right. exists c'. now right.
      * destruct (IH W3) as (Wi & Ki & Li). split; [|split].
        -- cbn [wf_f]. split; [assumption|]. split; [assumption|]. split; [assumption|].
           intros l' c' Hin. apply Li in Hin as [->|(c'' & Hin)]; [lia|]. now apply (W4 l' c'').
        -- intros k. cbn [keys_f]. rewrite !in_app_iff. split.
           ++ intros [H|H]; [auto|]. apply Ki in H as [H|H]; auto.
           ++ intros [->|[H|H]]; [right; apply Ki; now left|auto|]. right. apply Ki. now right.
        -- intros l' c' [[-> ->]|Hin]; [right; exists c; now left|].
           apply Li in Hin as [->|(c'' & Hin)]; [now left|]. right. exists c''. now right.
Qed.

Lemma t_insert_spec : forall k t, wf_t t ->
  wf_t (t_insert k t) /\ forall k', In k' (keys_t (t_insert k t)) <-> k' = k \/ In k' (keys_t t).
Proof.
  induction k as [|b r IH]; intros [tm f] Hwf.
  - cbn [t_insert]. split; [exact Hwf|]. intros k'. rewrite !in_keys_t. destruct tm; intuition congruence.
  - cbn [t_insert]. cbn [wf_t] in Hwf.
    destruct (f_ins_spec b (t_insert r) r IH f Hwf) as (W & K & _).
    split; [exact W|]. intros k'. rewrite !in_keys_t, K. tauto.
Qed.

Lemma t_build_from : forall ks t, wf_t t ->
  wf_t (fold_left (fun t k => t_insert k t) ks t) /\
  forall k, In k (keys_t (fold_left (fun t k => t_insert k t) ks t)) <-> In k ks \/ In k (keys_t t).
Proof.
  induction ks as [|k0 ks IH]; intros t Hwf.
  - cbn. split; [assumption|]. intros k. tauto.
  - cbn [fold_left]. destruct (t_insert_spec k0 t Hwf) as (W & K).
    destruct (IH (t_insert k0 t) W) as (W' & K'). split; [assumption|].
    intros k. rewrite K', K. cbn [In]. intuition congruence.
Qed.

(** the trie built from [ks] is well formed and holds exactly the keys of [ks] *)
Theorem t_build_spec : forall ks,
  wf_t (t_build ks) /\ forall k, In k (keys_t (t_build ks)) <-> In k ks.
Proof.
  intros ks. unfold t_build. destruct (t_build_from ks t_empty I) as (W & K).
  split; [assumption|]. intros k. rewrite K. cbn. tauto.
Qed.

(** * Leftmost / rightmost descents *)

Definition is_min (S : list bytes) (k : bytes) : Prop := In k S /\ forall k', In k' S -> ble k k'.
Definition is_max (S : list bytes) (k : bytes) : Prop := In k S /\ forall k', In k' S -> ble k' k.

Lemma app_snoc : forall (out : bytes) l k, (out ++ [l]) ++ k = out ++ l :: k.
Proof. intros. now rewrite <- app_assoc. Qed.

Lemma in_keys_child : forall tm f l c k, In_f l c f -> In k (keys_t c) -> In (l :: k) (keys_t (Node tm f)).
Proof. intros tm f l c k H1 H2. apply in_keys_t. right. apply in_keys_f. now exists l, c, k. Qed.

Lemma descend_leftmost_spec : forall t, wf_t t -> keys_t t <> [] ->
  forall out, exists k, is_min (keys_t t) k /\ descend_leftmost t out = Some (out ++ k).
Proof.
  induction t as [tm f IH] using trie_ind_children. intros Hwf Hne out.
  cbn [descend_leftmost]. destruct tm.
  - exists []. rewrite app_nil_r. split; [|reflexivity]. split.
    + apply in_keys_t. now left.
    + intros k' _. apply ble_nil_l.
  - destruct f as [|l c r].
    + exfalso. apply Hne. reflexivity.
    + cbn [wf_t wf_f] in Hwf. destruct Hwf as (W1 & W2 & W3 & W4).
      assert (Hin : In_f l c (FCons l c r)) by (left; auto).
      destruct (IH l c Hin W1 W2 (out ++ [l])) as (k' & (Hk1 & Hk2) & Hd).
      exists (l :: k'). rewrite Hd, app_snoc. split; [|reflexivity]. split.
      * now apply (in_keys_child false _ l c).
      * intros k2 H2. apply in_keys_t in H2 as [[E _]|H2]; [discriminate|].
        apply in_keys_f in H2 as (l2 & c2 & k2' & Hin2 & -> & Hk2').
        apply ble_cons. destruct Hin2 as [[-> ->]|Hin2].
        -- right. split; [reflexivity|]. now apply Hk2.
        -- left. now apply (W4 l2 c2).
Qed.

Lemma rightmost_f_spec : forall f, wf_f f -> forall out,
  (f = FNil /\ rightmost_f f out = None) \/
  (exists l c, In_f l c f /\ (forall l' c', In_f l' c' f -> l' <= l) /\
               rightmost_f f out = Some (descend_rightmost c (out ++ [l]))).
Proof.
  induction f as [|l c r IH] using forest_ind_simple; intros Hwf out.
  - left. split; reflexivity.
  - right. cbn [wf_f] in Hwf. destruct Hwf as (W1 & W2 & W3 & W4).
    cbn [rightmost_f]. destruct (IH W3 out) as [[-> Hr]|(l2 & c2 & Hin2 & Hmax & Hr)].
    + cbn [rightmost_f]. exists l, c. split; [left; auto|]. split; [|reflexivity].
      intros l' c' [[-> _]|[]]. lia.
    + rewrite Hr. exists l2, c2. split; [now right|]. split; [|reflexivity].
      intros l' c' [[-> _]|Hin]; [|now apply (Hmax l' c')].
      apply W4 in Hin2. lia.
Qed.

Lemma descend_rightmost_spec : forall t, wf_t t -> keys_t t <> [] ->
  forall out, exists k, is_max (keys_t t) k /\ descend_rightmost t out = Some (out ++ k).
Proof.
  induction t as [tm f IH] using trie_ind_children. intros Hwf Hne out.
  cbn [descend_rightmost]. cbn [wf_t] in Hwf.
  destruct (rightmost_f_spec f Hwf out) as [[-> Hr]|(l & c & Hin & Hmax & Hr)]; rewrite Hr.
  - destruct tm.
    + exists []. rewrite app_nil_r. split; [|reflexivity]. split.
      * apply in_keys_t. now left.
      * intros k' H. apply in_keys_t in H as [[_ ->]|[]]. apply ble_refl.
    + exfalso. apply Hne. reflexivity.
  - destruct (wf_child f l c Hwf Hin) as (Wc & Nc).
    destruct (IH l c Hin Wc Nc (out ++ [l])) as (k' & (Hk1 & Hk2) & Hd).
    exists (l :: k'). rewrite Hd, app_snoc. split; [|reflexivity]. split.
    + now apply (in_keys_child tm f l c).
    + intros k2 H2. apply in_keys_t in H2 as [[_ ->]|H2]; [apply ble_nil_l|].
      apply in_keys_f in H2 as (l2 & c2 & k2' & Hin2 & -> & Hk2').
      apply ble_cons. pose proof (Hmax l2 c2 Hin2) as Hle.
      destruct (N.eq_dec l2 l) as [->|Hne2]; [|left; lia].
      right. split; [reflexivity|].
      rewrite (In_f_label_unique f l c2 c Hwf Hin2 Hin) in Hk2'. now apply Hk2.
Qed.

(** * [find_first_key_geq] *)

Lemma first_ge_spec : forall f tb, wf_f f ->
  match first_ge tb f with
  | FNil => forall l c, In_f l c f -> l < tb
  | FCons l c sibs =>
      In_f l c f /\ tb <= l /\ (forall l' c', In_f l' c' f -> l' < tb \/ l <= l') /\
      match sibs with
      | FNil => forall l' c', In_f l' c' f -> l' <= l
      | FCons l2 c2 _ => In_f l2 c2 f /\ l < l2 /\ forall l' c', In_f l' c' f -> l' <= l \/ l2 <= l'
      end
  end.
Proof.
  induction f as [|l0 c0 r IH] using forest_ind_simple; intros tb Hwf.
  - cbn. intros l c [].
  - cbn [wf_f] in Hwf. destruct Hwf as (W1 & W2 & W3 & W4).
    cbn [first_ge]. destruct (N.leb_spec tb l0) as [Hle|Hgt].
    + split; [left; auto|]. split; [assumption|]. split.
      * intros l' c' [[-> _]|Hin]; [right; lia|]. apply W4 in Hin. right. lia.
      * destruct r as [|l2 c2 r2].
        -- intros l' c' [[-> _]|[]]. lia.
        -- assert (Hin2 : In_f l2 c2 (FCons l2 c2 r2)) by (left; auto).
           split; [now right|]. split; [now apply (W4 l2 c2)|].
           cbn [wf_f] in W3. destruct W3 as (_ & _ & _ & W34).
           intros l' c' [[-> _]|[[-> _]|Hin]]; [left; lia|right; lia|].
           apply W34 in Hin. right. lia.
    + specialize (IH tb W3). destruct (first_ge tb r) as [|l c sibs].
      * intros l' c' [[-> _]|Hin]; [assumption|now apply (IH l' c')].
      * destruct IH as (Hin & Hle & Hall & Hs). split; [now right|]. split; [assumption|]. split.
        -- intros l' c' [[-> _]|Hin']; [now left|now apply (Hall l' c')].
        -- destruct sibs as [|l2 c2 s2].
           ++ intros l' c' [[-> _]|Hin']; [lia|now apply (Hs l' c')].
           ++ destruct Hs as (Hin2 & Hlt2 & Hall2). split; [now right|]. split; [assumption|].
              intros l' c' [[-> _]|Hin']; [left; lia|now apply (Hall2 l' c')].
Qed.

Lemma geq_loop_spec : forall target t path stack, wf_t t -> keys_t t <> [] ->
  (exists k, In k (keys_t t) /\ ble target k /\
             (forall k', In k' (keys_t t) -> ble target k' -> ble k k') /\
             geq_loop target t path stack = Some (path ++ k))
  \/ ((forall k, In k (keys_t t) -> blt k target) /\
      geq_loop target t path stack = backtrack_ge stack).
Proof.
  induction target as [|tb rest IH]; intros t path stack Hwf Hne.
  - left. destruct (descend_leftmost_spec t Hwf Hne path) as (k & (Hk1 & Hk2) & Hd).
    exists k. cbn [geq_loop]. split; [assumption|]. split; [apply ble_nil_l|]. split; [|assumption].
    intros k' Hk' _. now apply Hk2.
  - destruct t as [tm f]. cbn [wf_t] in Hwf. cbn [geq_loop t_children].
    pose proof (first_ge_spec f tb Hwf) as Hfg.
    destruct (first_ge tb f) as [|l c sibs].
    + right. split; [|reflexivity].
      intros k Hk. apply in_keys_t in Hk as [[_ ->]|Hk]; [reflexivity|].
      apply in_keys_f in Hk as (l2 & c2 & k2 & Hin2 & -> & _).
      apply blt_cons. left. now apply (Hfg l2 c2).
    + destruct Hfg as (Hin & Hle & Hall & Hs).
      destruct (wf_child f l c Hwf Hin) as (Wc & Nc).
      destruct (N.eqb_spec l tb) as [->|Hne2].
      * (* follow the equal edge *)
        destruct (IH c (path ++ [tb]) ((sibs, path) :: stack) Wc Nc)
          as [(k' & Hk1 & Hk2 & Hk3 & Hg)|(Hlt & Hg)]; rewrite Hg.
        -- left. exists (tb :: k'). rewrite app_snoc. split; [now apply (in_keys_child tm f tb c)|].
           split; [apply ble_cons; right; auto|]. split; [|reflexivity].
           intros k2 Hk2in Hge. apply in_keys_t in Hk2in as [[_ ->]|Hk2in].
           { apply ble_nil_r in Hge. discriminate Hge. }
           apply in_keys_f in Hk2in as (l2 & c2 & k2' & Hin2 & -> & Hk2').
           apply ble_cons in Hge. apply ble_cons. destruct Hge as [Hlt|[<- Hge]]; [now left|].
           right. split; [reflexivity|].
           rewrite (In_f_label_unique f tb c2 c Hwf Hin2 Hin) in Hk2'. now apply Hk3.
        -- cbn [backtrack_ge]. destruct sibs as [|l2 c2 s2].
           ++ right. split; [|reflexivity].
              intros k Hk. apply in_keys_t in Hk as [[_ ->]|Hk]; [reflexivity|].
              apply in_keys_f in Hk as (l3 & c3 & k3 & Hin3 & -> & Hk3).
              apply blt_cons. pose proof (Hs l3 c3 Hin3) as Hle3.
              destruct (N.eq_dec l3 tb) as [->|Hne3]; [|left; lia].
              right. split; [reflexivity|].
              rewrite (In_f_label_unique f tb c3 c Hwf Hin3 Hin) in Hk3. now apply Hlt.
           ++ destruct Hs as (Hin2 & Hlt2 & Hall2).
              destruct (wf_child f l2 c2 Hwf Hin2) as (Wc2 & Nc2).
              destruct (descend_leftmost_spec c2 Wc2 Nc2 (path ++ [l2])) as (km & (Hm1 & Hm2) & Hd).
              left. exists (l2 :: km). rewrite Hd, app_snoc.
              split; [now apply (in_keys_child tm f l2 c2)|].
              split; [apply ble_cons; left; assumption|]. split; [|reflexivity].
              intros k3 Hk3in Hge. apply in_keys_t in Hk3in as [[_ ->]|Hk3in].
              { apply ble_nil_r in Hge. discriminate Hge. }
              apply in_keys_f in Hk3in as (l3 & c3 & k3' & Hin3 & -> & Hk3').
              apply ble_cons in Hge. apply ble_cons.
              destruct Hge as [Hlt3|[<- Hge]].
              ** destruct (Hall2 l3 c3 Hin3) as [H|H]; [lia|].
                 destruct (N.eq_dec l3 l2) as [->|Hne3]; [|left; lia].
                 right. split; [reflexivity|].
                 rewrite (In_f_label_unique f l2 c3 c2 Hwf Hin3 Hin2) in Hk3'. now apply Hm2.
              ** exfalso. rewrite (In_f_label_unique f tb c3 c Hwf Hin3 Hin) in Hk3'.
                 apply Hlt in Hk3'. now apply not_blt_ble in Hge.
      * (* first greater edge: leftmost key under it *)
        assert (Hlt : tb < l) by lia.
        destruct (descend_leftmost_spec c Wc Nc (path ++ [l])) as (km & (Hm1 & Hm2) & Hd).
        left. exists (l :: km). rewrite Hd, app_snoc.
        split; [now apply (in_keys_child tm f l c)|].
        split; [apply ble_cons; left; assumption|]. split; [|reflexivity].
        intros k3 Hk3in Hge. apply in_keys_t in Hk3in as [[_ ->]|Hk3in].
        { apply ble_nil_r in Hge. discriminate Hge. }
        apply in_keys_f in Hk3in as (l3 & c3 & k3' & Hin3 & -> & Hk3').
        apply ble_cons in Hge. apply ble_cons.
        destruct (Hall l3 c3 Hin3) as [H|H]; [destruct Hge as [Hge|[Hge _]]; lia|].
        destruct (N.eq_dec l3 l) as [->|Hne3]; [|left; lia].
        right. split; [reflexivity|].
        rewrite (In_f_label_unique f l c3 c Hwf Hin3 Hin) in Hk3'. now apply Hm2.
Qed.

(** [find_first_key_geq] returns the least key >= target, [None] iff there is none — for every
    key list (any lengths, duplicates, any order). *)
Theorem first_geq_spec : forall ks target,
  match find_first_key_geq (t_build ks) target with
  | Some r => In r ks /\ ble target r /\ forall k, In k ks -> ble target k -> ble r k
  | None => forall k, In k ks -> blt k target
  end.
Proof.
  intros ks target. destruct (t_build_spec ks) as (W & K). unfold find_first_key_geq.
  assert (D : keys_t (t_build ks) = [] \/ keys_t (t_build ks) <> [])
    by (destruct (keys_t (t_build ks)); [left; reflexivity|right; discriminate]).
  destruct D as [Hk|Hne].
  - rewrite (wf_nokeys _ W Hk).
    assert (E : geq_loop target t_empty [] [] = None) by (destruct target; reflexivity).
    rewrite E. intros k Hin. apply K in Hin. rewrite Hk in Hin. destruct Hin.
  - destruct (geq_loop_spec target (t_build ks) [] [] W Hne)
      as [(k & Hk1 & Hk2 & Hk3 & Hg)|(Hlt & Hg)]; rewrite Hg.
    + cbn [app]. split; [now apply K|]. split; [assumption|].
      intros k' Hin. apply Hk3. now apply K.
    + cbn [backtrack_ge]. intros k Hin. apply Hlt. now apply K.
Qed.
