(** Proofs about Model/Trie.v (C08): the trie built from a key list holds exactly those keys;
    specification of [find_first_key_geq] (all key sets), of [find_last_key_leq] (keys of the
    target's length: exact; no key a proper prefix of the target: no false "none"), and of
    [may_overlap_ge] / [may_overlap_le]. *)
From Coq Require Import NArith List Bool Lia.
From Coq Require Import ZifyBool ZifyNat ZifyN.
From Snel Require Import Base.Bytes Model.Trie Proofs.SurfLexProofs.
Import ListNotations.
Open Scope N_scope.

(** * Key set, membership of children, well-formedness *)

Fixpoint keys_t (t : trie) : list bytes :=
  match t with
  | Node tm f => (if tm then [[]] else []) ++ keys_f f
  end
with keys_f (f : forest) : list bytes :=
  match f with
  | FNil => []
  | FCons l c r => map (cons l) (keys_t c) ++ keys_f r
  end.

Fixpoint In_f (l : N) (c : trie) (f : forest) : Prop :=
  match f with
  | FNil => False
  | FCons l' c' r => (l = l' /\ c = c') \/ In_f l c r
  end.

(** children sorted by strictly increasing label, every child holds a key *)
Fixpoint wf_t (t : trie) : Prop :=
  match t with Node _ f => wf_f f end
with wf_f (f : forest) : Prop :=
  match f with
  | FNil => True
  | FCons l c r => wf_t c /\ keys_t c <> [] /\ wf_f r /\ (forall l' c', In_f l' c' r -> l < l')
  end.

Scheme trie_mut := Induction for trie Sort Prop
  with forest_mut := Induction for forest Sort Prop.

Lemma forest_ind_simple : forall Q : forest -> Prop,
  Q FNil -> (forall l c r, Q r -> Q (FCons l c r)) -> forall f, Q f.
Proof.
  intros Q H0 H1. fix IH 1. intros [|l c r]; [exact H0|]. apply H1. apply IH.
Qed.

(** induction with the hypothesis for every child *)
Lemma trie_ind_children : forall P : trie -> Prop,
  (forall tm f, (forall l c, In_f l c f -> P c) -> P (Node tm f)) -> forall t, P t.
Proof.
  intros P H.
  apply (trie_mut P (fun f => forall l c, In_f l c f -> P c)).
  - intros tm f Hf. now apply H.
  - intros l c [].
  - intros l c Hc r Hr l' c' [[-> ->]|Hin]; [assumption|now apply (Hr l' c')].
Qed.

Lemma in_keys_f : forall f k,
  In k (keys_f f) <-> exists l c k', In_f l c f /\ k = l :: k' /\ In k' (keys_t c).
Proof.
  induction f as [|l c r IH] using forest_ind_simple; intros k.
  - cbn. split; [intros []|intros (l & c & k' & [] & _)].
  - cbn [keys_f In_f]. rewrite in_app_iff, in_map_iff, IH. split.
    + intros [(k' & <- & Hk')|(l2 & c2 & k' & Hin & -> & Hk')].
      * exists l, c, k'. auto.
      * exists l2, c2, k'. auto.
    + intros (l2 & c2 & k' & [[-> ->]|Hin] & -> & Hk').
      * left. now exists k'.
      * right. now exists l2, c2, k'.
Qed.

Lemma in_keys_t : forall tm f k,
  In k (keys_t (Node tm f)) <-> (tm = true /\ k = []) \/ In k (keys_f f).
Proof.
  intros tm f k. cbn [keys_t]. rewrite in_app_iff. destruct tm; cbn [In]; split.
  - intros [[<-|[]]|H]; auto.
  - intros [[_ ->]|H]; auto.
  - intros [[]|H]; auto.
  - intros [[H _]|H]; [discriminate|auto].
Qed.

Lemma wf_child : forall f l c, wf_f f -> In_f l c f -> wf_t c /\ keys_t c <> [].
Proof.
  induction f as [|l0 c0 r IH] using forest_ind_simple;
    intros l c Hwf Hin.
  - destruct Hin.
  - cbn [wf_f] in Hwf. destruct Hwf as (W1 & W2 & W3 & W4).
    destruct Hin as [[-> ->]|Hin]; [auto|now apply (IH l c)].
Qed.

(** labels determine the child *)
Lemma In_f_label_unique : forall f l c c', wf_f f -> In_f l c f -> In_f l c' f -> c = c'.
Proof.
  induction f as [|l0 c0 r IH] using forest_ind_simple;
    intros l c c' Hwf H1 H2.
  - destruct H1.
  - cbn [wf_f] in Hwf. destruct Hwf as (_ & _ & W3 & W4).
    destruct H1 as [[-> ->]|H1], H2 as [[E ->]|H2].
    + reflexivity.
    + apply W4 in H2. lia.
    + apply W4 in H1. lia.
    + now apply (IH l).
Qed.

Lemma nonempty_ex : forall (l : list bytes), l <> [] -> exists k, In k l.
Proof. intros [|k l] H; [congruence|]. exists k. now left. Qed.

(** a well-formed trie without keys is the empty root *)
Lemma wf_nokeys : forall t, wf_t t -> keys_t t = [] -> t = t_empty.
Proof.
  intros [tm f] Hwf Hk. cbn [keys_t] in Hk. apply app_eq_nil in Hk as [H1 H2].
  destruct tm; [discriminate|]. destruct f as [|l c r]; [reflexivity|].
  cbn [wf_t wf_f] in Hwf. destruct Hwf as (_ & Hne & _).
  cbn [keys_f] in H2. apply app_eq_nil in H2 as [H2 _].
  destruct (keys_t c); [congruence|discriminate].
Qed.

(** * The builder *)

Lemma f_ins_spec : forall b (ins_r : trie -> trie) (rk : bytes),
  (forall t, wf_t t -> wf_t (ins_r t) /\
             forall k, In k (keys_t (ins_r t)) <-> k = rk \/ In k (keys_t t)) ->
  forall f, wf_f f ->
    wf_f (f_ins b ins_r f) /\
    (forall k, In k (keys_f (f_ins b ins_r f)) <-> k = b :: rk \/ In k (keys_f f)) /\
    (forall l c, In_f l c (f_ins b ins_r f) -> l = b \/ exists c', In_f l c' f).
Proof.
  intros b ins_r rk Hr.
  assert (Hnew : wf_t (ins_r t_empty) /\ keys_t (ins_r t_empty) <> [] /\
                 forall k, In k (keys_t (ins_r t_empty)) <-> k = rk).
  { destruct (Hr t_empty I) as (W & K). split; [assumption|]. split.
    - intros E. assert (In rk (keys_t (ins_r t_empty))) by (apply K; now left).
      rewrite E in H. destruct H.
    - intros k. rewrite K. cbn. tauto. }
  destruct Hnew as (Wn & Nn & Kn).
  induction f as [|l c r IH] using forest_ind_simple; intros Hwf.
  - cbn [f_ins]. split; [|split].
    + cbn [wf_f]. split; [assumption|]. split; [assumption|]. split; [exact I|]. intros l' c' [].
    + intros k. cbn [keys_f]. rewrite app_nil_r, in_map_iff. split.
      * intros (k' & <- & Hk'). left. f_equal. now apply Kn.
      * intros [->|[]]. exists rk. split; [reflexivity|now apply Kn].
    + intros l' c' [[-> _]|[]]. now left.
  - cbn [wf_f] in Hwf. destruct Hwf as (W1 & W2 & W3 & W4).
    cbn [f_ins]. fold (f_ins b ins_r).
    destruct (N.ltb_spec b l) as [Hlt|Hge].
    + split; [|split].
      * cbn [wf_f]. split; [assumption|]. split; [assumption|]. split; [cbn [wf_f]; auto|].
        intros l' c' [[-> ->]|Hin]; [assumption|]. apply W4 in Hin. lia.
      * intros k. cbn [keys_f]. rewrite !in_app_iff, !in_map_iff. split.
        -- intros [(k' & <- & Hk')|H]; [left; f_equal; now apply Kn|now right].
        -- intros [->|H]; [left; exists rk; split; [reflexivity|now apply Kn]|now right].
      * intros l' c' [[-> _]|Hin]; [now left|]. right. now exists c'.
    + destruct (N.eqb_spec b l) as [->|Hne].
      * destruct (Hr c W1) as (Wc & Kc). split; [|split].
        -- cbn [wf_f]. split; [assumption|]. split; [|split; assumption].
           intros E. assert (Hin : In rk (keys_t (ins_r c))) by (apply Kc; now left).
           rewrite E in Hin. destruct Hin.
        -- intros k. cbn [keys_f]. rewrite !in_app_iff, !in_map_iff. split.
           ++ intros [(k' & <- & Hk')|H]; [|auto].
              apply Kc in Hk' as [->|Hk']; [now left|]. right. left. now exists k'.
           ++ intros [->|[(k' & <- & Hk')|H]]; [| |auto].
              ** left. exists rk. split; [reflexivity|]. apply Kc. now left.
              ** left. exists k'. split; [reflexivity|]. apply Kc. now right.
        -- intros l' c' [[-> _]|Hin]; [now left|]. right. exists c'. now right.
      * destruct (IH W3) as (Wi & Ki & Li). split; [|split].
        -- cbn [wf_f]. split; [assumption|]. split; [assumption|]. split; [assumption|].
           intros l' c' Hin. apply Li in Hin as [->|(c'' & Hin)]; [lia|]. now apply (W4 l' c'').
        -- intros k. cbn [keys_f]. rewrite !in_app_iff. split.
           ++ intros [H|H]; [auto|]. apply Ki in H as [H|H]; auto.
           ++ intros [->|[H|H]]; [right; apply Ki; now left|auto|]. right. apply Ki. now right.
        -- intros l' c' [[-> ->]|Hin]; [right; exists c; now left|].
           apply Li in Hin as [->|(c'' & Hin)]; [now left|]. right. exists c''. now right.
Qed.

Lemma t_insert_spec : forall k t, wf_t t ->
  wf_t (t_insert k t) /\ forall k', In k' (keys_t (t_insert k t)) <-> k' = k \/ In k' (keys_t t).
Proof.
  induction k as [|b r IH]; intros [tm f] Hwf.
  - cbn [t_insert]. split; [exact Hwf|]. intros k'. rewrite !in_keys_t. destruct tm; intuition congruence.
  - cbn [t_insert]. cbn [wf_t] in Hwf.
    destruct (f_ins_spec b (t_insert r) r IH f Hwf) as (W & K & _).
    split; [exact W|]. intros k'. rewrite !in_keys_t, K. tauto.
Qed.

Lemma t_build_from : forall ks t, wf_t t ->
  wf_t (fold_left (fun t k => t_insert k t) ks t) /\
  forall k, In k (keys_t (fold_left (fun t k => t_insert k t) ks t)) <-> In k ks \/ In k (keys_t t).
Proof.
  induction ks as [|k0 ks IH]; intros t Hwf.
  - cbn. split; [assumption|]. intros k. tauto.
  - cbn [fold_left]. destruct (t_insert_spec k0 t Hwf) as (W & K).
    destruct (IH (t_insert k0 t) W) as (W' & K'). split; [assumption|].
    intros k. rewrite K', K. cbn [In]. intuition congruence.
Qed.

(** the trie built from [ks] is well formed and holds exactly the keys of [ks] *)
Theorem t_build_spec : forall ks,
  wf_t (t_build ks) /\ forall k, In k (keys_t (t_build ks)) <-> In k ks.
Proof.
  intros ks. unfold t_build. destruct (t_build_from ks t_empty I) as (W & K).
  split; [assumption|]. intros k. rewrite K. cbn. tauto.
Qed.

(** * Leftmost / rightmost descents *)

Definition is_min (S : list bytes) (k : bytes) : Prop := In k S /\ forall k', In k' S -> ble k k'.
Definition is_max (S : list bytes) (k : bytes) : Prop := In k S /\ forall k', In k' S -> ble k' k.

Lemma app_snoc : forall (out : bytes) l k, (out ++ [l]) ++ k = out ++ l :: k.
Proof. intros. now rewrite <- app_assoc. Qed.

Lemma in_keys_child : forall tm f l c k, In_f l c f -> In k (keys_t c) -> In (l :: k) (keys_t (Node tm f)).
Proof. intros tm f l c k H1 H2. apply in_keys_t. right. apply in_keys_f. now exists l, c, k. Qed.

Lemma descend_leftmost_spec : forall t, wf_t t -> keys_t t <> [] ->
  forall out, exists k, is_min (keys_t t) k /\ descend_leftmost t out = Some (out ++ k).
Proof.
  induction t as [tm f IH] using trie_ind_children. intros Hwf Hne out.
  cbn [descend_leftmost]. destruct tm.
  - exists []. rewrite app_nil_r. split; [|reflexivity]. split.
    + apply in_keys_t. now left.
    + intros k' _. apply ble_nil_l.
  - destruct f as [|l c r].
    + exfalso. apply Hne. reflexivity.
    + cbn [wf_t wf_f] in Hwf. destruct Hwf as (W1 & W2 & W3 & W4).
      assert (Hin : In_f l c (FCons l c r)) by (left; auto).
      destruct (IH l c Hin W1 W2 (out ++ [l])) as (k' & (Hk1 & Hk2) & Hd).
      exists (l :: k'). rewrite Hd, app_snoc. split; [|reflexivity]. split.
      * now apply (in_keys_child false _ l c).
      * intros k2 H2. apply in_keys_t in H2 as [[E _]|H2]; [discriminate|].
        apply in_keys_f in H2 as (l2 & c2 & k2' & Hin2 & -> & Hk2').
        apply ble_cons. destruct Hin2 as [[-> ->]|Hin2].
        -- right. split; [reflexivity|]. now apply Hk2.
        -- left. now apply (W4 l2 c2).
Qed.

Lemma rightmost_f_spec : forall f, wf_f f -> forall out,
  (f = FNil /\ rightmost_f f out = None) \/
  (exists l c, In_f l c f /\ (forall l' c', In_f l' c' f -> l' <= l) /\
               rightmost_f f out = Some (descend_rightmost c (out ++ [l]))).
Proof.
  induction f as [|l c r IH] using forest_ind_simple; intros Hwf out.
  - left. split; reflexivity.
  - right. cbn [wf_f] in Hwf. destruct Hwf as (W1 & W2 & W3 & W4).
    cbn [rightmost_f]. destruct (IH W3 out) as [[-> Hr]|(l2 & c2 & Hin2 & Hmax & Hr)].
    + cbn [rightmost_f]. exists l, c. split; [left; auto|]. split; [|reflexivity].
      intros l' c' [[-> _]|[]]. lia.
    + rewrite Hr. exists l2, c2. split; [now right|]. split; [|reflexivity].
      intros l' c' [[-> _]|Hin]; [|now apply (Hmax l' c')].
      apply W4 in Hin2. lia.
Qed.

Lemma descend_rightmost_spec : forall t, wf_t t -> keys_t t <> [] ->
  forall out, exists k, is_max (keys_t t) k /\ descend_rightmost t out = Some (out ++ k).
Proof.
  induction t as [tm f IH] using trie_ind_children. intros Hwf Hne out.
  cbn [descend_rightmost]. cbn [wf_t] in Hwf.
  destruct (rightmost_f_spec f Hwf out) as [[-> Hr]|(l & c & Hin & Hmax & Hr)]; rewrite Hr.
  - destruct tm.
    + exists []. rewrite app_nil_r. split; [|reflexivity]. split.
      * apply in_keys_t. now left.
      * intros k' H. apply in_keys_t in H as [[_ ->]|[]]. apply ble_refl.
    + exfalso. apply Hne. reflexivity.
  - destruct (wf_child f l c Hwf Hin) as (Wc & Nc).
    destruct (IH l c Hin Wc Nc (out ++ [l])) as (k' & (Hk1 & Hk2) & Hd).
    exists (l :: k'). rewrite Hd, app_snoc. split; [|reflexivity]. split.
    + now apply (in_keys_child tm f l c).
    + intros k2 H2. apply in_keys_t in H2 as [[_ ->]|H2]; [apply ble_nil_l|].
      apply in_keys_f in H2 as (l2 & c2 & k2' & Hin2 & -> & Hk2').
      apply ble_cons. pose proof (Hmax l2 c2 Hin2) as Hle.
      destruct (N.eq_dec l2 l) as [->|Hne2]; [|left; lia].
      right. split; [reflexivity|].
      rewrite (In_f_label_unique f l c2 c Hwf Hin2 Hin) in Hk2'. now apply Hk2.
Qed.

(** * [find_first_key_geq] *)

Lemma first_ge_spec : forall f tb, wf_f f ->
  match first_ge tb f with
  | FNil => forall l c, In_f l c f -> l < tb
  | FCons l c sibs =>
      In_f l c f /\ tb <= l /\ (forall l' c', In_f l' c' f -> l' < tb \/ l <= l') /\
      match sibs with
      | FNil => forall l' c', In_f l' c' f -> l' <= l
      | FCons l2 c2 _ => In_f l2 c2 f /\ l < l2 /\ forall l' c', In_f l' c' f -> l' <= l \/ l2 <= l'
      end
  end.
Proof.
  induction f as [|l0 c0 r IH] using forest_ind_simple; intros tb Hwf.
  - cbn. intros l c [].
  - cbn [wf_f] in Hwf. destruct Hwf as (W1 & W2 & W3 & W4).
    cbn [first_ge]. destruct (N.leb_spec tb l0) as [Hle|Hgt].
    + split; [left; auto|]. split; [assumption|]. split.
      * intros l' c' [[-> _]|Hin]; [right; lia|]. apply W4 in Hin. right. lia.
      * destruct r as [|l2 c2 r2].
        -- intros l' c' [[-> _]|[]]. lia.
        -- assert (Hin2 : In_f l2 c2 (FCons l2 c2 r2)) by (left; auto).
           split; [now right|]. split; [now apply (W4 l2 c2)|].
           cbn [wf_f] in W3. destruct W3 as (_ & _ & _ & W34).
           intros l' c' [[-> _]|[[-> _]|Hin]]; [left; lia|right; lia|].
           apply W34 in Hin. right. lia.
    + specialize (IH tb W3). destruct (first_ge tb r) as [|l c sibs].
      * intros l' c' [[-> _]|Hin]; [assumption|now apply (IH l' c')].
      * destruct IH as (Hin & Hle & Hall & Hs). split; [now right|]. split; [assumption|]. split.
        -- intros l' c' [[-> _]|Hin']; [now left|now apply (Hall l' c')].
        -- destruct sibs as [|l2 c2 s2].
           ++ intros l' c' [[-> _]|Hin']; [lia|now apply (Hs l' c')].
           ++ destruct Hs as (Hin2 & Hlt2 & Hall2). split; [now right|]. split; [assumption|].
              intros l' c' [[-> _]|Hin']; [left; lia|now apply (Hall2 l' c')].
Qed.

Lemma geq_loop_spec : forall target t path stack, wf_t t -> keys_t t <> [] ->
  (exists k, In k (keys_t t) /\ ble target k /\
             (forall k', In k' (keys_t t) -> ble target k' -> ble k k') /\
             geq_loop target t path stack = Some (path ++ k))
  \/ ((forall k, In k (keys_t t) -> blt k target) /\
      geq_loop target t path stack = backtrack_ge stack).
Proof.
  induction target as [|tb rest IH]; intros t path stack Hwf Hne.
  - left. destruct (descend_leftmost_spec t Hwf Hne path) as (k & (Hk1 & Hk2) & Hd).
    exists k. cbn [geq_loop]. split; [assumption|]. split; [apply ble_nil_l|]. split; [|assumption].
    intros k' Hk' _. now apply Hk2.
  - destruct t as [tm f]. cbn [wf_t] in Hwf. cbn [geq_loop t_children].
    pose proof (first_ge_spec f tb Hwf) as Hfg.
    destruct (first_ge tb f) as [|l c sibs].
    + right. split; [|reflexivity].
      intros k Hk. apply in_keys_t in Hk as [[_ ->]|Hk]; [reflexivity|].
      apply in_keys_f in Hk as (l2 & c2 & k2 & Hin2 & -> & _).
      apply blt_cons. left. now apply (Hfg l2 c2).
    + destruct Hfg as (Hin & Hle & Hall & Hs).
      destruct (wf_child f l c Hwf Hin) as (Wc & Nc).
      destruct (N.eqb_spec l tb) as [->|Hne2].
      * (* follow the equal edge *)
        destruct (IH c (path ++ [tb]) ((sibs, path) :: stack) Wc Nc)
          as [(k' & Hk1 & Hk2 & Hk3 & Hg)|(Hlt & Hg)]; rewrite Hg.
        -- left. exists (tb :: k'). rewrite app_snoc. split; [now apply (in_keys_child tm f tb c)|].
           split; [apply ble_cons; right; auto|]. split; [|reflexivity].
           intros k2 Hk2in Hge. apply in_keys_t in Hk2in as [[_ ->]|Hk2in].
           { apply ble_nil_r in Hge. discriminate Hge. }
           apply in_keys_f in Hk2in as (l2 & c2 & k2' & Hin2 & -> & Hk2').
           apply ble_cons in Hge. apply ble_cons. destruct Hge as [Hlt|[<- Hge]]; [now left|].
           right. split; [reflexivity|].
           rewrite (In_f_label_unique f tb c2 c Hwf Hin2 Hin) in Hk2'. now apply Hk3.
        -- cbn [backtrack_ge]. destruct sibs as [|l2 c2 s2].
           ++ right. split; [|reflexivity].
              intros k Hk. apply in_keys_t in Hk as [[_ ->]|Hk]; [reflexivity|].
              apply in_keys_f in Hk as (l3 & c3 & k3 & Hin3 & -> & Hk3).
              apply blt_cons. pose proof (Hs l3 c3 Hin3) as Hle3.
              destruct (N.eq_dec l3 tb) as [->|Hne3]; [|left; lia].
              right. split; [reflexivity|].
              rewrite (In_f_label_unique f tb c3 c Hwf Hin3 Hin) in Hk3. now apply Hlt.
           ++ destruct Hs as (Hin2 & Hlt2 & Hall2).
              destruct (wf_child f l2 c2 Hwf Hin2) as (Wc2 & Nc2).
              destruct (descend_leftmost_spec c2 Wc2 Nc2 (path ++ [l2])) as (km & (Hm1 & Hm2) & Hd).
              left. exists (l2 :: km). rewrite Hd, app_snoc.
              split; [now apply (in_keys_child tm f l2 c2)|].
              split; [apply ble_cons; left; assumption|]. split; [|reflexivity].
              intros k3 Hk3in Hge. apply in_keys_t in Hk3in as [[_ ->]|Hk3in].
              { apply ble_nil_r in Hge. discriminate Hge. }
              apply in_keys_f in Hk3in as (l3 & c3 & k3' & Hin3 & -> & Hk3').
              apply ble_cons in Hge. apply ble_cons.
              destruct Hge as [Hlt3|[<- Hge]].
              ** destruct (Hall2 l3 c3 Hin3) as [H|H]; [lia|].
                 destruct (N.eq_dec l3 l2) as [->|Hne3]; [|left; lia].
                 right. split; [reflexivity|].
                 rewrite (In_f_label_unique f l2 c3 c2 Hwf Hin3 Hin2) in Hk3'. now apply Hm2.
              ** exfalso. rewrite (In_f_label_unique f tb c3 c Hwf Hin3 Hin) in Hk3'.
                 apply Hlt in Hk3'. now apply not_blt_ble in Hge.
      * (* first greater edge: leftmost key under it *)
        assert (Hlt : tb < l) by lia.
        destruct (descend_leftmost_spec c Wc Nc (path ++ [l])) as (km & (Hm1 & Hm2) & Hd).
        left. exists (l :: km). rewrite Hd, app_snoc.
        split; [now apply (in_keys_child tm f l c)|].
        split; [apply ble_cons; left; assumption|]. split; [|reflexivity].
        intros k3 Hk3in Hge. apply in_keys_t in Hk3in as [[_ ->]|Hk3in].
        { apply ble_nil_r in Hge. discriminate Hge. }
        apply in_keys_f in Hk3in as (l3 & c3 & k3' & Hin3 & -> & Hk3').
        apply ble_cons in Hge. apply ble_cons.
        destruct (Hall l3 c3 Hin3) as [H|H]; [destruct Hge as [Hge|[Hge _]]; lia|].
        destruct (N.eq_dec l3 l) as [->|Hne3]; [|left; lia].
        right. split; [reflexivity|].
        rewrite (In_f_label_unique f l c3 c Hwf Hin3 Hin) in Hk3'. now apply Hm2.
Qed.

(** [find_first_key_geq] returns the least key >= target, [None] iff there is none — for every
    key list (any lengths, duplicates, any order). *)
Theorem first_geq_spec : forall ks target,
  match find_first_key_geq (t_build ks) target with
  | Some r => In r ks /\ ble target r /\ forall k, In k ks -> ble target k -> ble r k
  | None => forall k, In k ks -> blt k target
  end.
Proof.
  intros ks target. destruct (t_build_spec ks) as (W & K). unfold find_first_key_geq.
  assert (D : keys_t (t_build ks) = [] \/ keys_t (t_build ks) <> [])
    by (destruct (keys_t (t_build ks)); [left; reflexivity|right; discriminate]).
  destruct D as [Hk|Hne].
  - rewrite (wf_nokeys _ W Hk).
    assert (E : geq_loop target t_empty [] [] = None) by (destruct target; reflexivity).
    rewrite E. intros k Hin. apply K in Hin. rewrite Hk in Hin. destruct Hin.
  - destruct (geq_loop_spec target (t_build ks) [] [] W Hne)
      as [(k & Hk1 & Hk2 & Hk3 & Hg)|(Hlt & Hg)]; rewrite Hg.
    + cbn [app]. split; [now apply K|]. split; [assumption|].
      intros k' Hin. apply Hk3. now apply K.
    + cbn [backtrack_ge]. intros k Hin. apply Hlt. now apply K.
Qed.

(** * [find_last_key_leq] *)

Lemma scan_le_spec : forall f tb, wf_f f ->
  match scan_le tb f with
  | (_, None) => forall l c, In_f l c f -> tb < l
  | (pp, Some (l, c)) =>
      In_f l c f /\ l <= tb /\ (forall l' c', In_f l' c' f -> l' <= l \/ tb < l') /\
      match pp with
      | None => forall l' c', In_f l' c' f -> l <= l'
      | Some (l0, c0) => In_f l0 c0 f /\ l0 < l /\ forall l' c', In_f l' c' f -> l' <= l0 \/ l <= l'
      end
  end.
Proof.
  induction f as [|l1 c1 r IH] using forest_ind_simple; intros tb Hwf.
  - cbn. intros l c [].
  - cbn [wf_f] in Hwf. destruct Hwf as (W1 & W2 & W3 & W4).
    cbn [scan_le]. destruct (N.leb_spec l1 tb) as [Hle|Hgt].
    + specialize (IH tb W3). destruct (scan_le tb r) as [pp [[l c]|]].
      * destruct IH as (Hin & Hl & Hall & Hpp).
        pose proof (W4 l c Hin) as Hl1.
        split; [now right|]. split; [assumption|]. split.
        -- intros l' c' [[-> _]|Hin']; [left; lia|now apply (Hall l' c')].
        -- destruct pp as [[l0 c0]|].
           ++ destruct Hpp as (Hin0 & Hlt0 & Hall0). split; [now right|]. split; [assumption|].
              intros l' c' [[-> _]|Hin']; [|now apply (Hall0 l' c')].
              apply W4 in Hin0. left. lia.
           ++ split; [left; auto|]. split; [assumption|].
              intros l' c' [[-> _]|Hin']; [left; lia|]. right. now apply (Hpp l' c').
      * split; [left; auto|]. split; [assumption|]. split.
        -- intros l' c' [[-> _]|Hin']; [left; lia|]. right. now apply (IH l' c').
        -- intros l' c' [[-> _]|Hin']; [lia|]. apply W4 in Hin'. lia.
    + intros l c [[-> _]|Hin]; [assumption|]. apply W4 in Hin. lia.
Qed.

Definition no_proper_prefix (S : list bytes) (target : bytes) : Prop :=
  forall k, In k S -> ~ proper_prefix k target.

Definition bt_some (stack : list (option (N * trie) * bytes)) : Prop :=
  exists k, backtrack_le stack = Some (Some k).

Lemma proper_prefix_cons : forall x k t, proper_prefix k t -> proper_prefix (x :: k) (x :: t).
Proof. intros x k t (s & Hs & ->). exists s. split; [assumption|reflexivity]. Qed.

Lemma nil_proper_prefix : forall x t, proper_prefix [] (x :: t).
Proof. intros x t. exists (x :: t). split; [discriminate|reflexivity]. Qed.

(** No false "none": if no key is a proper prefix of the target, a key <= target (or a
    usable backtrack point) makes the search succeed. *)
Lemma leq_loop_sound : forall target t path stack, wf_t t -> keys_t t <> [] ->
  no_proper_prefix (keys_t t) target ->
  ((exists k, In k (keys_t t) /\ ble k target) -> leq_loop target t path stack <> None) /\
  (bt_some stack -> leq_loop target t path stack <> None).
Proof.
  induction target as [|tb rest IH]; intros t path stack Hwf Hne Hnp.
  - cbn [leq_loop]. destruct (descend_rightmost_spec t Hwf Hne path) as (k & _ & Hd).
    rewrite Hd. split; intros _; discriminate.
  - destruct t as [tm f]. cbn [wf_t] in Hwf. cbn [leq_loop t_children t_terminal].
    pose proof (scan_le_spec f tb Hwf) as Hs.
    destruct (scan_le tb f) as [pp [[l c]|]].
    + destruct Hs as (Hin & Hl & Hall & Hpp).
      destruct (wf_child f l c Hwf Hin) as (Wc & Nc).
      destruct (N.eqb_spec l tb) as [->|Hne2].
      * assert (Hnpc : no_proper_prefix (keys_t c) rest).
        { intros k Hk Hp. apply (Hnp (tb :: k)); [now apply (in_keys_child tm f tb c)|].
          now apply proper_prefix_cons. }
        destruct (IH c (path ++ [tb]) ((pp, path) :: stack) Wc Nc Hnpc) as (I1 & I2).
        assert (Hbt : (exists l0 c0, pp = Some (l0, c0)) \/ bt_some stack -> bt_some ((pp, path) :: stack)).
        { intros [(l0 & c0 & ->)|Hb].
          - destruct Hpp as (Hin0 & _). destruct (wf_child f l0 c0 Hwf Hin0) as (W0 & N0).
            destruct (descend_rightmost_spec c0 W0 N0 (path ++ [l0])) as (k0 & _ & Hd).
            exists (path ++ [l0] ++ k0). cbn [backtrack_le]. rewrite Hd, app_assoc. reflexivity.
          - destruct pp as [[l0 c0]|]; [|exact Hb].
            destruct Hpp as (Hin0 & _). destruct (wf_child f l0 c0 Hwf Hin0) as (W0 & N0).
            destruct (descend_rightmost_spec c0 W0 N0 (path ++ [l0])) as (k0 & _ & Hd).
            exists (path ++ [l0] ++ k0). cbn [backtrack_le]. rewrite Hd, app_assoc. reflexivity. }
        split.
        -- intros (k & Hk & Hle). apply in_keys_t in Hk as [[Htm ->]|Hk].
           { exfalso. apply (Hnp []); [apply in_keys_t; left; auto|apply nil_proper_prefix]. }
           apply in_keys_f in Hk as (l2 & c2 & k2 & Hin2 & -> & Hk2).
           apply ble_cons in Hle. destruct Hle as [Hlt|[-> Hle]].
           ++ apply I2. apply Hbt. left. destruct pp as [[l0 c0]|]; [now exists l0, c0|].
              exfalso. pose proof (Hpp l2 c2 Hin2). lia.
           ++ apply I1. exists k2. split; [|assumption].
              now rewrite <- (In_f_label_unique f tb c2 c Hwf Hin2 Hin).
        -- intros Hb. apply I2. apply Hbt. now right.
      * destruct (descend_rightmost_spec c Wc Nc (path ++ [l])) as (k0 & _ & Hd). rewrite Hd.
        split; intros _; discriminate.
    + split.
      * intros (k & Hk & Hle). exfalso. apply in_keys_t in Hk as [[Htm ->]|Hk].
        -- apply (Hnp []); [apply in_keys_t; left; auto|apply nil_proper_prefix].
        -- apply in_keys_f in Hk as (l2 & c2 & k2 & Hin2 & -> & Hk2).
           apply ble_cons in Hle. pose proof (Hs l2 c2 Hin2). destruct Hle as [Hlt|[-> _]]; lia.
      * intros (k & Hb). rewrite Hb. discriminate.
Qed.

Definition uniform (n : nat) (S : list bytes) : Prop := forall k, In k S -> length k = n.

Definition bt_result (stack : list (option (N * trie) * bytes)) : option bytes :=
  match backtrack_le stack with Some r => r | None => None end.

(** Exactness for keys of the target's length: the greatest key <= target, or the
    backtracking result when there is none under this node. *)
Lemma leq_loop_exact : forall target t path stack, wf_t t -> keys_t t <> [] ->
  uniform (length target) (keys_t t) ->
  (exists k, In k (keys_t t) /\ ble k target /\
             (forall k', In k' (keys_t t) -> ble k' target -> ble k' k) /\
             leq_loop target t path stack = Some (path ++ k))
  \/ ((forall k, In k (keys_t t) -> blt target k) /\
      leq_loop target t path stack = bt_result stack).
Proof.
  induction target as [|tb rest IH]; intros t path stack Hwf Hne Hu.
  - left. cbn [leq_loop]. destruct (descend_rightmost_spec t Hwf Hne path) as (k & (Hk1 & Hk2) & Hd).
    rewrite Hd. exists k. split; [assumption|].
    assert (Hnil : forall k', In k' (keys_t t) -> k' = []).
    { intros k' Hk'. apply Hu in Hk'. destruct k'; [reflexivity|discriminate]. }
    rewrite (Hnil k Hk1). split; [apply ble_refl|]. split; [|reflexivity].
    intros k' Hk' _. rewrite (Hnil k' Hk'). apply ble_refl.
  - destruct t as [tm f]. cbn [wf_t] in Hwf.
    assert (Htm : tm = false).
    { destruct tm; [|reflexivity]. exfalso.
      assert (Hin : In [] (keys_t (Node true f))) by (apply in_keys_t; left; auto).
      apply Hu in Hin. discriminate. }
    subst tm.
    assert (Huc : forall l c, In_f l c f -> uniform (length rest) (keys_t c)).
    { intros l c Hin k Hk. assert (Hk' : In (l :: k) (keys_t (Node false f))) by now apply (in_keys_child false f l c).
      apply Hu in Hk'. cbn [length] in Hk'. lia. }
    assert (Hkeys : forall k, In k (keys_t (Node false f)) ->
                    exists l c k', In_f l c f /\ k = l :: k' /\ In k' (keys_t c)).
    { intros k Hk. apply in_keys_t in Hk as [[E _]|Hk]; [discriminate|]. now apply in_keys_f. }
    cbn [leq_loop t_children t_terminal].
    pose proof (scan_le_spec f tb Hwf) as Hs.
    destruct (scan_le tb f) as [pp [[l c]|]].
    + destruct Hs as (Hin & Hl & Hall & Hpp).
      destruct (wf_child f l c Hwf Hin) as (Wc & Nc).
      destruct (N.eqb_spec l tb) as [->|Hne2].
      * destruct (IH c (path ++ [tb]) ((pp, path) :: stack) Wc Nc (Huc tb c Hin))
          as [(k' & Hk1 & Hk2 & Hk3 & Hg)|(Hgt & Hg)]; rewrite Hg.
        -- left. exists (tb :: k'). rewrite app_snoc. split; [now apply (in_keys_child false f tb c)|].
           split; [apply ble_cons; right; auto|]. split; [|reflexivity].
           intros k2 Hk2in Hle. apply Hkeys in Hk2in as (l2 & c2 & k2' & Hin2 & -> & Hk2').
           apply ble_cons in Hle. apply ble_cons. destruct Hle as [Hlt|[-> Hle]]; [now left|].
           right. split; [reflexivity|].
           rewrite (In_f_label_unique f tb c2 c Hwf Hin2 Hin) in Hk2'. now apply Hk3.
        -- unfold bt_result. cbn [backtrack_le]. destruct pp as [[l0 c0]|].
           ++ destruct Hpp as (Hin0 & Hlt0 & Hall0).
              destruct (wf_child f l0 c0 Hwf Hin0) as (W0 & N0).
              destruct (descend_rightmost_spec c0 W0 N0 (path ++ [l0])) as (km & (Hm1 & Hm2) & Hd).
              left. exists (l0 :: km). rewrite Hd, app_snoc.
              split; [now apply (in_keys_child false f l0 c0)|].
              split; [apply ble_cons; left; assumption|]. split; [|reflexivity].
              intros k2 Hk2in Hle. apply Hkeys in Hk2in as (l2 & c2 & k2' & Hin2 & -> & Hk2').
              apply ble_cons in Hle. apply ble_cons.
              destruct (Hall0 l2 c2 Hin2) as [H|H].
              ** destruct (N.eq_dec l2 l0) as [->|Hne3]; [|left; lia].
                 right. split; [reflexivity|].
                 rewrite (In_f_label_unique f l0 c2 c0 Hwf Hin2 Hin0) in Hk2'. now apply Hm2.
              ** exfalso. destruct Hle as [Hlt|[-> Hle]]; [lia|].
                 rewrite (In_f_label_unique f tb c2 c Hwf Hin2 Hin) in Hk2'.
                 apply Hgt in Hk2'. now apply not_blt_ble in Hle.
           ++ right. split; [|reflexivity].
              intros k2 Hk2in. apply Hkeys in Hk2in as (l2 & c2 & k2' & Hin2 & -> & Hk2').
              apply blt_cons. pose proof (Hpp l2 c2 Hin2) as Hge.
              destruct (N.eq_dec l2 tb) as [->|Hne3]; [|left; lia].
              right. split; [reflexivity|].
              rewrite (In_f_label_unique f tb c2 c Hwf Hin2 Hin) in Hk2'. now apply Hgt.
      * assert (Hlt : l < tb) by lia.
        destruct (descend_rightmost_spec c Wc Nc (path ++ [l])) as (km & (Hm1 & Hm2) & Hd).
        left. exists (l :: km). rewrite Hd, app_snoc.
        split; [now apply (in_keys_child false f l c)|].
        split; [apply ble_cons; left; assumption|]. split; [|reflexivity].
        intros k2 Hk2in Hle. apply Hkeys in Hk2in as (l2 & c2 & k2' & Hin2 & -> & Hk2').
        apply ble_cons in Hle. apply ble_cons.
        destruct (Hall l2 c2 Hin2) as [H|H]; [|destruct Hle as [Hle|[Hle _]]; lia].
        destruct (N.eq_dec l2 l) as [->|Hne3]; [|left; lia].
        right. split; [reflexivity|].
        rewrite (In_f_label_unique f l c2 c Hwf Hin2 Hin) in Hk2'. now apply Hm2.
    + right. split.
      * intros k2 Hk2in. apply Hkeys in Hk2in as (l2 & c2 & k2' & Hin2 & -> & Hk2').
        apply blt_cons. left. now apply (Hs l2 c2).
      * unfold bt_result. destruct (backtrack_le stack); reflexivity.
Qed.

(** [find_last_key_leq] on keys of the target's length: the greatest key <= target *)
Theorem last_leq_spec_uniform : forall ks target,
  (forall k, In k ks -> length k = length target) ->
  match find_last_key_leq (t_build ks) target with
  | Some r => In r ks /\ ble r target /\ forall k, In k ks -> ble k target -> ble k r
  | None => forall k, In k ks -> blt target k
  end.
Proof.
  intros ks target Hu. destruct (t_build_spec ks) as (W & K). unfold find_last_key_leq.
  assert (D : keys_t (t_build ks) = [] \/ keys_t (t_build ks) <> [])
    by (destruct (keys_t (t_build ks)); [left; reflexivity|right; discriminate]).
  destruct D as [Hk|Hne].
  - rewrite (wf_nokeys _ W Hk).
    assert (E : leq_loop target t_empty [] [] = None) by (destruct target; reflexivity).
    rewrite E. intros k Hin. apply K in Hin. rewrite Hk in Hin. destruct Hin.
  - assert (Hu' : uniform (length target) (keys_t (t_build ks))).
    { intros k Hk. apply Hu. now apply K. }
    destruct (leq_loop_exact target (t_build ks) [] [] W Hne Hu')
      as [(k & Hk1 & Hk2 & Hk3 & Hg)|(Hgt & Hg)]; rewrite Hg.
    + cbn [app]. split; [now apply K|]. split; [assumption|].
      intros k' Hin. apply Hk3. now apply K.
    + cbn. intros k Hin. apply Hgt. now apply K.
Qed.

(** if no key is a proper prefix of the target, [None] means: no key <= target *)
Theorem last_leq_none_sound : forall ks target,
  (forall k, In k ks -> ~ proper_prefix k target) ->
  find_last_key_leq (t_build ks) target = None -> forall k, In k ks -> blt target k.
Proof.
  intros ks target Hnp Hnone k Hin. destruct (t_build_spec ks) as (W & K).
  assert (Hne : keys_t (t_build ks) <> []).
  { intros E. apply K in Hin. rewrite E in Hin. destruct Hin. }
  assert (Hnp' : no_proper_prefix (keys_t (t_build ks)) target).
  { intros k' Hk'. apply Hnp. now apply K. }
  destruct (leq_loop_sound target (t_build ks) [] [] W Hne Hnp') as (S1 & _).
  apply not_ble_blt. intros Hle. apply S1; [|exact Hnone].
  exists k. split; [now apply K|assumption].
Qed.

(** * [find_first_key], [find_last_key] *)

Lemma find_first_key_spec : forall ks k0, In k0 ks ->
  exists m, find_first_key (t_build ks) = Some m /\ In m ks /\ forall k, In k ks -> ble m k.
Proof.
  intros ks k0 Hin. destruct (t_build_spec ks) as (W & K).
  assert (Hne : keys_t (t_build ks) <> []).
  { intros E. apply K in Hin. rewrite E in Hin. destruct Hin. }
  destruct (descend_leftmost_spec _ W Hne []) as (m & (Hm1 & Hm2) & Hd).
  exists m. split; [exact Hd|]. split; [now apply K|]. intros k Hk. apply Hm2. now apply K.
Qed.

Lemma find_last_key_spec : forall ks k0, In k0 ks ->
  exists m, find_last_key (t_build ks) = Some m /\ In m ks /\ forall k, In k ks -> ble k m.
Proof.
  intros ks k0 Hin. destruct (t_build_spec ks) as (W & K).
  assert (Hne : keys_t (t_build ks) <> []).
  { intros E. apply K in Hin. rewrite E in Hin. destruct Hin. }
  destruct (descend_rightmost_spec _ W Hne []) as (m & (Hm1 & Hm2) & Hd).
  exists m. split; [exact Hd|]. split; [now apply K|]. intros k Hk. apply Hm2. now apply K.
Qed.

(** * [may_overlap_ge] / [may_overlap_le] *)

Definition cmp_lower (incl : bool) (lower k : bytes) : Prop := if incl then ble lower k else blt lower k.
Definition cmp_upper (incl : bool) (k upper : bytes) : Prop := if incl then ble k upper else blt k upper.

(** exact for every key list *)
Theorem may_overlap_ge_exact : forall ks lower incl,
  may_overlap_ge (t_build ks) lower incl = true <-> exists k, In k ks /\ cmp_lower incl lower k.
Proof.
  intros ks lower incl. unfold may_overlap_ge. pose proof (first_geq_spec ks lower) as Hs.
  destruct (find_first_key_geq (t_build ks) lower) as [r|].
  - destruct Hs as (Hr1 & Hr2 & Hr3). destruct incl.
    + split; [intros _; now exists r|reflexivity].
    + unfold cmp_lower. destruct (bytes_ltb lower r) eqn:Hlt.
      * split; [intros _; exists r; split; [assumption|now apply bytes_ltb_spec]|reflexivity].
      * assert (Hnlt : ~ blt lower r).
        { intros H. apply bytes_ltb_spec in H. unfold bytes_ltb in Hlt. congruence. }
        destruct (find_last_key_spec ks r Hr1) as (m & Hm & Hm1 & Hm2). rewrite Hm.
        split.
        -- intros H. exists m. split; [assumption|]. now apply bytes_ltb_spec.
        -- intros (k & Hk & Hgt). apply bytes_ltb_spec. apply (blt_le_trans lower k m); [exact Hgt|now apply Hm2].
  - split; [discriminate|]. intros (k & Hk & Hc). exfalso.
    specialize (Hs k Hk). unfold cmp_lower in Hc. destruct incl.
    + now apply not_blt_ble in Hc.
    + apply (blt_irrefl k). eapply blt_trans; eassumption.
Qed.

(** no false negative as soon as no key is a proper prefix of the bound *)
Theorem may_overlap_le_sound : forall ks upper incl,
  (forall k, In k ks -> ~ proper_prefix k upper) ->
  (exists k, In k ks /\ cmp_upper incl k upper) ->
  may_overlap_le (t_build ks) upper incl = true.
Proof.
  intros ks upper incl Hnp (k & Hk & Hc). unfold may_overlap_le.
  assert (Hle : ble k upper) by (destruct incl; [exact Hc|now apply blt_ble]).
  destruct (find_last_key_leq (t_build ks) upper) as [r|] eqn:Hr.
  - destruct incl; [reflexivity|]. unfold cmp_upper in Hc.
    destruct (bytes_ltb r upper); [reflexivity|].
    destruct (find_first_key_spec ks k Hk) as (m & Hm & Hm1 & Hm2). rewrite Hm.
    apply bytes_ltb_spec. apply (ble_lt_trans m k upper); [now apply Hm2|exact Hc].
  - exfalso. pose proof (last_leq_none_sound ks upper Hnp Hr k Hk) as Hgt.
    now apply not_blt_ble in Hle.
Qed.

(** exact for keys of the bound's length *)
Theorem may_overlap_le_exact_uniform : forall ks upper incl,
  (forall k, In k ks -> length k = length upper) ->
  (may_overlap_le (t_build ks) upper incl = true <-> exists k, In k ks /\ cmp_upper incl k upper).
Proof.
  intros ks upper incl Hu. split.
  - unfold may_overlap_le. pose proof (last_leq_spec_uniform ks upper Hu) as Hs.
    destruct (find_last_key_leq (t_build ks) upper) as [r|]; [|discriminate].
    destruct Hs as (Hr1 & Hr2 & Hr3). destruct incl.
    + intros _. now exists r.
    + unfold cmp_upper. destruct (bytes_ltb r upper) eqn:Hlt.
      * intros _. exists r. split; [assumption|now apply bytes_ltb_spec].
      * destruct (find_first_key_spec ks r Hr1) as (m & Hm & Hm1 & Hm2). rewrite Hm.
        intros H. exists m. split; [assumption|now apply bytes_ltb_spec].
  - apply may_overlap_le_sound. intros k Hk (s & Hs & E).
    apply Hu in Hk. rewrite E, app_length in Hk. destruct s; [congruence|cbn in Hk; lia].
Qed.

(** Mixed lengths break [find_last_key_leq]: with keys "a" and "abz" and target "aba" the
    search answers "none" although "a" <= "aba" (a terminal ancestor is forgotten when the
    descent dead-ends).  Unreachable through the builder, which only inserts 8-byte keys. *)
Theorem last_leq_prefix_refuted :
  exists ks target k,
    In k ks /\ ble k target /\
    find_last_key_leq (t_build ks) target = None /\
    may_overlap_le (t_build ks) target true = false.
Proof.
  exists [[97]; [97; 98; 122]], [97; 98; 97], [97].
  split; [now left|]. split; [unfold ble; vm_compute; discriminate|]. split; vm_compute; reflexivity.
Qed.

(** The known class of the latent defect of [find_last_key_leq]. *)
Definition SurfTrieProperPrefixKey (ks : list bytes) (target : bytes) : Prop :=
  exists k, In k ks /\ proper_prefix k target.

Theorem may_overlap_le_sound_outside_known : forall ks upper incl,
  ~ SurfTrieProperPrefixKey ks upper ->
  (exists k, In k ks /\ cmp_upper incl k upper) ->
  may_overlap_le (t_build ks) upper incl = true.
Proof.
  intros ks upper incl Hn. apply may_overlap_le_sound.
  intros k Hk Hp. apply Hn. now exists k.
Qed.

Example may_overlap_le_outside_known_inhabited :
  ~ SurfTrieProperPrefixKey [[1; 2]; [3]] [2; 0] /\
  (exists k, In k [[1; 2]; [3]] /\ cmp_upper true k [2; 0]).
Proof.
  split.
  - intros (k & [<-|[<-|[]]] & (s & Hs & E)); discriminate E.
  - exists [1; 2]. split; [now left|]. unfold cmp_upper, ble. vm_compute. discriminate.
Qed.
