(** Token validation and trimming on printed text: a text whose characters outside string
    literals are token characters, and whose string literals contain no backslash, yields no
    [<INVALID>] token and no out-of-domain token; a text that starts with a letter and ends with
    a non-blank ASCII character is left alone by [str::trim]. *)
From Coq Require Import NArith Arith List Bool Lia.
From Coq Require Import ZifyBool ZifyNat ZifyN.
From Snel Require Import Base.Bytes Gen.Params Model.Tokenizer Model.Parser Model.Command Model.Printer Proofs.ParserBasics.
Import ListNotations.
Open Scope N_scope.

(** * Characters that are tokens by themselves or parts of words / numbers *)

Definition outc (c : N) : bool :=
  is_tws c || (c =? 123) || (c =? 125) || (c =? 59) || is_digit c || (c =? 45) || is_symchar c
  || (c =? 91) || (c =? 93) || (c =? 40) || (c =? 41) || is_wordchar c.

(** facts about the regenerated symbol set, by computation: no symbol character is a letter, a digit,
    an identifier character other than '.', a quote, a backslash, white space or non-ASCII; and the
    characters the printer relies on are symbols *)
Definition sym_side (k : N) : bool :=
  negb (is_alpha k) && negb (is_digit k) && negb (k =? 95) && negb (k =? 45) && negb (k =? 34) && negb (k =? 92)
  && negb (is_ascii_ws k) && (k <? 128).

Lemma sym_side_all : forallb sym_side tokenizer_symbol_chars = true.
Proof. vm_compute. reflexivity. Qed.

Lemma symchar_side : forall c, is_symchar c = true -> sym_side c = true.
Proof.
  intros c H. unfold is_symchar in H. apply existsb_exists in H as (k & Hin & E). apply N.eqb_eq in E. subst k.
  pose proof sym_side_all as A. rewrite forallb_forall in A. auto.
Qed.

Lemma printer_symbols : forallb is_symchar [46; 44; 61; 62; 60; 33] = true.
Proof. vm_compute. reflexivity. Qed.

(** the two-state scan: outside / inside a string literal (backslash escapes one char) *)
Fixpoint lex_ok (instr : bool) (s : bytes) : bool :=
  match s with
  | [] => true
  | c :: r =>
      if instr then
        if c =? 34 then lex_ok false r
        else if c =? 92 then match r with [] => true | _ :: r' => lex_ok true r' end
        else lex_ok true r
      else
        if c =? 34 then lex_ok true r
        else outc c && lex_ok false r
  end.

Definition tok_clean (t : token) : bool := negb (is_invalid t) && negb (is_nonascii t).

Lemma lex_in_string : forall s acc str r, scan_string s acc = (str, r) -> lex_ok true s = true -> lex_ok false r = true.
Proof.
  fix IH 1. intros [|c s] acc str r H L; cbn [scan_string] in H; cbn [lex_ok] in L.
  - inversion H; subst. reflexivity.
  - destruct (c =? 34); [inversion H; subst; exact L|].
    destruct (c =? 92).
    + destruct s as [|e s']; [inversion H; subst; reflexivity|]. eapply IH; eauto.
    + eapply IH; eauto.
Qed.

Lemma lex_span : forall p s a r, span p s = (a, r) -> (forall c, p c = true -> (c =? 34) = false) ->
  lex_ok false s = true -> lex_ok false r = true.
Proof.
  induction s as [|c s IH]; intros a r H Hp L; cbn [span] in H.
  - inversion H; subst. reflexivity.
  - destruct (p c) eqn:E.
    + destruct (span p s) as [a' r'] eqn:S. inversion H; subst. cbn [lex_ok] in L. rewrite (Hp c E) in L.
      apply andb_prop in L as [_ L]. eapply IH; eauto.
    + inversion H; subst. exact L.
Qed.

Lemma numchar_noquote : forall c, is_numchar c = true -> (c =? 34) = false.
Proof. intros c H. unfold is_numchar, is_digit in H. lia. Qed.
Lemma wordchar_noquote : forall c, is_wordchar c = true -> (c =? 34) = false.
Proof. intros c H. unfold is_wordchar, is_alnum, is_alpha, is_digit in H. lia. Qed.

Lemma tokens_clean : forall f s, lex_ok false s = true -> forallb tok_clean (tokenize_fuel f s) = true.
Proof.
  induction f as [|f IH]; intros s L; [reflexivity|]. destruct s as [|c r]; [reflexivity|].
  cbn [tokenize_fuel]. cbn [lex_ok] in L. unfold next_token.
  destruct (is_tws c) eqn:T1.
  { assert (E : (c =? 34) = false) by (unfold is_tws in T1; lia). rewrite E in L. apply andb_prop in L as [_ L]. auto. }
  destruct (c =? 123) eqn:T2.
  { assert (E : (c =? 34) = false) by lia. rewrite E in L. apply andb_prop in L as [_ L]. cbn [forallb tok_clean is_invalid is_nonascii negb andb]. auto. }
  destruct (c =? 125) eqn:T3.
  { assert (E : (c =? 34) = false) by lia. rewrite E in L. apply andb_prop in L as [_ L]. cbn [forallb tok_clean is_invalid is_nonascii negb andb]. auto. }
  destruct (c =? 59) eqn:T4.
  { assert (E : (c =? 34) = false) by lia. rewrite E in L. apply andb_prop in L as [_ L]. cbn [forallb tok_clean is_invalid is_nonascii negb andb]. auto. }
  destruct (c =? 34) eqn:T5.
  { destruct (scan_string r []) as [str r'] eqn:S. cbn [forallb tok_clean is_invalid is_nonascii negb andb].
    apply IH. eapply lex_in_string; eauto. }
  apply andb_prop in L as [Lc L].
  destruct (is_digit c || (c =? 45)) eqn:T6.
  { destruct (span is_numchar r) as [a r'] eqn:S. cbn [forallb tok_clean is_invalid is_nonascii negb andb].
    apply IH. eapply lex_span; eauto using numchar_noquote. }
  destruct (is_symchar c) eqn:T7; [cbn [forallb tok_clean is_invalid is_nonascii negb andb]; auto|].
  destruct (c =? 91) eqn:T8; [cbn [forallb tok_clean is_invalid is_nonascii negb andb]; auto|].
  destruct (c =? 93) eqn:T9; [cbn [forallb tok_clean is_invalid is_nonascii negb andb]; auto|].
  destruct (c =? 40) eqn:T10; [cbn [forallb tok_clean is_invalid is_nonascii negb andb]; auto|].
  destruct (c =? 41) eqn:T11; [cbn [forallb tok_clean is_invalid is_nonascii negb andb]; auto|].
  assert (Hw : is_wordchar c = true).
  { unfold outc in Lc. rewrite T1, T2, T3, T4, T7, T8, T9, T10, T11 in Lc.
    apply orb_false_elim in T6 as [T6a T6b]. rewrite T6a, T6b in Lc. cbn [orb] in Lc. exact Lc. }
  destruct (128 <=? c) eqn:T12.
  { exfalso. unfold is_wordchar, is_alnum, is_alpha, is_digit in Hw. lia. }
  rewrite Hw. destruct (span is_wordchar r) as [a r'] eqn:S. cbn [forallb tok_clean is_invalid is_nonascii negb andb].
  apply IH. eapply lex_span; eauto using wordchar_noquote.
Qed.

Lemma clean_valid : forall ts, forallb tok_clean ts = true -> tokens_valid ts = true /\ tokens_in_domain ts = true.
Proof.
  induction ts as [|t ts IH]; intro H; [split; reflexivity|]. cbn [forallb] in H. apply andb_prop in H as [Ht H].
  destruct (IH H) as [I1 I2]. unfold tok_clean in Ht. apply andb_prop in Ht as [H1 H2].
  unfold tokens_valid, tokens_in_domain in *. cbn [existsb].
  apply negb_true_iff in H1, H2. rewrite H1, H2. cbn [orb]. auto.
Qed.

(** * Text that leaves the scan outside a string *)

Definition neutral (t : bytes) : Prop := forall b, lex_ok false (t ++ b) = lex_ok false b.

Lemma neutral_nil : neutral [].
Proof. intro b. reflexivity. Qed.
Lemma neutral_app : forall a b, neutral a -> neutral b -> neutral (a ++ b).
Proof. intros a b Ha Hb c. rewrite <- app_assoc, Ha, Hb. reflexivity. Qed.
Lemma outc_noquote : forall c, outc c = true -> (c =? 34) = false.
Proof.
  intros c Hc. destruct (is_symchar c) eqn:S.
  - apply symchar_side in S. unfold sym_side in S. lia.
  - unfold outc in Hc. rewrite S in Hc. unfold is_tws, is_digit, is_wordchar, is_alnum, is_alpha, is_digit in Hc. lia.
Qed.

Lemma neutral_cons : forall c t, outc c = true -> neutral t -> neutral (c :: t).
Proof.
  intros c t Hc Ht b. cbn [app lex_ok]. rewrite (outc_noquote c Hc), Hc. apply Ht.
Qed.
Lemma neutral_plain : forall t, forallb outc t = true -> neutral t.
Proof.
  induction t as [|c t IH]; intro H; [apply neutral_nil|]. cbn [forallb] in H. apply andb_prop in H as [Hc H].
  apply neutral_cons; auto.
Qed.

Lemma lex_instr_clean : forall s b, no_quote s = true -> no_backslash s = true ->
  lex_ok true (s ++ 34 :: b) = lex_ok false b.
Proof.
  induction s as [|c s IH]; intros b Hq Hb; cbn [app lex_ok].
  - reflexivity.
  - cbn [no_quote no_backslash forallb] in Hq, Hb. apply andb_prop in Hq as [Hq1 Hq2]. apply andb_prop in Hb as [Hb1 Hb2].
    apply negb_true_iff in Hq1, Hb1. rewrite Hq1, Hb1. apply IH; auto.
Qed.

Lemma neutral_quoted : forall s, no_quote s = true -> no_backslash s = true -> neutral (34 :: s ++ [34]).
Proof. intros s Hq Hb b. cbn [app lex_ok]. rewrite <- app_assoc. cbn [app]. apply lex_instr_clean; auto. Qed.

(** * [str::trim] on a text that starts and ends with non-blank ASCII *)

Definition edge_ok (c : N) : bool := negb (is_ascii_ws c) && (c <? 128).

Lemma strip_any_ascii : forall c r, c <? 128 = true -> strip_any uws_seqs (c :: r) = None.
Proof.
  intros c r H. unfold uws_seqs. cbn [strip_any strip_prefix].
  replace (194 =? c) with false by lia. replace (225 =? c) with false by lia.
  replace (226 =? c) with false by lia. replace (227 =? c) with false by lia. reflexivity.
Qed.

Lemma strip_any_ascii_rev : forall c r, c <? 128 = true -> strip_any (map (@frev N) uws_seqs) (c :: r) = None.
Proof.
  intros c r H. unfold uws_seqs, frev. cbn [map rev_append strip_any strip_prefix].
  replace (133 =? c) with false by lia. replace (160 =? c) with false by lia. replace (128 =? c) with false by lia.
  replace (129 =? c) with false by lia. replace (130 =? c) with false by lia. replace (131 =? c) with false by lia.
  replace (132 =? c) with false by lia. replace (134 =? c) with false by lia. replace (135 =? c) with false by lia.
  replace (136 =? c) with false by lia. replace (137 =? c) with false by lia. replace (138 =? c) with false by lia.
  replace (168 =? c) with false by lia. replace (169 =? c) with false by lia. replace (175 =? c) with false by lia.
  replace (159 =? c) with false by lia. reflexivity.
Qed.

Lemma frev_rev : forall A (l : list A), frev l = rev l.
Proof. intros. unfold frev. rewrite rev_append_rev, app_nil_r. reflexivity. Qed.

Lemma utrim_id : forall c0 r body c, c0 :: r = body ++ [c] -> edge_ok c0 = true -> edge_ok c = true ->
  utrim (c0 :: r) = c0 :: r.
Proof.
  intros c0 r body c E H0 Hc. unfold edge_ok in *. apply andb_prop in H0 as [H0a H0b]. apply andb_prop in Hc as [Hca Hcb].
  apply negb_true_iff in H0a, Hca.
  assert (E1 : utrim_start (c0 :: r) = c0 :: r).
  { unfold utrim_start. cbn [length utrim_start_fuel]. rewrite H0a, (strip_any_ascii c0 r H0b). reflexivity. }
  unfold utrim. rewrite E1. unfold utrim_e. rewrite !frev_rev, E, rev_app_distr. cbn [rev app].
  rewrite app_length. cbn [length]. rewrite Nat.add_1_r. cbn [utrim_end_fuel].
  rewrite Hca, (strip_any_ascii_rev c (rev body) Hcb). cbn [rev]. rewrite rev_involutive. reflexivity.
Qed.

(** texts that end with a non-blank ASCII character *)
Definition endok (t : bytes) : Prop := exists body c, t = body ++ [c] /\ edge_ok c = true.

Lemma endok_app : forall a b, endok b -> endok (a ++ b).
Proof. intros a b (body & c & -> & H). exists (a ++ body), c. rewrite app_assoc. auto. Qed.
Lemma endok_cons : forall x b, endok b -> endok (x :: b).
Proof. intros x b H. apply (endok_app [x] b H). Qed.
Lemma endok_last : forall body c, edge_ok c = true -> endok (body ++ [c]).
Proof. intros. exists body, c. auto. Qed.
Lemma endok_nonempty_all : forall t, t <> [] -> forallb edge_ok t = true -> endok t.
Proof.
  intros t Hne H. destruct (exists_last Hne) as (body & c & ->). exists body, c. split; auto.
  rewrite forallb_app in H. apply andb_prop in H as [_ H]. cbn in H. apply andb_prop in H. tauto.
Qed.
