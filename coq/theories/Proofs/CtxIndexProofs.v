(** Proofs over Model/CtxIndex.v: the context index built by [ZoneWriter::write_all] lists, for
    every (event type, context), every zone that holds a row of that context - for all lists
    of zone plans (any ids, any order, any row counts), by induction. *)
From Coq Require Import NArith List Bool Lia.
From Snel Require Import Base.Bytes Model.CtxIndex.
Import ListNotations.
Open Scope N_scope.

Lemma beqb_eq : forall a b, bytes_eqb a b = true <-> a = b.
Proof.
  induction a as [|x a IH]; destruct b as [|y b]; simpl; split; intro H;
    try reflexivity; try discriminate H.
  - apply andb_true_iff in H. destruct H as [H1 H2].
    apply N.eqb_eq in H1. apply IH in H2. now subst.
  - injection H as -> ->. apply andb_true_iff. split; [apply N.eqb_refl | now apply IH].
Qed.

Lemma beqb_refl : forall a, bytes_eqb a a = true.
Proof. intro a. now apply beqb_eq. Qed.

Lemma beqb_neq : forall a b, a <> b -> bytes_eqb a b = false.
Proof.
  intros a b H. destruct (bytes_eqb a b) eqn:E; [|reflexivity].
  apply beqb_eq in E. contradiction.
Qed.

(** * the string map *)
Lemma sm_get_upd_same : forall (A : Type) k (f : option A -> A) m,
  sm_get k (sm_upd k f m) = Some (f (sm_get k m)).
Proof.
  intros A k f m. induction m as [|[k' v] r IH]; simpl.
  - now rewrite beqb_refl.
  - destruct (bytes_eqb k k') eqn:E; simpl; rewrite E; [reflexivity | exact IH].
Qed.

Lemma sm_get_upd_other : forall (A : Type) k k2 (f : option A -> A) m,
  k <> k2 -> sm_get k2 (sm_upd k f m) = sm_get k2 m.
Proof.
  intros A k k2 f m Hne. induction m as [|[k' v] r IH]; simpl.
  - rewrite beqb_neq; [reflexivity | congruence].
  - destruct (bytes_eqb k k') eqn:E; simpl.
    + apply beqb_eq in E. subst k'. rewrite beqb_neq; [reflexivity | congruence].
    + now rewrite IH.
Qed.

Lemma sm_get_in : forall (A : Type) k (v : A) m, sm_get k m = Some v -> In v (map snd m).
Proof.
  intros A k v m. induction m as [|[k' v'] r IH]; simpl; [discriminate|].
  destruct (bytes_eqb k k'); intro H.
  - left. congruence.
  - right. now apply IH.
Qed.

(** * one insertion *)
Lemma zones_of_insert_same : forall et c z ix,
  zones_of (insert et c z ix) et c = zones_of ix et c ++ [z].
Proof.
  intros. unfold zones_of, insert.
  rewrite sm_get_upd_same. simpl. rewrite sm_get_upd_same. reflexivity.
Qed.

Lemma zones_of_insert_other : forall et c z ix et' c',
  (et, c) <> (et', c') -> zones_of (insert et c z ix) et' c' = zones_of ix et' c'.
Proof.
  intros et c z ix et' c' Hne. unfold zones_of, insert.
  destruct (bytes_eqb et et') eqn:E.
  - apply beqb_eq in E. subst et'. rewrite sm_get_upd_same. simpl.
    rewrite sm_get_upd_other; [reflexivity | congruence].
  - rewrite sm_get_upd_other; [reflexivity|].
    intro H. subst. rewrite beqb_refl in E. discriminate E.
Qed.

Lemma insert_mono : forall et c z ix et' c' x,
  In x (zones_of ix et' c') -> In x (zones_of (insert et c z ix) et' c').
Proof.
  intros et c z ix et' c' x H.
  destruct (bytes_eqb et et') eqn:E1; [destruct (bytes_eqb c c') eqn:E2|].
  - apply beqb_eq in E1. apply beqb_eq in E2. subst.
    rewrite zones_of_insert_same. apply in_or_app. now left.
  - rewrite zones_of_insert_other; [exact H|].
    intro K. injection K as _ K2. subst. rewrite beqb_refl in E2. discriminate E2.
  - rewrite zones_of_insert_other; [exact H|].
    intro K. injection K as K1 _. subst. rewrite beqb_refl in E1. discriminate E1.
Qed.

Lemma insert_has : forall et c z ix, In z (zones_of (insert et c z ix) et c).
Proof. intros. rewrite zones_of_insert_same. apply in_or_app. right. now left. Qed.

(** * the rows of one zone *)
Lemma insert_rows_mono : forall et z cs ix et' c' x,
  In x (zones_of ix et' c') -> In x (zones_of (insert_rows et z cs ix) et' c').
Proof.
  intros et z cs. induction cs as [|c cs IH]; intros ix et' c' x H; simpl; [exact H|].
  apply IH. now apply insert_mono.
Qed.

Lemma insert_rows_has : forall et z cs ix c,
  In c cs -> In z (zones_of (insert_rows et z cs ix) et c).
Proof.
  intros et z cs. induction cs as [|c0 cs IH]; intros ix c Hin; simpl; [contradiction|].
  destruct Hin as [->|Hin].
  - apply insert_rows_mono. apply insert_has.
  - now apply IH.
Qed.

(** * all zones *)
Lemma build_from_mono : forall zps ix et c x,
  In x (zones_of ix et c) -> In x (zones_of (fold_left insert_zone zps ix) et c).
Proof.
  induction zps as [|zp zps IH]; intros ix et c x H; simpl; [exact H|].
  apply IH. unfold insert_zone. now apply insert_rows_mono.
Qed.

Lemma build_from_has : forall zps ix zp c,
  In zp zps -> In c (zp_ctxs zp) ->
  In (zp_id zp) (zones_of (fold_left insert_zone zps ix) (zp_evt zp) c).
Proof.
  induction zps as [|zp0 zps IH]; intros ix zp c Hin Hc; simpl; [contradiction|].
  destruct Hin as [->|Hin].
  - apply build_from_mono. unfold insert_zone. now apply insert_rows_has.
  - now apply IH.
Qed.

(** * sort + dedup keeps every element *)
Lemma zins_in : forall x z s, x = z \/ In x s -> In x (zins z s).
Proof.
  intros x z s. induction s as [|a s IH]; simpl; intro H.
  - destruct H as [->|[]]. now left.
  - destruct (z <? a) eqn:E1; [|destruct (z =? a) eqn:E2].
    + destruct H as [->|H]; [now left | now right].
    + apply N.eqb_eq in E2. subst a. destruct H as [->|H]; [now left | exact H].
    + destruct H as [->|[->|H]].
      * right. apply IH. now left.
      * now left.
      * right. apply IH. now right.
Qed.

Lemma sort_dedup_in : forall x l, In x l -> In x (sort_dedup l).
Proof.
  intros x l. induction l as [|a l IH]; simpl; intro H; [contradiction|].
  apply zins_in. destruct H as [->|H]; [now left | right; now apply IH].
Qed.

Lemma zins_in_inv : forall x z s, In x (zins z s) -> x = z \/ In x s.
Proof.
  intros x z s. induction s as [|a s IH]; simpl; intro H.
  - destruct H as [<-|[]]. now left.
  - destruct (z <? a); [|destruct (z =? a)].
    + destruct H as [<-|H]; [now left | now right].
    + now right.
    + destruct H as [<-|H]; [right; now left|].
      apply IH in H. destruct H as [->|H]; [now left | right; now right].
Qed.

Lemma sort_dedup_in_inv : forall x l, In x (sort_dedup l) -> In x l.
Proof.
  intros x l. induction l as [|a l IH]; simpl; intro H; [contradiction|].
  apply zins_in_inv in H. destruct H as [->|H]; [now left | right; now apply IH].
Qed.

(** * the property *)

(** A probe by context: every zone that holds a row of the context (under the probed event
    type) is reported.  For all lists of zone plans. *)
Theorem ctx_probe_sound : forall zps et c z,
  zone_holds zps et c z -> In z (find (build zps) et (Some c)).
Proof.
  intros zps et c z (zp & Hin & <- & <- & Hc).
  pose proof (build_from_has zps [] zp c Hin Hc) as H.
  fold (build zps) in H. unfold zones_of in H. unfold find.
  destruct (sm_get (zp_evt zp) (build zps)) as [cm|]; simpl in H; [|contradiction].
  destruct (sm_get c cm) as [zs|]; simpl in H; [|contradiction].
  now apply sort_dedup_in.
Qed.

(** A probe without a context: every zone that holds any row of the event type is reported. *)
Theorem ctx_probe_none_sound : forall zps et c z,
  zone_holds zps et c z -> In z (find (build zps) et None).
Proof.
  intros zps et c z (zp & Hin & <- & <- & Hc).
  pose proof (build_from_has zps [] zp c Hin Hc) as H.
  fold (build zps) in H. unfold zones_of in H. unfold find.
  destruct (sm_get (zp_evt zp) (build zps)) as [cm|]; simpl in H; [|contradiction].
  destruct (sm_get c cm) as [zs|] eqn:E; simpl in H; [|contradiction].
  apply sort_dedup_in. apply in_concat. exists zs. split; [|exact H].
  eapply sm_get_in. exact E.
Qed.

(** The index is also exact (no zone is reported that holds no row of the context); not needed
    by the property, which allows over-reporting, but it pins the model used as the
    correspondence reference. *)
Lemma zones_of_insert_inv : forall et c z ix et' c' x,
  In x (zones_of (insert et c z ix) et' c') ->
  In x (zones_of ix et' c') \/ (x = z /\ et = et' /\ c = c').
Proof.
  intros et c z ix et' c' x H.
  destruct (bytes_eqb et et') eqn:E1; [destruct (bytes_eqb c c') eqn:E2|].
  - apply beqb_eq in E1. apply beqb_eq in E2. subst.
    rewrite zones_of_insert_same in H. apply in_app_or in H.
    destruct H as [H|[<-|[]]]; [now left | right; auto].
  - rewrite zones_of_insert_other in H; [now left|].
    intro K. injection K as _ K2. subst. rewrite beqb_refl in E2. discriminate E2.
  - rewrite zones_of_insert_other in H; [now left|].
    intro K. injection K as K1 _. subst. rewrite beqb_refl in E1. discriminate E1.
Qed.

Lemma insert_rows_inv : forall et z cs ix et' c' x,
  In x (zones_of (insert_rows et z cs ix) et' c') ->
  In x (zones_of ix et' c') \/ (x = z /\ et = et' /\ In c' cs).
Proof.
  intros et z cs. induction cs as [|c cs IH]; intros ix et' c' x H; simpl in H; [now left|].
  apply IH in H. destruct H as [H|(-> & -> & H)].
  - apply zones_of_insert_inv in H. destruct H as [H|(-> & -> & ->)]; [now left|].
    right. repeat split. now left.
  - right. repeat split. now right.
Qed.

Lemma build_from_inv : forall zps ix et c x,
  In x (zones_of (fold_left insert_zone zps ix) et c) ->
  In x (zones_of ix et c) \/ zone_holds zps et c x.
Proof.
  induction zps as [|zp zps IH]; intros ix et c x H; simpl in H; [now left|].
  apply IH in H. destruct H as [H|(zp' & Hin & Hid & Hev & Hc)].
  - unfold insert_zone in H. apply insert_rows_inv in H.
    destruct H as [H|(-> & <- & Hc)]; [now left|].
    right. exists zp. repeat split; auto. now left.
  - right. exists zp'. repeat split; auto. now right.
Qed.

Theorem ctx_probe_exact : forall zps et c z,
  In z (find (build zps) et (Some c)) <-> zone_holds zps et c z.
Proof.
  intros zps et c z. split; [|apply ctx_probe_sound].
  intro H. unfold find in H.
  destruct (sm_get et (build zps)) as [cm|] eqn:E1; [|contradiction].
  destruct (sm_get c cm) as [zs|] eqn:E2; [|contradiction].
  apply sort_dedup_in_inv in H.
  assert (Hz : In z (zones_of (build zps) et c)).
  { unfold zones_of. rewrite E1. simpl. rewrite E2. exact H. }
  unfold build in Hz. apply build_from_inv in Hz.
  destruct Hz as [Hz|Hz]; [|exact Hz].
  unfold zones_of in Hz. simpl in Hz. contradiction.
Qed.
