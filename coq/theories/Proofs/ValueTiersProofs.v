(** C07, part 2: the value path through the tiers. *)
From Coq Require Import ZArith NArith List Bool Lia.
From Coq Require Import ZifyBool ZifyNat ZifyN.
From Snel Require Import Base.Bytes Model.Float64 Model.RustText Model.JsonV7 Model.ValueTiers Gen.Params.
From Snel Require Import Proofs.ValueTextProofs.
Import ListNotations.
Open Scope Z_scope.

(** * side conditions on the regenerated parameters (Gen/Params.v) *)
Lemma phys_params :
  phys_base TStr = PVar /\ phys_base TU64 = PU64 /\ phys_base TI64 = PI64 /\ phys_base TF64 = PF64 /\
  phys_base TBool = PBool /\ phys_base TTime = PI64 /\ phys_base TDate = PI64 /\
  (forall vs, phys_base (TEnum vs) = PVar) /\
  phys_opt TStr = PVar /\ phys_opt TU64 = PU64 /\ phys_opt TI64 = PI64 /\ phys_opt TF64 = PF64 /\
  phys_opt TBool = PBool /\ phys_opt TTime = PI64 /\ phys_opt TDate = PI64 /\
  (forall vs, phys_opt (TEnum vs) = PVar).
Proof. repeat split; reflexivity. Qed.

Lemma threshold_param : value_tojson_u64_threshold = i64_max.
Proof. reflexivity. Qed.

Lemma serde_roundtrip_param : value_serde_float_roundtrip = true.
Proof. reflexivity. Qed.

(** with the float_roundtrip reader a finite float survives the WAL line unchanged (fix 32b7370) *)
Lemma wal_float_exact : forall b, f64_is_finite b = true -> wal_float b = SFloat b.
Proof. intros b H. unfold wal_float. rewrite serde_roundtrip_param, H. reflexivity. Qed.

Lemma varbytes_no_null_bitmap : value_varbytes_has_nulls = false.
Proof. reflexivity. Qed.

Lemma bool_text_params :
  parse_bool_ci kw_true = Some true /\ parse_bool_ci kw_false = Some false /\ parse_bool_ci [] = None.
Proof. repeat split; vm_compute; reflexivity. Qed.

Lemma empty_text_reads :
  parse_i64 [] = None /\ parse_u64 [] = None /\ parse_f64 [] = None /\ add_payload_field [] = SUtf8 [].
Proof. repeat split; vm_compute; reflexivity. Qed.

(** * compaction is a fixpoint of every flushed cell *)
Lemma u64_scalar_text : forall u, text_of_scalar (u64_scalar u) = dec_of_Z u.
Proof. intros u. unfold u64_scalar. destruct (u <=? i64_max); reflexivity. Qed.

Lemma compact_fix : forall p s, compact_cell p (write_cell p s) = write_cell p s.
Proof.
  intros p s. unfold compact_cell. destruct p; cbn [write_cell].
  - reflexivity.
  - destruct (parse_i64 (text_of_scalar s)) as [z|] eqn:E; cbn [scan_cell write_cell text_of_scalar].
    + rewrite parse_i64_dec; [reflexivity|eapply parse_i64_range, E].
    + reflexivity.
  - destruct (parse_u64 (text_of_scalar s)) as [u|] eqn:E; cbn [scan_cell write_cell].
    + rewrite u64_scalar_text, parse_u64_dec; [reflexivity|eapply parse_u64_range, E].
    + reflexivity.
  - set (o := match s with SFloat b => Some b | _ => parse_f64 (text_of_scalar s) end).
    destruct o as [b|]; cbn [scan_cell write_cell]; reflexivity.
  - destruct (parse_bool_ci (text_of_scalar s)) as [[|]|] eqn:E; cbn [scan_cell write_cell text_of_scalar].
    + rewrite (proj1 bool_text_params). reflexivity.
    + rewrite (proj1 (proj2 bool_text_params)). reflexivity.
    + rewrite (proj2 (proj2 bool_text_params)). reflexivity.
Qed.

Lemma iter_compact_fix : forall n p s, iter_compact n p (write_cell p s) = write_cell p s.
Proof. induction n as [|n IH]; intros p s; cbn [iter_compact]; [reflexivity|]. rewrite compact_fix. apply IH. Qed.

(** * the cell as read back after a flush *)
Definition rt (p : phys) (s : scalar) : scalar := read_cell (write_cell p s).

Lemma tier_scalar_seg : forall t w n v,
  tier_scalar t {| via_wal := w; in_seg := Some n |} true v =
  rt (phys_of t) (if w then wal_scalar (mem_scalar v) else mem_scalar v).
Proof. intros. unfold tier_scalar. cbn [via_wal in_seg]. rewrite iter_compact_fix. reflexivity. Qed.

Lemma rt_var_utf8 : forall s, rt PVar (SUtf8 s) = add_payload_field s.
Proof. reflexivity. Qed.
Lemma rt_var_null : rt PVar SNull = SUtf8 [].
Proof. unfold rt. cbn [write_cell text_of_scalar read_cell]. apply empty_text_reads. Qed.
Lemma rt_null : forall p, p <> PVar -> rt p SNull = SNull.
Proof.
  intros p Hp. unfold rt. destruct p; try contradiction; cbn [write_cell text_of_scalar].
  - rewrite (proj1 empty_text_reads). reflexivity.
  - rewrite (proj1 (proj2 empty_text_reads)). reflexivity.
  - rewrite (proj1 (proj2 (proj2 empty_text_reads))). reflexivity.
  - rewrite (proj2 (proj2 bool_text_params)). reflexivity.
Qed.
Lemma rt_i64_int : forall z, i64_min <= z <= i64_max -> rt PI64 (SInt z) = SInt z.
Proof. intros z Hz. unfold rt. cbn [write_cell text_of_scalar]. rewrite parse_i64_dec by exact Hz. reflexivity. Qed.
Lemma rt_u64_int : forall n, 0 <= n <= u64_max -> rt PU64 (SInt n) = u64_scalar n.
Proof. intros n Hn. unfold rt. cbn [write_cell text_of_scalar]. rewrite parse_u64_dec by exact Hn. reflexivity. Qed.
Lemma rt_u64_big : forall n, 0 <= n <= u64_max -> rt PU64 (SUtf8 (dec_of_Z n)) = u64_scalar n.
Proof. intros n Hn. unfold rt. cbn [write_cell text_of_scalar]. rewrite parse_u64_dec by exact Hn. reflexivity. Qed.
Definition f64_cell_scalar (b : Z) : scalar := if f64_is_finite b then SFloat b else SNull.
Lemma rt_f64_float : forall b, rt PF64 (SFloat b) = f64_cell_scalar b.
Proof. reflexivity. Qed.
Lemma rt_f64_int : forall z, - 2 ^ 64 < z < 2 ^ 64 -> rt PF64 (SInt z) = f64_cell_scalar (f64_of_int z).
Proof. intros z Hz. unfold rt. cbn [write_cell text_of_scalar]. rewrite parse_f64_dec by exact Hz. reflexivity. Qed.
Lemma rt_f64_big : forall n, 0 <= n < 2 ^ 64 -> rt PF64 (SUtf8 (dec_of_Z n)) = f64_cell_scalar (f64_of_int n).
Proof. intros n Hn. unfold rt. cbn [write_cell text_of_scalar]. rewrite parse_f64_dec by lia. reflexivity. Qed.
Lemma rt_bool : forall b, rt PBool (SBool b) = SBool b.
Proof.
  intros [|]; unfold rt; cbn [write_cell text_of_scalar].
  - rewrite (proj1 bool_text_params). reflexivity.
  - rewrite (proj1 (proj2 bool_text_params)). reflexivity.
Qed.

(** * equality helpers *)
Lemma scalar_eqb_eq : forall a b, scalar_eqb a b = true -> a = b.
Proof.
  intros [| x | x | x | x] [| y | y | y | y] H; cbn [scalar_eqb] in H; try discriminate; try reflexivity.
  - f_equal. destruct x, y; try discriminate; reflexivity.
  - f_equal. lia.
  - f_equal. lia.
  - f_equal. apply bytes_eqb_eq, H.
Qed.

Lemma json_of_utf8_plain : forall s, utf8_reparsed s = false -> json_of_utf8 s = JStr s.
Proof.
  intros s H. unfold utf8_reparsed in H. unfold json_of_utf8.
  destruct (parse_json s) as [[| | n | | | | |]|]; try reflexivity; try discriminate.
  rewrite H. reflexivity.
Qed.

Lemma json_of_utf8_big : forall n, i64_max < n <= u64_max -> json_of_utf8 (dec_of_Z n) = JU64 n.
Proof.
  intros n Hn. unfold json_of_utf8. unfold i64_max in Hn. rewrite parse_json_dec by (unfold u64_max in *; lia).
  rewrite threshold_param. unfold i64_max. destruct (Z.ltb_spec (2 ^ 63 - 1) n); [reflexivity|lia].
Qed.

Lemma json_of_u64_scalar : forall n, 0 <= n <= u64_max -> json_of_scalar (u64_scalar n) = JU64 n.
Proof.
  intros n Hn. unfold u64_scalar. destruct (Z.leb_spec n i64_max).
  - cbn [json_of_scalar]. destruct (Z.ltb_spec n 0); [lia|reflexivity].
  - cbn [json_of_scalar]. apply json_of_utf8_big. lia.
Qed.

Lemma float_is_int_finite : forall b z, float_is_int b z = true -> f64_is_finite b = true.
Proof. intros b z H. unfold float_is_int in H. destruct (f64_is_finite b); [reflexivity|discriminate]. Qed.

(** * what DEFINE can declare, and the consistency of [col_present] with the row itself *)
Definition definable (t : ftype) : bool :=
  match t with TOpt (TOpt _) => false | _ => true end.
Definition col_consistent (cp : bool) (v : stored) : bool :=
  match v with Some _ => cp | None => true end.

(** shape of a conforming non-null value relative to the physical type of its column *)
Definition compat (p : phys) (j : json) : bool :=
  match p, j with
  | PVar, JStr _ => true
  | PI64, JU64 n => n <=? i64_max
  | PI64, JI64 _ => true
  | PU64, JU64 _ => true
  | PF64, JU64 _ | PF64, JI64 _ | PF64, JF64 _ => true
  | PBool, JBool _ => true
  | _, _ => false
  end.

Lemma allows_base_compat : forall t j,
  match t with TOpt _ => False | _ => True end -> allows t j = true -> compat (phys_base t) j = true.
Proof.
  intros t j Ht H. destruct phys_params as (P1 & P2 & P3 & P4 & P5 & P6 & P7 & P8 & _).
  destruct t; try contradiction; cbn [allows] in H.
  - rewrite P1. destruct j; try discriminate; reflexivity.
  - rewrite P2. destruct j; try discriminate; reflexivity.
  - rewrite P3. destruct j; try discriminate; [exact H|reflexivity].
  - rewrite P4. destruct j; try discriminate; reflexivity.
  - rewrite P5. destruct j; try discriminate; reflexivity.
  - rewrite P6. destruct j; try discriminate; [exact H|reflexivity].
  - rewrite P7. destruct j; try discriminate; [exact H|reflexivity].
  - rewrite P8. destruct j; try discriminate; reflexivity.
Qed.

Lemma phys_opt_base : forall i, match i with TOpt _ => False | _ => True end -> phys_opt i = phys_base i.
Proof.
  intros i Hi. destruct phys_params as (P1 & P2 & P3 & P4 & P5 & P6 & P7 & P8 & Q1 & Q2 & Q3 & Q4 & Q5 & Q6 & Q7 & Q8).
  destruct i; try contradiction; congruence.
Qed.

Lemma conforming_compat : forall t j,
  definable t = true -> allows t j = true -> j <> JNull -> compat (phys_of t) j = true.
Proof.
  intros t j Hd Ha Hn. destruct t as [| | | | | | | vs | i]; try (apply allows_base_compat; [exact I|exact Ha]).
  cbn [phys_of]. destruct i as [| | | | | | | vs | i']; cbn [definable] in Hd; try discriminate;
    cbn [allows] in Ha; (destruct j; try contradiction (Hn eq_refl));
    (rewrite phys_opt_base by exact I; apply allows_base_compat; [exact I|exact Ha]).
Qed.

(** the classes, spelled over the physical type *)
Lemma known_false : forall t l cp v, known t l cp v = false ->
  in_class Utf8ReparsedOnRender t l cp v = false /\ in_class StringRetyped t l cp v = false /\
  in_class NullStringBecomesEmpty t l cp v = false /\ in_class IntegerInFloatFieldRounded t l cp v = false.
Proof.
  intros t l cp v H. unfold known, all_classes in H. cbn [existsb] in H.
  repeat (apply orb_false_iff in H; destruct H as [? H]). repeat split; assumption.
Qed.

Lemma json_eqb_str_refl : forall s, json_eqb (JStr s) (JStr s) = true.
Proof. intros s. cbn [json_eqb]. apply bytes_eqb_refl. Qed.

(** * the round trip outside the known classes *)
Lemma roundtrip_value : forall t w seg j,
  definable t = true -> allows t j = true -> wf_json j = true -> j <> JNull ->
  let l := {| via_wal := w; in_seg := seg |} in
  known t l true (Some j) = false ->
  json_eqb (returned t l true (Some j)) j = true.
Proof.
  intros t w seg j Hd Ha Hwf Hn l Hk.
  pose proof (conforming_compat t j Hd Ha Hn) as Hc.
  destruct (known_false _ _ _ _ Hk) as (K1 & K2 & K3 & K4).
  unfold returned. subst l.
  assert (Hmem : forall s, (if w then wal_scalar s else s) = s \/ exists b, s = SFloat b).
  { intros s. destruct w; [|left; reflexivity]. destruct s; try (left; reflexivity). right. eexists. reflexivity. }
  destruct (phys_of t) eqn:Hp; destruct j; cbn [compat] in Hc; try discriminate.
  - (* var-bytes / string *)
    cbn [in_class] in K1, K2. rewrite Hp in K2.
    assert (E0 : json_of_utf8 s = JStr s) by (apply json_of_utf8_plain, K1).
    destruct seg as [n|].
    + rewrite tier_scalar_seg, Hp. cbn [mem_scalar scalar_of_json].
      replace (if w then wal_scalar (SUtf8 s) else SUtf8 s) with (SUtf8 s) by (destruct w; reflexivity).
      rewrite rt_var_utf8. cbn [in_memory in_seg negb andb] in K2.
      apply negb_false_iff, scalar_eqb_eq in K2. rewrite K2. cbn [json_of_scalar]. rewrite E0. apply json_eqb_str_refl.
    + unfold tier_scalar. cbn [via_wal in_seg mem_scalar scalar_of_json].
      replace (if w then wal_scalar (SUtf8 s) else SUtf8 s) with (SUtf8 s) by (destruct w; reflexivity).
      cbn [json_of_scalar]. rewrite E0. apply json_eqb_str_refl.
  - (* I64 column, non-negative *)
    cbn [wf_json] in Hwf. assert (Hr : 0 <= n <= i64_max) by (unfold i64_max, i64_min, u64_max in *; lia).
    assert (Es : scalar_of_json (JU64 n) = SInt n) by (cbn [scalar_of_json]; destruct (Z.leb_spec n i64_max); [reflexivity|unfold i64_max, i64_min, u64_max in *; lia]).
    assert (Ej : json_of_scalar (SInt n) = JU64 n) by (cbn [json_of_scalar]; destruct (Z.ltb_spec n 0); [unfold i64_max, i64_min, u64_max in *; lia|reflexivity]).
    destruct seg as [k|].
    + rewrite tier_scalar_seg, Hp. cbn [mem_scalar]. rewrite Es.
      replace (if w then wal_scalar (SInt n) else SInt n) with (SInt n) by (destruct w; reflexivity).
      rewrite rt_i64_int by (unfold i64_min, i64_max in *; lia). rewrite Ej. cbn [json_eqb]. lia.
    + unfold tier_scalar. cbn [via_wal in_seg mem_scalar]. rewrite Es.
      replace (if w then wal_scalar (SInt n) else SInt n) with (SInt n) by (destruct w; reflexivity).
      rewrite Ej. cbn [json_eqb]. lia.
  - (* I64 column, negative *)
    cbn [wf_json] in Hwf.
    assert (Ej : json_of_scalar (SInt z) = JI64 z) by (cbn [json_of_scalar]; destruct (Z.ltb_spec z 0); [reflexivity|unfold i64_max, i64_min, u64_max in *; lia]).
    destruct seg as [k|].
    + rewrite tier_scalar_seg, Hp. cbn [mem_scalar scalar_of_json].
      replace (if w then wal_scalar (SInt z) else SInt z) with (SInt z) by (destruct w; reflexivity).
      rewrite rt_i64_int by (unfold i64_min, i64_max in *; lia). rewrite Ej. cbn [json_eqb]. lia.
    + unfold tier_scalar. cbn [via_wal in_seg mem_scalar scalar_of_json].
      replace (if w then wal_scalar (SInt z) else SInt z) with (SInt z) by (destruct w; reflexivity).
      rewrite Ej. cbn [json_eqb]. lia.
  - (* U64 column *)
    cbn [wf_json] in Hwf. assert (Hr : 0 <= n <= u64_max) by (unfold i64_max, i64_min, u64_max in *; lia).
    assert (Ej : json_of_scalar (scalar_of_json (JU64 n)) = JU64 n).
    { cbn [scalar_of_json]. destruct (Z.leb_spec n i64_max).
      - cbn [json_of_scalar]. destruct (Z.ltb_spec n 0); [unfold i64_max, i64_min, u64_max in *; lia|reflexivity].
      - cbn [json_of_scalar]. apply json_of_utf8_big. unfold i64_max, i64_min, u64_max in *; lia. }
    assert (Ew : (if w then wal_scalar (scalar_of_json (JU64 n)) else scalar_of_json (JU64 n)) = scalar_of_json (JU64 n)).
    { destruct w; [|reflexivity]. cbn [scalar_of_json]. destruct (n <=? i64_max); reflexivity. }
    destruct seg as [k|].
    + rewrite tier_scalar_seg, Hp. cbn [mem_scalar]. rewrite Ew.
      assert (Er : rt PU64 (scalar_of_json (JU64 n)) = u64_scalar n).
      { cbn [scalar_of_json]. destruct (Z.leb_spec n i64_max); [apply rt_u64_int|apply rt_u64_big]; unfold i64_max, i64_min, u64_max in *; lia. }
      rewrite Er, json_of_u64_scalar by (unfold i64_max, i64_min, u64_max in *; lia). cbn [json_eqb]. lia.
    + unfold tier_scalar. cbn [via_wal in_seg mem_scalar]. rewrite Ew, Ej. cbn [json_eqb]. lia.
  - (* F64 column, unsigned integer value *)
    cbn [wf_json] in Hwf. assert (Hr : 0 <= n <= u64_max) by (unfold i64_max, i64_min, u64_max in *; lia).
    assert (Ej : json_of_scalar (scalar_of_json (JU64 n)) = JU64 n).
    { cbn [scalar_of_json]. destruct (Z.leb_spec n i64_max).
      - cbn [json_of_scalar]. destruct (Z.ltb_spec n 0); [unfold i64_max, i64_min, u64_max in *; lia|reflexivity].
      - cbn [json_of_scalar]. apply json_of_utf8_big. unfold i64_max, i64_min, u64_max in *; lia. }
    assert (Ew : (if w then wal_scalar (scalar_of_json (JU64 n)) else scalar_of_json (JU64 n)) = scalar_of_json (JU64 n)).
    { destruct w; [|reflexivity]. cbn [scalar_of_json]. destruct (n <=? i64_max); reflexivity. }
    destruct seg as [k|].
    + rewrite tier_scalar_seg, Hp. cbn [mem_scalar]. rewrite Ew.
      assert (Er : rt PF64 (scalar_of_json (JU64 n)) = f64_cell_scalar (f64_of_int n)).
      { cbn [scalar_of_json]. unfold u64_max in Hr. destruct (Z.leb_spec n i64_max); [apply rt_f64_int|apply rt_f64_big]; unfold i64_max, i64_min, u64_max in *; lia. }
      rewrite Er. cbn [in_class in_memory in_seg negb andb] in K4. rewrite Hp in K4.
      unfold int_inexact_as_f64 in K4. apply negb_false_iff in K4.
      unfold f64_cell_scalar. rewrite (float_is_int_finite _ _ K4). cbn [json_of_scalar].
      rewrite (float_is_int_finite _ _ K4). cbn [json_eqb]. exact K4.
    + unfold tier_scalar. cbn [via_wal in_seg mem_scalar]. rewrite Ew, Ej. cbn [json_eqb]. lia.
  - (* F64 column, negative integer value *)
    cbn [wf_json] in Hwf.
    assert (Ej : json_of_scalar (SInt z) = JI64 z) by (cbn [json_of_scalar]; destruct (Z.ltb_spec z 0); [reflexivity|unfold i64_max, i64_min, u64_max in *; lia]).
    destruct seg as [k|].
    + rewrite tier_scalar_seg, Hp. cbn [mem_scalar scalar_of_json].
      replace (if w then wal_scalar (SInt z) else SInt z) with (SInt z) by (destruct w; reflexivity).
      rewrite rt_f64_int by (unfold i64_min in *; lia).
      cbn [in_class in_memory in_seg negb andb] in K4. rewrite Hp in K4.
      unfold int_inexact_as_f64 in K4. apply negb_false_iff in K4.
      unfold f64_cell_scalar. rewrite (float_is_int_finite _ _ K4). cbn [json_of_scalar].
      rewrite (float_is_int_finite _ _ K4). cbn [json_eqb]. exact K4.
    + unfold tier_scalar. cbn [via_wal in_seg mem_scalar scalar_of_json].
      replace (if w then wal_scalar (SInt z) else SInt z) with (SInt z) by (destruct w; reflexivity).
      rewrite Ej. cbn [json_eqb]. lia.
  - (* F64 column, float value *)
    cbn [wf_json] in Hwf. assert (Hf : f64_is_finite bits = true) by (unfold i64_max, i64_min, u64_max in *; lia).
    assert (Ew : (if w then wal_scalar (SFloat bits) else SFloat bits) = SFloat bits).
    { destruct w; [|reflexivity]. cbn [wal_scalar]. apply wal_float_exact, Hf. }
    destruct seg as [k|].
    + rewrite tier_scalar_seg, Hp. cbn [mem_scalar scalar_of_json]. rewrite Ew, rt_f64_float.
      unfold f64_cell_scalar. rewrite Hf. cbn [json_of_scalar]. rewrite Hf. cbn [json_eqb]. lia.
    + unfold tier_scalar. cbn [via_wal in_seg mem_scalar scalar_of_json]. rewrite Ew.
      cbn [json_of_scalar]. rewrite Hf. cbn [json_eqb]. lia.
  - (* Bool column *)
    destruct seg as [k|].
    + rewrite tier_scalar_seg, Hp. cbn [mem_scalar scalar_of_json].
      replace (if w then wal_scalar (SBool b) else SBool b) with (SBool b) by (destruct w; reflexivity).
      rewrite rt_bool. cbn [json_of_scalar json_eqb]. destruct b; reflexivity.
    + unfold tier_scalar. cbn [via_wal in_seg mem_scalar scalar_of_json].
      replace (if w then wal_scalar (SBool b) else SBool b) with (SBool b) by (destruct w; reflexivity).
      cbn [json_of_scalar json_eqb]. destruct b; reflexivity.
Qed.

(** null, or an absent key, in an optional field *)
Lemma roundtrip_null : forall t l cp v,
  (v = Some JNull \/ v = None) -> known t l cp v = false ->
  returned t l cp v = JNull.
Proof.
  intros t [w seg] cp v Hv Hk. destruct (known_false _ _ _ _ Hk) as (_ & _ & K3 & _).
  assert (Em : mem_scalar v = SNull) by (destruct Hv; subst v; reflexivity).
  unfold returned, tier_scalar. cbn [via_wal in_seg]. rewrite Em.
  replace (if w then wal_scalar SNull else SNull) with SNull by (destruct w; reflexivity).
  destruct seg as [n|]; [|reflexivity].
  destruct cp; [|reflexivity].
  rewrite iter_compact_fix. fold (rt (phys_of t) SNull).
  cbn [in_class in_memory in_seg negb andb] in K3.
  destruct (phys_of t) eqn:Hp.
  - destruct Hv; subst v; discriminate.
  - rewrite rt_null by discriminate. reflexivity.
  - rewrite rt_null by discriminate. reflexivity.
  - rewrite rt_null by discriminate. reflexivity.
  - rewrite rt_null by discriminate. reflexivity.
Qed.

Theorem roundtrip_outside_known : forall t l cp v,
  definable t = true -> conforming t v = true -> col_consistent cp v = true ->
  known t l cp v = false ->
  json_eqb (returned t l cp v) (expected v) = true.
Proof.
  intros t l cp v Hd Hc Hcp Hk. destruct v as [j|].
  - cbn [conforming] in Hc. apply andb_true_iff in Hc. destruct Hc as [Ha Hwf].
    cbn [col_consistent] in Hcp. subst cp. cbn [expected].
    destruct j; try (destruct l as [w seg]; apply roundtrip_value; try assumption; discriminate).
    rewrite roundtrip_null; [reflexivity|left; reflexivity|exact Hk].
  - cbn [expected]. rewrite roundtrip_null; [reflexivity|right; reflexivity|exact Hk].
Qed.

(** * refutation: one witness per mechanism *)
Definition L_mem : layout := {| via_wal := false; in_seg := None |}.
Definition L_wal : layout := {| via_wal := true; in_seg := None |}.
Definition L_seg : layout := {| via_wal := false; in_seg := Some 0%nat |}.
Definition L_cmp : layout := {| via_wal := false; in_seg := Some 1%nat |}.

Definition fails (k : known_class) (t : ftype) (l : layout) (cp : bool) (v : stored) : Prop :=
  definable t = true /\ conforming t v = true /\ col_consistent cp v = true /\
  in_class k t l cp v = true /\ json_eqb (returned t l cp v) (expected v) = false.

(** "[1]" ; "123" ; null ; 9007199254740993 *)
Theorem roundtrip_refuted :
  fails Utf8ReparsedOnRender TStr L_mem true (Some (JStr [91; 49; 93]%N)) /\
  fails StringRetyped TStr L_seg true (Some (JStr [49; 50; 51]%N)) /\
  fails NullStringBecomesEmpty (TOpt TStr) L_seg true (Some JNull) /\
  fails IntegerInFloatFieldRounded TF64 L_seg true (Some (JU64 9007199254740993)).
Proof. repeat split; vm_compute; reflexivity. Qed.

(** retired witness (fixed in 32b7370): 446.19296929045356 now survives the WAL; without the feature the
    legacy reader still changes its last bit *)
Example wal_float_former_witness :
  returned TF64 L_wal true (Some (JF64 4646557125919078934)) = JF64 4646557125919078934 /\
  wal_float_legacy 4646557125919078934 = SFloat 4646557125919078935.
Proof. split; vm_compute; reflexivity. Qed.

(** further witnesses of the re-typing class: " 7 ", "true", "1e3", NBSP "7", "null", and an enum
    variant "12"; the optional string whose key is absent; the compacted tier *)
Example retyped_witnesses :
  returned TStr L_seg true (Some (JStr [32; 55; 32]%N)) = JU64 7 /\
  returned TStr L_seg true (Some (JStr [116; 114; 117; 101]%N)) = JBool true /\
  returned TStr L_seg true (Some (JStr [49; 101; 51]%N)) = JF64 4652007308841189376 /\
  returned TStr L_cmp true (Some (JStr [194; 160; 55]%N)) = JU64 7 /\
  returned (TOpt TStr) L_seg true (Some (JStr [110; 117; 108; 108]%N)) = JNull /\
  returned (TEnum [[49; 50]%N]) L_seg true (Some (JStr [49; 50]%N)) = JU64 12 /\
  returned (TOpt TStr) L_cmp true None = JStr [] /\
  returned TStr L_mem true (Some (JStr [49; 50; 51]%N)) = JStr [49; 50; 51]%N /\
  returned TStr L_mem true (Some (JStr (dec_of_Z 9999999999999999999))) = JU64 9999999999999999999.
Proof. repeat split; vm_compute; reflexivity. Qed.

(** * tightness: every conforming input of a known class really comes back changed *)
Lemma json_eqb_str_inv : forall a s, json_eqb a (JStr s) = true -> a = JStr s.
Proof. intros a s H. destruct a; cbn [json_eqb] in H; try discriminate. f_equal. apply bytes_eqb_eq, H. Qed.

Lemma json_of_utf8_str_inv : forall t s, json_of_utf8 t = JStr s -> t = s.
Proof.
  intros t s H. unfold json_of_utf8 in H.
  destruct (parse_json t) as [[| | n | | | | |]|]; try (inversion H; reflexivity); try discriminate.
  destruct (value_tojson_u64_threshold <? n); [discriminate|inversion H; reflexivity].
Qed.

Lemma json_of_scalar_str_inv : forall x s, json_of_scalar x = JStr s -> x = SUtf8 s.
Proof.
  intros x s H. destruct x; cbn [json_of_scalar] in H; try discriminate.
  - destruct (z <? 0); discriminate.
  - destruct (f64_is_finite bits); discriminate.
  - f_equal. eapply json_of_utf8_str_inv, H.
Qed.

Lemma scalar_eqb_refl : forall a, scalar_eqb a a = true.
Proof.
  intros [| b | z | z | s]; cbn [scalar_eqb].
  - reflexivity.
  - destruct b; reflexivity.
  - lia.
  - lia.
  - apply bytes_eqb_refl.
Qed.

Lemma compat_inv_var : forall p s, compat p (JStr s) = true -> p = PVar.
Proof. intros [] s H; cbn in H; try discriminate; reflexivity. Qed.
Lemma compat_inv_f64 : forall p b, compat p (JF64 b) = true -> p = PF64.
Proof. intros [] b H; cbn in H; try discriminate; reflexivity. Qed.

Theorem known_classes_fail : forall k t l cp v,
  definable t = true -> conforming t v = true -> col_consistent cp v = true ->
  in_class k t l cp v = true ->
  (k = Utf8ReparsedOnRender -> in_memory l = true) ->
  json_eqb (returned t l cp v) (expected v) = false.
Proof.
  intros k t [w seg] cp v Hd Hc Hcp Hk Hmem. destruct k; cbn [in_class] in Hk.
  - (* to_json re-parses, in memory *)
    specialize (Hmem eq_refl). cbn [in_memory in_seg] in Hmem. destruct seg; [discriminate|].
    destruct v as [[| | | | | s | |]|]; try discriminate.
    unfold returned, tier_scalar. cbn [via_wal in_seg mem_scalar scalar_of_json expected].
    replace (if w then wal_scalar (SUtf8 s) else SUtf8 s) with (SUtf8 s) by (destruct w; reflexivity).
    cbn [json_of_scalar]. unfold utf8_reparsed in Hk. unfold json_of_utf8.
    destruct (parse_json s) as [[| | n | | | | |]|]; try discriminate; try reflexivity.
    rewrite Hk. reflexivity.
  - (* re-typed var-bytes cell *)
    destruct seg as [n|]; [|discriminate]. cbn [in_memory in_seg negb andb] in Hk.
    destruct cp; [|discriminate]. cbn [andb] in Hk.
    destruct (phys_of t) eqn:Hp; try discriminate.
    destruct v as [[| | | | | s | |]|]; try discriminate.
    unfold returned. rewrite tier_scalar_seg, Hp. cbn [mem_scalar scalar_of_json expected].
    replace (if w then wal_scalar (SUtf8 s) else SUtf8 s) with (SUtf8 s) by (destruct w; reflexivity).
    rewrite rt_var_utf8. unfold string_retyped in Hk. apply negb_true_iff in Hk.
    destruct (json_eqb (json_of_scalar (add_payload_field s)) (JStr s)) eqn:E; [|reflexivity].
    apply json_eqb_str_inv, json_of_scalar_str_inv in E. rewrite E, scalar_eqb_refl in Hk. discriminate.
  - (* null in a var-bytes column *)
    destruct seg as [n|]; [|discriminate]. cbn [in_memory in_seg negb andb] in Hk.
    destruct cp; [|discriminate]. cbn [andb] in Hk.
    destruct (phys_of t) eqn:Hp; try discriminate.
    assert (Hv : mem_scalar v = SNull /\ expected v = JNull).
    { destruct v as [[| | | | | | |]|]; try discriminate; split; reflexivity. }
    destruct Hv as [Em Ee]. unfold returned. rewrite tier_scalar_seg, Hp, Em, Ee.
    replace (if w then wal_scalar SNull else SNull) with SNull by (destruct w; reflexivity).
    rewrite rt_var_null. vm_compute. reflexivity.
  - (* integer in a float column *)
    destruct seg as [n|]; [|discriminate]. cbn [in_memory in_seg negb andb] in Hk.
    destruct cp; [|discriminate]. cbn [andb] in Hk.
    destruct (phys_of t) eqn:Hp; try discriminate.
    destruct v as [[| | u | z | | | |]|]; try discriminate; cbn [conforming] in Hc;
      apply andb_true_iff in Hc; destruct Hc as [_ Hwf]; cbn [wf_json] in Hwf;
      unfold returned; rewrite tier_scalar_seg, Hp; cbn [mem_scalar expected].
    + assert (Ew : (if w then wal_scalar (scalar_of_json (JU64 u)) else scalar_of_json (JU64 u)) = scalar_of_json (JU64 u)).
      { destruct w; [|reflexivity]. cbn [scalar_of_json]. destruct (u <=? i64_max); reflexivity. }
      rewrite Ew.
      assert (Er : rt PF64 (scalar_of_json (JU64 u)) = f64_cell_scalar (f64_of_int u)).
      { cbn [scalar_of_json]. destruct (Z.leb_spec u i64_max); [apply rt_f64_int|apply rt_f64_big];
          unfold i64_max, u64_max in *; lia. }
      rewrite Er. unfold int_inexact_as_f64 in Hk. apply negb_true_iff in Hk.
      unfold f64_cell_scalar. destruct (f64_is_finite (f64_of_int u)) eqn:E; cbn [json_of_scalar]; [rewrite E|]; cbn [json_eqb]; [exact Hk|reflexivity].
    + cbn [scalar_of_json].
      replace (if w then wal_scalar (SInt z) else SInt z) with (SInt z) by (destruct w; reflexivity).
      rewrite rt_f64_int by (unfold i64_min in *; lia).
      unfold int_inexact_as_f64 in Hk. apply negb_true_iff in Hk.
      unfold f64_cell_scalar. destruct (f64_is_finite (f64_of_int z)) eqn:E; cbn [json_of_scalar]; [rewrite E|]; cbn [json_eqb]; [exact Hk|reflexivity].
Qed.

(** * tiers agree: the normal form of a returned cell outside the tier-dependent classes *)
Lemma json_eqb_refl : forall a, json_eqb a a = true.
Proof.
  fix IH 1. intros [| b | n | z | x | s | l | l]; cbn [json_eqb].
  - reflexivity.
  - destruct b; reflexivity.
  - apply Z.eqb_refl.
  - apply Z.eqb_refl.
  - apply Z.eqb_refl.
  - apply bytes_eqb_refl.
  - induction l as [|p l IHl]; [reflexivity|]. rewrite IH, IHl. reflexivity.
  - induction l as [|[k p] l IHl]; [reflexivity|]. rewrite bytes_eqb_refl, IH, IHl. reflexivity.
Qed.

Definition tier_known (t : ftype) (l : layout) (cp : bool) (v : stored) : bool :=
  in_class StringRetyped t l cp v || in_class NullStringBecomesEmpty t l cp v ||
  in_class IntegerInFloatFieldRounded t l cp v.

Lemma tier_known_false : forall t l cp v, tier_known t l cp v = false ->
  in_class StringRetyped t l cp v = false /\ in_class NullStringBecomesEmpty t l cp v = false /\
  in_class IntegerInFloatFieldRounded t l cp v = false.
Proof.
  intros t l cp v H. unfold tier_known in H. apply orb_false_iff in H. destruct H as [H H3].
  apply orb_false_iff in H. destruct H as [H1 H2]. auto.
Qed.

Definition seg_f64 (t : ftype) (l : layout) : bool :=
  match in_seg l, phys_of t with Some _, PF64 => true | _, _ => false end.
Definition nf (t : ftype) (l : layout) (j : json) : json :=
  match j with
  | JU64 n => if seg_f64 t l then JF64 (f64_of_int n) else JU64 n
  | JI64 z => if seg_f64 t l then JF64 (f64_of_int z) else JI64 z
  | JStr s => json_of_utf8 s
  | other => other
  end.

Lemma returned_nf : forall t w seg j,
  definable t = true -> allows t j = true -> wf_json j = true -> j <> JNull ->
  let l := {| via_wal := w; in_seg := seg |} in
  tier_known t l true (Some j) = false ->
  returned t l true (Some j) = nf t l j.
Proof.
  intros t w seg j Hd Ha Hwf Hn l Hk.
  pose proof (conforming_compat t j Hd Ha Hn) as Hc.
  destruct (tier_known_false _ _ _ _ Hk) as (K2 & K3 & K4).
  unfold returned, nf, seg_f64. subst l. cbn [in_seg].
  destruct (phys_of t) eqn:Hp; destruct j; cbn [compat] in Hc; try discriminate.
  - (* var-bytes / string *)
    cbn [in_class] in K2. rewrite Hp in K2.
    destruct seg as [n|].
    + rewrite tier_scalar_seg, Hp. cbn [mem_scalar scalar_of_json].
      replace (if w then wal_scalar (SUtf8 s) else SUtf8 s) with (SUtf8 s) by (destruct w; reflexivity).
      rewrite rt_var_utf8. cbn [in_memory in_seg negb andb] in K2.
      apply negb_false_iff, scalar_eqb_eq in K2. rewrite K2. reflexivity.
    + unfold tier_scalar. cbn [via_wal in_seg mem_scalar scalar_of_json].
      replace (if w then wal_scalar (SUtf8 s) else SUtf8 s) with (SUtf8 s) by (destruct w; reflexivity).
      reflexivity.
  - (* I64 column, non-negative *)
    cbn [wf_json] in Hwf. assert (Hr : 0 <= n <= i64_max) by (unfold i64_max, i64_min, u64_max in *; lia).
    assert (Es : scalar_of_json (JU64 n) = SInt n) by (cbn [scalar_of_json]; destruct (Z.leb_spec n i64_max); [reflexivity|unfold i64_max, i64_min, u64_max in *; lia]).
    assert (Ej : json_of_scalar (SInt n) = JU64 n) by (cbn [json_of_scalar]; destruct (Z.ltb_spec n 0); [unfold i64_max, i64_min, u64_max in *; lia|reflexivity]).
    destruct seg as [k|].
    + rewrite tier_scalar_seg, Hp. cbn [mem_scalar]. rewrite Es.
      replace (if w then wal_scalar (SInt n) else SInt n) with (SInt n) by (destruct w; reflexivity).
      rewrite rt_i64_int by (unfold i64_min, i64_max in *; lia). exact Ej.
    + unfold tier_scalar. cbn [via_wal in_seg mem_scalar]. rewrite Es.
      replace (if w then wal_scalar (SInt n) else SInt n) with (SInt n) by (destruct w; reflexivity).
      exact Ej.
  - (* I64 column, negative *)
    cbn [wf_json] in Hwf.
    assert (Ej : json_of_scalar (SInt z) = JI64 z) by (cbn [json_of_scalar]; destruct (Z.ltb_spec z 0); [reflexivity|unfold i64_max, i64_min, u64_max in *; lia]).
    destruct seg as [k|].
    + rewrite tier_scalar_seg, Hp. cbn [mem_scalar scalar_of_json].
      replace (if w then wal_scalar (SInt z) else SInt z) with (SInt z) by (destruct w; reflexivity).
      rewrite rt_i64_int by (unfold i64_min, i64_max in *; lia). exact Ej.
    + unfold tier_scalar. cbn [via_wal in_seg mem_scalar scalar_of_json].
      replace (if w then wal_scalar (SInt z) else SInt z) with (SInt z) by (destruct w; reflexivity).
      exact Ej.
  - (* U64 column *)
    cbn [wf_json] in Hwf. assert (Hr : 0 <= n <= u64_max) by (unfold i64_max, i64_min, u64_max in *; lia).
    assert (Ej : json_of_scalar (scalar_of_json (JU64 n)) = JU64 n).
    { cbn [scalar_of_json]. destruct (Z.leb_spec n i64_max).
      - cbn [json_of_scalar]. destruct (Z.ltb_spec n 0); [unfold i64_max, i64_min, u64_max in *; lia|reflexivity].
      - cbn [json_of_scalar]. apply json_of_utf8_big. unfold i64_max, i64_min, u64_max in *; lia. }
    assert (Ew : (if w then wal_scalar (scalar_of_json (JU64 n)) else scalar_of_json (JU64 n)) = scalar_of_json (JU64 n)).
    { destruct w; [|reflexivity]. cbn [scalar_of_json]. destruct (n <=? i64_max); reflexivity. }
    destruct seg as [k|].
    + rewrite tier_scalar_seg, Hp. cbn [mem_scalar]. rewrite Ew.
      assert (Er : rt PU64 (scalar_of_json (JU64 n)) = u64_scalar n).
      { cbn [scalar_of_json]. destruct (Z.leb_spec n i64_max); [apply rt_u64_int|apply rt_u64_big]; unfold i64_max, i64_min, u64_max in *; lia. }
      rewrite Er. apply json_of_u64_scalar. exact Hr.
    + unfold tier_scalar. cbn [via_wal in_seg mem_scalar]. rewrite Ew. exact Ej.
  - (* F64 column, unsigned integer value *)
    cbn [wf_json] in Hwf. assert (Hr : 0 <= n <= u64_max) by (unfold i64_max, i64_min, u64_max in *; lia).
    assert (Ej : json_of_scalar (scalar_of_json (JU64 n)) = JU64 n).
    { cbn [scalar_of_json]. destruct (Z.leb_spec n i64_max).
      - cbn [json_of_scalar]. destruct (Z.ltb_spec n 0); [unfold i64_max, i64_min, u64_max in *; lia|reflexivity].
      - cbn [json_of_scalar]. apply json_of_utf8_big. unfold i64_max, i64_min, u64_max in *; lia. }
    assert (Ew : (if w then wal_scalar (scalar_of_json (JU64 n)) else scalar_of_json (JU64 n)) = scalar_of_json (JU64 n)).
    { destruct w; [|reflexivity]. cbn [scalar_of_json]. destruct (n <=? i64_max); reflexivity. }
    destruct seg as [k|].
    + rewrite tier_scalar_seg, Hp. cbn [mem_scalar]. rewrite Ew.
      assert (Er : rt PF64 (scalar_of_json (JU64 n)) = f64_cell_scalar (f64_of_int n)).
      { cbn [scalar_of_json]. unfold u64_max in Hr. destruct (Z.leb_spec n i64_max); [apply rt_f64_int|apply rt_f64_big]; unfold i64_max, i64_min, u64_max in *; lia. }
      rewrite Er. cbn [in_class in_memory in_seg negb andb] in K4. rewrite Hp in K4.
      unfold int_inexact_as_f64 in K4. apply negb_false_iff in K4.
      unfold f64_cell_scalar. rewrite (float_is_int_finite _ _ K4). cbn [json_of_scalar].
      rewrite (float_is_int_finite _ _ K4). reflexivity.
    + unfold tier_scalar. cbn [via_wal in_seg mem_scalar]. rewrite Ew. exact Ej.
  - (* F64 column, negative integer value *)
    cbn [wf_json] in Hwf.
    assert (Ej : json_of_scalar (SInt z) = JI64 z) by (cbn [json_of_scalar]; destruct (Z.ltb_spec z 0); [reflexivity|unfold i64_max, i64_min, u64_max in *; lia]).
    destruct seg as [k|].
    + rewrite tier_scalar_seg, Hp. cbn [mem_scalar scalar_of_json].
      replace (if w then wal_scalar (SInt z) else SInt z) with (SInt z) by (destruct w; reflexivity).
      rewrite rt_f64_int by (unfold i64_min in *; lia).
      cbn [in_class in_memory in_seg negb andb] in K4. rewrite Hp in K4.
      unfold int_inexact_as_f64 in K4. apply negb_false_iff in K4.
      unfold f64_cell_scalar. rewrite (float_is_int_finite _ _ K4). cbn [json_of_scalar].
      rewrite (float_is_int_finite _ _ K4). reflexivity.
    + unfold tier_scalar. cbn [via_wal in_seg mem_scalar scalar_of_json].
      replace (if w then wal_scalar (SInt z) else SInt z) with (SInt z) by (destruct w; reflexivity).
      exact Ej.
  - (* F64 column, float value *)
    cbn [wf_json] in Hwf. assert (Hf : f64_is_finite bits = true) by lia.
    assert (Ew : (if w then wal_scalar (SFloat bits) else SFloat bits) = SFloat bits).
    { destruct w; [|reflexivity]. cbn [wal_scalar]. apply wal_float_exact, Hf. }
    destruct seg as [k|].
    + rewrite tier_scalar_seg, Hp. cbn [mem_scalar scalar_of_json]. rewrite Ew, rt_f64_float.
      unfold f64_cell_scalar. rewrite Hf. cbn [json_of_scalar]. rewrite Hf. reflexivity.
    + unfold tier_scalar. cbn [via_wal in_seg mem_scalar scalar_of_json]. rewrite Ew.
      cbn [json_of_scalar]. rewrite Hf. reflexivity.
  - (* Bool column *)
    destruct seg as [k|].
    + rewrite tier_scalar_seg, Hp. cbn [mem_scalar scalar_of_json].
      replace (if w then wal_scalar (SBool b) else SBool b) with (SBool b) by (destruct w; reflexivity).
      rewrite rt_bool. reflexivity.
    + unfold tier_scalar. cbn [via_wal in_seg mem_scalar scalar_of_json].
      replace (if w then wal_scalar (SBool b) else SBool b) with (SBool b) by (destruct w; reflexivity).
      reflexivity.
Qed.

Lemma returned_null : forall t l cp v,
  (v = Some JNull \/ v = None) -> in_class NullStringBecomesEmpty t l cp v = false ->
  returned t l cp v = JNull.
Proof.
  intros t [w seg] cp v Hv K3.
  assert (Em : mem_scalar v = SNull) by (destruct Hv; subst v; reflexivity).
  unfold returned, tier_scalar. cbn [via_wal in_seg]. rewrite Em.
  replace (if w then wal_scalar SNull else SNull) with SNull by (destruct w; reflexivity).
  destruct seg as [n|]; [|reflexivity].
  destruct cp; [|reflexivity].
  rewrite iter_compact_fix. fold (rt (phys_of t) SNull).
  cbn [in_class in_memory in_seg negb andb] in K3.
  destruct (phys_of t) eqn:Hp.
  - destruct Hv; subst v; discriminate.
  - rewrite rt_null by discriminate. reflexivity.
  - rewrite rt_null by discriminate. reflexivity.
  - rewrite rt_null by discriminate. reflexivity.
  - rewrite rt_null by discriminate. reflexivity.
Qed.

Theorem tiers_agree_outside_known : forall t l1 l2 cp1 cp2 v,
  definable t = true -> conforming t v = true ->
  col_consistent cp1 v = true -> col_consistent cp2 v = true ->
  tier_known t l1 cp1 v = false -> tier_known t l2 cp2 v = false ->
  json_eqb (returned t l1 cp1 v) (returned t l2 cp2 v) = true.
Proof.
  intros t l1 l2 cp1 cp2 v Hd Hc H1 H2 K1 K2.
  assert (Hnull : v = Some JNull \/ v = None ->
                  json_eqb (returned t l1 cp1 v) (returned t l2 cp2 v) = true).
  { intros Hv. destruct (tier_known_false _ _ _ _ K1) as (_ & N1 & _). destruct (tier_known_false _ _ _ _ K2) as (_ & N2 & _).
    rewrite !returned_null by assumption. reflexivity. }
  destruct v as [j|]; [|apply Hnull; right; reflexivity].
  destruct (json_eqb j JNull) eqn:En.
  { destruct j; try discriminate. apply Hnull. left. reflexivity. }
  assert (Hn : j <> JNull) by (intros ->; discriminate).
  cbn [conforming] in Hc. apply andb_true_iff in Hc. destruct Hc as [Ha Hwf].
  cbn [col_consistent] in H1, H2. subst cp1 cp2.
  destruct l1 as [w1 s1], l2 as [w2 s2].
  rewrite (returned_nf t w1 s1 j Hd Ha Hwf Hn K1), (returned_nf t w2 s2 j Hd Ha Hwf Hn K2).
  unfold nf, seg_f64. cbn [in_seg].
  (* the integer-in-float-field facts of the segment layouts *)
  assert (I1 : forall n z, s1 = Some n -> phys_of t = PF64 -> (j = JU64 z \/ j = JI64 z) -> float_is_int (f64_of_int z) z = true).
  { intros n z -> Hp Hj. destruct (tier_known_false _ _ _ _ K1) as (_ & _ & H0).
    cbn [in_class in_memory in_seg negb andb] in H0. rewrite Hp in H0.
    destruct Hj as [-> | ->]; unfold int_inexact_as_f64 in H0; apply negb_false_iff in H0; exact H0. }
  assert (I2 : forall n z, s2 = Some n -> phys_of t = PF64 -> (j = JU64 z \/ j = JI64 z) -> float_is_int (f64_of_int z) z = true).
  { intros n z -> Hp Hj. destruct (tier_known_false _ _ _ _ K2) as (_ & _ & H0).
    cbn [in_class in_memory in_seg negb andb] in H0. rewrite Hp in H0.
    destruct Hj as [-> | ->]; unfold int_inexact_as_f64 in H0; apply negb_false_iff in H0; exact H0. }
  destruct j; try apply json_eqb_refl.
  - destruct s1 as [n1|], s2 as [n2|]; destruct (phys_of t) eqn:Hp; cbn [json_eqb]; try apply Z.eqb_refl;
      first [ eapply I1; [reflexivity|reflexivity|left; reflexivity] | eapply I2; [reflexivity|reflexivity|left; reflexivity] ].
  - destruct s1 as [n1|], s2 as [n2|]; destruct (phys_of t) eqn:Hp; cbn [json_eqb]; try apply Z.eqb_refl;
      first [ eapply I1; [reflexivity|reflexivity|right; reflexivity] | eapply I2; [reflexivity|reflexivity|right; reflexivity] ].
Qed.

(** tiers disagree inside the classes: the same stored value, two layouts *)
Theorem tiers_agree_refuted :
  json_eqb (returned TStr L_mem true (Some (JStr [49; 50; 51]%N))) (returned TStr L_seg true (Some (JStr [49; 50; 51]%N))) = false /\
  json_eqb (returned (TOpt TStr) L_mem true (Some JNull)) (returned (TOpt TStr) L_seg true (Some JNull)) = false /\
  json_eqb (returned TF64 L_mem true (Some (JU64 9007199254740993))) (returned TF64 L_seg true (Some (JU64 9007199254740993))) = false.
Proof. repeat split; vm_compute; reflexivity. Qed.

(** * a zone column is read back cell by cell *)
Lemma nat_iter_map : forall (A : Type) (f : A -> A) n (l : list A),
  Nat.iter n (map f) l = map (Nat.iter n f) l.
Proof.
  intros A f n. induction n as [|n IH]; intros l.
  - cbn [Nat.iter nat_rect]. rewrite map_id. reflexivity.
  - change (Nat.iter (S n) (map f) l) with (map f (Nat.iter n (map f) l)).
    rewrite IH, map_map. apply map_ext. intros a. reflexivity.
Qed.

Lemma nat_iter_S : forall (A : Type) (f : A -> A) n x, Nat.iter (S n) f x = f (Nat.iter n f x).
Proof. reflexivity. Qed.
Lemma nat_iter_shift : forall (A : Type) (f : A -> A) n x, Nat.iter n f (f x) = f (Nat.iter n f x).
Proof.
  intros A f n x. induction n as [|n IH]; [reflexivity|].
  rewrite !nat_iter_S, IH. reflexivity.
Qed.

Lemma iter_compact_nat_iter : forall n p c, iter_compact n p c = Nat.iter n (compact_cell p) c.
Proof.
  induction n as [|n IH]; intros p c; [reflexivity|].
  cbn [iter_compact]. rewrite IH, nat_iter_S, nat_iter_shift. reflexivity.
Qed.

Theorem zone_pointwise : forall t l vs,
  returned_zone t l vs = map (returned t l (zone_col_present vs)) vs.
Proof.
  intros t [w seg] vs. unfold returned_zone, returned, tier_scalar. cbn [via_wal in_seg].
  destruct seg as [n|].
  - destruct (zone_col_present vs).
    + unfold read_zone, compact_zone, write_zone. rewrite nat_iter_map, !map_map.
      apply map_ext. intros v. rewrite iter_compact_nat_iter. reflexivity.
    + apply map_ext. reflexivity.
  - rewrite map_map. reflexivity.
Qed.

Lemma zone_col_consistent : forall vs v, In v vs -> col_consistent (zone_col_present vs) v = true.
Proof.
  intros vs v Hin. destruct v as [j|]; [|reflexivity]. cbn [col_consistent]. unfold zone_col_present.
  apply existsb_exists. exists (Some j). split; [exact Hin|reflexivity].
Qed.

(** every cell of a zone outside the known classes comes back as stored *)
Corollary zone_roundtrip : forall t l vs,
  definable t = true ->
  Forall (fun v => conforming t v = true /\ known t l (zone_col_present vs) v = false) vs ->
  Forall2 (fun r v => json_eqb r (expected v) = true) (returned_zone t l vs) vs.
Proof.
  intros t l vs Hd Hall. rewrite zone_pointwise.
  assert (G : forall ws, (forall v, In v ws -> In v vs) ->
              Forall2 (fun r v => json_eqb r (expected v) = true) (map (returned t l (zone_col_present vs)) ws) ws).
  { induction ws as [|v ws IH]; intros Hsub; cbn [map]; constructor.
    - rewrite Forall_forall in Hall. destruct (Hall v (Hsub v (or_introl eq_refl))) as [Hc Hk].
      apply roundtrip_outside_known; try assumption. apply zone_col_consistent, Hsub. left. reflexivity.
    - apply IH. intros x Hx. apply Hsub. right. exact Hx. }
  apply G. auto.
Qed.

(** * which var-bytes cells EventBuilder re-types *)
Lemma parse_u64_minus : forall r, parse_u64 (45%N :: r) = None.
Proof. reflexivity. Qed.

Lemma ints_branch : forall t,
  match t with
  | 45%N :: _ => match parse_i64 t with Some i => Some (SInt i) | None => None end
  | _ => match parse_u64 t with
         | Some u => Some (u64_scalar u)
         | None => match parse_i64 t with Some i => Some (SInt i) | None => None end
         end
  end =
  match parse_u64 t with
  | Some u => Some (u64_scalar u)
  | None => match parse_i64 t with Some i => Some (SInt i) | None => None end
  end.
Proof.
  intros [|c r]; [reflexivity|].
  destruct (N.eq_dec c 45) as [->|Hc]; [rewrite parse_u64_minus; reflexivity|].
  destruct c as [|p]; [reflexivity|].
  repeat (destruct p as [p|p|]; try reflexivity); try contradiction.
Qed.

Theorem string_retyped_characterised : forall s,
  (retype_candidate s = false -> add_payload_field s = SUtf8 s) /\
  (retype_candidate s = true ->
     add_payload_field s <> SUtf8 s \/
     exists u, parse_u64 (utrim s) = Some u /\ i64_max < u /\ s = dec_of_Z u).
Proof.
  intros s. unfold retype_candidate, add_payload_field. cbv zeta. rewrite ints_branch.
  destruct (bytes_eqb (utrim s) kw_true); [split; [discriminate|left; discriminate]|].
  destruct (bytes_eqb (utrim s) kw_false); [split; [discriminate|left; discriminate]|].
  destruct (bytes_eqb (utrim s) kw_null); [split; [discriminate|left; discriminate]|].
  cbn [orb].
  destruct (parse_u64 (utrim s)) as [u|] eqn:Eu; cbn [is_some orb].
  - split; [discriminate|]. intros _. unfold u64_scalar. destruct (Z.leb_spec u i64_max).
    + left. discriminate.
    + destruct (bytes_eqb (dec_of_Z u) s) eqn:E.
      * right. exists u. apply bytes_eqb_eq in E. auto.
      * left. intros Hq. inversion Hq as [H1]. rewrite H1, bytes_eqb_refl in E. discriminate.
  - destruct (parse_i64 (utrim s)) as [i|]; cbn [is_some orb]; [split; [discriminate|left; discriminate]|].
    destruct (parse_f64 (utrim s)) as [b|]; [destruct (f64_is_finite b)|];
      split; intros Hq; try discriminate; try reflexivity; left; discriminate.
Qed.

(** a cell outside the candidate class keeps its text in every segment layout *)
Corollary not_candidate_not_retyped : forall s, retype_candidate s = false -> string_retyped s = false.
Proof.
  intros s H. unfold string_retyped. rewrite (proj1 (string_retyped_characterised s) H), scalar_eqb_refl. reflexivity.
Qed.

(** the hypotheses of the positive theorems are satisfiable in every tier: a u64 above i64::MAX, i64::MIN,
    a float, a non-ASCII string, "NaN" (not re-typed), an enum variant, a time, nulls and absent keys *)
Definition L_all : list layout :=
  [L_mem; L_wal; L_seg; L_cmp; {| via_wal := true; in_seg := Some 0%nat |}; {| via_wal := true; in_seg := Some 3%nat |}].
Definition sample_inputs : list (ftype * stored) :=
  [(TU64, Some (JU64 18446744073709551615)); (TOpt TU64, Some (JU64 9223372036854775808));
   (TI64, Some (JI64 (-9223372036854775808))); (TI64, Some (JU64 9223372036854775807));
   (TF64, Some (JF64 4609434218613702656)); (TF64, Some (JF64 4646557125919078934)); (TF64, Some (JF64 4845873199050653695)); (TF64, Some (JU64 3)); (TF64, Some (JI64 (-9007199254740992)));
   (TStr, Some (JStr [104; 195; 169; 108; 108; 111; 32; 119; 195; 182; 114; 108; 100]%N));
   (TStr, Some (JStr [78; 97; 78]%N)); (TStr, Some (JStr []));
   (TEnum [[97; 97]%N; [98]%N], Some (JStr [97; 97]%N));
   (TTime, Some (JU64 1700000000)); (TOpt TDate, Some JNull); (TOpt TI64, None); (TOpt TBool, Some (JBool true));
   (TBool, Some (JBool false)); (TOpt TF64, Some JNull)].
Example roundtrip_outside_known_example :
  forallb (fun l => forallb (fun tv =>
     definable (fst tv) && conforming (fst tv) (snd tv) && col_consistent true (snd tv) &&
     negb (known (fst tv) l true (snd tv)) &&
     json_eqb (returned (fst tv) l true (snd tv)) (expected (snd tv))) sample_inputs) L_all = true.
Proof. vm_compute. reflexivity. Qed.

(** * EventSink and ConditionEvaluator materialise a var-bytes cell identically
    (EventSink asks [get_i64_at] first; a text that reads as an i64 is re-typed to the same Int64 by
    add_payload_field) *)
Definition plain_head (c : N) : Prop := c = 43%N \/ c = 45%N \/ is_digit c = true.

Lemma ws_len_start_plain : forall c r, plain_head c -> ws_len_start (c :: r) = 0%nat.
Proof.
  intros c r H. unfold ws_len_start.
  assert (Ha : is_ascii_ws c = false) by (unfold is_ascii_ws; destruct H as [->|[->|H]]; [reflexivity|reflexivity|unfold is_digit in H; lia]).
  rewrite Ha.
  assert (H2 : forall b, ws2 c b = false) by (intros b; unfold ws2; destruct H as [->|[->|H]]; [reflexivity|reflexivity|unfold is_digit in H; lia]).
  assert (H3 : forall a b, ws3 c a b = false).
  { intros a b. unfold ws3. destruct H as [->|[->|H]]; [reflexivity|reflexivity|].
    unfold is_digit in H.
    assert (X1 : (c =? 225)%N = false) by lia. assert (X2 : (c =? 226)%N = false) by lia. assert (X3 : (c =? 227)%N = false) by lia.
    rewrite X1, X2, X3. reflexivity. }
  destruct r as [|b r2]; [reflexivity|]. rewrite H2. destruct r2 as [|a r3]; [reflexivity|]. rewrite H3. reflexivity.
Qed.

Lemma ws_len_end_digit : forall d r, is_digit d = true -> ws_len_end (d :: r) = 0%nat.
Proof.
  intros d r H. unfold ws_len_end. unfold is_digit in H.
  assert (Ha : is_ascii_ws d = false) by (unfold is_ascii_ws; lia). rewrite Ha.
  destruct r as [|b r2]; [reflexivity|].
  assert (H2 : ws2 b d = false) by (unfold ws2; lia). rewrite H2.
  destruct r2 as [|a r3]; [reflexivity|].
  assert (H3 : ws3 a b d = false).
  { unfold ws3.
    assert (X1 : (d =? 128)%N = false) by lia. assert (X2 : (d =? 159)%N = false) by lia.
    assert (X3 : (d =? 168)%N = false) by lia. assert (X4 : (d =? 169)%N = false) by lia. assert (X5 : (d =? 175)%N = false) by lia.
    assert (X6 : ((128 <=? d)%N && (d <=? 138)%N) = false) by lia.
    rewrite X1, X2, X3, X4, X5, X6. rewrite !andb_false_r. reflexivity. }
  rewrite H3. reflexivity.
Qed.

Lemma utrim_plain : forall c r d r',
  plain_head c -> rev (c :: r) = d :: r' -> is_digit d = true -> utrim (c :: r) = c :: r.
Proof.
  intros c r d r' Hc Hr Hd. unfold utrim.
  assert (E1 : utrim_start (c :: r) = c :: r).
  { unfold utrim_start. cbn [length utrim_start_fuel]. rewrite ws_len_start_plain by exact Hc. reflexivity. }
  rewrite E1. unfold utrim_end. rewrite Hr.
  assert (E2 : utrim_end_fuel (length (c :: r)) (d :: r') = d :: r').
  { cbn [length utrim_end_fuel]. rewrite ws_len_end_digit by exact Hd. reflexivity. }
  rewrite E2, <- Hr, rev_involutive. reflexivity.
Qed.

Lemma all_digits_last : forall ds, ds <> [] -> all_digits ds = true -> forall pre,
  exists d r', rev (pre ++ ds) = d :: r' /\ is_digit d = true.
Proof.
  intros ds Hne Hd pre. destruct (exists_last Hne) as (ds' & d & E). subst ds.
  rewrite all_digits_app in Hd. apply andb_true_iff in Hd. destruct Hd as [_ Hd]. cbn [all_digits] in Hd.
  apply andb_true_iff in Hd. destruct Hd as [Hd _].
  exists d, (rev (pre ++ ds')). split; [|exact Hd]. rewrite app_assoc, rev_app_distr. reflexivity.
Qed.

Lemma digits_opt_some : forall s v, digits_opt s = Some v -> s <> [] /\ all_digits s = true /\ v = digits_val s 0.
Proof.
  intros s v H. unfold digits_opt in H. destruct s as [|c r]; [discriminate|].
  destruct (all_digits (c :: r)) eqn:E; [|discriminate]. inversion H. repeat split. discriminate.
Qed.

Lemma kw_tests_plain : forall c r, plain_head c ->
  bytes_eqb (c :: r) kw_true = false /\ bytes_eqb (c :: r) kw_false = false /\ bytes_eqb (c :: r) kw_null = false.
Proof.
  intros c r H.
  assert (H1 : (c =? 116)%N = false) by (destruct H as [->|[->|H]]; [reflexivity|reflexivity|unfold is_digit in H; lia]).
  assert (H2 : (c =? 102)%N = false) by (destruct H as [->|[->|H]]; [reflexivity|reflexivity|unfold is_digit in H; lia]).
  assert (H3 : (c =? 110)%N = false) by (destruct H as [->|[->|H]]; [reflexivity|reflexivity|unfold is_digit in H; lia]).
  change kw_true with [116; 114; 117; 101]%N. change kw_false with [102; 97; 108; 115; 101]%N. change kw_null with [110; 117; 108; 108]%N.
  cbn [bytes_eqb]. rewrite H1, H2, H3. repeat split; reflexivity.
Qed.

Theorem sink_agrees : forall s z, parse_i64 s = Some z -> add_payload_field s = SInt z.
Proof.
  intros s z H. destruct s as [|c r]; [cbn in H; discriminate|].
  (* shape of the text *)
  assert (Hshape : plain_head c /\ exists d r', rev (c :: r) = d :: r' /\ is_digit d = true).
  { destruct (N.eq_dec c 45) as [->|Hm].
    - rewrite parse_i64_minus in H. destruct (digits_opt r) as [v|] eqn:E; [|discriminate].
      destruct (digits_opt_some _ _ E) as (Hne & Hd & _). split; [right; left; reflexivity|].
      apply (all_digits_last r Hne Hd [45%N]).
    - destruct (N.eq_dec c 43) as [->|Hp].
      + rewrite parse_i64_plus in H. destruct (digits_opt r) as [v|] eqn:E; [|discriminate].
        destruct (digits_opt_some _ _ E) as (Hne & Hd & _). split; [left; reflexivity|].
        apply (all_digits_last r Hne Hd [43%N]).
      + rewrite parse_i64_nosign in H by assumption. destruct (digits_opt (c :: r)) as [v|] eqn:E; [|discriminate].
        destruct (digits_opt_some _ _ E) as (Hne & Hd & _). split; [right; right; eapply all_digits_head, Hd|].
        apply (all_digits_last (c :: r) Hne Hd []). }
  destruct Hshape as (Hc & d & r' & Hr & Hd).
  unfold add_payload_field. cbv zeta. rewrite ints_branch, (utrim_plain c r d r' Hc Hr Hd).
  destruct (kw_tests_plain c r Hc) as (K1 & K2 & K3). rewrite K1, K2, K3.
  destruct (N.eq_dec c 45) as [->|Hm].
  - rewrite parse_u64_minus, H. reflexivity.
  - assert (Hu : parse_u64 (c :: r) = Some z /\ z <= i64_max).
    { destruct (N.eq_dec c 43) as [->|Hp].
      - rewrite parse_i64_plus in H. rewrite parse_u64_plus. destruct (digits_opt r) as [v|]; [|discriminate].
        destruct (Z.leb_spec v i64_max); [|discriminate]. inversion H. subst v.
        destruct (Z.leb_spec z u64_max); [split; [reflexivity|assumption]|unfold i64_max, u64_max in *; lia].
      - rewrite parse_i64_nosign in H by assumption. rewrite parse_u64_noplus by assumption.
        destruct (digits_opt (c :: r)) as [v|]; [|discriminate].
        destruct (Z.leb_spec v i64_max); [|discriminate]. inversion H. subst v.
        destruct (Z.leb_spec z u64_max); [split; [reflexivity|assumption]|unfold i64_max, u64_max in *; lia]. }
    destruct Hu as [Hu Hle]. rewrite Hu. unfold u64_scalar. destruct (Z.leb_spec z i64_max); [reflexivity|lia].
Qed.

Corollary read_cell_sink_agrees : forall c, read_cell_sink c = read_cell c.
Proof.
  intros [s | o | o | o | o]; try reflexivity. cbn [read_cell_sink read_cell].
  destruct (parse_i64 s) as [z|] eqn:E; [|reflexivity]. symmetry. apply sink_agrees, E.
Qed.

(** * after the fix round: the WAL line is exact for every payload scalar (fix 32b7370) *)
Theorem wal_exact : forall s,
  (forall b, s = SFloat b -> f64_is_finite b = true) -> wal_scalar s = s.
Proof.
  intros [| b | z | b | t] H; try reflexivity. cbn [wal_scalar]. apply wal_float_exact, H. reflexivity.
Qed.

(** hence a WAL-recovering restart never changes what a layout returns *)
Corollary restart_invisible : forall t seg cp v,
  conforming t v = true ->
  returned t {| via_wal := true; in_seg := seg |} cp v = returned t {| via_wal := false; in_seg := seg |} cp v.
Proof.
  intros t seg cp v Hc. unfold returned, tier_scalar. cbn [via_wal in_seg].
  rewrite wal_exact; [reflexivity|].
  intros b Hb. destruct v as [j|]; [|discriminate]. cbn [conforming] in Hc. apply andb_true_iff in Hc. destruct Hc as [_ Hwf].
  destruct j; cbn [mem_scalar scalar_of_json] in Hb; try discriminate.
  - destruct (n <=? i64_max); discriminate.
  - inversion Hb. subst. cbn [wf_json] in Hwf. lia.
Qed.

(** * the core string fields (context_id, event_type) *)
Lemma iter_core_compact_id : forall n s, iter_core_compact n s = s.
Proof. induction n as [|n IH]; intros s; cbn [iter_core_compact]; [reflexivity|]. apply IH. Qed.

Lemma core_tier_text_id : forall l s, core_tier_text l s = s.
Proof. intros [w [n|]] s; unfold core_tier_text; cbn [in_seg]; [apply iter_core_compact_id|reflexivity]. Qed.

(** every layout returns the same cell for a core string field ... *)
Theorem core_tiers_agree : forall l1 l2 s, returned_core l1 s = returned_core l2 s.
Proof. intros. unfold returned_core. rewrite !core_tier_text_id. reflexivity. Qed.

(** ... namely the stored text, unless to_json re-parses it *)
Theorem core_roundtrip_outside_known : forall l s, utf8_reparsed s = false -> returned_core l s = JStr s.
Proof. intros l s H. unfold returned_core. rewrite core_tier_text_id. apply json_of_utf8_plain, H. Qed.

Theorem core_known_fails : forall l s, utf8_reparsed s = true -> json_eqb (returned_core l s) (JStr s) = false.
Proof.
  intros l s H. unfold returned_core. rewrite core_tier_text_id. unfold utf8_reparsed in H. unfold json_of_utf8.
  destruct (parse_json s) as [[| | n | | | | |]|]; try discriminate; try reflexivity. rewrite H. reflexivity.
Qed.

(** the context ids "9999999999999999999" and "[1]" come back as a number / an array, in memory and flushed *)
Example core_refuted :
  returned_core L_mem (dec_of_Z 9999999999999999999) = JU64 9999999999999999999 /\
  returned_core L_cmp (dec_of_Z 9999999999999999999) = JU64 9999999999999999999 /\
  returned_core L_seg [91; 49; 93]%N = JArr [JU64 1].
Proof. repeat split; vm_compute; reflexivity. Qed.

(** FOR <ctx> selects exactly the events stored under that spelling: two contexts that differ only in
    spelling ("0042" / "42", "+7" / "7", "-0" / "0") stay two contexts in every layout *)
Theorem for_selects_exact : forall l q ctx, for_selects l q ctx = true <-> ctx = q.
Proof.
  intros l q ctx. unfold for_selects. rewrite core_tier_text_id. split.
  - apply bytes_eqb_eq.
  - intros ->. apply bytes_eqb_refl.
Qed.

(** The integer-first materialisation (EventSink; not on the QUERY/REPLAY path) is NOT the identity on core
    fields: it rewrites exactly the texts that read as an i64 and are not its canonical decimal spelling. *)
Theorem core_sink_characterised : forall s,
  (parse_i64 s = None -> core_read_sink s = core_read s) /\
  (forall z, parse_i64 s = Some z -> core_read_sink s = dec_of_Z z).
Proof. intros s. unfold core_read_sink, core_read. split; [intros ->; reflexivity|intros z ->; reflexivity]. Qed.

Example core_sink_differs :
  core_read_sink [48; 48; 49; 50; 51]%N = [49; 50; 51]%N /\ core_read [48; 48; 49; 50; 51]%N = [48; 48; 49; 50; 51]%N /\
  core_read_sink [43; 55]%N = [55]%N /\ core_read_sink [45; 48]%N = [48]%N /\
  for_selects L_seg [52; 50]%N [48; 48; 52; 50]%N = false /\ for_selects L_seg [48; 48; 52; 50]%N [48; 48; 52; 50]%N = true.
Proof. repeat split; vm_compute; reflexivity. Qed.
