(** C07, part 2: the value path through the tiers. *)
From Coq Require Import ZArith NArith List Bool Lia.
From Coq Require Import ZifyBool ZifyNat ZifyN.
From Snel Require Import Base.Bytes Model.Float64 Model.RustText Model.Json Model.ValueTiers Gen.Params.
From Snel Require Import Proofs.ValueTextProofs.
Import ListNotations.
Open Scope Z_scope.

(** * side conditions on the regenerated parameters (Gen/Params.v) *)
Lemma phys_params :
  phys_base TStr = PVar /\ phys_base TU64 = PU64 /\ phys_base TI64 = PI64 /\ phys_base TF64 = PF64 /\
  phys_base TBool = PBool /\ phys_base TTime = PI64 /\ phys_base TDate = PI64 /\
  (forall vs, phys_base (TEnum vs) = PVar) /\
  phys_opt TStr = PVar /\ phys_opt TU64 = PU64 /\ phys_opt TI64 = PI64 /\ phys_opt TF64 = PF64 /\
  phys_opt TBool = PBool /\ phys_opt TTime = PI64 /\ phys_opt TDate = PI64 /\
  (forall vs, phys_opt (TEnum vs) = PVar).
Proof. repeat split; reflexivity. Qed.

Lemma threshold_param : value_tojson_u64_threshold = i64_max.
Proof. reflexivity. Qed.

Lemma varbytes_no_null_bitmap : value_varbytes_has_nulls = false.
Proof. reflexivity. Qed.

Lemma bool_text_params :
  parse_bool_ci kw_true = Some true /\ parse_bool_ci kw_false = Some false /\ parse_bool_ci [] = None.
Proof. repeat split; vm_compute; reflexivity. Qed.

Lemma empty_text_reads :
  parse_i64 [] = None /\ parse_u64 [] = None /\ parse_f64 [] = None /\ add_payload_field [] = SUtf8 [].
Proof. repeat split; vm_compute; reflexivity. Qed.

(** * compaction is a fixpoint of every flushed cell *)
Lemma u64_scalar_text : forall u, text_of_scalar (u64_scalar u) = dec_of_Z u.
Proof. intros u. unfold u64_scalar. destruct (u <=? i64_max); reflexivity. Qed.

Lemma compact_fix : forall p s, compact_cell p (write_cell p s) = write_cell p s.
Proof.
  intros p s. unfold compact_cell. destruct p; cbn [write_cell].
  - reflexivity.
  - destruct (parse_i64 (text_of_scalar s)) as [z|] eqn:E; cbn [scan_cell write_cell text_of_scalar].
    + rewrite parse_i64_dec; [reflexivity|eapply parse_i64_range, E].
    + reflexivity.
  - destruct (parse_u64 (text_of_scalar s)) as [u|] eqn:E; cbn [scan_cell write_cell].
    + rewrite u64_scalar_text, parse_u64_dec; [reflexivity|eapply parse_u64_range, E].
    + reflexivity.
  - set (o := match s with SFloat b => Some b | _ => parse_f64 (text_of_scalar s) end).
    destruct o as [b|]; cbn [scan_cell write_cell]; reflexivity.
  - destruct (parse_bool_ci (text_of_scalar s)) as [[|]|] eqn:E; cbn [scan_cell write_cell text_of_scalar].
    + rewrite (proj1 bool_text_params). reflexivity.
    + rewrite (proj1 (proj2 bool_text_params)). reflexivity.
    + rewrite (proj2 (proj2 bool_text_params)). reflexivity.
Qed.

Lemma iter_compact_fix : forall n p s, iter_compact n p (write_cell p s) = write_cell p s.
Proof. induction n as [|n IH]; intros p s; cbn [iter_compact]; [reflexivity|]. rewrite compact_fix. apply IH. Qed.

(** * the cell as read back after a flush *)
Definition rt (p : phys) (s : scalar) : scalar := read_cell (write_cell p s).

Lemma tier_scalar_seg : forall t w n v,
  tier_scalar t {| via_wal := w; in_seg := Some n |} true v =
  rt (phys_of t) (if w then wal_scalar (mem_scalar v) else mem_scalar v).
Proof. intros. unfold tier_scalar. cbn [via_wal in_seg]. rewrite iter_compact_fix. reflexivity. Qed.

Lemma rt_var_utf8 : forall s, rt PVar (SUtf8 s) = add_payload_field s.
Proof. reflexivity. Qed.
Lemma rt_var_null : rt PVar SNull = SUtf8 [].
Proof. unfold rt. cbn [write_cell text_of_scalar read_cell]. apply empty_text_reads. Qed.
Lemma rt_null : forall p, p <> PVar -> rt p SNull = SNull.
Proof.
  intros p Hp. unfold rt. destruct p; try contradiction; cbn [write_cell text_of_scalar].
  - rewrite (proj1 empty_text_reads). reflexivity.
  - rewrite (proj1 (proj2 empty_text_reads)). reflexivity.
  - rewrite (proj1 (proj2 (proj2 empty_text_reads))). reflexivity.
  - rewrite (proj2 (proj2 bool_text_params)). reflexivity.
Qed.
Lemma rt_i64_int : forall z, i64_min <= z <= i64_max -> rt PI64 (SInt z) = SInt z.
Proof. intros z Hz. unfold rt. cbn [write_cell text_of_scalar]. rewrite parse_i64_dec by exact Hz. reflexivity. Qed.
Lemma rt_u64_int : forall n, 0 <= n <= u64_max -> rt PU64 (SInt n) = u64_scalar n.
Proof. intros n Hn. unfold rt. cbn [write_cell text_of_scalar]. rewrite parse_u64_dec by exact Hn. reflexivity. Qed.
Lemma rt_u64_big : forall n, 0 <= n <= u64_max -> rt PU64 (SUtf8 (dec_of_Z n)) = u64_scalar n.
Proof. intros n Hn. unfold rt. cbn [write_cell text_of_scalar]. rewrite parse_u64_dec by exact Hn. reflexivity. Qed.
Definition f64_cell_scalar (b : Z) : scalar := if f64_is_finite b then SFloat b else SNull.
Lemma rt_f64_float : forall b, rt PF64 (SFloat b) = f64_cell_scalar b.
Proof. reflexivity. Qed.
Lemma rt_f64_int : forall z, - 2 ^ 64 < z < 2 ^ 64 -> rt PF64 (SInt z) = f64_cell_scalar (f64_of_int z).
Proof. intros z Hz. unfold rt. cbn [write_cell text_of_scalar]. rewrite parse_f64_dec by exact Hz. reflexivity. Qed.
Lemma rt_f64_big : forall n, 0 <= n < 2 ^ 64 -> rt PF64 (SUtf8 (dec_of_Z n)) = f64_cell_scalar (f64_of_int n).
Proof. intros n Hn. unfold rt. cbn [write_cell text_of_scalar]. rewrite parse_f64_dec by lia. reflexivity. Qed.
Lemma rt_bool : forall b, rt PBool (SBool b) = SBool b.
Proof.
  intros [|]; unfold rt; cbn [write_cell text_of_scalar].
  - rewrite (proj1 bool_text_params). reflexivity.
  - rewrite (proj1 (proj2 bool_text_params)). reflexivity.
Qed.

(** * equality helpers *)
Lemma scalar_eqb_eq : forall a b, scalar_eqb a b = true -> a = b.
Proof.
  intros [| x | x | x | x] [| y | y | y | y] H; cbn [scalar_eqb] in H; try discriminate; try reflexivity.
  - f_equal. destruct x, y; try discriminate; reflexivity.
  - f_equal. lia.
  - f_equal. lia.
  - f_equal. apply bytes_eqb_eq, H.
Qed.

Lemma json_of_utf8_plain : forall s, utf8_reparsed s = false -> json_of_utf8 s = JStr s.
Proof.
  intros s H. unfold utf8_reparsed in H. unfold json_of_utf8.
  destruct (parse_json s) as [[| | n | | | | |]|]; try reflexivity; try discriminate.
  rewrite H. reflexivity.
Qed.

Lemma json_of_utf8_big : forall n, i64_max < n <= u64_max -> json_of_utf8 (dec_of_Z n) = JU64 n.
Proof.
  intros n Hn. unfold json_of_utf8. unfold i64_max in Hn. rewrite parse_json_dec by (unfold u64_max in *; lia).
  rewrite threshold_param. unfold i64_max. destruct (Z.ltb_spec (2 ^ 63 - 1) n); [reflexivity|lia].
Qed.

Lemma json_of_u64_scalar : forall n, 0 <= n <= u64_max -> json_of_scalar (u64_scalar n) = JU64 n.
Proof.
  intros n Hn. unfold u64_scalar. destruct (Z.leb_spec n i64_max).
  - cbn [json_of_scalar]. destruct (Z.ltb_spec n 0); [lia|reflexivity].
  - cbn [json_of_scalar]. apply json_of_utf8_big. lia.
Qed.

Lemma float_is_int_finite : forall b z, float_is_int b z = true -> f64_is_finite b = true.
Proof. intros b z H. unfold float_is_int in H. destruct (f64_is_finite b); [reflexivity|discriminate]. Qed.

(** * what DEFINE can declare, and the consistency of [col_present] with the row itself *)
Definition definable (t : ftype) : bool :=
  match t with TOpt (TOpt _) => false | _ => true end.
Definition col_consistent (cp : bool) (v : stored) : bool :=
  match v with Some _ => cp | None => true end.

(** shape of a conforming non-null value relative to the physical type of its column *)
Definition compat (p : phys) (j : json) : bool :=
  match p, j with
  | PVar, JStr _ => true
  | PI64, JU64 n => n <=? i64_max
  | PI64, JI64 _ => true
  | PU64, JU64 _ => true
  | PF64, JU64 _ | PF64, JI64 _ | PF64, JF64 _ => true
  | PBool, JBool _ => true
  | _, _ => false
  end.

Lemma allows_base_compat : forall t j,
  match t with TOpt _ => False | _ => True end -> allows t j = true -> compat (phys_base t) j = true.
Proof.
  intros t j Ht H. destruct phys_params as (P1 & P2 & P3 & P4 & P5 & P6 & P7 & P8 & _).
  destruct t; try contradiction; cbn [allows] in H.
  - rewrite P1. destruct j; try discriminate; reflexivity.
  - rewrite P2. destruct j; try discriminate; reflexivity.
  - rewrite P3. destruct j; try discriminate; [exact H|reflexivity].
  - rewrite P4. destruct j; try discriminate; reflexivity.
  - rewrite P5. destruct j; try discriminate; reflexivity.
  - rewrite P6. destruct j; try discriminate; [exact H|reflexivity].
  - rewrite P7. destruct j; try discriminate; [exact H|reflexivity].
  - rewrite P8. destruct j; try discriminate; reflexivity.
Qed.

Lemma phys_opt_base : forall i, match i with TOpt _ => False | _ => True end -> phys_opt i = phys_base i.
Proof.
  intros i Hi. destruct phys_params as (P1 & P2 & P3 & P4 & P5 & P6 & P7 & P8 & Q1 & Q2 & Q3 & Q4 & Q5 & Q6 & Q7 & Q8).
  destruct i; try contradiction; congruence.
Qed.

Lemma conforming_compat : forall t j,
  definable t = true -> allows t j = true -> j <> JNull -> compat (phys_of t) j = true.
Proof.
  intros t j Hd Ha Hn. destruct t as [| | | | | | | vs | i]; try (apply allows_base_compat; [exact I|exact Ha]).
  cbn [phys_of]. destruct i as [| | | | | | | vs | i']; cbn [definable] in Hd; try discriminate;
    cbn [allows] in Ha; (destruct j; try contradiction (Hn eq_refl));
    (rewrite phys_opt_base by exact I; apply allows_base_compat; [exact I|exact Ha]).
Qed.

(** the classes, spelled over the physical type *)
Lemma known_false : forall t l cp v, known t l cp v = false ->
  in_class Utf8ReparsedOnRender t l cp v = false /\ in_class StringRetyped t l cp v = false /\
  in_class NullStringBecomesEmpty t l cp v = false /\ in_class IntegerInFloatFieldRounded t l cp v = false /\
  in_class FloatWalReparsedInexact t l cp v = false.
Proof.
  intros t l cp v H. unfold known, all_classes in H. cbn [existsb] in H.
  repeat (apply orb_false_iff in H; destruct H as [? H]). repeat split; assumption.
Qed.

Lemma json_eqb_str_refl : forall s, json_eqb (JStr s) (JStr s) = true.
Proof. intros s. cbn [json_eqb]. apply bytes_eqb_refl. Qed.

(** * the round trip outside the known classes *)
Lemma roundtrip_value : forall t w seg j,
  definable t = true -> allows t j = true -> wf_json j = true -> j <> JNull ->
  let l := {| via_wal := w; in_seg := seg |} in
  known t l true (Some j) = false ->
  json_eqb (returned t l true (Some j)) j = true.
Proof.
  intros t w seg j Hd Ha Hwf Hn l Hk.
  pose proof (conforming_compat t j Hd Ha Hn) as Hc.
  destruct (known_false _ _ _ _ Hk) as (K1 & K2 & K3 & K4 & K5).
  unfold returned. subst l.
  assert (Hmem : forall s, (if w then wal_scalar s else s) = s \/ exists b, s = SFloat b).
  { intros s. destruct w; [|left; reflexivity]. destruct s; try (left; reflexivity). right. eexists. reflexivity. }
  destruct (phys_of t) eqn:Hp; destruct j; cbn [compat] in Hc; try discriminate.
  - (* var-bytes / string *)
    cbn [in_class] in K1, K2. rewrite Hp in K2.
    assert (E0 : json_of_utf8 s = JStr s) by (apply json_of_utf8_plain, K1).
    destruct seg as [n|].
    + rewrite tier_scalar_seg, Hp. cbn [mem_scalar scalar_of_json].
      replace (if w then wal_scalar (SUtf8 s) else SUtf8 s) with (SUtf8 s) by (destruct w; reflexivity).
      rewrite rt_var_utf8. cbn [in_memory in_seg negb andb] in K2.
      apply negb_false_iff, scalar_eqb_eq in K2. rewrite K2. cbn [json_of_scalar]. rewrite E0. apply json_eqb_str_refl.
    + unfold tier_scalar. cbn [via_wal in_seg mem_scalar scalar_of_json].
      replace (if w then wal_scalar (SUtf8 s) else SUtf8 s) with (SUtf8 s) by (destruct w; reflexivity).
      cbn [json_of_scalar]. rewrite E0. apply json_eqb_str_refl.
  - (* I64 column, non-negative *)
    cbn [wf_json] in Hwf. assert (Hr : 0 <= n <= i64_max) by (unfold i64_max, i64_min, u64_max in *; lia).
    assert (Es : scalar_of_json (JU64 n) = SInt n) by (cbn [scalar_of_json]; destruct (Z.leb_spec n i64_max); [reflexivity|unfold i64_max, i64_min, u64_max in *; lia]).
    assert (Ej : json_of_scalar (SInt n) = JU64 n) by (cbn [json_of_scalar]; destruct (Z.ltb_spec n 0); [unfold i64_max, i64_min, u64_max in *; lia|reflexivity]).
    destruct seg as [k|].
    + rewrite tier_scalar_seg, Hp. cbn [mem_scalar]. rewrite Es.
      replace (if w then wal_scalar (SInt n) else SInt n) with (SInt n) by (destruct w; reflexivity).
      rewrite rt_i64_int by (unfold i64_min, i64_max in *; lia). rewrite Ej. cbn [json_eqb]. lia.
    + unfold tier_scalar. cbn [via_wal in_seg mem_scalar]. rewrite Es.
      replace (if w then wal_scalar (SInt n) else SInt n) with (SInt n) by (destruct w; reflexivity).
      rewrite Ej. cbn [json_eqb]. lia.
  - (* I64 column, negative *)
    cbn [wf_json] in Hwf.
    assert (Ej : json_of_scalar (SInt z) = JI64 z) by (cbn [json_of_scalar]; destruct (Z.ltb_spec z 0); [reflexivity|unfold i64_max, i64_min, u64_max in *; lia]).
    destruct seg as [k|].
    + rewrite tier_scalar_seg, Hp. cbn [mem_scalar scalar_of_json].
      replace (if w then wal_scalar (SInt z) else SInt z) with (SInt z) by (destruct w; reflexivity).
      rewrite rt_i64_int by (unfold i64_min, i64_max in *; lia). rewrite Ej. cbn [json_eqb]. lia.
    + unfold tier_scalar. cbn [via_wal in_seg mem_scalar scalar_of_json].
      replace (if w then wal_scalar (SInt z) else SInt z) with (SInt z) by (destruct w; reflexivity).
      rewrite Ej. cbn [json_eqb]. lia.
  - (* U64 column *)
    cbn [wf_json] in Hwf. assert (Hr : 0 <= n <= u64_max) by (unfold i64_max, i64_min, u64_max in *; lia).
    assert (Ej : json_of_scalar (scalar_of_json (JU64 n)) = JU64 n).
    { cbn [scalar_of_json]. destruct (Z.leb_spec n i64_max).
      - cbn [json_of_scalar]. destruct (Z.ltb_spec n 0); [unfold i64_max, i64_min, u64_max in *; lia|reflexivity].
      - cbn [json_of_scalar]. apply json_of_utf8_big. unfold i64_max, i64_min, u64_max in *; lia. }
    assert (Ew : (if w then wal_scalar (scalar_of_json (JU64 n)) else scalar_of_json (JU64 n)) = scalar_of_json (JU64 n)).
    { destruct w; [|reflexivity]. cbn [scalar_of_json]. destruct (n <=? i64_max); reflexivity. }
    destruct seg as [k|].
    + rewrite tier_scalar_seg, Hp. cbn [mem_scalar]. rewrite Ew.
      assert (Er : rt PU64 (scalar_of_json (JU64 n)) = u64_scalar n).
      { cbn [scalar_of_json]. destruct (Z.leb_spec n i64_max); [apply rt_u64_int|apply rt_u64_big]; unfold i64_max, i64_min, u64_max in *; lia. }
      rewrite Er, json_of_u64_scalar by (unfold i64_max, i64_min, u64_max in *; lia). cbn [json_eqb]. lia.
    + unfold tier_scalar. cbn [via_wal in_seg mem_scalar]. rewrite Ew, Ej. cbn [json_eqb]. lia.
  - (* F64 column, unsigned integer value *)
    cbn [wf_json] in Hwf. assert (Hr : 0 <= n <= u64_max) by (unfold i64_max, i64_min, u64_max in *; lia).
    assert (Ej : json_of_scalar (scalar_of_json (JU64 n)) = JU64 n).
    { cbn [scalar_of_json]. destruct (Z.leb_spec n i64_max).
      - cbn [json_of_scalar]. destruct (Z.ltb_spec n 0); [unfold i64_max, i64_min, u64_max in *; lia|reflexivity].
      - cbn [json_of_scalar]. apply json_of_utf8_big. unfold i64_max, i64_min, u64_max in *; lia. }
    assert (Ew : (if w then wal_scalar (scalar_of_json (JU64 n)) else scalar_of_json (JU64 n)) = scalar_of_json (JU64 n)).
    { destruct w; [|reflexivity]. cbn [scalar_of_json]. destruct (n <=? i64_max); reflexivity. }
    destruct seg as [k|].
    + rewrite tier_scalar_seg, Hp. cbn [mem_scalar]. rewrite Ew.
      assert (Er : rt PF64 (scalar_of_json (JU64 n)) = f64_cell_scalar (f64_of_int n)).
      { cbn [scalar_of_json]. unfold u64_max in Hr. destruct (Z.leb_spec n i64_max); [apply rt_f64_int|apply rt_f64_big]; unfold i64_max, i64_min, u64_max in *; lia. }
      rewrite Er. cbn [in_class in_memory in_seg negb andb] in K4. rewrite Hp in K4.
      unfold int_inexact_as_f64 in K4. apply negb_false_iff in K4.
      unfold f64_cell_scalar. rewrite (float_is_int_finite _ _ K4). cbn [json_of_scalar].
      rewrite (float_is_int_finite _ _ K4). cbn [json_eqb]. exact K4.
    + unfold tier_scalar. cbn [via_wal in_seg mem_scalar]. rewrite Ew, Ej. cbn [json_eqb]. lia.
  - (* F64 column, negative integer value *)
    cbn [wf_json] in Hwf.
    assert (Ej : json_of_scalar (SInt z) = JI64 z) by (cbn [json_of_scalar]; destruct (Z.ltb_spec z 0); [reflexivity|unfold i64_max, i64_min, u64_max in *; lia]).
    destruct seg as [k|].
    + rewrite tier_scalar_seg, Hp. cbn [mem_scalar scalar_of_json].
      replace (if w then wal_scalar (SInt z) else SInt z) with (SInt z) by (destruct w; reflexivity).
      rewrite rt_f64_int by (unfold i64_min in *; lia).
      cbn [in_class in_memory in_seg negb andb] in K4. rewrite Hp in K4.
      unfold int_inexact_as_f64 in K4. apply negb_false_iff in K4.
      unfold f64_cell_scalar. rewrite (float_is_int_finite _ _ K4). cbn [json_of_scalar].
      rewrite (float_is_int_finite _ _ K4). cbn [json_eqb]. exact K4.
    + unfold tier_scalar. cbn [via_wal in_seg mem_scalar scalar_of_json].
      replace (if w then wal_scalar (SInt z) else SInt z) with (SInt z) by (destruct w; reflexivity).
      rewrite Ej. cbn [json_eqb]. lia.
  - (* F64 column, float value *)
    cbn [wf_json] in Hwf. assert (Hf : f64_is_finite bits = true) by (unfold i64_max, i64_min, u64_max in *; lia).
    assert (Ew : (if w then wal_scalar (SFloat bits) else SFloat bits) = SFloat bits).
    { destruct w; [|reflexivity]. cbn [in_class via_wal andb] in K5. unfold float_wal_inexact in K5.
      apply negb_false_iff, scalar_eqb_eq in K5. exact K5. }
    destruct seg as [k|].
    + rewrite tier_scalar_seg, Hp. cbn [mem_scalar scalar_of_json]. rewrite Ew, rt_f64_float.
      unfold f64_cell_scalar. rewrite Hf. cbn [json_of_scalar]. rewrite Hf. cbn [json_eqb]. lia.
    + unfold tier_scalar. cbn [via_wal in_seg mem_scalar scalar_of_json]. rewrite Ew.
      cbn [json_of_scalar]. rewrite Hf. cbn [json_eqb]. lia.
  - (* Bool column *)
    destruct seg as [k|].
    + rewrite tier_scalar_seg, Hp. cbn [mem_scalar scalar_of_json].
      replace (if w then wal_scalar (SBool b) else SBool b) with (SBool b) by (destruct w; reflexivity).
      rewrite rt_bool. cbn [json_of_scalar json_eqb]. destruct b; reflexivity.
    + unfold tier_scalar. cbn [via_wal in_seg mem_scalar scalar_of_json].
      replace (if w then wal_scalar (SBool b) else SBool b) with (SBool b) by (destruct w; reflexivity).
      cbn [json_of_scalar json_eqb]. destruct b; reflexivity.
Qed.

(** null, or an absent key, in an optional field *)
Lemma roundtrip_null : forall t l cp v,
  (v = Some JNull \/ v = None) -> known t l cp v = false ->
  returned t l cp v = JNull.
Proof.
  intros t [w seg] cp v Hv Hk. destruct (known_false _ _ _ _ Hk) as (_ & _ & K3 & _ & _).
  assert (Em : mem_scalar v = SNull) by (destruct Hv; subst v; reflexivity).
  unfold returned, tier_scalar. cbn [via_wal in_seg]. rewrite Em.
  replace (if w then wal_scalar SNull else SNull) with SNull by (destruct w; reflexivity).
  destruct seg as [n|]; [|reflexivity].
  destruct cp; [|reflexivity].
  rewrite iter_compact_fix. fold (rt (phys_of t) SNull).
  cbn [in_class in_memory in_seg negb andb] in K3.
  destruct (phys_of t) eqn:Hp.
  - destruct Hv; subst v; discriminate.
  - rewrite rt_null by discriminate. reflexivity.
  - rewrite rt_null by discriminate. reflexivity.
  - rewrite rt_null by discriminate. reflexivity.
  - rewrite rt_null by discriminate. reflexivity.
Qed.

Theorem roundtrip_outside_known : forall t l cp v,
  definable t = true -> conforming t v = true -> col_consistent cp v = true ->
  known t l cp v = false ->
  json_eqb (returned t l cp v) (expected v) = true.
Proof.
  intros t l cp v Hd Hc Hcp Hk. destruct v as [j|].
  - cbn [conforming] in Hc. apply andb_true_iff in Hc. destruct Hc as [Ha Hwf].
    cbn [col_consistent] in Hcp. subst cp. cbn [expected].
    destruct j; try (destruct l as [w seg]; apply roundtrip_value; try assumption; discriminate).
    rewrite roundtrip_null; [reflexivity|left; reflexivity|exact Hk].
  - cbn [expected]. rewrite roundtrip_null; [reflexivity|right; reflexivity|exact Hk].
Qed.
