(** Proofs about Model/Sequence.v (C15). *)
From Coq Require Import ZArith NArith List Bool Lia Sorted.
From Coq Require Import ZifyBool ZifyNat ZifyN.
From Snel Require Import Base.Bytes Gen.Params Model.Sequence.
Import ListNotations.
Ltac Zify.zify_post_hook ::= Z.div_mod_to_equations.
Open Scope N_scope.

(** * Basics *)

Lemma bytes_eqb_refl : forall a, bytes_eqb a a = true.
Proof. induction a as [|x a IH]; cbn [bytes_eqb]; [reflexivity|]. rewrite N.eqb_refl, IH. reflexivity. Qed.

Lemma bytes_eqb_eq : forall a b, bytes_eqb a b = true -> a = b.
Proof.
  induction a as [|x a IH]; intros [|y b] H; cbn [bytes_eqb] in H; try discriminate; [reflexivity|].
  apply andb_true_iff in H. destruct H as [H1 H2]. apply N.eqb_eq in H1. subst y. f_equal. auto.
Qed.

Lemma lkey_eqb_eq : forall a b, lkey_eqb a b = true <-> a = b.
Proof.
  intros [x|x] [y|y]; cbn [lkey_eqb]; split; intro H; try discriminate; try (inversion H; subst).
  - apply Z.eqb_eq in H. subst. reflexivity.
  - apply Z.eqb_refl.
  - apply bytes_eqb_eq in H. subst. reflexivity.
  - apply bytes_eqb_refl.
Qed.

(** two events are linked: both carry a link key and the keys are equal *)
Definition linked (a b : event) : Prop :=
  exists k, e_link a = Some k /\ e_link b = Some k.

Lemma has_key_iff : forall k e, has_key k e = true <-> e_link e = Some k.
Proof.
  intros k e. unfold has_key. destruct (e_link e) as [k'|]; split; intro H; try discriminate.
  - apply lkey_eqb_eq in H. subst. reflexivity.
  - inversion H. subst. apply lkey_eqb_eq. reflexivity.
Qed.

(** ** Sorting *)

Lemma insert_stable_In : forall x y l, In y (insert_stable x l) <-> y = x \/ In y l.
Proof.
  intros x y l. induction l as [|z l IH]; cbn [insert_stable].
  - cbn. intuition.
  - destruct (ts z <? ts x); cbn [In]; [rewrite IH|]; intuition.
Qed.

Lemma sort_stable_In : forall y l, In y (sort_stable l) <-> In y l.
Proof.
  intros y l. unfold sort_stable. induction l as [|x l IH]; cbn [fold_right]; [reflexivity|].
  rewrite insert_stable_In, IH. cbn. intuition.
Qed.

Definition ts_le (a b : event) : Prop := ts a <= ts b.

Lemma insert_stable_sorted : forall x l, Sorted ts_le l -> Sorted ts_le (insert_stable x l).
Proof.
  intros x l H. induction H as [|z l Hs IH Hd]; cbn [insert_stable].
  - repeat constructor.
  - destruct (ts z <? ts x) eqn:E.
    + constructor; [exact IH|].
      destruct l as [|w l]; cbn [insert_stable].
      * constructor. unfold ts_le. lia.
      * destruct (ts w <? ts x) eqn:E2; constructor; unfold ts_le.
        -- inversion Hd. assumption.
        -- lia.
    + constructor; [constructor; assumption|]. constructor. unfold ts_le. lia.
Qed.

Lemma sort_stable_sorted : forall l, Sorted ts_le (sort_stable l).
Proof.
  unfold sort_stable. induction l as [|x l IH]; cbn [fold_right]; [constructor|].
  apply insert_stable_sorted. exact IH.
Qed.

Lemma sorted_head_le : forall a l, Sorted ts_le (a :: l) -> forall x, In x l -> ts a <= ts x.
Proof.
  intros a l H. apply Sorted_StronglySorted in H.
  - inversion H as [|? ? _ Hall]. subst. rewrite Forall_forall in Hall. exact Hall.
  - intros x y z; unfold ts_le; lia.
Qed.

Lemma sorted_tail : forall a l, Sorted ts_le (a :: l) -> Sorted ts_le l.
Proof. intros a l H. inversion H. assumption. Qed.

Lemma insert_group_In : forall x y l, In y (insert_group x l) <-> y = x \/ In y l.
Proof.
  intros x y l. induction l as [|z l IH]; cbn [insert_group].
  - cbn. intuition.
  - destruct (earliest z <? earliest x); cbn [In]; [rewrite IH|]; intuition.
Qed.

Lemma sort_groups_In : forall y l, In y (sort_groups l) <-> In y l.
Proof.
  intros y l. unfold sort_groups. induction l as [|x l IH]; cbn [fold_right]; [reflexivity|].
  rewrite insert_group_In, IH. cbn. intuition.
Qed.

(** * The FOLLOWED BY sweep *)

Lemma followed_by_cons : forall w a la b lb,
  followed_by w (a :: la) (b :: lb) =
  if ts a <=? ts b then (if w a b then [(a, b)] else []) ++ followed_by w la (b :: lb)
  else followed_by w (a :: la) lb.
Proof. reflexivity. Qed.

Lemma followed_by_nil_r : forall w la, followed_by w la [] = [].
Proof. destruct la; reflexivity. Qed.

Lemma followed_by_sound : forall w la lb a b,
  In (a, b) (followed_by w la lb) -> In a la /\ In b lb /\ ts a <= ts b /\ w a b = true.
Proof.
  intros w la. induction la as [|a0 la IH]; intros lb a b H; [destruct H|].
  induction lb as [|b0 lb IHb]; [rewrite followed_by_nil_r in H; destruct H|].
  rewrite followed_by_cons in H. destruct (ts a0 <=? ts b0) eqn:E.
  - apply in_app_or in H. destruct H as [H|H].
    + destruct (w a0 b0) eqn:Ew; [|destruct H]. destruct H as [H|[]]. inversion H. subst.
      repeat split; try (left; reflexivity); [lia|exact Ew].
    + apply IH in H. destruct H as [Ha [Hb Hr]]. repeat split; try tauto. right. exact Ha.
  - apply IHb in H. destruct H as [Ha [Hb Hr]]. repeat split; try tauto. right. exact Hb.
Qed.

(** with a WHERE that accepts every pair of the two lists (the situation after the push-down), on
    lists sorted by time: an a-row is matched iff some b-row is at the same time or later *)
Lemma followed_by_complete : forall w la lb,
  Sorted ts_le la -> Sorted ts_le lb ->
  (forall a b, In a la -> In b lb -> w a b = true) ->
  forall a, In a la -> (exists b, In b lb /\ ts a <= ts b) -> exists b, In (a, b) (followed_by w la lb).
Proof.
  intros w la. induction la as [|a0 la IH]; intros lb Sa Sb Hw a Ha Hex; [destruct Ha|].
  induction lb as [|b0 lb IHb].
  - destruct Hex as [b [[] _]].
  - rewrite followed_by_cons. destruct (ts a0 <=? ts b0) eqn:E.
    + destruct Ha as [Ha|Ha].
      * subst a0. exists b0. apply in_or_app. left. rewrite Hw by (left; reflexivity). left. reflexivity.
      * destruct (IH (b0 :: lb) (sorted_tail _ _ Sa) Sb) with (a := a) as [b Hb]; auto.
        -- intros; apply Hw; [right|]; assumption.
        -- exists b. apply in_or_app. right. exact Hb.
    + (* b0 is before a0, hence before every a-row: it can be dropped *)
      assert (Hlt : forall x, In x (a0 :: la) -> ts b0 < ts x).
      { intros x [Hx|Hx]; [subst; lia|]. pose proof (sorted_head_le _ _ Sa x Hx). lia. }
      apply IHb.
      * exact (sorted_tail _ _ Sb).
      * intros; apply Hw; [|right]; assumption.
      * destruct Hex as [b [[Hb|Hb] Hle]]; [subst b; specialize (Hlt a Ha); lia|]. exists b. split; assumption.
Qed.

(** * The PRECEDED BY sweep *)

Lemma latest_before_spec : forall ta rest cur l rest',
  latest_before ta cur rest = (l, rest') -> ts cur < ta ->
  ts l < ta /\ In l (cur :: rest) /\ (forall x, In x rest' -> In x rest).
Proof.
  intros ta rest. induction rest as [|nb rest IH]; intros cur l rest' H Hc; cbn [latest_before] in H.
  - inversion H. subst. split; [exact Hc|]. split; [left; reflexivity|]. intros x [].
  - destruct (ts nb <? ta) eqn:E.
    + apply IH in H; [|lia]. destruct H as [H1 [H2 H3]]. split; [exact H1|]. split.
      * right. exact H2.
      * intros x Hx. right. apply H3. exact Hx.
    + inversion H. subst. split; [exact Hc|]. split; [left; reflexivity|]. intros x Hx. exact Hx.
Qed.

(** since fix 49473e7 the final [else] branch advances the a pointer ([seq_pb_else_advances_a] is
    regenerated as [true]; this lemma stops checking if the Rust text goes back) *)
Lemma preceded_by_is_fixed : preceded_by = preceded_by_gen true.
Proof. reflexivity. Qed.

Lemma preceded_fixed_cons : forall w a la b lb,
  preceded_by_gen true w (a :: la) (b :: lb) =
  if ts b <? ts a then
    let '(l, rest) := latest_before (ts a) b lb in
    (if w a l then [(a, l)] else []) ++ preceded_by_gen true w la (l :: rest)
  else preceded_by_gen true w la (b :: lb).
Proof. reflexivity. Qed.

Lemma preceded_fixed_nil_r : forall w la, preceded_by_gen true w la [] = [].
Proof. destruct la; reflexivity. Qed.

Lemma preceded_fixed_sound : forall w la lb a b,
  In (a, b) (preceded_by_gen true w la lb) -> In a la /\ In b lb /\ ts b < ts a /\ w a b = true.
Proof.
  intros w la. induction la as [|a0 la IH]; intros lb a b H; [destruct H|].
  destruct lb as [|b0 lb]; [rewrite preceded_fixed_nil_r in H; destruct H|].
  rewrite preceded_fixed_cons in H. destruct (ts b0 <? ts a0) eqn:E.
  - destruct (latest_before (ts a0) b0 lb) as [l rest] eqn:El.
    destruct (latest_before_spec _ _ _ _ _ El ltac:(lia)) as [L1 [L2 L3]].
    apply in_app_or in H. destruct H as [H|H].
    + destruct (w a0 l) eqn:Ew; [|destruct H]. destruct H as [H|[]]. inversion H. subst.
      repeat split; try (left; reflexivity); assumption.
    + apply IH in H. destruct H as [Ha [Hb Hr]]. repeat split; try tauto; [right; exact Ha|].
      destruct Hb as [Hb|Hb]; [subst; exact L2|]. right. apply L3. exact Hb.
  - apply IH in H. destruct H as [Ha [Hb Hr]]. repeat split; try tauto. right. exact Ha.
Qed.

Lemma preceded_fixed_all_matched : forall w la lb b0,
  Sorted ts_le la ->
  (forall a, In a la -> ts b0 < ts a) ->
  (forall a b, In a la -> In b (b0 :: lb) -> w a b = true) ->
  forall a, In a la -> exists b, In (a, b) (preceded_by_gen true w la (b0 :: lb)).
Proof.
  intros w la. induction la as [|a0 la IH]; intros lb b0 Sa Hlt Hw a Ha; [destruct Ha|].
  rewrite preceded_fixed_cons.
  assert (E : ts b0 <? ts a0 = true) by (specialize (Hlt a0 (or_introl eq_refl)); lia). rewrite E.
  destruct (latest_before (ts a0) b0 lb) as [l rest] eqn:El.
  destruct (latest_before_spec _ _ _ _ _ El ltac:(lia)) as [L1 [L2 L3]].
  destruct Ha as [Ha|Ha].
  - subst a0. exists l. apply in_or_app. left. rewrite Hw; [left; reflexivity|left; reflexivity|exact L2].
  - destruct (IH rest l (sorted_tail _ _ Sa)) with (a := a) as [b Hb]; auto.
    + intros x Hx. pose proof (sorted_head_le _ _ Sa x Hx). lia.
    + intros x y Hx Hy. apply Hw; [right; exact Hx|]. destruct Hy as [Hy|Hy]; [subst; exact L2|].
      right. apply L3. exact Hy.
    + exists b. apply in_or_app. right. exact Hb.
Qed.

Lemma preceded_fixed_complete : forall w la lb,
  Sorted ts_le la -> Sorted ts_le lb ->
  (forall a b, In a la -> In b lb -> w a b = true) ->
  forall a, In a la -> (exists b, In b lb /\ ts b < ts a) -> exists b, In (a, b) (preceded_by_gen true w la lb).
Proof.
  intros w la. induction la as [|a0 la IH]; intros lb Sa Sb Hw a Ha Hex; [destruct Ha|].
  destruct lb as [|b0 lb]; [destruct Hex as [b [[] _]]|].
  destruct (ts b0 <? ts a0) eqn:E.
  - (* the head of the b-list is before the earliest a-row: everybody is matched *)
    apply preceded_fixed_all_matched; auto.
    intros x [Hx|Hx]; [subst; lia|]. pose proof (sorted_head_le _ _ Sa x Hx). lia.
  - (* a0 has no earlier b-row (the b-list is sorted): it is skipped, the b-list is kept *)
    rewrite preceded_fixed_cons, E.
    destruct Ha as [Ha|Ha].
    + subst a0. destruct Hex as [b [Hb Hlt]]. exfalso.
      destruct Hb as [Hb|Hb]; [subst; lia|]. pose proof (sorted_head_le _ _ Sb b Hb). lia.
    + apply IH; auto; [exact (sorted_tail _ _ Sa)|]. intros; apply Hw; [right|]; assumption.
Qed.

(** the PRECEDED BY sweep alone, on sorted lists and a WHERE that accepts every pair: matched iff a
    strictly earlier b-row exists *)
Theorem preceded_by_matched_iff : forall w la lb,
  Sorted ts_le la -> Sorted ts_le lb ->
  (forall a b, In a la -> In b lb -> w a b = true) ->
  forall a, In a la ->
  ((exists b, In (a, b) (preceded_by w la lb)) <-> (exists b, In b lb /\ ts b < ts a)).
Proof.
  rewrite preceded_by_is_fixed. intros w la lb Sa Sb Hw a Ha. split.
  - intros [b H]. apply preceded_fixed_sound in H. exists b. tauto.
  - intros H. eapply preceded_fixed_complete; eauto.
Qed.

(** * Groups, LIMIT, soundness *)

Lemma firstn_In : forall (A : Type) n (l : list A) x, In x (firstn n l) -> In x l.
Proof. induction n; intros [|y l] x H; cbn in *; try contradiction. destruct H; [left|right]; auto. Qed.

Lemma opt_take_In : forall (A : Type) o (l : list A) x, In x (opt_take o l) -> In x l.
Proof. intros A [n|] l x H; cbn in H; [eapply firstn_In; eauto|exact H]. Qed.

Lemma make_groups_shape : forall la lb g, In g (make_groups la lb) ->
  g_a g = sort_stable (filter (has_key (g_key g)) la) /\ g_b g = sort_stable (filter (has_key (g_key g)) lb).
Proof.
  intros la lb g H. unfold make_groups in H. apply in_map_iff in H. destruct H as [k [H _]]. subst. split; reflexivity.
Qed.

Lemma match_group_sound : forall lk w g a b,
  In (a, b) (match_group lk w g) ->
  In a (g_a g) /\ In b (g_b g) /\ w a b = true /\
  match lk with FollowedBy => ts a <= ts b | PrecededBy => ts b < ts a end.
Proof.
  intros lk w g a b H. unfold match_group in H.
  destruct (g_a g) as [|a0 ga] eqn:Ea; [destruct H|]. destruct (g_b g) as [|b0 gb] eqn:Eb; [destruct H|].
  destruct lk.
  - apply followed_by_sound in H. tauto.
  - rewrite preceded_by_is_fixed in H. apply preceded_fixed_sound in H. tauto.
Qed.

(** Every returned pair consists of an a-row and a b-row that were given to the matcher, carry the
    same link key, stand in the right time relation ([>=] for FOLLOWED BY, strictly [<] for
    PRECEDED BY, on the u64 reading of the time field) and each satisfy the WHERE conditions
    addressed to their side. *)
Theorem pairs_sound : forall lk wh ta tb limit la lb a b,
  In (a, b) (matcher lk wh ta tb limit la lb) ->
  In a la /\ In b lb /\ linked a b /\
  match lk with FollowedBy => ts a <= ts b | PrecededBy => ts b < ts a end /\
  where_row wh ta a = true /\ where_row wh tb b = true.
Proof.
  intros lk wh ta tb limit la lb a b H. unfold matcher, match_sequences in H.
  apply opt_take_In in H. apply in_flat_map in H. destruct H as [g [Hg H]].
  rewrite sort_groups_In in Hg. destruct (make_groups_shape _ _ _ Hg) as [Ga Gb].
  apply match_group_sound in H. destruct H as [Ha [Hb [Hw Ht]]].
  rewrite Ga in Ha. rewrite Gb in Hb. rewrite sort_stable_In in Ha. rewrite sort_stable_In in Hb.
  apply filter_In in Ha. apply filter_In in Hb. destruct Ha as [Ha Ka]. destruct Hb as [Hb Kb].
  apply has_key_iff in Ka. apply has_key_iff in Kb.
  unfold pair_where in Hw. apply andb_true_iff in Hw.
  repeat split; try tauto. exists (g_key g). split; assumption.
Qed.

(** LIMIT bounds the number of matched sequences, and the limited answer is a prefix of the
    unlimited one *)
Theorem limit_bounds : forall lk wh ta tb n la lb,
  (length (matcher lk wh ta tb (Some n) la lb) <= N.to_nat n)%nat /\
  matcher lk wh ta tb (Some n) la lb = firstn (N.to_nat n) (matcher lk wh ta tb None la lb).
Proof.
  intros. unfold matcher, match_sequences, opt_take. split; [apply firstn_le_length|reflexivity].
Qed.

(** * The matcher in isolation is incomplete *)

Definition ev (pos : N) (k t : Z) (f : bytes) (v : Z) : event :=
  mkEvent pos (Some (LInt k)) (Some t) [(f, Some v)].
Definition t_pa : bytes := [112; 97].
Definition t_pb : bytes := [112; 98].
Definition f_x : bytes := [120].
Definition f_y : bytes := [121].

(** a@1, b1@2 (fails [pb.y = 1]), b2@3 (passes): b2 qualifies, but the sweep spends [a] on b1 *)
Theorem matcher_incomplete_refuted :
  let wh := Some (ECmp (Some t_pb) f_y OpEq 1) in
  let a := ev 0 7 1 f_x 0 in
  let b1 := ev 0 7 2 f_y 0 in
  let b2 := ev 1 7 3 f_y 1 in
  matcher FollowedBy wh t_pa t_pb None [a] [b1; b2] = [] /\
  linked a b2 /\ ts a <= ts b2 /\ where_row wh t_pa a = true /\ where_row wh t_pb b2 = true.
Proof. cbv zeta. split; [vm_compute; reflexivity|]. split; [exists (LInt 7); split; reflexivity|]. vm_compute. repeat split; congruence. Qed.

(** * WHERE push-down *)

Definition side (e : expr) (ty : bytes) (x : event) : bool :=
  match transform e ty with Some t => eval_row t x | None => true end.

Lemma where_row_some : forall e ty x, where_row (Some e) ty x = side e ty x.
Proof. reflexivity. Qed.

Lemma side_and : forall l r ty x, side (EAnd l r) ty x = side l ty x && side r ty x.
Proof.
  intros. unfold side. cbn [transform].
  destruct (transform l ty), (transform r ty); cbn [eval_row]; rewrite ?andb_true_r; reflexivity.
Qed.

Lemma one_sided_other : forall e ty ty', one_sided e ty = true -> bytes_eqb ty ty' = false -> transform e ty' = None.
Proof.
  induction e as [p f op c|l IHl r IHr|l IHl r IHr|x IH]; intros ty ty' H Hne; cbn [one_sided] in H; cbn [transform].
  - destruct p as [p|]; [|discriminate]. apply bytes_eqb_eq in H. subst p. rewrite Hne. reflexivity.
  - apply andb_true_iff in H. destruct H. rewrite (IHl _ _ H Hne), (IHr _ _ H0 Hne). reflexivity.
  - apply andb_true_iff in H. destruct H. rewrite (IHl _ _ H Hne), (IHr _ _ H0 Hne). reflexivity.
  - rewrite (IH _ _ H Hne). reflexivity.
Qed.

(** on its own side a one-sided expression is kept whole and means what it means on the pair *)
Lemma one_sided_own : forall e ty, one_sided e ty = true ->
  exists t, transform e ty = Some t /\
  forall fa fb ta tb a b,
    (bytes_eqb ty ta = true -> eval_row t a = eval_pair fa fb e ta tb a b) /\
    (bytes_eqb ty ta = false -> bytes_eqb ty tb = true -> eval_row t b = eval_pair fa fb e ta tb a b).
Proof.
  induction e as [p f op c|l IHl r IHr|l IHl r IHr|x IH]; intros ty H; cbn [one_sided] in H; cbn [transform].
  - destruct p as [p|]; [|discriminate]. rewrite H. eexists. split; [reflexivity|].
    apply bytes_eqb_eq in H. subst p. intros fa fb ta tb a b. cbn [eval_pair]. split.
    + intros E. rewrite E. reflexivity.
    + intros E1 E2. rewrite E1, E2. reflexivity.
  - apply andb_true_iff in H. destruct H as [H1 H2].
    destruct (IHl _ H1) as [t1 [T1 E1]]. destruct (IHr _ H2) as [t2 [T2 E2]]. rewrite T1, T2.
    eexists. split; [reflexivity|]. intros fa fb ta tb a b. cbn [eval_row eval_pair].
    destruct (E1 fa fb ta tb a b) as [A1 B1]. destruct (E2 fa fb ta tb a b) as [A2 B2]. split.
    + intros E. rewrite (A1 E), (A2 E). reflexivity.
    + intros E E'. rewrite (B1 E E'), (B2 E E'). reflexivity.
  - apply andb_true_iff in H. destruct H as [H1 H2].
    destruct (IHl _ H1) as [t1 [T1 E1]]. destruct (IHr _ H2) as [t2 [T2 E2]]. rewrite T1, T2.
    eexists. split; [reflexivity|]. intros fa fb ta tb a b. cbn [eval_row eval_pair].
    destruct (E1 fa fb ta tb a b) as [A1 B1]. destruct (E2 fa fb ta tb a b) as [A2 B2]. split.
    + intros E. rewrite (A1 E), (A2 E). reflexivity.
    + intros E E'. rewrite (B1 E E'), (B2 E E'). reflexivity.
  - destruct (IH _ H) as [t [T E]]. rewrite T. eexists. split; [reflexivity|].
    intros fa fb ta tb a b. cbn [eval_row eval_pair]. destruct (E fa fb ta tb a b) as [A B]. split.
    + intros E0. rewrite (A E0). reflexivity.
    + intros E0 E1. rewrite (B E0 E1). reflexivity.
Qed.

Lemma bytes_eqb_sym : forall a b, bytes_eqb a b = bytes_eqb b a.
Proof.
  intros a b. destruct (bytes_eqb a b) eqn:E.
  - apply bytes_eqb_eq in E. subst. symmetry. apply bytes_eqb_refl.
  - destruct (bytes_eqb b a) eqn:E2; [|reflexivity]. apply bytes_eqb_eq in E2. subst. rewrite bytes_eqb_refl in E. discriminate.
Qed.

Lemma one_sided_a : forall fa fb e ta tb a b, bytes_eqb ta tb = false -> one_sided e ta = true ->
  eval_pair fa fb e ta tb a b = side e ta a && side e tb b.
Proof.
  intros fa fb e ta tb a b Hne H. unfold side.
  rewrite (one_sided_other _ _ _ H Hne). destruct (one_sided_own _ _ H) as [t [T E]]. rewrite T.
  destruct (E fa fb ta tb a b) as [A _]. rewrite (A (bytes_eqb_refl ta)). rewrite andb_true_r. reflexivity.
Qed.

Lemma one_sided_b : forall fa fb e ta tb a b, bytes_eqb ta tb = false -> one_sided e tb = true ->
  eval_pair fa fb e ta tb a b = side e ta a && side e tb b.
Proof.
  intros fa fb e ta tb a b Hne H. unfold side.
  assert (Hne' : bytes_eqb tb ta = false) by (rewrite bytes_eqb_sym; exact Hne).
  rewrite (one_sided_other _ _ _ H Hne'). destruct (one_sided_own _ _ H) as [t [T E]]. rewrite T.
  destruct (E fa fb ta tb a b) as [_ B]. rewrite (B Hne' (bytes_eqb_refl tb)). reflexivity.
Qed.

(** On conjunctions of one-sided conditions (and un-prefixed comparisons as conjuncts) filtering
    each type by its transformed WHERE is exactly the WHERE on the pair. *)
Theorem pushdown_exact_for_conjunctions : forall fa fb e ta tb a b,
  bytes_eqb ta tb = false -> conjunctive fa fb e ta tb = true ->
  eval_pair fa fb e ta tb a b = where_row (Some e) ta a && where_row (Some e) tb b.
Proof.
  intros fa fb e ta tb a b Hne. rewrite !where_row_some.
  induction e as [p f op c|l IHl r IHr|l IHl r IHr|x IH]; intros H; cbn [conjunctive] in H.
  - destruct p as [p|].
    + apply orb_true_iff in H. destruct H as [H|H]; [apply one_sided_a|apply one_sided_b]; assumption.
    + cbn [eval_pair]. unfold declared_by_one in H.
      destruct (mem_bytes f fa), (mem_bytes f fb); cbn in H; try discriminate; reflexivity.
  - apply orb_true_iff in H. destruct H as [H|H]; [apply orb_true_iff in H; destruct H as [H|H]|].
    + apply andb_true_iff in H. destruct H as [H1 H2].
      cbn [eval_pair]. rewrite (IHl H1), (IHr H2), !side_and.
      destruct (side l ta a), (side l tb b), (side r ta a), (side r tb b); reflexivity.
    + apply one_sided_a; assumption.
    + apply one_sided_b; assumption.
  - apply orb_true_iff in H. destruct H as [H|H]; [apply one_sided_a|apply one_sided_b]; assumption.
  - apply orb_true_iff in H. destruct H as [H|H]; [apply one_sided_a|apply one_sided_b]; assumption.
Qed.

Example pushdown_exact_sat :
  conjunctive [f_x] [f_y] (EAnd (ECmp (Some t_pa) f_x OpGt 1) (EOr (ECmp (Some t_pb) f_y OpEq 2) (ENot (ECmp (Some t_pb) f_y OpLt 0)))) t_pa t_pb = true.
Proof. vm_compute. reflexivity. Qed.

(** ... and it is not for an OR (or a NOT over an AND) that spans both types: [pa.x = 1 OR pb.y = 2]
    holds of the pair (a with x = 1, b with y = 0) while the b-row is filtered out by [y = 2]. *)
Theorem pushdown_refuted :
  let e := EOr (ECmp (Some t_pa) f_x OpEq 1) (ECmp (Some t_pb) f_y OpEq 2) in
  let a := ev 0 7 1 f_x 1 in
  let b := ev 0 7 2 f_y 0 in
  eval_pair [f_x] [f_y] e t_pa t_pb a b = true /\ where_row (Some e) t_pb b = false /\
  seq_query FollowedBy (Some e) t_pa t_pb None [a] [b] = [] /\ conjunctive [f_x] [f_y] e t_pa t_pb = false.
Proof. cbv zeta. vm_compute. repeat split; reflexivity. Qed.

(** * The composed pipeline *)

Lemma keys_of_acc : forall l acc k, In k acc -> In k (keys_of l acc).
Proof.
  induction l as [|e l IH]; intros acc k H; cbn [keys_of]; [exact H|].
  destruct (e_link e) as [k'|]; [|apply IH; exact H].
  destruct (existsb (lkey_eqb k') acc); apply IH; [exact H|]. apply in_or_app. left. exact H.
Qed.

Lemma keys_of_complete : forall l acc e k, In e l -> e_link e = Some k -> In k (keys_of l acc).
Proof.
  induction l as [|x l IH]; intros acc e k Hin Hk; [destruct Hin|]. cbn [keys_of].
  destruct Hin as [Hx|Hin].
  - subst x. rewrite Hk. destruct (existsb (lkey_eqb k) acc) eqn:E.
    + apply existsb_exists in E. destruct E as [k' [Hk' Ek]]. apply lkey_eqb_eq in Ek. subst k'.
      apply keys_of_acc. exact Hk'.
    + apply keys_of_acc. apply in_or_app. right. left. reflexivity.
  - destruct (e_link x) as [k'|]; [destruct (existsb (lkey_eqb k') acc)|]; eapply IH; eauto.
Qed.

Lemma group_exists : forall la lb a k, In a la -> e_link a = Some k ->
  In (mkGroup k (sort_stable (filter (has_key k) la)) (sort_stable (filter (has_key k) lb))) (make_groups la lb).
Proof.
  intros la lb a k Ha Hk. unfold make_groups.
  apply in_map_iff. exists k. split; [reflexivity|]. apply keys_of_acc. eapply keys_of_complete; eauto.
Qed.

Definition time_le (a b : event) : Prop :=
  match e_time a, e_time b with Some x, Some y => (x <= y)%Z | _, _ => False end.
Definition time_lt (a b : event) : Prop :=
  match e_time a, e_time b with Some x, Some y => (x < y)%Z | _, _ => False end.

Lemma time_ok_ts : forall e, time_ok e = true -> exists z, e_time e = Some z /\ (0 <= z)%Z /\ ts e = Z.to_N z.
Proof.
  intros e H. unfold time_ok in H. destruct (e_time e) as [z|] eqn:E; [|discriminate].
  exists z. split; [reflexivity|]. split; [lia|]. unfold ts. rewrite E.
  rewrite Z.mod_small; [reflexivity|]. assert (2 ^ 63 < 2 ^ 64)%Z by reflexivity. lia.
Qed.

Lemma ts_le_time : forall a b, time_ok a = true -> time_ok b = true -> (ts a <= ts b <-> time_le a b).
Proof.
  intros a b Ha Hb. destruct (time_ok_ts _ Ha) as [x [Ex [Px Tx]]]. destruct (time_ok_ts _ Hb) as [y [Ey [Py Ty]]].
  unfold time_le. rewrite Ex, Ey, Tx, Ty. lia.
Qed.

Lemma ts_lt_time : forall a b, time_ok a = true -> time_ok b = true -> (ts a < ts b <-> time_lt a b).
Proof.
  intros a b Ha Hb. destruct (time_ok_ts _ Ha) as [x [Ex [Px Tx]]]. destruct (time_ok_ts _ Hb) as [y [Ey [Py Ty]]].
  unfold time_lt. rewrite Ex, Ey, Tx, Ty. lia.
Qed.

Lemma spec_where_split : forall fa fb wh ta tb a b,
  bytes_eqb ta tb = false -> conjunctive_where fa fb wh ta tb = true ->
  spec_where fa fb wh ta tb a b = where_row wh ta a && where_row wh tb b.
Proof.
  intros fa fb [e|] ta tb a b Hne Hc; [|reflexivity]. cbn [spec_where]. apply pushdown_exact_for_conjunctions; assumption.
Qed.

Lemma match_group_nonempty : forall lk w g a b,
  In a (g_a g) -> In b (g_b g) ->
  match_group lk w g = match lk with FollowedBy => followed_by w (g_a g) (g_b g) | PrecededBy => preceded_by w (g_a g) (g_b g) end.
Proof.
  intros lk w g a b Ha Hb. unfold match_group.
  destruct (g_a g); [destruct Ha|]. destruct (g_b g); [destruct Hb|]. reflexivity.
Qed.

Section Composed.
  Variables (fa fb : list bytes) (wh : option expr) (ta tb : bytes) (sa sb : list event).
  Hypothesis Hne : bytes_eqb ta tb = false.
  Hypothesis Hconj : conjunctive_where fa fb wh ta tb = true.
  Hypothesis Htime : forall e, In e (sa ++ sb) -> time_ok e = true.

  Let la := sub_query wh ta sa.
  Let lb := sub_query wh tb sb.

  Lemma la_In : forall a, In a la <-> In a sa /\ where_row wh ta a = true.
  Proof. intro a. unfold la, sub_query. apply filter_In. Qed.
  Lemma lb_In : forall b, In b lb <-> In b sb /\ where_row wh tb b = true.
  Proof. intro b. unfold lb, sub_query. apply filter_In. Qed.

  Lemma members_pass : forall k a b,
    In a (sort_stable (filter (has_key k) la)) -> In b (sort_stable (filter (has_key k) lb)) ->
    pair_where wh ta tb a b = true.
  Proof.
    intros k a b Ha Hb. rewrite sort_stable_In in Ha, Hb. apply filter_In in Ha. apply filter_In in Hb.
    destruct Ha as [Ha _]. destruct Hb as [Hb _]. apply la_In in Ha. apply lb_In in Hb.
    unfold pair_where. destruct Ha as [_ ->]. destruct Hb as [_ ->]. reflexivity.
  Qed.

  (** FOLLOWED BY through the whole pipeline (per-type sub-queries with the pushed-down WHERE,
      grouping, sweep, no LIMIT): an a-event is matched if and only if some b-event carries the
      same link value, is at the same time or later, and the pair satisfies the WHERE. *)
  Theorem matched_iff_exists_followed_by : forall a, In a sa ->
    ((exists b, In (a, b) (seq_query FollowedBy wh ta tb None sa sb)) <->
     (exists b, In b sb /\ linked a b /\ time_le a b /\ spec_where fa fb wh ta tb a b = true)).
  Proof.
    intros a Ha. unfold seq_query. fold la lb. split.
    - intros [b H]. apply pairs_sound in H. destruct H as [Hia [Hib [Hl [Ht [Wa Wb]]]]].
      apply la_In in Hia. apply lb_In in Hib. exists b. split; [tauto|]. split; [exact Hl|]. split.
      + apply ts_le_time; [apply Htime; apply in_or_app; left; tauto|apply Htime; apply in_or_app; right; tauto|exact Ht].
      + rewrite (spec_where_split fa fb) by assumption. rewrite Wa, Wb. reflexivity.
    - intros [b [Hb [[k [Ka Kb]] [Ht Hw]]]].
      rewrite (spec_where_split fa fb) in Hw by assumption. apply andb_true_iff in Hw. destruct Hw as [Wa Wb].
      assert (Hia : In a la) by (apply la_In; tauto). assert (Hib : In b lb) by (apply lb_In; tauto).
      pose proof (group_exists la lb a k Hia Ka) as Hg.
      set (g := mkGroup k (sort_stable (filter (has_key k) la)) (sort_stable (filter (has_key k) lb))) in *.
      assert (Ga : In a (g_a g)).
      { cbn [g g_a]. apply sort_stable_In. apply filter_In. split; [exact Hia|apply has_key_iff; exact Ka]. }
      assert (Gb : In b (g_b g)).
      { cbn [g g_b]. apply sort_stable_In. apply filter_In. split; [exact Hib|apply has_key_iff; exact Kb]. }
      destruct (followed_by_complete (pair_where wh ta tb) (g_a g) (g_b g)) with (a := a) as [b' Hb'].
      + apply sort_stable_sorted.
      + apply sort_stable_sorted.
      + intros x y Hx Hy. apply (members_pass k); [exact Hx|exact Hy].
      + exact Ga.
      + exists b. split; [exact Gb|].
        apply ts_le_time; [apply Htime; apply in_or_app; left; exact Ha|apply Htime; apply in_or_app; right; exact Hb|exact Ht].
      + exists b'. unfold matcher, match_sequences. cbn [opt_take].
        apply in_flat_map. exists g. split; [apply sort_groups_In; exact Hg|].
        rewrite (match_group_nonempty _ _ _ _ _ Ga Gb). exact Hb'.
  Qed.

  (** PRECEDED BY through the whole pipeline (since fix 49473e7, no KnownClass left): an a-event is
      matched if and only if some b-event carries the same link value, is strictly earlier, and the
      pair satisfies the WHERE. *)
  Theorem matched_iff_exists_preceded_by : forall a, In a sa ->
    ((exists b, In (a, b) (seq_query PrecededBy wh ta tb None sa sb)) <->
     (exists b, In b sb /\ linked a b /\ time_lt b a /\ spec_where fa fb wh ta tb a b = true)).
  Proof.
    intros a Ha. unfold seq_query. fold la lb. split.
    - intros [b H]. apply pairs_sound in H. destruct H as [Hia [Hib [Hl [Ht [Wa Wb]]]]].
      apply la_In in Hia. apply lb_In in Hib. exists b. split; [tauto|]. split; [exact Hl|]. split.
      + apply ts_lt_time; [apply Htime; apply in_or_app; right; tauto|apply Htime; apply in_or_app; left; tauto|exact Ht].
      + rewrite (spec_where_split fa fb) by assumption. rewrite Wa, Wb. reflexivity.
    - intros [b [Hb [[k [Ka Kb]] [Ht Hw]]]].
      rewrite (spec_where_split fa fb) in Hw by assumption. apply andb_true_iff in Hw. destruct Hw as [Wa Wb].
      assert (Hia : In a la) by (apply la_In; tauto). assert (Hib : In b lb) by (apply lb_In; tauto).
      pose proof (group_exists la lb a k Hia Ka) as Hg.
      set (g := mkGroup k (sort_stable (filter (has_key k) la)) (sort_stable (filter (has_key k) lb))) in *.
      assert (Ga : In a (g_a g)).
      { cbn [g g_a]. apply sort_stable_In. apply filter_In. split; [exact Hia|apply has_key_iff; exact Ka]. }
      assert (Gb : In b (g_b g)).
      { cbn [g g_b]. apply sort_stable_In. apply filter_In. split; [exact Hib|apply has_key_iff; exact Kb]. }
      assert (Hts : ts b < ts a).
      { apply ts_lt_time; [apply Htime; apply in_or_app; right; exact Hb|apply Htime; apply in_or_app; left; exact Ha|exact Ht]. }
      destruct (proj2 (preceded_by_matched_iff (pair_where wh ta tb) (g_a g) (g_b g)
                         (sort_stable_sorted _) (sort_stable_sorted _)
                         (fun x y Hx Hy => members_pass k x y Hx Hy) a Ga)) as [b' Hb'].
      + exists b. split; assumption.
      + exists b'. unfold matcher, match_sequences. cbn [opt_take].
        apply in_flat_map. exists g. split; [apply sort_groups_In; exact Hg|].
        rewrite (match_group_nonempty _ _ _ _ _ Ga Gb). exact Hb'.
  Qed.
End Composed.

(** the former counter-example of PRECEDED BY (a@1, b@5, a@10 under one link value returned nothing
    before fix 49473e7) now returns the pair a@10 / b@5 *)
Example preceded_by_former_witness :
  let a1 := ev 0 7 1 f_x 0 in
  let a2 := ev 1 7 10 f_x 0 in
  let b := ev 0 7 5 f_y 0 in
  seq_query PrecededBy None t_pa t_pb None [a1; a2] [b] = [(a2, b)].
Proof. vm_compute. reflexivity. Qed.

(** the sweep alone, on sorted lists and a WHERE that accepts every pair: matched iff a b-row at the
    same time or later exists *)
Theorem followed_by_matched_iff : forall w la lb,
  Sorted ts_le la -> Sorted ts_le lb ->
  (forall a b, In a la -> In b lb -> w a b = true) ->
  forall a, In a la ->
  ((exists b, In (a, b) (followed_by w la lb)) <-> (exists b, In b lb /\ ts a <= ts b)).
Proof.
  intros w la lb Sa Sb Hw a Ha. split.
  - intros [b H]. apply followed_by_sound in H. exists b. tauto.
  - intros H. eapply followed_by_complete; eauto.
Qed.

(** the hypotheses of the composed theorems are satisfiable, with matches on both sides of the iff *)
Example composed_hypotheses_sat :
  let wh := Some (EAnd (ECmp (Some t_pa) f_x OpGte 0) (ECmp (Some t_pb) f_y OpEq 1)) in
  let sa := [ev 0 7 6 f_x 0; ev 1 7 9 f_x 2; ev 2 8 3 f_x 1] in
  let sb := [ev 0 7 5 f_y 1; ev 1 7 7 f_y 1; ev 2 8 2 f_y 1; ev 3 8 4 f_y 0] in
  bytes_eqb t_pa t_pb = false /\ conjunctive_where [f_x] [f_y] wh t_pa t_pb = true /\
  (forall e, In e (sa ++ sb) -> time_ok e = true) /\
  length (seq_query FollowedBy wh t_pa t_pb None sa sb) = 1%nat /\
  length (seq_query PrecededBy wh t_pa t_pb None sa sb) = 3%nat.
Proof.
  cbv zeta. split; [reflexivity|]. split; [reflexivity|]. split.
  - intros e H. cbn in H. repeat (destruct H as [H|H]; [subst; reflexivity|]). destruct H.
  - split; vm_compute; reflexivity.
Qed.

