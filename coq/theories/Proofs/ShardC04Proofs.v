(** Proofs about Model/Shard.v and Model/Compaction.v for C04: REPLAY returns a
    context's events in the order they were appended.

    The typed REPLAY of type [u] for context [c] is, in the model, some
    interleaving of [replay_mem s u c] and [replay_seg s u c] followed by the
    response writer's de-duplication.  This file proves, for crash-free
    histories ([run], every label except LCrash/LRestart):
    - membership: every interleaving, de-duplicated, is a permutation of the
      context's events of that type;
    - order inside the tiers: the segment flow, the active memtable, every passive
      copy and "passive copies then active memtable" are subsequences of the
      append order; the model's memory flow lists the ACTIVE memtable BEFORE the
      passive copies and is therefore NOT in append order (refuted);
    - sequential composition "segments, passives, memtable", de-duplicated, is
      EXACTLY the append order (the minimal repair of the fan-in finding);
    - the fan-in finding itself (witness 4,1,3);
    - compaction: the model's [merge_rows] is a stable merge (order kept when the
      inputs are listed in label order), but the output directory of a batch is
      listed after newer level-0 directories, so the segment flow after a
      compaction is not in append order (refuted on [crun]). *)
From Coq Require Import NArith List Bool Lia Permutation Sorted.
From Coq Require Import ZifyBool ZifyNat ZifyN.
From Snel Require Import Model.Shard Model.Compaction Proofs.ShardC03Proofs.
Import ListNotations.
Open Scope N_scope.

(** * Subsequences *)

Inductive Subseq {A} : list A -> list A -> Prop :=
| sub_nil : Subseq [] []
| sub_skip x l1 l2 : Subseq l1 l2 -> Subseq l1 (x :: l2)
| sub_take x l1 l2 : Subseq l1 l2 -> Subseq (x :: l1) (x :: l2).

Lemma Subseq_nil_l {A} (l : list A) : Subseq [] l.
Proof. induction l; constructor; assumption. Qed.

Lemma Subseq_refl {A} (l : list A) : Subseq l l.
Proof. induction l; constructor; assumption. Qed.

Lemma Subseq_app {A} (a a' b b' : list A) : Subseq a a' -> Subseq b b' -> Subseq (a ++ b) (a' ++ b').
Proof. intros Ha Hb. induction Ha; cbn [app]; [exact Hb | constructor; assumption | constructor; assumption]. Qed.

Lemma Subseq_app_l {A} (a b x : list A) : Subseq a b -> Subseq a (x ++ b).
Proof. intros H. apply (Subseq_app [] x a b); [apply Subseq_nil_l | exact H]. Qed.

Lemma Subseq_app_r {A} (a b x : list A) : Subseq a b -> Subseq a (b ++ x).
Proof.
  intros H. rewrite <- (app_nil_r a). apply Subseq_app; [exact H | apply Subseq_nil_l].
Qed.

Lemma Subseq_trans {A} (a b c : list A) : Subseq a b -> Subseq b c -> Subseq a c.
Proof.
  intros Hab Hbc. revert a Hab. induction Hbc; intros a Hab.
  - exact Hab.
  - constructor. apply IHHbc, Hab.
  - inversion Hab; subst.
    + constructor. apply IHHbc. assumption.
    + apply sub_take. apply IHHbc. assumption.
Qed.

Lemma Subseq_in {A} (a b : list A) x : Subseq a b -> In x a -> In x b.
Proof.
  intros H. induction H; cbn [In]; [tauto | intros Hx; right; auto | intros [->|Hx]; [left; reflexivity | right; auto]].
Qed.

Lemma Subseq_filter {A} (p : A -> bool) l : Subseq (filter p l) l.
Proof. induction l as [|x r IH]; cbn [filter]; [constructor|]. destruct (p x); constructor; exact IH. Qed.

Lemma Subseq_filter_mono {A} (p : A -> bool) a b : Subseq a b -> Subseq (filter p a) (filter p b).
Proof.
  intros H. induction H; cbn [filter]; [constructor | |]; destruct (p x); try constructor; assumption.
Qed.

Lemma Subseq_concat_in {A} (ls : list (list A)) l : In l ls -> Subseq l (concat ls).
Proof.
  induction ls as [|x r IH]; cbn [concat]; [intros []|].
  intros [->|H]; [apply Subseq_app_r, Subseq_refl | apply Subseq_app_l, IH, H].
Qed.

Lemma Subseq_concat_map {A B} (f g : A -> list B) l :
  (forall x, In x l -> Subseq (f x) (g x)) -> Subseq (concat (map f l)) (concat (map g l)).
Proof.
  induction l as [|x r IH]; cbn [map concat]; intros H; [constructor|].
  apply Subseq_app; [apply H; left; reflexivity | apply IH; intros y Hy; apply H; right; exact Hy].
Qed.

Lemma Subseq_concat_filter {A B} (f : A -> list B) p l :
  Subseq (concat (map f (filter p l))) (concat (map f l)).
Proof.
  induction l as [|x r IH]; cbn [filter map concat]; [constructor|].
  destruct (p x); cbn [map concat]; [apply Subseq_app; [apply Subseq_refl | exact IH] | apply Subseq_app_l, IH].
Qed.

Lemma Subseq_length {A} (a b : list A) : Subseq a b -> (length a <= length b)%nat.
Proof. intros H. induction H; cbn [length]; lia. Qed.

(** * Generic list facts *)

Lemma filter_concat_map {A B} (p : B -> bool) (f : A -> list B) l :
  filter p (concat (map f l)) = concat (map (fun x => filter p (f x)) l).
Proof.
  induction l as [|x r IH]; cbn [map concat filter]; [reflexivity|]. rewrite filter_app, IH. reflexivity.
Qed.

Lemma concat_map_ext_in {A B} (f g : A -> list B) l :
  (forall x, In x l -> f x = g x) -> concat (map f l) = concat (map g l).
Proof. intros H. f_equal. apply map_ext_in, H. Qed.

Lemma concat_map_nil {A B} (l : list A) : concat (map (fun _ => @nil B) l) = [].
Proof. induction l; cbn [map concat app]; auto. Qed.

Lemma filter_none {A} (p : A -> bool) l : (forall x, In x l -> p x = false) -> filter p l = [].
Proof.
  induction l as [|x r IH]; cbn [filter]; intros H; [reflexivity|].
  rewrite (H x) by (left; reflexivity). apply IH. intros y Hy. apply H. right. exact Hy.
Qed.

Lemma filter_filter_comm {A} (p q : A -> bool) l : filter p (filter q l) = filter q (filter p l).
Proof.
  induction l as [|x r IH]; cbn [filter]; [reflexivity|].
  destruct (p x) eqn:Hp, (q x) eqn:Hq; cbn [filter]; rewrite ?Hp, ?Hq, IH; reflexivity.
Qed.

Lemma filter_idem {A} (p : A -> bool) l : filter p (filter p l) = filter p l.
Proof.
  induction l as [|x r IH]; cbn [filter]; [reflexivity|].
  destruct (p x) eqn:Hp; cbn [filter]; rewrite ?Hp, IH; reflexivity.
Qed.

Lemma ss_snoc {A} (R : A -> A -> Prop) l x :
  StronglySorted R l -> (forall y, In y l -> R y x) -> StronglySorted R (l ++ [x]).
Proof.
  induction l as [|a r IH]; cbn [app]; intros Hs Hx.
  - constructor; constructor.
  - apply StronglySorted_inv in Hs as [Hs Ha]. constructor.
    + apply IH; [exact Hs | intros y Hy; apply Hx; right; exact Hy].
    + apply Forall_app. split; [exact Ha | constructor; [apply Hx; left; reflexivity | constructor]].
Qed.

Lemma memb_remove x y l : x <> y -> memb x (remove_n y l) = memb x l.
Proof.
  intros Hne. induction l as [|z r IH]; cbn [remove_n]; [reflexivity|].
  destruct (N.eqb_spec y z) as [->|Hz].
  - rewrite IH, memb_cons. destruct (N.eqb_spec x z); [contradiction | reflexivity].
  - rewrite !memb_cons, IH. reflexivity.
Qed.

(** * The two filters of a typed REPLAY *)

Definition F (u c : N) (l : list event) : list event := of_ctx c (of_uid u l).

Lemma F_app u c a b : F u c (a ++ b) = F u c a ++ F u c b.
Proof. unfold F, of_ctx, of_uid. rewrite !filter_app. reflexivity. Qed.

Lemma F_nil u c : F u c [] = [].
Proof. reflexivity. Qed.

Lemma F_in u c l e : In e (F u c l) <-> In e l /\ euid e = u /\ ectx e = c.
Proof.
  unfold F, of_ctx, of_uid. rewrite !filter_In, !N.eqb_eq. tauto.
Qed.

Lemma F_concat_map {A} u c (f : A -> list event) l :
  F u c (concat (map f l)) = concat (map (fun x => F u c (f x)) l).
Proof. unfold F, of_ctx, of_uid. rewrite !filter_concat_map. reflexivity. Qed.

Lemma F_subseq u c a b : Subseq a b -> Subseq (F u c a) (F u c b).
Proof. intros H. unfold F, of_ctx, of_uid. apply Subseq_filter_mono, Subseq_filter_mono, H. Qed.

Lemma F_of_uid_none u c l : of_uid u l = [] -> F u c l = [].
Proof. intros H. unfold F. rewrite H. reflexivity. Qed.

Lemma of_uid_other u u0 l : u <> u0 -> of_uid u (of_uid u0 l) = [].
Proof.
  intros Hne. unfold of_uid. apply filter_none. intros x Hx. apply filter_In in Hx as [_ Hx].
  apply N.eqb_eq in Hx. apply N.eqb_neq. congruence.
Qed.

Lemma existsb_uid_false u l : existsb (fun e => euid e =? u) l = false -> of_uid u l = [].
Proof.
  intros H. unfold of_uid. apply filter_none. intros x Hx.
  destruct (euid x =? u) eqn:E; [|reflexivity].
  assert (T : existsb (fun e => euid e =? u) l = true) by (apply existsb_exists; exists x; auto). congruence.
Qed.

(** * [flush_order] is a stable sort by context *)

Definition le_ctx (a b : event) : Prop := ectx a <= ectx b.

Lemma ins_ctx_in x e l : In x (insert_by_ctx e l) <-> x = e \/ In x l.
Proof.
  split.
  - intros H. apply (Permutation_in _ (insert_by_ctx_perm e l)) in H. destruct H as [->|H]; auto.
  - intros H. apply (Permutation_in _ (Permutation_sym (insert_by_ctx_perm e l))). destruct H as [->|H]; [left|right]; auto.
Qed.

Lemma ins_ctx_sorted e l : StronglySorted le_ctx l -> StronglySorted le_ctx (insert_by_ctx e l).
Proof.
  induction l as [|x r IH]; cbn [insert_by_ctx]; intros Hs.
  - constructor; constructor.
  - apply StronglySorted_inv in Hs as [Hr Hx]. destruct (N.leb_spec (ectx x) (ectx e)) as [Hle|Hgt].
    + constructor; [apply IH, Hr|]. apply Forall_forall. intros y Hy. apply ins_ctx_in in Hy as [->|Hy].
      * exact Hle.
      * rewrite Forall_forall in Hx. apply Hx, Hy.
    + constructor; [constructor; assumption|]. constructor; [unfold le_ctx; lia|].
      apply Forall_forall. intros y Hy. rewrite Forall_forall in Hx. specialize (Hx y Hy). unfold le_ctx in *. lia.
Qed.

Lemma ins_ctx_of_ctx c e l :
  StronglySorted le_ctx l -> of_ctx c (insert_by_ctx e l) = of_ctx c l ++ of_ctx c [e].
Proof.
  unfold of_ctx. induction l as [|x r IH]; cbn [insert_by_ctx]; intros Hs; [reflexivity|].
  apply StronglySorted_inv in Hs as [Hr Hx]. destruct (N.leb_spec (ectx x) (ectx e)) as [Hle|Hgt].
  - cbn [filter]. rewrite (IH Hr). cbn [filter]. destruct (ectx x =? c); reflexivity.
  - change (e :: x :: r) with ([e] ++ x :: r). rewrite filter_app.
    destruct (N.eqb_spec (ectx e) c) as [Hc|Hc].
    + rewrite (filter_none _ (x :: r)); [rewrite app_nil_r; reflexivity|].
      intros y [<-|Hy]; apply N.eqb_neq; [lia|].
      rewrite Forall_forall in Hx. specialize (Hx y Hy). unfold le_ctx in Hx. lia.
    + apply N.eqb_neq in Hc. cbn [filter]. rewrite Hc. rewrite app_nil_r. reflexivity.
Qed.

Lemma flush_order_of_ctx c l : of_ctx c (flush_order l) = of_ctx c l.
Proof.
  unfold flush_order.
  assert (G : forall evs acc, StronglySorted le_ctx acc ->
            of_ctx c (fold_left (fun acc e => insert_by_ctx e acc) evs acc) = of_ctx c acc ++ of_ctx c evs).
  { induction evs as [|a r IH]; intros acc Hs; cbn [fold_left]; [unfold of_ctx; cbn [filter]; rewrite app_nil_r; reflexivity|].
    rewrite IH by (apply ins_ctx_sorted, Hs). rewrite ins_ctx_of_ctx by exact Hs.
    rewrite <- app_assoc. f_equal. unfold of_ctx. cbn [filter app]. destruct (ectx a =? c); reflexivity. }
  apply (G l []). constructor.
Qed.

Lemma F_flush_order u c l : F u c (flush_order l) = F u c l.
Proof.
  unfold F, of_ctx, of_uid. rewrite filter_filter_comm.
  change (filter (fun e => ectx e =? c) (flush_order l)) with (of_ctx c (flush_order l)).
  rewrite flush_order_of_ctx. unfold of_ctx. apply filter_filter_comm.
Qed.

Lemma F_of_uid_same u c l : F u c (of_uid u l) = F u c l.
Proof. unfold F, of_uid. rewrite filter_idem. reflexivity. Qed.

(** * Directories: which types are written, rows appended to the last directory *)

Definition dhu (ds : list segdir) (seg u : N) : bool :=
  existsb (fun d => (sid d =? seg) && existsb (fun e => euid e =? u) (srows d)) ds.

Lemma dhu_dir s seg u : dir_has_uid s seg u = dhu (dirs s) seg u.
Proof. reflexivity. Qed.

Lemma crows_of_eq ds i : Compaction.rows_of ds i = rows_of ds i.
Proof. reflexivity. Qed.

Lemma dhu_spec ds seg u : dhu ds seg u = true <-> exists e, In e (rows_of ds seg) /\ euid e = u.
Proof.
  unfold dhu, rows_of. rewrite existsb_exists. split.
  - intros (d & Hd & H). apply andb_true_iff in H as [Hs H]. apply existsb_exists in H as (e & He & Hu).
    exists e. split; [|apply N.eqb_eq, Hu]. apply in_concat. exists (srows d). split; [|exact He].
    apply in_map, filter_In. auto.
  - intros (e & He & Hu). apply in_concat in He as (z & Hz & He). apply in_map_iff in Hz as (d & <- & Hd).
    apply filter_In in Hd as [Hd Hs]. exists d. split; [exact Hd|]. rewrite Hs. cbn [andb].
    apply existsb_exists. exists e. split; [exact He | apply N.eqb_eq, Hu].
Qed.

Lemma dhu_fresh ds al u : (forall d, In d ds -> sid d < al) -> dhu ds al u = false.
Proof.
  intros Hlt. destruct (dhu ds al u) eqn:E; [|reflexivity]. exfalso.
  apply dhu_spec in E as (e & He & _). eapply rows_of_fresh; eauto.
Qed.

Lemma dhu_add ds seg r seg' u :
  dhu (dir_add_rows ds seg r) seg' u = dhu ds seg' u || ((seg =? seg') && existsb (fun e => euid e =? u) r).
Proof.
  unfold dhu. induction ds as [|d ds IH]; cbn [dir_add_rows].
  - cbn [existsb sid srows]. rewrite orb_false_r. reflexivity.
  - destruct (N.eqb_spec (sid d) seg) as [E|E]; cbn [existsb sid srows].
    + rewrite existsb_app, E.
      destruct (seg =? seg'), (existsb (fun e => euid e =? u) (srows d)), (existsb (fun e => euid e =? u) r),
        (existsb (fun d0 => (sid d0 =? seg') && existsb (fun e => euid e =? u) (srows d0)) ds); reflexivity.
    + rewrite IH, orb_assoc. reflexivity.
Qed.

Lemma all_rows_add_last ds seg r :
  StronglySorted N.lt (map sid ds) -> (forall d, In d ds -> sid d <= seg) ->
  all_rows (dir_add_rows ds seg r) = all_rows ds ++ r.
Proof.
  unfold all_rows. induction ds as [|d ds IH]; cbn [dir_add_rows]; intros Hs Hle.
  - cbn [map concat srows app]. apply app_nil_r.
  - cbn [map] in Hs. apply StronglySorted_inv in Hs as [Hs Hd]. destruct (N.eqb_spec (sid d) seg) as [E|E].
    + destruct ds as [|d2 ds].
      * cbn [map concat srows]. rewrite !app_nil_r. reflexivity.
      * exfalso. cbn [map] in Hd. apply Forall_inv in Hd. specialize (Hle d2 (or_intror (or_introl eq_refl))). lia.
    + cbn [map concat]. rewrite IH; [rewrite app_assoc; reflexivity | exact Hs |].
      intros d0 Hd0. apply Hle. right. exact Hd0.
Qed.

Lemma sids_add_sorted ds seg r :
  StronglySorted N.lt (map sid ds) -> (forall d, In d ds -> sid d <= seg) ->
  StronglySorted N.lt (map sid (dir_add_rows ds seg r)).
Proof.
  induction ds as [|d ds IH]; cbn [dir_add_rows]; intros Hs Hle.
  - cbn [map sid]. constructor; constructor.
  - destruct (N.eqb_spec (sid d) seg) as [E|E].
    + cbn [map sid] in *. rewrite <- E. exact Hs.
    + cbn [map] in *. apply StronglySorted_inv in Hs as [Hs Hd]. constructor.
      * apply IH; [exact Hs | intros d0 Hd0; apply Hle; right; exact Hd0].
      * apply Forall_forall. intros x Hx. apply in_map_iff in Hx as (d0 & <- & Hd0).
        apply add_sid in Hd0 as [->|Hd0].
        -- specialize (Hle d (or_introl eq_refl)). lia.
        -- rewrite Forall_forall in Hd. apply Hd, in_map, Hd0.
Qed.

Lemma in_rows_of ds d e : In d ds -> In e (srows d) -> In e (rows_of ds (sid d)).
Proof.
  intros Hd He. unfold rows_of. apply in_concat. exists (srows d). split; [|exact He].
  apply in_map, filter_In. split; [exact Hd | apply N.eqb_refl].
Qed.

(** * The order invariant of crash-free runs

    [pend js ds u]: the rotated events whose files of type [u] are not yet
    written, in queue order. *)

Definition pend (js : list job) (ds : list segdir) (u : N) : list event :=
  concat (map (fun j => if dhu ds (jseg j) u then [] else jevs j) js).

Definition pas_of (j : job) : N * list event := (jseg j, if has_passive (jstage j) then jevs j else []).

Record OrdC (A m : list event) (ps : list (N * list event)) (lv infl : list N)
            (ds : list segdir) (js : list job) : Prop := {
  (* directories are listed in creation order, all of them before the queued jobs *)
  o_ds : StronglySorted N.lt (map sid ds);
  o_js : StronglySorted N.lt (map jseg js);
  o_le : forall d j, In d ds -> In j js -> sid d <= jseg j;
  (* per type and context: directory rows, then the unwritten rotated events, then the memtable *)
  o_seq : forall u c, F u c (all_rows ds) ++ F u c (pend js ds u) ++ F u c m = F u c A;
  o_part : exists old, A = old ++ concat (map jevs js) ++ m;
  (* the passive copies are those of the queued jobs, in queue order *)
  o_pas : exists dn, (forall p, In p dn -> snd p = []) /\ ps = dn ++ map pas_of js;
  (* a directory with rows is scanned *)
  o_scan : forall d, In d ds -> srows d <> [] -> memb (sid d) lv = true \/ memb (sid d) infl = true;
  o_inf : forall j rest, js = j :: rest -> jstage j = StBegun -> memb (jseg j) infl = true;
  o_ne : forall j, In j js -> written (jstage j) = true -> jevs j <> [];
  o_rows : forall j e, In j js -> In e (rows_of ds (jseg j)) -> In e (jevs j) }.

Definition Ord (A : list event) (s : shard) : Prop :=
  OrdC A (mem s) (passives s) (live s) (inflight s) (dirs s) (jobs s).

Ltac dO O := destruct O as [Ods Ojs Ole Oseq Opart Opas Oscan Oinf One Orows].

Lemma ord_init c : Ord [] (init c).
Proof.
  unfold Ord, init. cbn [mem passives live inflight dirs jobs].
  split; cbn [map In]; try (intros; contradiction); try constructor.
  - exists []. reflexivity.
  - exists []. split; [intros p []| reflexivity].
  - intros j rest E. discriminate.
Qed.

Lemma ord_ins A m ps lv infl ds js e :
  OrdC A m ps lv infl ds js -> OrdC (A ++ [e]) (m ++ [e]) ps lv infl ds js.
Proof.
  intros O. dO O. split; auto.
  - intros u c. rewrite !F_app, <- Oseq, <- !app_assoc. reflexivity.
  - destruct Opart as (old & ->). exists old. rewrite <- !app_assoc. reflexivity.
Qed.

Lemma ord_rotate A m ps lv infl ds js al :
  OrdC A m ps lv infl ds js ->
  (forall j, In j js -> jseg j < al) -> (forall d, In d ds -> sid d < al) ->
  OrdC A [] (ps ++ [(al, m)]) lv infl ds (js ++ [mkJob al m StQueued]).
Proof.
  intros O Hj Hd. dO O. split; auto.
  - rewrite map_app. cbn [map jseg]. apply ss_snoc; [exact Ojs|].
    intros y Hy. apply in_map_iff in Hy as (j & <- & Hin). apply Hj, Hin.
  - intros d j Hdd Hjj. apply in_app_iff in Hjj as [Hjj|[<-|[]]]; [auto|]. cbn [jseg]. apply Hd in Hdd. lia.
  - intros u c. unfold pend. rewrite map_app, concat_app. cbn [map concat jseg jevs].
    rewrite (dhu_fresh ds al u Hd). change (F u c []) with (@nil event).
    rewrite !app_nil_r, F_app. apply Oseq.
  - destruct Opart as (old & ->). exists old. rewrite map_app, concat_app. cbn [map concat jevs].
    rewrite !app_nil_r. reflexivity.
  - destruct Opas as (dn & Hdn & ->). exists dn. split; [exact Hdn|]. rewrite map_app, app_assoc. reflexivity.
  - intros j rest E Hst. destruct js as [|j0 js0]; cbn [app] in E; injection E as E1 E2; subst.
    + discriminate.
    + eapply Oinf; [reflexivity | exact Hst].
  - intros j Hjj. apply in_app_iff in Hjj as [Hjj|[<-|[]]]; [auto|]. cbn [jstage written]. discriminate.
  - intros j e Hjj He. apply in_app_iff in Hjj as [Hjj|[<-|[]]]; [auto|]. cbn [jseg] in He.
    exfalso. eapply rows_of_fresh; eauto.
Qed.

(** the head job changes its stage (and possibly the passive copies) *)
Lemma ord_head A m ps ps' lv infl ds j rest st' :
  OrdC A m ps lv infl ds (j :: rest) ->
  (exists dn, (forall p, In p dn -> snd p = []) /\ ps' = dn ++ map pas_of (mkJob (jseg j) (jevs j) st' :: rest)) ->
  (st' = StBegun -> memb (jseg j) infl = true) ->
  (written st' = true -> jevs j <> []) ->
  OrdC A m ps' lv infl ds (mkJob (jseg j) (jevs j) st' :: rest).
Proof.
  intros O Hp Hi Hn. dO O. split; auto.
  - intros d j0 Hd [<-|Hj0]; cbn [jseg]; apply Ole; auto; [left; reflexivity | right; exact Hj0].
  - intros j0 rest0 E Hst. injection E as E1 E2. subst. cbn [jstage jseg] in *. auto.
  - intros j0 [<-|Hj0]; cbn [jstage jevs]; [exact Hn | apply One; right; exact Hj0].
  - intros j0 e [<-|Hj0]; cbn [jseg jevs]; [apply Orows; left; reflexivity | apply Orows; right; exact Hj0].
Qed.

Lemma ord_adv A m ps lv infl ds j rest st' :
  OrdC A m ps lv infl ds (j :: rest) ->
  (if has_passive st' then jevs j else []) = (if has_passive (jstage j) then jevs j else []) ->
  (st' = StBegun -> memb (jseg j) infl = true) ->
  (written st' = true -> jevs j <> []) ->
  OrdC A m ps lv infl ds (mkJob (jseg j) (jevs j) st' :: rest).
Proof.
  intros O Hp Hi Hn. eapply ord_head; eauto.
  destruct (o_pas _ _ _ _ _ _ _ O) as (dn & Hdn & ->). exists dn. split; [exact Hdn|].
  cbn [map]. unfold pas_of at 1 3. cbn [jseg jevs jstage]. rewrite Hp. reflexivity.
Qed.

Lemma ord_mono A m ps lv lv' infl infl' ds js :
  OrdC A m ps lv infl ds js ->
  (forall x, memb x lv = true -> memb x lv' = true) ->
  (forall x, memb x infl = true -> memb x infl' = true) ->
  OrdC A m ps lv' infl' ds js.
Proof.
  intros O Hl Hi. dO O. split; auto.
  - intros d Hd Hne. destruct (Oscan d Hd Hne); auto.
  - intros j rest E Hst. eauto.
Qed.

Lemma ord_clear A m ps lv infl ds j rest :
  OrdC A m ps lv infl ds (j :: rest) -> jstage j = StPublished ->
  OrdC A m (clear_passive ps (jseg j)) lv infl ds (mkJob (jseg j) (jevs j) StCleared :: rest).
Proof.
  intros O Hst. eapply ord_head; [exact O | | discriminate |].
  - destruct (o_pas _ _ _ _ _ _ _ O) as (dn & Hdn & ->).
    exists (clear_passive dn (jseg j)). split.
    + intros p Hp. unfold clear_passive in Hp. apply in_map_iff in Hp as (p0 & <- & Hp0).
      destruct (fst p0 =? jseg j); [reflexivity | apply Hdn, Hp0].
    + unfold clear_passive. rewrite map_app. f_equal. cbn [map]. f_equal.
      * unfold pas_of. cbn [fst jseg jevs jstage has_passive]. rewrite N.eqb_refl. reflexivity.
      * rewrite map_map. apply map_ext_in. intros j0 Hj0. unfold pas_of at 1. cbn [fst].
        pose proof (o_js _ _ _ _ _ _ _ O) as Hs. cbn [map] in Hs. apply StronglySorted_inv in Hs as [_ Hs].
        rewrite Forall_forall in Hs. specialize (Hs (jseg j0) (in_map jseg _ _ Hj0)).
        destruct (N.eqb_spec (jseg j0) (jseg j)); [lia | reflexivity].
  - intros _. apply (o_ne _ _ _ _ _ _ _ O j); [left; reflexivity | rewrite Hst; reflexivity].
Qed.

Lemma ord_done A m ps lv infl ds j rest :
  OrdC A m ps lv infl ds (j :: rest) ->
  (forall u, dhu ds (jseg j) u = false -> of_uid u (jevs j) = []) ->
  (has_passive (jstage j) = true -> jevs j = []) ->
  (jevs j <> [] -> memb (jseg j) lv = true) ->
  (forall j', In j' rest -> jstage j' = StQueued) ->
  OrdC A m ps lv (remove_n (jseg j) infl) ds rest.
Proof.
  intros O Hu Hp Hl Hq. dO O. split; auto.
  - cbn [map] in Ojs. apply StronglySorted_inv in Ojs as [H _]. exact H.
  - intros d j0 Hd Hj0. apply Ole; [exact Hd | right; exact Hj0].
  - intros u c. rewrite <- Oseq. unfold pend. cbn [map concat]. rewrite F_app.
    destruct (dhu ds (jseg j) u) eqn:E; [reflexivity|]. rewrite (F_of_uid_none u c _ (Hu u E)). reflexivity.
  - destruct Opart as (old & ->). exists (old ++ jevs j). cbn [map concat]. rewrite <- !app_assoc. reflexivity.
  - destruct Opas as (dn & Hdn & ->). exists (dn ++ [pas_of j]). split.
    + intros p Hin. apply in_app_iff in Hin as [Hin|[<-|[]]]; [auto|]. unfold pas_of. cbn [snd].
      destruct (has_passive (jstage j)); auto.
    + cbn [map]. rewrite <- app_assoc. reflexivity.
  - intros d Hd Hne. destruct (N.eqb_spec (sid d) (jseg j)) as [E|E].
    + left. rewrite E. apply Hl. destruct (srows d) as [|e r] eqn:Er; [contradiction|].
      assert (He : In e (jevs j)).
      { apply Orows; [left; reflexivity|]. rewrite <- E. apply in_rows_of; [exact Hd | rewrite Er; left; reflexivity]. }
      intros E0. rewrite E0 in He. destruct He.
    + destruct (Oscan d Hd Hne) as [H|H]; [left; exact H | right; rewrite memb_remove; assumption].
  - intros j0 rest0 E Hst. subst rest. rewrite (Hq j0) in Hst by (left; reflexivity). discriminate.
  - intros j0 Hj0. apply One. right. exact Hj0.
  - intros j0 e Hj0. apply Orows. right. exact Hj0.
Qed.

Lemma ord_add_rows A m ps lv infl ds j rest r :
  OrdC A m ps lv infl ds (j :: rest) -> jstage j = StBegun ->
  (forall e, In e r -> In e (jevs j)) ->
  (forall u, existsb (fun e => euid e =? u) r = false \/
             (dhu ds (jseg j) u = false /\ existsb (fun e => euid e =? u) r = true /\
              forall c, F u c r = F u c (jevs j))) ->
  OrdC A m ps lv infl (dir_add_rows ds (jseg j) r) (j :: rest).
Proof.
  intros O Hst Hsub Hsp. dO O.
  assert (Hle : forall d, In d ds -> sid d <= jseg j) by (intros d Hd; apply Ole; [exact Hd | left; reflexivity]).
  assert (Hlt : forall j0, In j0 rest -> jseg j < jseg j0).
  { intros j0 Hj0. cbn [map] in Ojs. apply StronglySorted_inv in Ojs as [_ H]. rewrite Forall_forall in H.
    apply H, in_map, Hj0. }
  split; auto.
  - apply sids_add_sorted; assumption.
  - intros d j0 Hd Hj0. apply add_sid in Hd as [->|Hd]; [|auto].
    destruct Hj0 as [<-|Hj0]; [lia | apply Hlt in Hj0; lia].
  - intros u c. rewrite (all_rows_add_last _ _ _ Ods Hle), F_app. rewrite <- (Oseq u c).
    unfold pend. cbn [map concat].
    assert (Hrest : concat (map (fun j0 => if dhu (dir_add_rows ds (jseg j) r) (jseg j0) u then [] else jevs j0) rest)
                  = concat (map (fun j0 => if dhu ds (jseg j0) u then [] else jevs j0) rest)).
    { apply concat_map_ext_in. intros j0 Hj0. rewrite dhu_add.
      destruct (N.eqb_spec (jseg j) (jseg j0)) as [E|E]; [apply Hlt in Hj0; lia|]. cbn [andb]. rewrite orb_false_r. reflexivity. }
    rewrite Hrest, dhu_add, N.eqb_refl. cbn [andb].
    destruct (Hsp u) as [Hf|(Hd & Ht & HF)].
    + rewrite Hf, orb_false_r. rewrite (F_of_uid_none u c r (existsb_uid_false u r Hf)), app_nil_r. reflexivity.
    + rewrite Hd, Ht. cbn [orb app]. rewrite HF, !F_app, <- !app_assoc. reflexivity.
  - intros d Hd Hne. apply add_sid in Hd as [->|Hd]; [|auto]. right. eapply Oinf; [reflexivity | exact Hst].
  - intros j0 e Hj0 He. apply rows_of_add in He as [He|[E He]]; [auto|].
    destruct Hj0 as [<-|Hj0]; [auto | apply Hlt in Hj0; lia].
Qed.

(** * Every crash-free label preserves the order invariant *)

Lemma ord_store A s e : Inv A s -> Ord A s -> Ord (A ++ [e]) (store s e).
Proof.
  intros I O. unfold store. cbv zeta.
  destruct (cap s <=? len _); unfold Ord, rotate; cbn [mem passives live inflight dirs jobs alloc0].
  - apply ord_rotate; [apply ord_ins, O | apply (i_jlt _ _ _ _ _ _ _ I) | apply (i_dlt _ _ _ _ _ _ _ I)].
  - apply ord_ins, O.
Qed.

Lemma ord_flush_cmd A s : Inv A s -> Ord A s -> Ord A (flush_cmd s).
Proof.
  intros I O. unfold flush_cmd, rotate, Ord. cbn [mem passives live inflight dirs jobs alloc0].
  apply ord_rotate; [exact O | apply (i_jlt _ _ _ _ _ _ _ I) | apply (i_dlt _ _ _ _ _ _ _ I)].
Qed.

Lemma ord_wal_write A s : Ord A s -> Ord A (wal_write s).
Proof. intros O. unfold wal_write. destruct (walq s); exact O. Qed.

Lemma ord_wal_rotate A s : Ord A s -> Ord A (wal_rotate s).
Proof. intros O. unfold wal_rotate. destruct (cap s <=? wcnt s); exact O. Qed.

Lemma ord_fw A s l : Inv A s -> Ord A s -> Ord A (fw_step s l).
Proof.
  intros I O. unfold fw_step. destruct (jobs s) as [|j rest] eqn:Hj; [exact O|].
  assert (I' : InvC A (mem s) (passives s) (live s) (dirs s) (j :: rest) (alloc0 s)) by (rewrite <- Hj; exact I).
  assert (O' : OrdC A (mem s) (passives s) (live s) (inflight s) (dirs s) (j :: rest)) by (rewrite <- Hj; exact O).
  pose proof (i_job _ _ _ _ _ _ _ I' j (or_introl eq_refl)) as Jok.
  pose proof (o_ne _ _ _ _ _ _ _ O' j (or_introl eq_refl)) as Hne0.
  destruct l; destruct (jstage j) eqn:Hst; try exact O.
  - (* FwBegin *)
    unfold Ord; cbn [mem passives live inflight dirs jobs].
    apply ord_adv; [eapply ord_mono; [exact O' | auto | intros x Hx; rewrite memb_app, Hx; reflexivity]
                   | rewrite Hst; reflexivity
                   | intros _; rewrite memb_app, memb_cons, N.eqb_refl; apply orb_true_r
                   | cbn [written]; discriminate].
  - (* FwMkdir *)
    unfold Ord; cbn [mem passives live inflight dirs jobs].
    apply ord_add_rows; [exact O' | exact Hst | intros e [] | intros u; left; reflexivity].
  - (* FwWrite *)
    destruct (negb (memb u (uids_of (jevs j))) || dir_has_uid s (jseg j) u) eqn:Hc; [exact O|].
    apply orb_false_iff in Hc as [Hm Hc]. apply negb_false_iff in Hm.
    unfold Ord; cbn [mem passives live inflight dirs jobs].
    apply ord_add_rows; [exact O' | exact Hst | |].
    + intros e He. apply filter_In in He as [He _]. apply flush_order_in, He.
    + intros u0. destruct (N.eqb_spec u0 u) as [->|Hne].
      * right. split; [exact Hc|]. split.
        -- apply memb_true in Hm. unfold uids_of in Hm. apply sort_n_in, dedup_n_in, in_map_iff in Hm as (e & Hu & He).
           apply existsb_exists. exists e. split; [|apply N.eqb_eq, Hu].
           apply filter_In. split; [apply flush_order_in, He | apply N.eqb_eq, Hu].
        -- intros c. change (filter (fun e => euid e =? u) (flush_order (jevs j))) with (of_uid u (flush_order (jevs j))).
           rewrite F_of_uid_same, F_flush_order. reflexivity.
      * left. destruct (existsb (fun e => euid e =? u0) _) eqn:E; [|reflexivity].
        apply existsb_exists in E as (e & He & Hu). apply filter_In in He as [_ Hu2].
        apply N.eqb_eq in Hu, Hu2. congruence.
  - (* FwIndex *)
    destruct (is_empty (jevs j) || negb (forallb (dir_has_uid s (jseg j)) (uids_of (jevs j)))) eqn:Hc; [exact O|].
    apply orb_false_iff in Hc as [He _].
    unfold Ord; cbn [mem passives live inflight dirs jobs].
    apply ord_adv; [exact O' | rewrite Hst; reflexivity | discriminate | intros _ E; rewrite E in He; discriminate].
  - (* FwPublish *)
    assert (Hne : jevs j <> []) by (apply Hne0; reflexivity).
    destruct (is_empty (jevs j)) eqn:He.
    + unfold set_jobs, Ord; cbn [mem passives live inflight dirs jobs].
      apply ord_adv; [exact O' | rewrite Hst; reflexivity | discriminate | intros _; exact Hne].
    + unfold Ord; cbn [mem passives live inflight dirs jobs].
      apply ord_adv; [eapply ord_mono; [exact O' | | auto] | rewrite Hst; reflexivity | discriminate | intros _; exact Hne].
      intros x Hx. destruct (memb (jseg j) (live s)); [exact Hx | rewrite memb_app, Hx; reflexivity].
  - (* FwClear *)
    assert (Hne : jevs j <> []) by (apply Hne0; reflexivity).
    destruct (is_empty (jevs j)) eqn:He; [apply is_empty_true in He; contradiction|].
    unfold Ord; cbn [mem passives live inflight dirs jobs]. apply ord_clear; assumption.
  - (* FwWalDel *)
    destruct (is_empty (jevs j) || negb (id <? N.succ (jseg j))); [exact O | exact O'].
  - (* FwWalClean *)
    assert (Hne : jevs j <> []) by (apply Hne0; reflexivity).
    assert (O2 : OrdC A (mem s) (passives s) (live s) (inflight s) (dirs s) (mkJob (jseg j) (jevs j) StWalCleaned :: rest)).
    { apply ord_adv; [exact O' | rewrite Hst; reflexivity | discriminate | intros _; exact Hne]. }
    destruct (is_empty (jevs j)); exact O2.
  - (* FwDone, nothing was flushed *)
    destruct (is_empty (jevs j)) eqn:He; [|exact O]. apply is_empty_true in He.
    unfold Ord; cbn [mem passives live inflight dirs jobs].
    eapply ord_done; [exact O' | intros u _; rewrite He; reflexivity | intros _; exact He
                     | intros Hne; contradiction | apply (i_tlq _ _ _ _ _ _ _ I')].
  - (* FwDone *)
    unfold Ord; cbn [mem passives live inflight dirs jobs].
    eapply ord_done; [exact O' | | rewrite Hst; discriminate | | apply (i_tlq _ _ _ _ _ _ _ I')].
    + intros u Hd. unfold of_uid. apply filter_none. intros e He.
      destruct (euid e =? u) eqn:E; [|reflexivity]. apply N.eqb_eq in E. exfalso.
      assert (T : dhu (dirs s) (jseg j) u = true); [|congruence].
      apply dhu_spec. exists e. split; [|exact E]. apply (jo_wr _ _ _ _ Jok); [rewrite Hst; reflexivity | exact He].
    + intros Hne. apply (jo_pub _ _ _ _ Jok); [rewrite Hst; reflexivity | exact Hne].
Qed.

Lemma ord_run c ls :
  no_crash ls -> NoDup (map ek (applied ls)) -> Ord (applied ls) (run (init c) ls).
Proof.
  unfold no_crash. induction ls as [|l ls IH] using rev_ind; intros Hc Hk.
  - apply ord_init.
  - rewrite forallb_app in Hc. apply andb_true_iff in Hc as [Hc Hl]. cbn [forallb] in Hl.
    rewrite run_snoc. rewrite applied_app in *.
    assert (Hk1 : NoDup (map ek (applied ls))).
    { rewrite map_app in Hk. apply nodup_app in Hk as (Hk1 & _ & _). exact Hk1. }
    pose proof (inv_run c ls Hc Hk1) as I. specialize (IH Hc Hk1).
    destruct l; cbn [is_crash negb andb] in Hl; try discriminate; cbn [applied step] in *;
      rewrite ?app_nil_r in *.
    + apply ord_store; assumption.
    + apply ord_flush_cmd; assumption.
    + apply ord_wal_write; assumption.
    + apply ord_wal_rotate; assumption.
    + apply ord_fw; assumption.
Qed.

(** * What a typed REPLAY returns *)

(** the append order the property demands *)
Definition ctx_events (ls : list label) (u c : N) : list event := of_ctx c (of_uid u (applied ls)).

(** the response writer's de-duplication (first occurrence of an event id kept) *)
Definition dedup_keys (l : list event) : list event := dedup_ev l [].

(** the fan-in merge of two flows: any interleaving *)
Inductive Interleave {A} : list A -> list A -> list A -> Prop :=
| il_nil : Interleave [] [] []
| il_left x a b r : Interleave a b r -> Interleave (x :: a) b (x :: r)
| il_right x a b r : Interleave a b r -> Interleave a (x :: b) (x :: r).

Lemma Interleave_perm {A} (a b r : list A) : Interleave a b r -> Permutation r (a ++ b).
Proof.
  intros H. induction H; cbn [app]; [constructor | constructor; assumption|].
  rewrite IHInterleave. apply Permutation_middle.
Qed.

Lemma Interleave_seq_l {A} (a b : list A) : Interleave a b (a ++ b).
Proof.
  induction a as [|x a IH]; cbn [app]; [|constructor; exact IH].
  induction b; constructor; assumption.
Qed.

Lemma Interleave_seq_r {A} (a b : list A) : Interleave a b (b ++ a).
Proof.
  induction b as [|x b IH]; cbn [app]; [|constructor; exact IH].
  induction a; constructor; assumption.
Qed.

(** the memory flow with the passive copies (rotation order) BEFORE the active memtable *)
Definition replay_mem_fifo (s : shard) (u c : N) : list event :=
  of_ctx c (of_uid u (concat (map snd (passives s)) ++ mem s)).

(** known class: the context has events of the type both in the active memtable and
    in a passive copy; the model's (and the engine's) memory flow lists the active
    memtable first *)
Definition ActiveBeforePassive (s : shard) (u c : N) : bool :=
  negb (is_empty (of_ctx c (of_uid u (mem s)))) &&
  negb (is_empty (of_ctx c (of_uid u (concat (map snd (passives s)))))).

Lemma replay_mem_F s u c : replay_mem s u c = F u c (mem s) ++ F u c (prows (passives s)).
Proof. unfold replay_mem, mem_rows. fold (prows (passives s)). apply F_app. Qed.

Lemma replay_mem_fifo_F s u c : replay_mem_fifo s u c = F u c (prows (passives s)) ++ F u c (mem s).
Proof. unfold replay_mem_fifo. fold (prows (passives s)). apply F_app. Qed.

Lemma replay_mem_fifo_eq s u c : ActiveBeforePassive s u c = false -> replay_mem s u c = replay_mem_fifo s u c.
Proof.
  rewrite replay_mem_F, replay_mem_fifo_F. unfold ActiveBeforePassive.
  fold (prows (passives s)). fold (F u c (mem s)). fold (F u c (prows (passives s))).
  intros H. apply andb_false_iff in H as [H|H]; apply negb_false_iff, is_empty_true in H; rewrite H;
    rewrite ?app_nil_r; reflexivity.
Qed.

(** ** membership *)

Lemma nodup_map_filter {A B} (f : A -> B) p l : NoDup (map f l) -> NoDup (map f (filter p l)).
Proof.
  induction l as [|x r IH]; cbn [map filter]; intros H; [constructor|].
  apply NoDup_cons_iff in H as [Hx H]. destruct (p x); [|auto]. cbn [map]. constructor; [|auto].
  intros Hin. apply Hx. apply in_map_iff in Hin as (y & Hy & Hin). apply filter_In in Hin as [Hin _].
  rewrite <- Hy. apply in_map, Hin.
Qed.

Lemma nodup_keys_F u c A : NoDup (map ek A) -> NoDup (map ek (F u c A)).
Proof. intros H. unfold F, of_ctx, of_uid. apply nodup_map_filter, nodup_map_filter, H. Qed.

Theorem membership_rows : forall c0 ls u c,
  no_crash ls -> NoDup (map ek (applied ls)) ->
  let s := run (init c0) ls in
  forall e, In e (replay_mem s u c ++ replay_seg s u c) <-> In e (ctx_events ls u c).
Proof.
  intros c0 ls u c Hc Hk s e. pose proof (inv_rows _ _ (inv_run c0 ls Hc Hk)) as Hrows. fold s in Hrows.
  change (replay_mem s u c ++ replay_seg s u c) with (F u c (mem_rows s) ++ F u c (seg_rows s)).
  rewrite <- F_app. change (ctx_events ls u c) with (F u c (applied ls)). rewrite !F_in, Hrows. tauto.
Qed.

Theorem membership_interleavings : forall c0 ls u c r,
  no_crash ls -> NoDup (map ek (applied ls)) ->
  let s := run (init c0) ls in
  Interleave (replay_mem s u c) (replay_seg s u c) r ->
  Permutation (dedup_keys r) (ctx_events ls u c).
Proof.
  intros c0 ls u c r Hc Hk s Hi. pose proof (membership_rows c0 ls u c Hc Hk) as Hm. cbv zeta in Hm. fold s in Hm.
  pose proof (Interleave_perm _ _ _ Hi) as Hp.
  assert (Hr : forall e, In e r <-> In e (ctx_events ls u c)).
  { intros e. rewrite <- Hm. split; apply Permutation_in; [exact Hp | symmetry; exact Hp]. }
  apply NoDup_Permutation.
  - apply (NoDup_map_inv ek). apply ShardC03Proofs.dedup_keys.
  - apply (NoDup_map_inv ek). apply (nodup_keys_F u c), Hk.
  - intros e. unfold dedup_keys. split.
    + intros He. apply ShardC03Proofs.dedup_keys in He as [_ He]. apply Hr, He.
    + intros He. apply dedup_in; [|apply Hr, He | reflexivity].
      intros a b Ha Hb. apply Hr in Ha, Hb. apply F_in in Ha as [Ha _], Hb as [Hb _].
      apply (nodup_map_inj_on ek (applied ls) Hk); assumption.
Qed.

(** ** order inside the tiers *)

Lemma concat_filter_nil {A B} (f : A -> list B) p l :
  (forall x, In x l -> p x = false -> f x = []) -> concat (map f (filter p l)) = concat (map f l).
Proof.
  induction l as [|x r IH]; cbn [filter map concat]; intros H; [reflexivity|].
  assert (Hr : forall y, In y r -> p y = false -> f y = []) by (intros y Hy; apply H; right; exact Hy).
  destruct (p x) eqn:Hp; cbn [map concat]; rewrite (IH Hr); [reflexivity|].
  rewrite (H x (or_introl eq_refl) Hp). reflexivity.
Qed.

Lemma seg_rows_all A s : Ord A s -> seg_rows s = all_rows (dirs s).
Proof.
  intros O. unfold seg_rows, scanned_dirs, all_rows. apply concat_filter_nil. intros d Hd Hp.
  destruct (srows d) as [|e r] eqn:Er; [reflexivity|]. exfalso.
  apply orb_false_iff in Hp as [H1 H2].
  destruct (o_scan _ _ _ _ _ _ _ O d Hd) as [H|H]; [rewrite Er; discriminate | congruence | congruence].
Qed.

Lemma prows_nil dn : (forall p : N * list event, In p dn -> snd p = []) -> prows dn = [].
Proof.
  unfold prows. induction dn as [|p r IH]; cbn [map concat]; intros H; [reflexivity|].
  rewrite (H p (or_introl eq_refl)), IH; [reflexivity|]. intros q Hq. apply H. right. exact Hq.
Qed.

Definition pasev (j : job) : list event := if has_passive (jstage j) then jevs j else [].

Lemma ord_prows A m ps lv infl ds js :
  OrdC A m ps lv infl ds js -> prows ps = concat (map pasev js).
Proof.
  intros O. destruct (o_pas _ _ _ _ _ _ _ O) as (dn & Hdn & ->).
  unfold prows. rewrite map_app, concat_app. fold (prows dn). rewrite (prows_nil dn Hdn). cbn [app].
  rewrite map_map. reflexivity.
Qed.

Lemma subseq_fifo A m ps lv infl ds js :
  OrdC A m ps lv infl ds js -> Subseq (prows ps ++ m) A.
Proof.
  intros O. rewrite (ord_prows _ _ _ _ _ _ _ O). destruct (o_part _ _ _ _ _ _ _ O) as (old & ->).
  apply Subseq_app_l, Subseq_app; [|apply Subseq_refl]. apply Subseq_concat_map.
  intros j _. unfold pasev. destruct (has_passive (jstage j)); [apply Subseq_refl | apply Subseq_nil_l].
Qed.

Theorem order_within_tier : forall c0 ls u c,
  no_crash ls -> NoDup (map ek (applied ls)) ->
  let s := run (init c0) ls in
  Subseq (replay_seg s u c) (ctx_events ls u c) /\
  (forall d, In d (dirs s) -> Subseq (of_ctx c (of_uid u (srows d))) (ctx_events ls u c)) /\
  Subseq (of_ctx c (of_uid u (mem s))) (ctx_events ls u c) /\
  (forall p, In p (passives s) -> Subseq (of_ctx c (of_uid u (snd p))) (ctx_events ls u c)) /\
  Subseq (replay_mem_fifo s u c) (ctx_events ls u c).
Proof.
  intros c0 ls u c Hc Hk s. pose proof (ord_run c0 ls Hc Hk) as O. fold s in O.
  change (ctx_events ls u c) with (F u c (applied ls)).
  pose proof (o_seq _ _ _ _ _ _ _ O u c) as Hseq.
  assert (Hall : Subseq (F u c (all_rows (dirs s))) (F u c (applied ls))).
  { rewrite <- Hseq. apply Subseq_app_r, Subseq_refl. }
  assert (Hfifo : Subseq (F u c (prows (passives s) ++ mem s)) (F u c (applied ls))).
  { apply F_subseq. exact (subseq_fifo _ _ _ _ _ _ _ O). }
  split; [|split; [|split; [|split]]].
  - unfold replay_seg. fold (F u c (seg_rows s)). rewrite (seg_rows_all _ _ O). exact Hall.
  - intros d Hd. eapply Subseq_trans; [|exact Hall]. apply F_subseq. unfold all_rows.
    apply Subseq_concat_in, in_map, Hd.
  - rewrite <- Hseq. apply Subseq_app_l, Subseq_app_l, Subseq_refl.
  - intros p Hp. eapply Subseq_trans; [|exact Hfifo]. apply F_subseq, Subseq_app_r. unfold prows.
    apply Subseq_concat_in, in_map, Hp.
  - exact Hfifo.
Qed.

Theorem mem_flow_order_outside_known : forall c0 ls u c,
  no_crash ls -> NoDup (map ek (applied ls)) ->
  let s := run (init c0) ls in
  ActiveBeforePassive s u c = false ->
  Subseq (replay_mem s u c) (ctx_events ls u c).
Proof.
  intros c0 ls u c Hc Hk s Hn. rewrite (replay_mem_fifo_eq s u c Hn).
  apply (order_within_tier c0 ls u c Hc Hk).
Qed.

(** a decision procedure for [Subseq] on events (greedy matching) *)
Fixpoint subseqb (a b : list event) : bool :=
  match a, b with
  | [], _ => true
  | _ :: _, [] => false
  | x :: a', y :: b' => if ev_eqb x y then subseqb a' b' else subseqb a b'
  end.

Lemma Subseq_cons_l {A} (x : A) a b : Subseq (x :: a) b -> Subseq a b.
Proof. intros H. eapply Subseq_trans; [|exact H]. constructor. apply Subseq_refl. Qed.

Lemma subseqb_complete a b : Subseq a b -> subseqb a b = true.
Proof.
  revert a. induction b as [|y b IH]; intros a H.
  - inversion H. reflexivity.
  - destruct a as [|x a]; [reflexivity|]. cbn [subseqb]. destruct (ev_eqb x y) eqn:E.
    + apply IH. inversion H; subst; [eapply Subseq_cons_l; eassumption | assumption].
    + apply IH. inversion H; subst; [assumption|].
      assert (T : ev_eqb y y = true) by (apply ev_eqb_eq; reflexivity). congruence.
Qed.

(** Refuted: the memory flow itself (active memtable, then passive copies) is not in
    append order: k1 is rotated by a manual FLUSH (job still queued), k2 arrives. *)
Definition ls_abp : list label := [LStore (mkEv 1 1 0); LFlushCmd; LStore (mkEv 2 1 0)].

Lemma mem_flow_order_refuted :
  exists c0 ls u c,
    let s := run (init c0) ls in
    no_crash ls /\ NoDup (map ek (applied ls)) /\ ActiveBeforePassive s u c = true /\
    map ek (replay_mem s u c) = [2; 1] /\ map ek (ctx_events ls u c) = [1; 2] /\
    ~ Subseq (replay_mem s u c) (ctx_events ls u c).
Proof.
  exists 4, ls_abp, 0, 1. cbv zeta.
  split; [vm_compute; reflexivity|]. split; [apply nodupb_sound; vm_compute; reflexivity|].
  split; [vm_compute; reflexivity|]. split; [vm_compute; reflexivity|]. split; [vm_compute; reflexivity|].
  intros H. apply subseqb_complete in H. vm_compute in H. discriminate.
Qed.

(** ** sequential composition: segments, then passives, then the memtable *)

Lemma dedup_filter l : forall seen (p : event -> bool),
  (forall e, In e l -> p e = false -> memb (ek e) seen = true) ->
  dedup_ev (filter p l) seen = dedup_ev l seen.
Proof.
  induction l as [|x r IH]; intros seen p H; cbn [filter dedup_ev]; [reflexivity|].
  destruct (p x) eqn:Hp.
  - cbn [dedup_ev]. destruct (memb (ek x) seen) eqn:Hm.
    + apply IH. intros e He. apply H. right. exact He.
    + f_equal. apply IH. intros e He Hpe. rewrite memb_cons, (H e (or_intror He) Hpe). apply orb_true_r.
  - rewrite (H x (or_introl eq_refl) Hp). apply IH. intros e He. apply H. right. exact He.
Qed.

Lemma dedup_absorb Y Y' : forall X seen,
  NoDup (map ek (X ++ Y)) -> (forall e, In e (X ++ Y) -> memb (ek e) seen = false) ->
  filter (fun e => negb (memb (ek e) (map ek X ++ seen))) Y' = Y ->
  dedup_ev (X ++ Y') seen = X ++ Y.
Proof.
  induction X as [|x X IH]; intros seen Hn Hs Hf; cbn [app] in *.
  - rewrite <- (dedup_filter Y' seen (fun e => negb (memb (ek e) seen))).
    + cbn [map app] in Hf. rewrite Hf. apply dedup_id; assumption.
    + intros e _ He. apply negb_false_iff in He. exact He.
  - cbn [dedup_ev]. rewrite (Hs x (or_introl eq_refl)). f_equal.
    cbn [map] in Hn. apply NoDup_cons_iff in Hn as [Hx Hn]. apply IH; [exact Hn | |].
    + intros e He. rewrite memb_cons, (Hs e (or_intror He)), orb_false_r. apply N.eqb_neq.
      intros E. apply Hx. rewrite <- E. apply in_map, He.
    + rewrite <- Hf. apply filter_ext. intros e. f_equal. cbn [map app].
      rewrite !memb_app, !memb_cons, memb_app.
      destruct (memb (ek e) (map ek X)), (ek e =? ek x), (memb (ek e) seen); reflexivity.
Qed.

Lemma written_dhu ps lv ds j u :
  JobOk ps lv ds j -> written (jstage j) = true -> dhu ds (jseg j) u = false -> of_uid u (jevs j) = [].
Proof.
  intros Jok Hw Hd. unfold of_uid. apply filter_none. intros e He.
  destruct (euid e =? u) eqn:E; [|reflexivity]. apply N.eqb_eq in E. exfalso.
  assert (T : dhu ds (jseg j) u = true); [|congruence].
  apply dhu_spec. exists e. split; [|exact E]. apply (jo_wr _ _ _ _ Jok); assumption.
Qed.

Lemma seg_then_fifo A s u c :
  Inv A s -> Ord A s -> NoDup (map ek A) ->
  dedup_keys (F u c (all_rows (dirs s)) ++ F u c (prows (passives s)) ++ F u c (mem s)) = F u c A.
Proof.
  intros I O Hk. pose proof (o_seq _ _ _ _ _ _ _ O u c) as Hseq.
  set (X := F u c (all_rows (dirs s))) in *.
  assert (Hn : NoDup (map ek (X ++ F u c (pend (jobs s) (dirs s) u) ++ F u c (mem s)))).
  { rewrite Hseq. apply nodup_keys_F, Hk. }
  unfold dedup_keys. rewrite <- Hseq. apply dedup_absorb; [exact Hn | reflexivity|].
  rewrite app_nil_r. rewrite map_app in Hn. apply nodup_app in Hn as (_ & _ & Hdisj).
  assert (Hout : forall e, In e (F u c (pend (jobs s) (dirs s) u) ++ F u c (mem s)) ->
                 negb (memb (ek e) (map ek X)) = true).
  { intros e He. apply negb_true_iff, memb_false. intros Hin. apply (Hdisj (ek e) Hin). apply in_map, He. }
  rewrite filter_app. f_equal.
  2:{ apply filter_all, forallb_forall. intros e He. apply Hout, in_app_iff. right. exact He. }
  rewrite (ord_prows _ _ _ _ _ _ _ O). unfold pend. rewrite !F_concat_map, filter_concat_map.
  apply concat_map_ext_in. intros j Hj.
  pose proof (i_job _ _ _ _ _ _ _ I j Hj) as Jok. unfold pasev.
  destruct (has_passive (jstage j)) eqn:Hp, (dhu (dirs s) (jseg j) u) eqn:Hd.
  - (* written, passive copy not yet released: all of them are in the directory *)
    apply filter_none. intros e He. apply negb_false_iff, memb_true, in_map.
    apply F_in in He as (He & Hu & Hcx). apply F_in. split; [|auto].
    apply (rows_of_sub_all _ (jseg j)).
    destruct (written (jstage j)) eqn:Hw.
    + apply (jo_wr _ _ _ _ Jok); assumption.
    + apply dhu_spec in Hd as (e' & He' & Hu'). apply (jo_w _ _ _ _ Jok Hw e e'); [assumption.. | congruence].
  - (* not written *)
    apply filter_all, forallb_forall. intros e He. apply Hout, in_app_iff. left.
    apply F_in in He as (He & Hu & Hcx). apply F_in. split; [|auto].
    apply in_concat. exists (jevs j). split; [|exact He].
    apply in_map_iff. exists j. rewrite Hd. auto.
  - reflexivity.
  - (* released: written *)
    rewrite (F_of_uid_none u c (jevs j)); [reflexivity|].
    eapply written_dhu; [exact Jok | | exact Hd]. destruct (jstage j); try discriminate; reflexivity.
Qed.

Theorem seg_then_mem_append_order : forall c0 ls u c,
  no_crash ls -> NoDup (map ek (applied ls)) ->
  let s := run (init c0) ls in
  dedup_keys (replay_seg s u c ++ replay_mem_fifo s u c) = ctx_events ls u c.
Proof.
  intros c0 ls u c Hc Hk s. pose proof (ord_run c0 ls Hc Hk) as O. pose proof (inv_run c0 ls Hc Hk) as I. fold s in O, I.
  rewrite replay_mem_fifo_F. unfold replay_seg. fold (F u c (seg_rows s)). rewrite (seg_rows_all _ _ O).
  apply seg_then_fifo; assumption.
Qed.

Theorem seg_then_mem_outside_known : forall c0 ls u c,
  no_crash ls -> NoDup (map ek (applied ls)) ->
  let s := run (init c0) ls in
  ActiveBeforePassive s u c = false ->
  dedup_keys (replay_seg s u c ++ replay_mem s u c) = ctx_events ls u c.
Proof.
  intros c0 ls u c Hc Hk s Hn. rewrite (replay_mem_fifo_eq s u c Hn).
  apply seg_then_mem_append_order; assumption.
Qed.

Lemma seg_then_mem_refuted :
  exists c0 ls u c,
    let s := run (init c0) ls in
    no_crash ls /\ NoDup (map ek (applied ls)) /\ ActiveBeforePassive s u c = true /\
    map ek (dedup_keys (replay_seg s u c ++ replay_mem s u c)) = [2; 1] /\
    map ek (ctx_events ls u c) = [1; 2].
Proof.
  exists 4, ls_abp, 0, 1. cbv zeta.
  split; [vm_compute; reflexivity|]. split; [apply nodupb_sound; vm_compute; reflexivity|].
  repeat split; vm_compute; reflexivity.
Qed.

(** ** the fan-in finding: MemtableAndSegmentFlowsInterleave *)

Definition ls_fanin : list label :=
  [LStore (mkEv 1 1 0); LStore (mkEv 2 2 0); LStore (mkEv 3 1 0); LFlushCmd] ++ flush_all [0]
  ++ [LStore (mkEv 4 1 0)].

Lemma fanin_order_refuted :
  exists c0 ls u c r,
    let s := run (init c0) ls in
    no_crash ls /\ NoDup (map ek (applied ls)) /\ jobs s = [] /\ ActiveBeforePassive s u c = false /\
    Interleave (replay_mem s u c) (replay_seg s u c) r /\
    map ek (dedup_keys r) = [4; 1; 3] /\ map ek (ctx_events ls u c) = [1; 3; 4] /\
    ~ Subseq (dedup_keys r) (ctx_events ls u c).
Proof.
  exists 4, ls_fanin, 0, 1, [mkEv 4 1 0; mkEv 1 1 0; mkEv 3 1 0]. cbv zeta.
  split; [vm_compute; reflexivity|]. split; [apply nodupb_sound; vm_compute; reflexivity|].
  split; [vm_compute; reflexivity|]. split; [vm_compute; reflexivity|].
  split; [vm_compute; repeat constructor|].
  split; [vm_compute; reflexivity|]. split; [vm_compute; reflexivity|].
  intros H. apply subseqb_complete in H. vm_compute in H. discriminate.
Qed.

(** * Compaction

    The model's [merge_rows] sorts the concatenation of the inputs (in the listed
    order) with the STABLE [flush_order]; per context the output is therefore the
    concatenation of the inputs' rows of that context.  The implementation's heap
    compares context ids only: the relative order of equal contexts coming from
    different inputs is arbitrary there (known finding
    CompactionScramblesContextOrder).  That tie order is outside the model; the
    harness compares REPLAY results as multisets after a compaction. *)

Lemma merge_rows_ctx ds inputs u c :
  of_ctx c (merge_rows ds inputs u) = concat (map (fun i => F u c (rows_of ds i)) inputs).
Proof.
  unfold merge_rows. rewrite flush_order_of_ctx. unfold of_ctx. rewrite filter_concat_map. reflexivity.
Qed.

Lemma merge_rows_uid ds inputs u e : In e (merge_rows ds inputs u) -> euid e = u.
Proof.
  unfold merge_rows. rewrite flush_order_in. intros H. apply in_concat in H as (l & Hl & He).
  apply in_map_iff in Hl as (i & <- & _). apply filter_In in He as [_ He]. apply N.eqb_eq, He.
Qed.

Lemma ss_app {A} (R : A -> A -> Prop) a b :
  StronglySorted R a -> StronglySorted R b -> (forall x y, In x a -> In y b -> R x y) ->
  StronglySorted R (a ++ b).
Proof.
  induction a as [|x a IH]; cbn [app]; intros Ha Hb Hab; [exact Hb|].
  apply StronglySorted_inv in Ha as [Ha Hx]. constructor.
  - apply IH; [exact Ha | exact Hb | intros y z Hy Hz; apply Hab; [right; exact Hy | exact Hz]].
  - apply Forall_app. split; [exact Hx|]. apply Forall_forall. intros y Hy. apply Hab; [left; reflexivity | exact Hy].
Qed.

Lemma ss_concat_map {A B} (R : B -> B -> Prop) (g : A -> list B) l :
  (forall i, In i l -> StronglySorted R (g i)) ->
  ForallOrdPairs (fun i j => forall x y, In x (g i) -> In y (g j) -> R x y) l ->
  StronglySorted R (concat (map g l)).
Proof.
  induction l as [|i r IH]; cbn [map concat]; intros Hs Hp; [constructor|].
  inversion Hp as [|i' r' Hi Hr]; subst. apply ss_app.
  - apply Hs. left. reflexivity.
  - apply IH; [intros j Hj; apply Hs; right; exact Hj | exact Hr].
  - intros x y Hx Hy. apply in_concat in Hy as (l0 & Hl0 & Hy). apply in_map_iff in Hl0 as (j & <- & Hj).
    rewrite Forall_forall in Hi. exact (Hi j Hj x y Hx Hy).
Qed.

(** C04_order_if_stable: for ANY relation [R] ("appended before"): if every input
    holds the context's events [R]-sorted and every event of an earlier listed
    input is [R]-before every event of a later one, the merged output holds the
    context's events [R]-sorted. *)
Theorem stable_merge_keeps_order : forall (R : event -> event -> Prop) ds inputs u c,
  (forall i, In i inputs -> StronglySorted R (of_ctx c (of_uid u (Compaction.rows_of ds i)))) ->
  ForallOrdPairs (fun i j => forall x y,
     In x (of_ctx c (of_uid u (Compaction.rows_of ds i))) ->
     In y (of_ctx c (of_uid u (Compaction.rows_of ds j))) -> R x y) inputs ->
  StronglySorted R (of_ctx c (merge_rows ds inputs u)).
Proof.
  intros R ds inputs u c Hs Hp. rewrite merge_rows_ctx. apply ss_concat_map; assumption.
Qed.

Lemma rows_of_cons d ds i : rows_of (d :: ds) i = (if sid d =? i then srows d else []) ++ rows_of ds i.
Proof. unfold rows_of. cbn [filter]. destruct (sid d =? i); reflexivity. Qed.

Lemma rows_of_cons_ne d ds i : sid d <> i -> rows_of (d :: ds) i = rows_of ds i.
Proof. intros H. rewrite rows_of_cons. destruct (N.eqb_spec (sid d) i); [contradiction | reflexivity]. Qed.

Lemma rows_of_none ds i : (forall d, In d ds -> sid d <> i) -> rows_of ds i = [].
Proof.
  intros H. unfold rows_of. rewrite (filter_none (fun d => sid d =? i) ds); [reflexivity|].
  intros d Hd. apply N.eqb_neq, H, Hd.
Qed.

(** with directories and inputs both in label order, the selected rows are a subsequence of all rows *)
Lemma sel_subseq ds : forall inputs,
  StronglySorted N.lt (map sid ds) -> StronglySorted N.lt inputs ->
  Subseq (concat (map (rows_of ds) inputs)) (all_rows ds).
Proof.
  induction ds as [|d ds IH]; intros inputs Hs Hi.
  - assert (E : forall l, concat (map (rows_of []) l) = [])
      by (induction l as [|a r IHr]; [reflexivity | cbn [map concat]; rewrite IHr; reflexivity]).
    rewrite E. constructor.
  - cbn [map] in Hs. apply StronglySorted_inv in Hs as [Hs Hd]. rewrite Forall_forall in Hd.
    assert (Hgt : forall i, i <= sid d -> rows_of ds i = []).
    { intros i Hle. apply rows_of_none. intros d0 Hd0 E. specialize (Hd (sid d0) (in_map sid _ _ Hd0)). lia. }
    change (all_rows (d :: ds)) with (srows d ++ all_rows ds).
    induction inputs as [|i rest IHi]; [apply Subseq_nil_l|].
    pose proof Hi as Hi0. apply StronglySorted_inv in Hi as [Hi Hir]. rewrite Forall_forall in Hir.
    destruct (N.lt_trichotomy i (sid d)) as [Hlt|[Heq|Hlt]].
    + cbn [map concat]. rewrite rows_of_cons_ne by lia. rewrite Hgt by lia. cbn [app]. apply IHi, Hi.
    + cbn [map concat]. rewrite rows_of_cons, Heq, N.eqb_refl, Hgt by lia. rewrite app_nil_r.
      apply Subseq_app; [apply Subseq_refl|].
      rewrite (concat_map_ext_in (rows_of (d :: ds)) (rows_of ds)); [apply IH; assumption|].
      intros j Hj. apply rows_of_cons_ne. specialize (Hir j Hj). lia.
    + apply Subseq_app_l.
      rewrite (concat_map_ext_in (rows_of (d :: ds)) (rows_of ds)); [apply IH; assumption|].
      intros j [<-|Hj]; apply rows_of_cons_ne; [lia | specialize (Hir j Hj); lia].
Qed.

(** on a reachable crash-free state: merging level-0 directories listed in label
    order yields, per context, a subsequence of the append order *)
Theorem merge_in_order : forall c0 ls inputs u c,
  no_crash ls -> NoDup (map ek (applied ls)) -> StronglySorted N.lt inputs ->
  let s := run (init c0) ls in
  Subseq (of_ctx c (merge_rows (dirs s) inputs u)) (ctx_events ls u c).
Proof.
  intros c0 ls inputs u c Hc Hk Hi s. pose proof (ord_run c0 ls Hc Hk) as O. fold s in O.
  rewrite merge_rows_ctx, <- F_concat_map. change (ctx_events ls u c) with (F u c (applied ls)).
  rewrite <- (o_seq _ _ _ _ _ _ _ O u c). apply Subseq_app_r, F_subseq, sel_subseq; [apply (o_ds _ _ _ _ _ _ _ O) | exact Hi].
Qed.

Lemma concat_single {B} (g : N -> list B) l u :
  NoDup l -> In u l -> (forall x, In x l -> x <> u -> g x = []) -> concat (map g l) = g u.
Proof.
  induction l as [|x r IH]; intros Hn Hu Hg; [destruct Hu|].
  apply NoDup_cons_iff in Hn as [Hx Hn]. cbn [map concat]. destruct Hu as [->|Hu].
  - rewrite (concat_map_ext_in g (fun _ => [])), concat_map_nil, app_nil_r; [reflexivity|].
    intros y Hy. apply Hg; [right; exact Hy | intros ->; contradiction].
  - rewrite (Hg x (or_introl eq_refl)) by (intros ->; contradiction). cbn [app].
    apply IH; [exact Hn | exact Hu | intros y Hy; apply Hg; right; exact Hy].
Qed.

(** the rows of type [u] and context [c] in the output directory of a batch *)
Lemma cp_write_out_rows s b u c :
  NoDup (b_uids b) -> In u (b_uids b) ->
  F u c (rows_of (dirs (cp_write s b)) (b_out b)) = of_ctx c (merge_rows (dirs s) (b_inputs b) u).
Proof.
  intros Hn Hu. unfold cp_write. cbn [dirs]. unfold rows_of at 1. rewrite filter_app, map_app, concat_app.
  rewrite (filter_none (fun d => sid d =? b_out b) (filter _ (dirs s))).
  2:{ intros d Hd. apply filter_In in Hd as [_ Hd]. apply negb_true_iff, Hd. }
  cbn [filter sid map concat srows app]. rewrite N.eqb_refl. cbn [map concat srows]. rewrite app_nil_r, F_app.
  rewrite (F_of_uid_none u c (filter _ _)).
  2:{ unfold of_uid. apply filter_none. intros e He. apply filter_In in He as [_ He].
      apply negb_true_iff, memb_false in He. apply N.eqb_neq. intros E. apply He. rewrite E. exact Hu. }
  cbn [app]. unfold batch_rows. rewrite F_concat_map.
  rewrite (concat_single (fun u' => F u c (merge_rows (dirs s) (b_inputs b) u')) (b_uids b) u Hn Hu).
  - unfold F. f_equal. unfold of_uid. apply filter_all, forallb_forall.
    intros e He. apply N.eqb_eq. eapply merge_rows_uid, He.
  - intros x _ Hx. apply F_of_uid_none. unfold of_uid. apply filter_none. intros e He.
    apply merge_rows_uid in He. apply N.eqb_neq. congruence.
Qed.

Theorem compaction_output_in_order : forall c0 ls b u c,
  no_crash ls -> NoDup (map ek (applied ls)) ->
  StronglySorted N.lt (b_inputs b) -> NoDup (b_uids b) -> In u (b_uids b) ->
  let s := run (init c0) ls in
  let s1 := crun s (batch_steps s b) in
  Subseq (of_ctx c (of_uid u (Compaction.rows_of (dirs s1) (b_out b)))) (ctx_events ls u c).
Proof.
  intros c0 ls b u c Hc Hk Hi Hn Hu s s1.
  change (dirs s1) with (dirs (cp_write s b)).
  change (of_ctx c (of_uid u (Compaction.rows_of (dirs (cp_write s b)) (b_out b))))
    with (F u c (rows_of (dirs (cp_write s b)) (b_out b))).
  rewrite (cp_write_out_rows s b u c Hn Hu). apply merge_in_order; assumption.
Qed.

(** Refuted on the model: three level-0 segments hold k1, k2, k3 of one context; the
    batch {0,1} -> 10000 (fan-in 2) is one the policy produces; its output directory
    is listed AFTER the newer level-0 directory 2, so the segment flow is 3,1,2. *)
Definition ls_cp : list label :=
  [LStore (mkEv 1 1 0)] ++ flush_all [0] ++ [LStore (mkEv 2 1 0)] ++ flush_all [0]
  ++ [LStore (mkEv 3 1 0)] ++ flush_all [0].
Definition b_cp : batch := mkBatch 10000 [0; 1] [0].

Lemma compaction_order_refuted :
  exists c0 k ls b u c,
    let s := run (init c0) ls in
    let s1 := crun s (batch_steps s b ++ [CReclaim (drained (index s) b)]) in
    no_crash ls /\ NoDup (map ek (applied ls)) /\ jobs s = [] /\
    batch_ok (index s) k b = true /\ b_inputs b = [0; 1] /\ In u (b_uids b) /\
    map sid (dirs s1) = [2; 10000] /\ live s1 = [2; 10000] /\
    replay_mem s1 u c = [] /\
    map ek (replay_seg s1 u c) = [3; 1; 2] /\ map ek (ctx_events ls u c) = [1; 2; 3] /\
    ~ Subseq (replay_seg s1 u c) (ctx_events ls u c).
Proof.
  exists 1, 2, ls_cp, b_cp, 0, 1. cbv zeta.
  split; [vm_compute; reflexivity|]. split; [apply nodupb_sound; vm_compute; reflexivity|].
  split; [vm_compute; reflexivity|]. split; [vm_compute; reflexivity|]. split; [reflexivity|].
  split; [left; reflexivity|]. split; [vm_compute; reflexivity|]. split; [vm_compute; reflexivity|].
  split; [vm_compute; reflexivity|]. split; [vm_compute; reflexivity|]. split; [vm_compute; reflexivity|].
  intros H. apply subseqb_complete in H. vm_compute in H. discriminate.
Qed.

(** * Non-vacuity *)

(** capacity 2, one type, context 1 spans: directories 0 and 1 (complete), directory 2
    (in flight: written and published, passive copy not yet released), the passive copy
    of segment 3 (queued) and the active memtable. *)
Definition ls_tiers : list label :=
  [LStore (mkEv 1 1 0); LStore (mkEv 2 1 0)] ++ flush_all [0]
  ++ [LStore (mkEv 3 1 0); LStore (mkEv 4 2 0)] ++ flush_all [0]
  ++ [LStore (mkEv 5 1 0); LFlushCmd; LFw FwBegin; LFw FwMkdir; LFw (FwWrite 0); LFw FwIndex; LFw FwPublish;
      LStore (mkEv 6 1 0); LFlushCmd; LStore (mkEv 7 1 0)].

Example tiers_example :
  let s := run (init 2) ls_tiers in
  no_crash ls_tiers /\ NoDup (map ek (applied ls_tiers)) /\
  map sid (dirs s) = [0; 1; 2] /\ map jstage (jobs s) = [StPublished; StQueued] /\
  map (fun p => (fst p, map ek (snd p))) (passives s) = [(0, []); (1, []); (2, [5]); (3, [6])] /\
  map ek (mem s) = [7] /\
  map ek (replay_seg s 0 1) = [1; 2; 3; 5] /\
  map ek (replay_mem s 0 1) = [7; 5; 6] /\ map ek (replay_mem_fifo s 0 1) = [5; 6; 7] /\
  ActiveBeforePassive s 0 1 = true /\
  map ek (dedup_keys (replay_seg s 0 1 ++ replay_mem_fifo s 0 1)) = [1; 2; 3; 5; 6; 7] /\
  map ek (ctx_events ls_tiers 0 1) = [1; 2; 3; 5; 6; 7].
Proof.
  cbv zeta. split; [vm_compute; reflexivity|]. split; [apply nodupb_sound; vm_compute; reflexivity|].
  repeat split; vm_compute; reflexivity.
Qed.

(** a context in two directories and the active memtable, no passive copy: outside
    [ActiveBeforePassive], "segments then memory" is the append order *)
Example seg_then_mem_example :
  let s := run (init 4) ls_fanin in
  no_crash ls_fanin /\ NoDup (map ek (applied ls_fanin)) /\ ActiveBeforePassive s 0 1 = false /\
  map ek (replay_seg s 0 1) = [1; 3] /\ map ek (replay_mem s 0 1) = [4] /\
  map ek (dedup_keys (replay_seg s 0 1 ++ replay_mem s 0 1)) = [1; 3; 4].
Proof.
  cbv zeta. split; [vm_compute; reflexivity|]. split; [apply nodupb_sound; vm_compute; reflexivity|].
  repeat split; vm_compute; reflexivity.
Qed.

(** the hypotheses of [compaction_output_in_order] hold for the batch of
    [compaction_order_refuted]; its output directory holds 1,2 in append order *)
Example compaction_example :
  let s := run (init 1) ls_cp in
  let s1 := crun s (batch_steps s b_cp) in
  no_crash ls_cp /\ NoDup (map ek (applied ls_cp)) /\ batch_ok (index s) 2 b_cp = true /\
  StronglySorted N.lt (b_inputs b_cp) /\ NoDup (b_uids b_cp) /\ In 0 (b_uids b_cp) /\
  map ek (of_ctx 1 (of_uid 0 (Compaction.rows_of (dirs s1) (b_out b_cp)))) = [1; 2].
Proof.
  cbv zeta. split; [vm_compute; reflexivity|]. split; [apply nodupb_sound; vm_compute; reflexivity|].
  split; [vm_compute; reflexivity|].
  split; [repeat constructor|]. split; [apply nodupb_sound; reflexivity|].
  split; [left; reflexivity|]. vm_compute. reflexivity.
Qed.

(** * A batch the policy can produce lists its inputs in label order

    [segments.idx] lists the flushed segments in label order (crash-free runs), the
    planner sorts the labels of one type and level and cuts the sorted list into
    chunks: the inputs of a [batch_ok] batch are strictly increasing. *)

Record IdxC (ix : list (N * list N)) (js : list job) (al : N) : Prop := {
  x_sorted : StronglySorted N.lt (map fst ix);
  x_lt : forall e, In e ix -> fst e < al;
  x_job : forall e j, In e ix -> In j js -> if written (jstage j) then fst e <= jseg j else fst e < jseg j }.

Definition Idx (s : shard) : Prop := IdxC (index s) (jobs s) (alloc0 s).

Lemma idx_rotate ix js al m : IdxC ix js al -> IdxC ix (js ++ [mkJob al m StQueued]) (N.succ al).
Proof.
  intros [Xs Xl Xj]. split; [exact Xs | intros e He; apply Xl in He; lia|].
  intros e j He Hj. apply in_app_iff in Hj as [Hj|[<-|[]]]; [exact (Xj e j He Hj)|].
  cbn [jstage written jseg]. apply Xl, He.
Qed.

Lemma idx_adv ix j rest al st' :
  IdxC ix (j :: rest) al -> (written st' = false -> written (jstage j) = false) ->
  IdxC ix (mkJob (jseg j) (jevs j) st' :: rest) al.
Proof.
  intros [Xs Xl Xj] Hw. split; [exact Xs | exact Xl|].
  intros e j0 He [<-|Hj0]; [|apply Xj; [exact He | right; exact Hj0]].
  cbn [jstage jseg]. specialize (Xj e j He (or_introl eq_refl)).
  destruct (written st') eqn:E.
  - destruct (written (jstage j)); lia.
  - rewrite (Hw eq_refl) in Xj. exact Xj.
Qed.

Lemma idx_index ix j rest al us :
  IdxC ix (j :: rest) al -> written (jstage j) = false -> jseg j < al ->
  (forall j', In j' rest -> jseg j < jseg j' /\ written (jstage j') = false) ->
  IdxC (ix ++ [(jseg j, us)]) (mkJob (jseg j) (jevs j) StIndexed :: rest) al.
Proof.
  intros [Xs Xl Xj] Hw Hal Hrest. split.
  - rewrite map_app. cbn [map fst]. apply ss_snoc; [exact Xs|].
    intros y Hy. apply in_map_iff in Hy as (e & <- & He). specialize (Xj e j He (or_introl eq_refl)).
    rewrite Hw in Xj. exact Xj.
  - intros e He. apply in_app_iff in He as [He|[<-|[]]]; [auto | exact Hal].
  - intros e j0 He Hj0. apply in_app_iff in He as [He|[<-|[]]]; cbn [fst].
    + destruct Hj0 as [<-|Hj0]; [|apply Xj; [exact He | right; exact Hj0]].
      cbn [jstage written jseg]. specialize (Xj e j He (or_introl eq_refl)). rewrite Hw in Xj. lia.
    + destruct Hj0 as [<-|Hj0]; [cbn [jstage written jseg]; lia|].
      destruct (Hrest j0 Hj0) as [H1 H2]. rewrite H2. exact H1.
Qed.

Lemma idx_done ix j rest al : IdxC ix (j :: rest) al -> IdxC ix rest al.
Proof. intros [Xs Xl Xj]. split; auto. intros e j0 He Hj0. apply Xj; [exact He | right; exact Hj0]. Qed.

Lemma idx_fw A s l : Inv A s -> Ord A s -> Idx s -> Idx (fw_step s l).
Proof.
  intros I O X. unfold fw_step. destruct (jobs s) as [|j rest] eqn:Hj; [exact X|].
  assert (I' : InvC A (mem s) (passives s) (live s) (dirs s) (j :: rest) (alloc0 s)) by (rewrite <- Hj; exact I).
  assert (O' : OrdC A (mem s) (passives s) (live s) (inflight s) (dirs s) (j :: rest)) by (rewrite <- Hj; exact O).
  assert (X' : IdxC (index s) (j :: rest) (alloc0 s)) by (rewrite <- Hj; exact X).
  destruct l; destruct (jstage j) eqn:Hst; try exact X.
  - unfold Idx; cbn [index jobs alloc0]. apply idx_adv; [exact X' | rewrite Hst; reflexivity].
  - exact X'.
  - destruct (negb (memb u (uids_of (jevs j))) || dir_has_uid s (jseg j) u); [exact X | exact X'].
  - destruct (is_empty (jevs j) || negb (forallb (dir_has_uid s (jseg j)) (uids_of (jevs j)))); [exact X|].
    unfold Idx; cbn [index jobs alloc0]. apply idx_index; [exact X' | rewrite Hst; reflexivity | |].
    + apply (i_jlt _ _ _ _ _ _ _ I'). left. reflexivity.
    + intros j' Hj'. split.
      * pose proof (o_js _ _ _ _ _ _ _ O') as Hs. cbn [map] in Hs. apply StronglySorted_inv in Hs as [_ Hs].
        rewrite Forall_forall in Hs. apply Hs, in_map, Hj'.
      * rewrite (i_tlq _ _ _ _ _ _ _ I' j' Hj'). reflexivity.
  - destruct (is_empty (jevs j)); unfold set_jobs, Idx; cbn [index jobs alloc0];
      (apply idx_adv; [exact X' | discriminate]).
  - destruct (is_empty (jevs j)); unfold set_jobs, Idx; cbn [index jobs alloc0];
      (apply idx_adv; [exact X' | discriminate]).
  - destruct (is_empty (jevs j) || negb (id <? N.succ (jseg j))); [exact X | exact X'].
  - destruct (is_empty (jevs j)); unfold set_jobs, Idx; cbn [index jobs alloc0];
      (apply idx_adv; [exact X' | discriminate]).
  - destruct (is_empty (jevs j)); [|exact X]. unfold Idx; cbn [index jobs alloc0]. eapply idx_done, X'.
  - unfold Idx; cbn [index jobs alloc0]. eapply idx_done, X'.
Qed.

Lemma idx_run c ls : no_crash ls -> NoDup (map ek (applied ls)) -> Idx (run (init c) ls).
Proof.
  unfold no_crash. induction ls as [|l ls IH] using rev_ind; intros Hc Hk.
  - unfold Idx, init. cbn [index jobs alloc0]. split; [constructor | intros e [] | intros e j []].
  - rewrite forallb_app in Hc. apply andb_true_iff in Hc as [Hc Hl]. cbn [forallb] in Hl.
    rewrite run_snoc. rewrite applied_app in Hk.
    assert (Hk1 : NoDup (map ek (applied ls))).
    { rewrite map_app in Hk. apply nodup_app in Hk as (Hk1 & _ & _). exact Hk1. }
    pose proof (inv_run c ls Hc Hk1) as I. pose proof (ord_run c ls Hc Hk1) as O. specialize (IH Hc Hk1).
    destruct l; cbn [is_crash negb andb] in Hl; try discriminate; cbn [step].
    + unfold store. cbv zeta. destruct (cap _ <=? len _); [|exact IH].
      unfold rotate, Idx. cbn [index jobs alloc0 mem]. apply idx_rotate, IH.
    + unfold flush_cmd, rotate, Idx. cbn [index jobs alloc0]. apply idx_rotate, IH.
    + unfold wal_write. destruct (walq _); exact IH.
    + unfold wal_rotate. destruct (cap _ <=? wcnt _); exact IH.
    + eapply idx_fw; eassumption.
Qed.

Lemma ss_subseq {A} (R : A -> A -> Prop) a b : Subseq a b -> StronglySorted R b -> StronglySorted R a.
Proof.
  intros H. induction H; intros Hs; [constructor | |]; apply StronglySorted_inv in Hs as [Hs Hx].
  - auto.
  - constructor; [auto|]. apply Forall_forall. intros y Hy. rewrite Forall_forall in Hx.
    apply Hx. eapply Subseq_in; eassumption.
Qed.

Lemma sort_n_sorted_id l : StronglySorted N.lt l -> sort_n l = l.
Proof.
  unfold sort_n. induction l as [|x r IH]; cbn [fold_right]; intros Hs; [reflexivity|].
  apply StronglySorted_inv in Hs as [Hs Hx]. rewrite (IH Hs).
  destruct r as [|y r]; [reflexivity|]. cbn [insert_sorted]. apply Forall_inv in Hx.
  destruct (N.leb_spec x y); [reflexivity | lia].
Qed.

Lemma list_eqb_eq a : forall b, list_eqb a b = true -> a = b.
Proof.
  induction a as [|x a IH]; intros [|y b]; cbn [list_eqb]; intros H; try discriminate; [reflexivity|].
  apply andb_true_iff in H as [H1 H2]. apply N.eqb_eq in H1. rewrite H1, (IH b H2). reflexivity.
Qed.

Lemma chunks_fuel_subseq fuel k : forall l c, In c (chunks_fuel fuel k l) -> Subseq c l.
Proof.
  induction fuel as [|f IH]; intros l c H; cbn [chunks_fuel] in H; [destruct H|].
  destruct l as [|x l]; [destruct H|]. rewrite <- (firstn_skipn k (x :: l)). destruct H as [<-|H].
  - apply Subseq_app_r, Subseq_refl.
  - apply Subseq_app_l, IH, H.
Qed.

Lemma batch_ok_sorted ix k b :
  StronglySorted N.lt (map fst ix) -> batch_ok ix k b = true -> StronglySorted N.lt (b_inputs b).
Proof.
  intros Hs H. unfold batch_ok in H. destruct (b_inputs b) as [|i0 ins] eqn:Hin; [discriminate|].
  rewrite !andb_true_iff in H. destruct H as ((((Hne & _) & Hpl) & _) & _).
  destruct (b_uids b) as [|u us]; [discriminate|]. cbn [forallb] in Hpl. apply andb_true_iff in Hpl as [Hpl _].
  apply existsb_exists in Hpl as (ch & Hch & E). apply list_eqb_eq in E. rewrite E.
  assert (Hlab : StronglySorted N.lt (labels_of_uid ix (level_of i0) u)).
  { unfold labels_of_uid.
    assert (Hf : StronglySorted N.lt (map fst (filter (fun e => (level_of (fst e) =? level_of i0) && memb u (snd e)) ix))).
    { eapply ss_subseq; [|exact Hs]. clear. induction ix as [|e r IH]; cbn [filter map]; [constructor|].
      destruct (_ && _); cbn [map]; constructor; exact IH. }
    rewrite (sort_n_sorted_id _ Hf). exact Hf. }
  unfold planned_inputs in Hch. cbv zeta in Hch.
  destruct (_ <? N.max _ _); [destruct Hch|]. destruct (_ <? k).
  - destruct Hch as [<-|[]]. exact Hlab.
  - apply filter_In in Hch as [Hch _]. unfold chunks in Hch. apply chunks_fuel_subseq in Hch.
    eapply ss_subseq; eassumption.
Qed.

(** C04_order_if_stable on the model: after a batch the policy can produce, on any
    crash-free state, the output directory holds the context's events of each merged
    type in append order. *)
Theorem compaction_output_in_order_planned : forall c0 k ls b u c,
  no_crash ls -> NoDup (map ek (applied ls)) ->
  let s := run (init c0) ls in
  let s1 := crun s (batch_steps s b) in
  batch_ok (index s) k b = true -> NoDup (b_uids b) -> In u (b_uids b) ->
  Subseq (of_ctx c (of_uid u (Compaction.rows_of (dirs s1) (b_out b)))) (ctx_events ls u c).
Proof.
  intros c0 k ls b u c Hc Hk s s1 Hb Hn Hu.
  apply compaction_output_in_order; try assumption.
  eapply batch_ok_sorted; [|exact Hb]. apply (x_sorted _ _ _ (idx_run c0 ls Hc Hk)).
Qed.

(** * The whole REPLAY outside the known classes *)

(** known class of the fan-in finding: the context has rows of the type in both flows *)
Definition MemtableAndSegmentFlowsInterleave (s : shard) (u c : N) : bool :=
  negb (is_empty (replay_mem s u c)) && negb (is_empty (replay_seg s u c)).

Lemma Interleave_nil_l {A} (b r : list A) : Interleave [] b r -> r = b.
Proof.
  revert r. induction b as [|x b IH]; intros r H; inversion H; subst; [reflexivity|].
  f_equal. apply IH. assumption.
Qed.

Lemma Interleave_nil_r {A} (a r : list A) : Interleave a [] r -> r = a.
Proof.
  revert r. induction a as [|x a IH]; intros r H; inversion H; subst; [reflexivity|].
  f_equal. apply IH. assumption.
Qed.

Theorem replay_order_outside_known : forall c0 ls u c r,
  no_crash ls -> NoDup (map ek (applied ls)) ->
  let s := run (init c0) ls in
  MemtableAndSegmentFlowsInterleave s u c = false -> ActiveBeforePassive s u c = false ->
  Interleave (replay_mem s u c) (replay_seg s u c) r ->
  dedup_keys r = ctx_events ls u c.
Proof.
  intros c0 ls u c r Hc Hk s Hf Ha Hi.
  pose proof (seg_then_mem_outside_known c0 ls u c Hc Hk Ha) as H. fold s in H.
  unfold MemtableAndSegmentFlowsInterleave in Hf.
  apply andb_false_iff in Hf as [Hf|Hf]; apply negb_false_iff, is_empty_true in Hf; rewrite Hf in *.
  - apply Interleave_nil_l in Hi. subst r. rewrite app_nil_r in H. exact H.
  - apply Interleave_nil_r in Hi. subst r. exact H.
Qed.

(** both classes are avoided by a context that lives in the active memtable only, or
    on disk only; e.g. [ls_fanin] for context 2 (one event, flushed) *)
Example replay_order_example :
  let s := run (init 4) ls_fanin in
  MemtableAndSegmentFlowsInterleave s 0 2 = false /\ ActiveBeforePassive s 0 2 = false /\
  map ek (replay_seg s 0 2) = [2] /\ replay_mem s 0 2 = [] /\
  MemtableAndSegmentFlowsInterleave s 0 1 = true.
Proof. cbv zeta. repeat split; vm_compute; reflexivity. Qed.
