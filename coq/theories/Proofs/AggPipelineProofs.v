(** C09, the whole aggregate pipeline: per-flow sinks, partial rows, coordinator merge.
    For every split of the rows over flows, every reported group holds, for every metric,
    the final value of the fold over exactly the rows of that group. *)
From Coq Require Import ZArith NArith List Bool Lia Permutation.
From Snel Require Import Base.Bytes Model.Order Model.Bucket Model.Agg.
From Snel Require Import Proofs.SortMergeProofs Proofs.AggProofs.
Import ListNotations.
Open Scope Z_scope.

(** * Small list facts *)
Lemma zip_with_map_r : forall {A B C} (g : A -> B -> C) (f : A -> B) l,
  zip_with g l (map f l) = map (fun a => g a (f a)) l.
Proof. intros A B C g f l. induction l as [|x l IH]; cbn; [reflexivity|now rewrite IH]. Qed.

Lemma zip_with_maps : forall {A B C D} (g : B -> C -> D) (f1 : A -> B) (f2 : A -> C) l,
  zip_with g (map f1 l) (map f2 l) = map (fun a => g (f1 a) (f2 a)) l.
Proof. intros A B C D g f1 f2 l. induction l as [|x l IH]; cbn; [reflexivity|now rewrite IH]. Qed.

Lemma filter_concat : forall {A} (f : A -> bool) (ls : list (list A)),
  filter f (concat ls) = concat (map (filter f) ls).
Proof.
  intros A f ls. induction ls as [|l ls IH]; cbn; [reflexivity|]. now rewrite filter_app, IH.
Qed.

Lemma filter_map_comm : forall {A B} (g : A -> B) (f : B -> bool) l,
  filter f (map g l) = map g (filter (fun a => f (g a)) l).
Proof.
  intros A B g f l. induction l as [|x l IH]; cbn; [reflexivity|].
  destruct (f (g x)); cbn; now rewrite IH.
Qed.

(** * One flow *)
Definition cell_of (m : metric) (r : crow) : cell := nth (m_field m) (c_fields r) CNull.
Definition cells (m : metric) (l : list crow) : list cell := map (cell_of m) l.

(** the aggregator vector of a sink entry, metric by metric *)
Lemma fold_upd_all_cols : forall ms l (st : metric -> agg),
  fold_left (upd_all ms) l (map st ms) =
  map (fun m => fold_left (upd (m_kind m)) (cells m l) (st m)) ms.
Proof.
  intros ms l. induction l as [|r l IH]; intros st.
  - reflexivity.
  - change (fold_left (upd_all ms) (r :: l) (map st ms))
      with (fold_left (upd_all ms) l (upd_all ms (map st ms) r)).
    assert (E : upd_all ms (map st ms) r = map (fun m => upd (m_kind m) (st m) (cell_of m r)) ms).
    { unfold upd_all. rewrite zip_with_map_r. reflexivity. }
    rewrite E, IH. apply map_ext. intros m. reflexivity.
Qed.

Lemma sink_entry_cols : forall ms l,
  fold_left (upd_all ms) l (init_all ms) = map (fun m => run (m_kind m) (cells m l)) ms.
Proof. intros ms l. unfold init_all. rewrite fold_upd_all_cols. reflexivity. Qed.

(** what a flow sends for one sink entry *)
Definition vec (p : plan) (l : list crow) : list agg :=
  map (fun m => part (m_kind m) (cells m l)) (p_metrics p).

Definition wire_key (p : plan) (k : gkey) : gkey := (wire_bucket p (fst k), snd k).

Definition flow_out (p : plan) (rs : list crow) : list (gkey * list agg) :=
  map (wire_row p) (sink_rows p rs).

Lemma lookup_of_in : forall {V} (st : list (gkey * V)) k v,
  NoDup (map fst st) -> In (k, v) st -> lookup k st = Some v.
Proof.
  intros V st k v. induction st as [|[k0 v0] r IH]; intros ND H; [contradiction|].
  cbn [map fst] in ND. inversion ND as [|? ? Hn ND']; subst. cbn [lookup].
  destruct H as [[= -> ->]|H].
  - now rewrite gkey_eqb_refl.
  - destruct (gkey_eqb k k0) eqn:E; [|auto].
    apply gkey_eqb_eq in E. subst k0. exfalso. apply Hn. apply in_map_iff. exists (k, v). auto.
Qed.

Lemma sink_entry : forall p rs k aggs, In (k, aggs) (sink_rows p rs) ->
  sel p k rs <> [] /\ aggs = map (fun m => run (m_kind m) (cells m (sel p k rs))) (p_metrics p).
Proof.
  intros p rs k aggs H. destruct (each_event_one_group p rs) as (ND & L & _).
  pose proof (lookup_of_in _ _ _ ND H) as E. rewrite L in E.
  destruct (sel p k rs) as [|r l] eqn:Es; [discriminate|]. split; [discriminate|].
  injection E as E. rewrite <- E. exact (sink_entry_cols (p_metrics p) (r :: l)).
Qed.

Lemma flow_out_spec : forall p rs,
  flow_out p rs = map (fun e => (wire_key p (fst e), vec p (sel p (fst e) rs))) (sink_rows p rs).
Proof.
  intros p rs. unfold flow_out. apply map_ext_in. intros [k aggs] H.
  destruct (sink_entry p rs k aggs H) as [_ ->]. unfold wire_row, wire_key, vec, part. cbn [fst snd].
  f_equal. rewrite map_map. reflexivity.
Qed.

(** * The coordinator *)
Definition zipm (cur new : list agg) : list agg :=
  if Nat.eqb (length cur) (length new) then zip_with merge_state cur new else cur.

Lemma coord_lookup : forall rows st k,
  lookup k (fold_left coord_step rows st) =
  match filter (fun e => gkey_eqb (fst e) k) rows with
  | [] => lookup k st
  | e :: es => Some (fold_left zipm (map snd es)
                       (match lookup k st with Some cur => zipm cur (snd e) | None => snd e end))
  end.
Proof.
  induction rows as [|e rows IH]; intros st k; cbn [fold_left filter]; [reflexivity|].
  rewrite IH. unfold coord_step.
  destruct (gkey_eqb (fst e) k) eqn:E.
  - apply gkey_eqb_eq in E. subst k. rewrite lookup_upsert_same.
    destruct (filter (fun e0 => gkey_eqb (fst e0) (fst e)) rows) as [|e1 es]; cbn [map fold_left].
    + destruct (lookup (fst e) st); reflexivity.
    + destruct (lookup (fst e) st); reflexivity.
  - assert (Hne : fst e <> k) by (intros Heq; rewrite Heq, gkey_eqb_refl in E; discriminate).
    rewrite lookup_upsert_other by exact Hne. reflexivity.
Qed.

(** * The pipeline *)
Definition pipeline (p : plan) (parts : list (list crow)) : list (gkey * list agg) :=
  coord_merge (concat (map (flow_out p) parts)).

(** the row lists that contribute to group [k]: per flow, the sink entries whose wire key is [k] *)
Definition contribs (p : plan) (parts : list (list crow)) (k : gkey) : list (list crow) :=
  flat_map (fun rs => map (fun e => sel p (fst e) rs)
                          (filter (fun e => gkey_eqb (wire_key p (fst e)) k) (sink_rows p rs))) parts.

Lemma pipeline_lookup : forall p parts k,
  lookup k (pipeline p parts) =
  match contribs p parts k with
  | [] => None
  | l :: ls => Some (fold_left zipm (map (vec p) ls) (vec p l))
  end.
Proof.
  intros p parts k. unfold pipeline, coord_merge. rewrite coord_lookup. cbn [lookup].
  assert (E : filter (fun e => gkey_eqb (fst e) k) (concat (map (flow_out p) parts)) =
              map (fun l => (k, vec p l)) (contribs p parts k)).
  { rewrite filter_concat, map_map. unfold contribs. rewrite flat_map_concat_map, concat_map, map_map.
    f_equal. apply map_ext. intros rs. rewrite flow_out_spec, filter_map_comm, map_map. cbn [fst].
    apply map_ext_in. intros e He. apply filter_In in He. destruct He as [_ He].
    apply gkey_eqb_eq in He. now rewrite He. }
  rewrite E. destruct (contribs p parts k) as [|l ls]; cbn [map]; [reflexivity|].
  cbn [snd]. rewrite map_map. cbn [snd]. reflexivity.
Qed.

(** merging the vectors of the contributions, metric by metric *)
Lemma zipm_vec : forall p (f g : metric -> agg),
  zipm (map f (p_metrics p)) (map g (p_metrics p)) = map (fun m => merge_state (f m) (g m)) (p_metrics p).
Proof.
  intros p f g. unfold zipm. rewrite !map_length, Nat.eqb_refl. apply zip_with_maps.
Qed.

Lemma fold_zipm_vec : forall p ls (f : metric -> agg),
  fold_left zipm (map (vec p) ls) (map f (p_metrics p)) =
  map (fun m => fold_left merge_state (map (fun l => part (m_kind m) (cells m l)) ls) (f m)) (p_metrics p).
Proof.
  intros p ls. induction ls as [|l ls IH]; intros f; cbn [map fold_left]; [reflexivity|].
  unfold vec at 2. rewrite zipm_vec. rewrite (IH (fun m => merge_state (f m) (part (m_kind m) (cells m l)))).
  reflexivity.
Qed.

Lemma pipeline_lookup_parts : forall p parts k,
  lookup k (pipeline p parts) =
  match contribs p parts k with
  | [] => None
  | l :: ls => Some (map (fun m => merge_parts (m_kind m) (cells m l) (map (cells m) ls)) (p_metrics p))
  end.
Proof.
  intros p parts k. rewrite pipeline_lookup. destruct (contribs p parts k) as [|l ls]; [reflexivity|].
  f_equal. unfold vec at 2. rewrite fold_zipm_vec. apply map_ext. intros m.
  unfold merge_parts. rewrite map_map. reflexivity.
Qed.

(** * The rows of a group, and how the contributions partition them *)
Definition wkey (p : plan) (r : crow) : gkey := wire_key p (row_key p r).
Definition wsel (p : plan) (k : gkey) (rs : list crow) : list crow :=
  filter (fun r => gkey_eqb (wkey p r) k) rs.

(** grouping a list by the keys of a duplicate-free list that covers it is a permutation *)
Lemma partition_by_keys : forall p (ks : list gkey) (rs : list crow),
  NoDup ks -> (forall r, In r rs -> In (row_key p r) ks) ->
  Permutation (concat (map (fun k => sel p k rs) ks)) rs.
Proof.
  intros p ks rs ND. revert ks ND. induction rs as [|r rs IH]; intros ks ND Hc.
  - clear. induction ks; cbn; auto.
  - assert (Hk : In (row_key p r) ks) by (apply Hc; now left).
    apply in_split in Hk. destruct Hk as (k1 & k2 & ->).
    assert (Hn1 : ~ In (row_key p r) k1 /\ ~ In (row_key p r) k2).
    { apply NoDup_remove_2 in ND. split; intros H; apply ND, in_or_app; auto. }
    destruct Hn1 as [Hn1 Hn2].
    assert (Hs : forall ks', ~ In (row_key p r) ks' ->
              map (fun k => sel p k (r :: rs)) ks' = map (fun k => sel p k rs) ks').
    { intros ks' Hn. apply map_ext_in. intros k Hk. unfold sel. cbn [filter].
      rewrite gkey_eqb_neq; [reflexivity|]. intros Heq. apply Hn. now rewrite Heq. }
    rewrite map_app. cbn [map]. rewrite (Hs k1 Hn1), (Hs k2 Hn2).
    unfold sel at 2. cbn [filter]. rewrite gkey_eqb_refl. fold (sel p (row_key p r) rs).
    rewrite concat_app. cbn [concat].
    eapply Permutation_trans; [apply Permutation_sym, Permutation_middle|].
    apply perm_skip.
    specialize (IH (k1 ++ row_key p r :: k2) ND (fun r' H' => Hc r' (or_intror H'))).
    rewrite map_app, concat_app in IH. cbn [map concat] in IH. exact IH.
Qed.

Lemma sel_wkey : forall p k sk rs, wire_key p sk = k -> wsel p k (sel p sk rs) = sel p sk rs.
Proof.
  intros p k sk rs H. unfold wsel, sel. induction rs as [|r rs IH]; cbn [filter]; [reflexivity|].
  destruct (gkey_eqb (row_key p r) sk) eqn:E; [|exact IH]. cbn [filter].
  apply gkey_eqb_eq in E.
  assert (Hw : wkey p r = k) by (unfold wkey; rewrite E; exact H).
  rewrite Hw, gkey_eqb_refl. now rewrite IH.
Qed.

Lemma sel_wkey_other : forall p k sk rs, wire_key p sk <> k -> wsel p k (sel p sk rs) = [].
Proof.
  intros p k sk rs H. unfold wsel, sel. induction rs as [|r rs IH]; cbn [filter]; [reflexivity|].
  destruct (gkey_eqb (row_key p r) sk) eqn:E; [|exact IH]. cbn [filter].
  apply gkey_eqb_eq in E.
  assert (Hw : wkey p r <> k) by (unfold wkey; rewrite E; exact H).
  rewrite gkey_eqb_neq by exact Hw. exact IH.
Qed.

Lemma wsel_perm : forall p k l1 l2, Permutation l1 l2 -> Permutation (wsel p k l1) (wsel p k l2).
Proof.
  intros p k l1 l2 P. unfold wsel. induction P; cbn [filter].
  - constructor.
  - destruct (gkey_eqb (wkey p x) k); auto.
  - destruct (gkey_eqb (wkey p x) k), (gkey_eqb (wkey p y) k); auto using perm_swap.
  - eapply Permutation_trans; eassumption.
Qed.

Lemma wsel_concat : forall p k ls, wsel p k (concat ls) = concat (map (wsel p k) ls).
Proof. intros. unfold wsel. apply filter_concat. Qed.

(** the contributions of one flow, concatenated, are the rows of the group in that flow *)
Lemma contribs_flow_perm : forall p rs k,
  Permutation
    (concat (map (fun e => sel p (fst e) rs)
                 (filter (fun e => gkey_eqb (wire_key p (fst e)) k) (sink_rows p rs))))
    (wsel p k rs).
Proof.
  intros p rs k. destruct (each_event_one_group p rs) as (ND & _ & _ & Hc).
  pose proof (partition_by_keys p (map fst (sink_rows p rs)) rs ND Hc) as P.
  apply (wsel_perm p k) in P. rewrite wsel_concat, !map_map in P.
  eapply Permutation_trans; [|exact P]. clear P ND Hc.
  induction (sink_rows p rs) as [|e st IH]; cbn [filter map concat]; [constructor|].
  destruct (gkey_eqb (wire_key p (fst e)) k) eqn:E.
  - apply gkey_eqb_eq in E. cbn [map concat]. rewrite (sel_wkey p k (fst e) rs E).
    now apply Permutation_app_head.
  - assert (Hne : wire_key p (fst e) <> k) by (intros Heq; rewrite Heq, gkey_eqb_refl in E; discriminate).
    rewrite (sel_wkey_other p k (fst e) rs Hne). exact IH.
Qed.

Lemma contribs_perm : forall p parts k,
  Permutation (concat (contribs p parts k)) (wsel p k (concat parts)).
Proof.
  intros p parts k. unfold contribs. induction parts as [|rs parts IH]; cbn [flat_map concat]; [constructor|].
  rewrite concat_app. unfold wsel at 1. rewrite filter_app. fold (wsel p k rs). fold (wsel p k (concat parts)).
  apply Permutation_app; [apply contribs_flow_perm|exact IH].
Qed.

Lemma contribs_nonempty : forall p parts k l, In l (contribs p parts k) -> l <> [].
Proof.
  intros p parts k l H. unfold contribs in H. apply in_flat_map in H. destruct H as (rs & _ & H).
  apply in_map_iff in H. destruct H as ([sk aggs] & <- & H). apply filter_In in H. destruct H as [H _].
  cbn [fst]. now destruct (sink_entry p rs sk aggs H).
Qed.

(** * The theorem *)

(** every cell of the rows is a well-formed cell (typed integers are i64 values) *)
Definition rows_ok (rs : list crow) : Prop := Forall (fun r => Forall cell_ok (c_fields r)) rs.

Lemma cells_ok : forall m l, rows_ok l -> Forall cell_ok (cells m l).
Proof.
  intros m l H. unfold cells. apply Forall_forall. intros c Hc. apply in_map_iff in Hc.
  destruct Hc as (r & <- & Hr). unfold rows_ok in H. rewrite Forall_forall in H. specialize (H r Hr).
  unfold cell_of. destruct (nth_in_or_default (m_field m) (c_fields r) CNull) as [Hin | ->]; [|exact I].
  rewrite Forall_forall in H. auto.
Qed.

(** known class: for some MIN metric, one contribution to the group holds only nulls in
    the metric's column *)
Definition MinEmptyContribution (p : plan) (parts : list (list crow)) (k : gkey) : Prop :=
  exists m, In m (p_metrics p) /\ MinEmptyPartial (m_kind m) (map (cells m) (contribs p parts k)).

(** the value the property demands: the metric folded over exactly the rows of the group *)
Definition spec_group (p : plan) (k : gkey) (rs : list crow) : option (list fin) :=
  match wsel p k rs with
  | [] => None
  | l => Some (map (fun m => finalize (part (m_kind m) (cells m l))) (p_metrics p))
  end.

Theorem pipeline_equals_fold : forall p parts k,
  Forall rows_ok parts ->
  ~ MinEmptyContribution p parts k ->
  option_map (map finalize) (lookup k (pipeline p parts)) = spec_group p k (concat parts).
Proof.
  intros p parts k Hok Hk. rewrite pipeline_lookup_parts. unfold spec_group.
  pose proof (contribs_perm p parts k) as P.
  destruct (contribs p parts k) as [|l ls] eqn:Ec.
  - cbn [concat] in P. apply Permutation_nil in P. rewrite P. reflexivity.
  - assert (Hl : l <> []) by (apply (contribs_nonempty p parts k); rewrite Ec; now left).
    destruct (wsel p k (concat parts)) as [|r0 w] eqn:Ew.
    { exfalso. apply Permutation_sym, Permutation_nil in P. cbn [concat] in P.
      apply app_eq_nil in P. destruct P. contradiction. }
    cbn [option_map]. f_equal. rewrite map_map. apply map_ext_in. intros m Hm.
    assert (Hsub : forall x, In x (l :: ls) -> rows_ok x).
    { intros x Hx. unfold rows_ok. apply Forall_forall. intros r Hr.
      assert (Hin : In r (wsel p k (concat parts))).
      { rewrite Ew. eapply Permutation_in; [exact P|]. apply in_concat. exists x. split; assumption. }
      unfold wsel in Hin. apply filter_In in Hin. destruct Hin as [Hin _].
      apply in_concat in Hin. destruct Hin as (pt & Hpt & Hrp). rewrite Forall_forall in Hok.
      specialize (Hok pt Hpt). unfold rows_ok in Hok. rewrite Forall_forall in Hok. auto. }
    rewrite (agg_partition_outside_known (m_kind m) (cells m l) (map (cells m) ls)).
    + f_equal. unfold part. f_equal.
      assert (Hc : cells m l ++ concat (map (cells m) ls) = cells m (concat (l :: ls))).
      { cbn [concat]. unfold cells. rewrite map_app, concat_map. reflexivity. }
      rewrite Hc. apply run_perm.
      * apply cells_ok. unfold rows_ok. apply Forall_forall. intros r Hr. apply in_concat in Hr.
        destruct Hr as (x & Hx & Hr). specialize (Hsub x Hx). unfold rows_ok in Hsub.
        rewrite Forall_forall in Hsub. auto.
      * unfold cells. apply Permutation_map. exact P.
    + apply cells_ok, Hsub. now left.
    + apply Forall_forall. intros c Hc. apply in_map_iff in Hc. destruct Hc as (x & <- & Hx).
      apply cells_ok, Hsub. now right.
    + intros Hkn. apply Hk. exists m. split; [exact Hm|]. rewrite Ec. exact Hkn.
Qed.

(** the function that is extracted and run against the implementation is this pipeline *)
Definition rows_of_flow (ng nf : nat) (batches : list (list row)) : list crow :=
  concat (map (cells_of_batch ng nf) batches).

Lemma merged_groups_is_pipeline : forall p ng nf flows,
  merged_groups p ng nf flows =
  map (fun e => (fst e, map finalize (snd e)))
      (filter (fun e => keep_group p (fst e)) (pipeline p (map (rows_of_flow ng nf) flows))).
Proof.
  intros. unfold merged_groups, pipeline, flow_rows, flow_out, rows_of_flow. now rewrite map_map.
Qed.

Example pipeline_equals_fold_nonvacuous :
  let p := {| p_metrics := [{| m_kind := MTotal; m_field := 0 |}; {| m_kind := MMin; m_field := 0 |}];
              p_gran := None; p_by := true; p_calendar := true; p_week_start := 0 |} in
  let r g v := {| c_ts := CNull; c_groups := [CStr g]; c_fields := [v] |} in
  let parts := [[r [97%N] (CInt 5); r [98%N] (CInt 1)]; [r [97%N] (CInt (-2)); r [97%N] CNull]] in
  let k : gkey := (None, [[97%N]]) in
  Forall rows_ok parts /\ ~ MinEmptyContribution p parts k
  /\ option_map (map finalize) (lookup k (pipeline p parts)) = Some [FInt 3; FInt (-2)].
Proof.
  cbn zeta. split; [|split].
  - repeat constructor; unfold in_i64, two63; lia.
  - intros (m & Hm & _ & Hk). cbn in Hm. destruct Hm as [<-|[<-|[]]]; vm_compute in Hk; discriminate.
  - vm_compute. reflexivity.
Qed.

(** * The batch-by-batch sink that is run against the implementation *)

(** known class: the plan has no BY / PER and the columnar path files its aggregators
    under a key that hashes differently from the row path's key *)
Definition UngroupedMixedBatchPaths (p : plan) : Prop :=
  Gen.Params.agg_columnar_default_prehash_zero && ungrouped p = true.

Lemma fold_sink_batch_groups : forall p ng nf batches st,
  Gen.Params.agg_columnar_default_prehash_zero && ungrouped p = false ->
  sk_groups (fold_left (sink_batch p ng nf) batches st) =
    fold_left (sink_step p) (concat (map (cells_of_batch ng nf) batches)) (sk_groups st)
  /\ sk_col (fold_left (sink_batch p ng nf) batches st) = sk_col st.
Proof.
  intros p ng nf batches. induction batches as [|b bs IH]; intros st H; cbn [fold_left map concat].
  - split; reflexivity.
  - rewrite fold_left_app. destruct (IH (sink_batch p ng nf st b) H) as [E1 E2].
    rewrite E1, E2. unfold sink_batch. rewrite H. cbn [andb sk_groups sk_col]. split; reflexivity.
Qed.

(** outside that class the sink has exactly one possible output: [flow_rows], the function
    the theorems above are about *)
Theorem flow_alts_outside_known : forall p ng nf batches,
  ~ UngroupedMixedBatchPaths p ->
  flow_alts p ng nf batches = [flow_rows p ng nf batches].
Proof.
  intros p ng nf batches H. unfold UngroupedMixedBatchPaths in H.
  assert (E : Gen.Params.agg_columnar_default_prehash_zero && ungrouped p = false)
    by (destruct (Gen.Params.agg_columnar_default_prehash_zero && ungrouped p); congruence).
  unfold flow_alts.
  destruct (fold_sink_batch_groups p ng nf batches
              {| sk_groups := []; sk_col := None; sk_all := init_all (p_metrics p) |} E) as [E1 E2].
  rewrite E2, E1. reflexivity.
Qed.

(** * After the repair of the ungrouped pre-hash (d49da47): no known class is left here.
    [agg_columnar_default_prehash_zero] is regenerated as [false], so the sink that is run against
    the implementation has one possible output for every plan. *)
Lemma prehash_flag : Gen.Params.agg_columnar_default_prehash_zero = false.
Proof. reflexivity. Qed.

Theorem flow_alts_single : forall p ng nf batches,
  flow_alts p ng nf batches = [flow_rows p ng nf batches].
Proof.
  intros. apply flow_alts_outside_known. unfold UngroupedMixedBatchPaths. rewrite prehash_flag. discriminate.
Qed.

Lemma choices_singletons : forall {A B} (f : A -> B) (l : list A),
  choices (map (fun x => [f x]) l) = [map f l].
Proof.
  intros A B f l. induction l as [|x l IH]; [reflexivity|].
  cbn [map choices]. rewrite IH. reflexivity.
Qed.

(** the function extracted and run against the implementation has exactly one outcome, and it is
    the pipeline of [pipeline_equals_fold] followed by the empty-group filter *)
Theorem merged_groups_alts_single : forall p ng nf flows,
  merged_groups_alts p ng nf flows =
  [filter (fun e => keep_group p (fst e)) (pipeline p (map (rows_of_flow ng nf) flows))].
Proof.
  intros p ng nf flows. unfold merged_groups_alts.
  replace (map (flow_alts p ng nf) flows) with (map (fun b => [flow_rows p ng nf b]) flows)
    by (apply map_ext; intros; symmetry; apply flow_alts_single).
  rewrite choices_singletons. cbn [map]. unfold pipeline, flow_rows, flow_out, rows_of_flow.
  now rewrite map_map.
Qed.
