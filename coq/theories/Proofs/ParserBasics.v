(** Lemmas about the terminals of Model/Parser.v on printed text. *)
From Coq Require Import NArith ZArith List Bool Lia.
From Coq Require Import ZifyBool ZifyNat ZifyN.
From Snel Require Import Base.Bytes Model.Tokenizer Model.Parser Model.Printer.
Import ListNotations.
Open Scope N_scope.
Ltac Zify.zify_post_hook ::= Z.div_mod_to_equations.

(** * Character classes *)

Lemma is_alpha_upper : forall c, is_alpha (to_upper c) = is_alpha c.
Proof.
  intro c. unfold is_alpha, to_upper.
  destruct ((97 <=? c) && (c <=? 122)) eqn:E; lia.
Qed.

Lemma to_upper_idem : forall c, to_upper (to_upper c) = to_upper c.
Proof. intro c. unfold to_upper. destruct ((97 <=? c) && (c <=? 122)) eqn:E; [|rewrite E; auto].
  destruct ((97 <=? c - 32) && (c - 32 <=? 122)) eqn:F; lia. Qed.

Definition head_is (p : N -> bool) (s : bytes) : bool :=
  match s with c :: _ => p c | [] => false end.

(** * span *)

Lemma span_app : forall p a rest,
  forallb p a = true -> head_is p rest = false ->
  span p (a ++ rest) = (a, rest).
Proof.
  induction a as [|c a IH]; intros rest Ha Hr; cbn [app].
  - destruct rest as [|x r]; cbn in *; auto. rewrite Hr. auto.
  - cbn in Ha. apply andb_prop in Ha as [Hc Ha]. cbn [span]. rewrite Hc, (IH _ Ha Hr). auto.
Qed.

Lemma span_spec : forall p s a r, span p s = (a, r) -> s = a ++ r /\ forallb p a = true /\ head_is p r = false.
Proof.
  induction s as [|c s IH]; intros a r H; cbn in H.
  - inversion H; subst. auto.
  - destruct (p c) eqn:E.
    + destruct (span p s) as [a' r'] eqn:S. inversion H; subst.
      destruct (IH _ _ eq_refl) as (H1 & H2 & H3). subst s. cbn. rewrite E, H2. auto.
    + inversion H; subst. cbn. rewrite E. auto.
Qed.

Lemma span_length : forall p s a r, span p s = (a, r) -> length s = (length a + length r)%nat.
Proof. intros. apply span_spec in H as (-> & _). apply app_length. Qed.

Lemma drop_while_length : forall p s, (length (drop_while p s) <= length s)%nat.
Proof. induction s; cbn; auto. destruct (p a); cbn; lia. Qed.

Lemma ws_length : forall s, (length (ws s) <= length s)%nat.
Proof. intro. apply drop_while_length. Qed.

Lemma ws_nows : forall s, head_is is_tws s = false -> ws s = s.
Proof. intros [|c r] H; cbn in *; auto. unfold ws. cbn. rewrite H. auto. Qed.

Lemma ws_space : forall r, ws (32 :: r) = ws r.
Proof. reflexivity. Qed.

(** * ci *)

Lemma ci_eqb_refl_upper : forall a b, map to_upper a = map to_upper b -> ci_eqb a b = true.
Proof.
  intros a b H. unfold ci_eqb. rewrite H. generalize (map to_upper b). induction l; cbn; auto.
  rewrite N.eqb_refl. auto.
Qed.

Lemma bytes_eqb_eq : forall a b, bytes_eqb a b = true <-> a = b.
Proof.
  induction a; destruct b; cbn; split; intro H; try congruence; auto.
  - apply andb_prop in H as [H1 H2]. apply N.eqb_eq in H1. apply IHa in H2. congruence.
  - inversion H; subst. rewrite N.eqb_refl. apply IHa. auto.
Qed.

Lemma forallb_alpha_upper : forall w, forallb is_alpha (map to_upper w) = forallb is_alpha w.
Proof. induction w; cbn; auto. rewrite is_alpha_upper, IHw. auto. Qed.

Definition all_alpha (w : bytes) : bool := forallb is_alpha w.

Lemma speller_alpha : forall sp k, speller_ok sp -> all_alpha k = true -> all_alpha (sp k) = true.
Proof.
  intros sp k H Hk. unfold all_alpha in *. rewrite <- forallb_alpha_upper, (H k), forallb_alpha_upper. auto.
Qed.

Lemma speller_nonempty : forall sp k, speller_ok sp -> k <> [] -> sp k <> [].
Proof.
  intros sp k H Hk E. specialize (H k). rewrite E in H. cbn in H. destruct k; cbn in H; congruence.
Qed.

(** a correctly spelled keyword followed by a non-letter is recognised *)
Lemma ci_spell : forall sp k rest,
  speller_ok sp -> all_alpha k = true -> k <> [] -> head_is is_alpha rest = false ->
  ci k (sp k ++ rest) = Some rest.
Proof.
  intros sp k rest Hsp Hk Hne Hr. unfold ci.
  rewrite (span_app is_alpha (sp k) rest (speller_alpha _ _ Hsp Hk) Hr).
  pose proof (speller_nonempty _ _ Hsp Hne) as Hn.
  destruct (sp k) eqn:E; [congruence|]. rewrite <- E.
  rewrite (ci_eqb_refl_upper _ _ (Hsp k)). auto.
Qed.

(** the keyword test depends on the word only through its upper-case form *)
Lemma ci_case_insensitive : forall k w w' rest,
  all_alpha w = true -> all_alpha w' = true -> map to_upper w = map to_upper w' ->
  head_is is_alpha rest = false ->
  ci k (w ++ rest) = ci k (w' ++ rest).
Proof.
  intros k w w' rest Hw Hw' E Hr. unfold ci.
  rewrite (span_app _ _ _ Hw Hr), (span_app _ _ _ Hw' Hr).
  unfold ci_eqb. rewrite E.
  destruct w, w'; cbn in E; try congruence; auto.
Qed.

(** a different word is not the keyword *)
Lemma ci_other : forall k w rest,
  all_alpha w = true -> head_is is_alpha rest = false -> ci_eqb w k = false ->
  ci k (w ++ rest) = None.
Proof.
  intros k w rest Hw Hr E. unfold ci. rewrite (span_app _ _ _ Hw Hr). destruct w; auto. rewrite E. auto.
Qed.

Lemma ci_nonalpha : forall k s, head_is is_alpha s = false -> ci k s = None.
Proof.
  intros k [|c r] H; cbn in *; auto. unfold ci. cbn. rewrite H. auto.
Qed.

Lemma ci_length : forall k s r, ci k s = Some r -> (length r < length s)%nat.
Proof.
  intros k s r H. unfold ci in H. destruct (span is_alpha s) as [w r'] eqn:S.
  apply span_length in S. destruct w as [|c w]; [congruence|].
  destruct (ci_eqb (c :: w) k); [|congruence].
  assert (r' = r) by congruence. subst. cbn [length] in S. lia.
Qed.

(** * digits *)

Lemma digits_val_app : forall a b acc, digits_val (a ++ b) acc = digits_val b (digits_val a acc).
Proof. induction a; cbn; auto. Qed.

Lemma all_digits_app : forall a b, all_digits (a ++ b) = all_digits a && all_digits b.
Proof. intros. unfold all_digits. apply forallb_app. Qed.

(** [dec_digits_fuel] prints exactly the decimal digits of [n] when the fuel bounds the digit count *)
Lemma ddf_spec : forall f n acc, (0 < f)%nat -> n < 10 ^ N.of_nat f ->
  exists ds, dec_digits_fuel f n acc = ds ++ acc /\ all_digits ds = true /\ ds <> [] /\ digits_val ds 0 = n.
Proof.
  induction f as [|f IH]; intros n acc Hf Hn; [lia|].
  cbn [dec_digits_fuel].
  assert (Hd : n mod 10 < 10) by (apply N.mod_lt; lia).
  pose proof (N.div_mod n 10 ltac:(lia)) as Hdm.
  destruct (n / 10 =? 0) eqn:E.
  - exists [48 + n mod 10]. repeat split.
    + unfold all_digits. cbn [forallb]. unfold is_digit. lia.
    + congruence.
    + cbn [digits_val]. unfold digit_val. lia.
  - assert (Hq : n / 10 < 10 ^ N.of_nat f).
    { apply N.div_lt_upper_bound; [lia|]. rewrite Nat2N.inj_succ, N.pow_succ_r' in Hn. lia. }
    assert (Hf' : (0 < f)%nat).
    { destruct f; [|lia]. cbn in Hq. lia. }
    destruct (IH (n / 10) ((48 + n mod 10) :: acc) Hf' Hq) as (ds & H1 & H2 & H3 & H4).
    exists (ds ++ [48 + n mod 10]). repeat split.
    + rewrite H1, <- app_assoc. auto.
    + rewrite all_digits_app, H2. unfold all_digits. cbn [forallb]. unfold is_digit. lia.
    + destruct ds; cbn; congruence.
    + rewrite digits_val_app, H4. cbn [digits_val]. unfold digit_val. lia.
Qed.

Lemma dec_of_N_spec : forall n,
  all_digits (dec_of_N n) = true /\ dec_of_N n <> [] /\ digits_val (dec_of_N n) 0 = n.
Proof.
  intro n. unfold dec_of_N.
  assert (Hn : n < 10 ^ N.of_nat (S (N.to_nat (N.log2 n)))).
  { rewrite Nat2N.inj_succ, N2Nat.id.
    destruct (N.eq_dec n 0) as [->|Hz]; [reflexivity|].
    pose proof (N.log2_spec n ltac:(lia)) as [_ Hlt].
    eapply N.lt_le_trans; [exact Hlt|].
    apply N.pow_le_mono_l. lia. }
  destruct (ddf_spec _ _ [] (Nat.lt_0_succ _) Hn) as (ds & H1 & H2 & H3 & H4).
  rewrite H1, app_nil_r. auto.
Qed.

Section Unfold.
Variable fx : bool.

(** unfolding equations of the mutual fixpoint *)
Lemma or_expr_S : forall f s, or_expr fx (S f) s =
  match and_expr fx f s with
  | Ok (x, r) =>
      match ci K_OR (ws r) with
      | Some r1 =>
          match or_expr fx f (ws r1) with
          | Ok (y, r2) => Ok (EOr x y, r2)
          | Err => Ok (x, r)
          | Panic k => Panic k
          | OOF => OOF
          end
      | None => Ok (x, r)
      end
  | other => other
  end.
Proof. reflexivity. Qed.

Lemma and_expr_S : forall f s, and_expr fx (S f) s =
  match factor fx f s with
  | Ok (x, r) =>
      match ci K_AND (ws r) with
      | Some r1 =>
          match and_expr fx f (ws r1) with
          | Ok (y, r2) => Ok (EAnd x y, r2)
          | Err => Ok (x, r)
          | Panic k => Panic k
          | OOF => OOF
          end
      | None => Ok (x, r)
      end
  | other => other
  end.
Proof. reflexivity. Qed.

Definition paren_or_leaf (f : nat) (s : bytes) : res (expr * bytes) :=
  match (match lit 40 s with
         | Some r1 =>
             match or_expr fx f (ws r1) with
             | Ok (e, r2) =>
                 match lit 41 (ws r2) with
                 | Some r3 => Ok (e, r3)
                 | None => Err
                 end
             | other => other
             end
         | None => Err
         end) with
  | Err => leaf fx s
  | other => other
  end.

Lemma factor_S : forall f s, factor fx (S f) s =
  match ci K_NOT s with
  | Some r1 =>
      match factor fx f (ws r1) with
      | Ok (x, r2) => Ok (ENot x, r2)
      | Err => paren_or_leaf f s
      | Panic k => Panic k
      | OOF => OOF
      end
  | None => paren_or_leaf f s
  end.
Proof. reflexivity. Qed.

End Unfold.

Section UnfoldG.
Variable lf : P expr.

(** unfolding equations of the mutual fixpoint *)
Lemma or_expr_g_S : forall f s, or_expr_g lf (S f) s =
  match and_expr_g lf f s with
  | Ok (x, r) =>
      match ci K_OR (ws r) with
      | Some r1 =>
          match or_expr_g lf f (ws r1) with
          | Ok (y, r2) => Ok (EOr x y, r2)
          | Err => Ok (x, r)
          | Panic k => Panic k
          | OOF => OOF
          end
      | None => Ok (x, r)
      end
  | other => other
  end.
Proof. reflexivity. Qed.

Lemma and_expr_g_S : forall f s, and_expr_g lf (S f) s =
  match factor_g lf f s with
  | Ok (x, r) =>
      match ci K_AND (ws r) with
      | Some r1 =>
          match and_expr_g lf f (ws r1) with
          | Ok (y, r2) => Ok (EAnd x y, r2)
          | Err => Ok (x, r)
          | Panic k => Panic k
          | OOF => OOF
          end
      | None => Ok (x, r)
      end
  | other => other
  end.
Proof. reflexivity. Qed.

Definition paren_or_leaf_g (f : nat) (s : bytes) : res (expr * bytes) :=
  match (match lit 40 s with
         | Some r1 =>
             match or_expr_g lf f (ws r1) with
             | Ok (e, r2) =>
                 match lit 41 (ws r2) with
                 | Some r3 => Ok (e, r3)
                 | None => Err
                 end
             | other => other
             end
         | None => Err
         end) with
  | Err => lf s
  | other => other
  end.

Lemma factor_g_S : forall f s, factor_g lf (S f) s =
  match ci K_NOT s with
  | Some r1 =>
      match factor_g lf f (ws r1) with
      | Ok (x, r2) => Ok (ENot x, r2)
      | Err => paren_or_leaf_g f s
      | Panic k => Panic k
      | OOF => OOF
      end
  | None => paren_or_leaf_g f s
  end.
Proof. reflexivity. Qed.

End UnfoldG.
