(** Lemmas about Model/ZoneSel.v: zone-id sets, the association map, the selector. *)
From Coq Require Import NArith ZArith List Bool Lia.
From Coq Require Import ZifyBool ZifyNat ZifyN.
From Snel Require Import Gen.Params Model.ZoneSel.
Import ListNotations.
Open Scope N_scope.

Lemma zs_insert_in : forall z s x, In x (zs_insert z s) <-> x = z \/ In x s.
Proof.
  intros z s x. induction s as [|y r IH]; cbn [zs_insert].
  - cbn. intuition.
  - destruct (N.ltb_spec z y) as [Hlt|Hge].
    + cbn. intuition.
    + destruct (N.eqb_spec z y) as [->|Hne].
      * cbn. intuition.
      * cbn [In]. rewrite IH. intuition.
Qed.

Lemma zs_union_in : forall a b x, In x (zs_union a b) <-> In x a \/ In x b.
Proof.
  intros a b x. unfold zs_union. induction a as [|y r IH]; cbn [fold_right].
  - cbn. intuition.
  - rewrite zs_insert_in, IH. cbn. intuition.
Qed.

Lemma zs_of_list_in : forall l x, In x (zs_of_list l) <-> In x l.
Proof.
  intros l x. unfold zs_of_list. induction l as [|y r IH]; cbn [fold_right].
  - reflexivity.
  - rewrite zs_insert_in, IH. cbn. intuition.
Qed.

Lemma zs_mem_in : forall z s, zs_mem z s = true <-> In z s.
Proof.
  intros z s. unfold zs_mem. rewrite existsb_exists. split.
  - intros [x [Hin Heq]]. apply N.eqb_eq in Heq. now subst.
  - intros Hin. exists z. split; [assumption|apply N.eqb_refl].
Qed.

Section AMap.
  Context {A : Type}.

  Lemma am_get_set_same : forall k (v : A) m, am_get k (am_set k v m) = Some v.
  Proof.
    intros k v m. induction m as [|[k' v'] r IH]; cbn [am_set am_get].
    - now rewrite N.eqb_refl.
    - destruct (N.ltb_spec k k') as [Hlt|Hge].
      + cbn [am_get]. now rewrite N.eqb_refl.
      + destruct (N.eqb_spec k k') as [->|Hne].
        * cbn [am_get]. now rewrite N.eqb_refl.
        * cbn [am_get]. destruct (N.eqb_spec k k'); [contradiction|exact IH].
  Qed.

  Lemma am_get_set_other : forall k k' (v : A) m, k <> k' -> am_get k (am_set k' v m) = am_get k m.
  Proof.
    intros k k' v m Hne. induction m as [|[k2 v2] r IH]; cbn [am_set am_get].
    - destruct (N.eqb_spec k k'); [contradiction|reflexivity].
    - destruct (N.ltb_spec k' k2) as [Hlt|Hge].
      + cbn [am_get]. destruct (N.eqb_spec k k'); [contradiction|reflexivity].
      + destruct (N.eqb_spec k' k2) as [->|Hne2].
        * cbn [am_get]. destruct (N.eqb_spec k k2); [contradiction|reflexivity].
        * cbn [am_get]. destruct (N.eqb_spec k k2); [reflexivity|exact IH].
  Qed.

  Lemma am_get_in : forall k (v : A) m, am_get k m = Some v -> In (k, v) m.
  Proof.
    intros k v m. induction m as [|[k' v'] r IH]; cbn [am_get]; [discriminate|].
    destruct (N.eqb_spec k k') as [->|Hne].
    - intros [= ->]. now left.
    - intros H. right. now apply IH.
  Qed.
End AMap.

(** membership of a zone in a bucket of a map of zone sets *)
Definition in_bucket (m : list (N * list N)) (b z : N) : Prop :=
  exists s, am_get b m = Some s /\ In z s.

Lemma in_bucket_add_same : forall m k z, in_bucket (am_add_zone k z m) k z.
Proof.
  intros m k z. unfold in_bucket, am_add_zone. rewrite am_get_set_same.
  eexists. split; [reflexivity|]. apply zs_insert_in. now left.
Qed.

Lemma in_bucket_add_mono : forall m k z b z0, in_bucket m b z0 -> in_bucket (am_add_zone k z m) b z0.
Proof.
  intros m k z b z0 [s [Hg Hin]]. unfold in_bucket, am_add_zone.
  destruct (N.eq_dec b k) as [->|Hne].
  - rewrite am_get_set_same. rewrite Hg. eexists. split; [reflexivity|]. apply zs_insert_in. now right.
  - rewrite am_get_set_other by assumption. now exists s.
Qed.

Lemma select_some : forall st op infl all zs,
  bypass st op = false -> select st op infl all (Some zs) = zs.
Proof. intros st op infl all zs H. unfold select. now rewrite H. Qed.

Lemma select_bypass : forall st op infl all r,
  bypass st op = true -> select st op infl all r = all.
Proof. intros st op infl all r H. unfold select. now rewrite H. Qed.

Lemma select_none_op_all : forall st op infl all,
  bypass st op = false -> none_op_all st op = true -> select st op infl all None = all.
Proof. intros st op infl all H1 H2. unfold select. now rewrite H1, H2. Qed.

Lemma bypass_eq : forall st, bypass st OEq = false.
Proof. reflexivity. Qed.
