(** Proofs about Model/Auth.v (property C13). *)
From Coq Require Import NArith List Bool Lia String Ascii.
From Snel Require Import Base.Bytes Gen.Params Model.Auth.
Import ListNotations.
Open Scope N_scope.

(** Byte strings written as Coq strings in the statements ("admin", "bypass", …). *)
Fixpoint bs (s : string) : bytes :=
  match s with
  | EmptyString => []
  | String a r => N_of_ascii a :: bs r
  end.

(** * Basic facts: byte-string equality, association lists, sets *)

Lemma bytes_eqb_refl : forall a, bytes_eqb a a = true.
Proof. induction a as [|x a IH]; cbn [bytes_eqb]; [reflexivity|]. rewrite N.eqb_refl, IH. reflexivity. Qed.

Lemma bytes_eqb_eq : forall a b, bytes_eqb a b = true <-> a = b.
Proof.
  induction a as [|x a IH]; intros [|y b]; cbn [bytes_eqb]; split; intro H; try reflexivity; try discriminate.
  - apply andb_true_iff in H as [H1 H2]. apply N.eqb_eq in H1. apply IH in H2. congruence.
  - inversion H; subst. rewrite N.eqb_refl. cbn. apply IH. reflexivity.
Qed.

Lemma bytes_eqb_neq : forall a b, bytes_eqb a b = false <-> a <> b.
Proof.
  intros a b. split; intro H.
  - intro E. apply bytes_eqb_eq in E. congruence.
  - destruct (bytes_eqb a b) eqn:E; [|reflexivity]. apply bytes_eqb_eq in E. contradiction.
Qed.

Lemma bytes_eqb_sym : forall a b, bytes_eqb a b = bytes_eqb b a.
Proof.
  intros a b. destruct (bytes_eqb a b) eqn:E.
  - apply bytes_eqb_eq in E. subst. symmetry. apply bytes_eqb_refl.
  - symmetry. apply bytes_eqb_neq. apply bytes_eqb_neq in E. congruence.
Qed.

Ltac beq :=
  repeat match goal with
  | H : bytes_eqb _ _ = true |- _ => apply bytes_eqb_eq in H
  | H : bytes_eqb _ _ = false |- _ => apply bytes_eqb_neq in H
  end.

Section Assoc.
  Context {A : Type}.
  Implicit Types (m : list (bytes * A)) (k : bytes).

  Lemma alookup_aremove_same : forall m k, alookup k (aremove k m) = None.
  Proof.
    induction m as [|[k' v] m IH]; intro k; cbn [aremove alookup]; [reflexivity|].
    destruct (bytes_eqb k k') eqn:E; [apply IH|]. cbn [alookup]. rewrite E. apply IH.
  Qed.

  Lemma alookup_aremove_other : forall m k k', k <> k' -> alookup k (aremove k' m) = alookup k m.
  Proof.
    induction m as [|[k0 v] m IH]; intros k k' N; cbn [aremove alookup]; [reflexivity|].
    destruct (bytes_eqb k' k0) eqn:E.
    - beq. subst k0. rewrite (proj2 (bytes_eqb_neq k k') N). apply IH. exact N.
    - cbn [alookup]. destruct (bytes_eqb k k0); [reflexivity|]. apply IH. exact N.
  Qed.

  Lemma alookup_ainsert_same : forall m k v, alookup k (ainsert k v m) = Some v.
  Proof. intros. unfold ainsert. cbn [alookup]. rewrite bytes_eqb_refl. reflexivity. Qed.

  Lemma alookup_ainsert_other : forall m k k' v, k <> k' -> alookup k (ainsert k' v m) = alookup k m.
  Proof.
    intros m k k' v N. unfold ainsert. cbn [alookup].
    rewrite (proj2 (bytes_eqb_neq k k') N). apply alookup_aremove_other. exact N.
  Qed.

  Lemma in_keys_aremove : forall m k x, In x (map fst (aremove k m)) -> In x (map fst m) /\ x <> k.
  Proof.
    induction m as [|[k0 v] m IH]; intros k x H; cbn [aremove] in H; [contradiction|].
    destruct (bytes_eqb k k0) eqn:E.
    - apply IH in H as [H1 H2]. split; [right; exact H1|exact H2].
    - cbn [map fst In] in H. destruct H as [H|H].
      + subst x. split; [left; reflexivity|]. beq. congruence.
      + apply IH in H as [H1 H2]. split; [right; exact H1|exact H2].
  Qed.

  Lemma nodup_aremove : forall m k, NoDup (map fst m) -> NoDup (map fst (aremove k m)).
  Proof.
    induction m as [|[k0 v] m IH]; intros k H; cbn [aremove]; [constructor|].
    inversion H as [|? ? Hn Hd]; subst.
    destruct (bytes_eqb k k0); [apply IH; exact Hd|].
    cbn [map fst]. constructor; [|apply IH; exact Hd].
    intro C. apply in_keys_aremove in C as [C _]. contradiction.
  Qed.

  Lemma nodup_ainsert : forall m k v, NoDup (map fst m) -> NoDup (map fst (ainsert k v m)).
  Proof.
    intros m k v H. unfold ainsert. cbn [map fst]. constructor; [|apply nodup_aremove; exact H].
    intro C. apply in_keys_aremove in C as [_ C]. contradiction.
  Qed.

  Lemma alookup_none_notin : forall m k, alookup k m = None -> ~ In k (map fst m).
  Proof.
    induction m as [|[k0 v] m IH]; intros k H; cbn [alookup] in H; [intros []|].
    destruct (bytes_eqb k k0) eqn:E; [discriminate|]. beq.
    cbn [map fst In]. intros [C|C]; [congruence|]. exact (IH _ H C).
  Qed.
End Assoc.

Lemma smem_true : forall k s, smem k s = true <-> In k s.
Proof.
  intros k s. unfold smem. rewrite existsb_exists. split.
  - intros [x [H1 H2]]. beq. subst. exact H1.
  - intro H. exists k. split; [exact H|apply bytes_eqb_refl].
Qed.

Lemma smem_sremove_same : forall s k, smem k (sremove k s) = false.
Proof.
  intros s k. destruct (smem k (sremove k s)) eqn:E; [|reflexivity].
  apply smem_true in E. unfold sremove in E. apply filter_In in E as [_ E].
  rewrite bytes_eqb_refl in E. discriminate.
Qed.

Lemma smem_sremove_other : forall s k k', k <> k' -> smem k (sremove k' s) = smem k s.
Proof.
  intros s k k' N. destruct (smem k s) eqn:E.
  - apply smem_true. apply smem_true in E. unfold sremove. apply filter_In. split; [exact E|].
    apply negb_true_iff. apply bytes_eqb_neq. congruence.
  - destruct (smem k (sremove k' s)) eqn:E2; [|reflexivity].
    apply smem_true in E2. unfold sremove in E2. apply filter_In in E2 as [E2 _].
    apply smem_true in E2. congruence.
Qed.

Lemma smem_sinsert_same : forall s k, smem k (sinsert k s) = true.
Proof. intros. unfold sinsert, smem. cbn [existsb]. rewrite bytes_eqb_refl. reflexivity. Qed.

Lemma smem_sinsert_other : forall s k k', k <> k' -> smem k (sinsert k' s) = smem k s.
Proof.
  intros s k k' N. unfold sinsert. unfold smem at 1. cbn [existsb].
  rewrite (proj2 (bytes_eqb_neq k k') N). cbn [orb]. apply smem_sremove_other. exact N.
Qed.

(** * The permission cache mirrors the user records *)

Definition user_cache_perms (u : user) : option (list (bytes * perm)) :=
  if is_nil (u_perms u) then None else Some (u_perms u).

Definition cache_sync (us : list (bytes * user)) (c : pcache) : Prop :=
  forall id,
    match alookup id us with
    | Some u =>
        smem id (pc_admin c) = role_in auth_roles_admin (u_roles u) /\
        smem id (pc_ro c) = role_in auth_roles_read_only (u_roles u) /\
        smem id (pc_ed c) = role_in auth_roles_editor (u_roles u) /\
        smem id (pc_wo c) = role_in auth_roles_write_only (u_roles u) /\
        alookup id (pc_perms c) = user_cache_perms u
    | None =>
        smem id (pc_admin c) = false /\ smem id (pc_ro c) = false /\ smem id (pc_ed c) = false /\
        smem id (pc_wo c) = false /\ alookup id (pc_perms c) = None
    end.

Definition keyed (us : list (bytes * user)) : Prop :=
  forall id u, alookup id us = Some u -> u_id u = id.

Record wf (s : state) : Prop := mkWf {
  wf_keyed : keyed (st_users s);
  wf_nodup : NoDup (map fst (st_users s));
  wf_sync : cache_sync (st_users s) (st_cache s) }.

Lemma update_user_at : forall c u,
  let c' := update_user c u in
  smem (u_id u) (pc_admin c') = role_in auth_roles_admin (u_roles u) /\
  smem (u_id u) (pc_ro c') = role_in auth_roles_read_only (u_roles u) /\
  smem (u_id u) (pc_ed c') = role_in auth_roles_editor (u_roles u) /\
  smem (u_id u) (pc_wo c') = role_in auth_roles_write_only (u_roles u) /\
  alookup (u_id u) (pc_perms c') = user_cache_perms u.
Proof.
  intros c u. cbn zeta. unfold update_user. cbn [pc_admin pc_ro pc_ed pc_wo pc_perms].
  repeat split;
    try (match goal with |- context [if ?b then _ else _] => destruct b end;
         [apply smem_sinsert_same | apply smem_sremove_same]).
  unfold user_cache_perms. destruct (is_nil (u_perms u)).
  - apply alookup_aremove_same.
  - apply alookup_ainsert_same.
Qed.

Lemma update_user_other : forall c u id, id <> u_id u ->
  let c' := update_user c u in
  smem id (pc_admin c') = smem id (pc_admin c) /\
  smem id (pc_ro c') = smem id (pc_ro c) /\
  smem id (pc_ed c') = smem id (pc_ed c) /\
  smem id (pc_wo c') = smem id (pc_wo c) /\
  alookup id (pc_perms c') = alookup id (pc_perms c).
Proof.
  intros c u id N. cbn zeta. unfold update_user. cbn [pc_admin pc_ro pc_ed pc_wo pc_perms].
  repeat split;
    try (match goal with |- context [if ?b then _ else _] => destruct b end;
         [apply smem_sinsert_other; exact N | apply smem_sremove_other; exact N]).
  destruct (is_nil (u_perms u)).
  - apply alookup_aremove_other. exact N.
  - apply alookup_ainsert_other. exact N.
Qed.

Lemma put_user_wf : forall s u, wf s -> wf (put_user s u).
Proof.
  intros s u [K D S]. unfold put_user, set_users_cache. constructor; cbn [st_users st_cache].
  - intros id v H. destruct (bytes_eqb id (u_id u)) eqn:E.
    + beq. subst id. rewrite alookup_ainsert_same in H. congruence.
    + beq. rewrite alookup_ainsert_other in H by exact E. apply K. exact H.
  - apply nodup_ainsert. exact D.
  - intro id. destruct (bytes_eqb id (u_id u)) eqn:E.
    + beq. subst id. rewrite alookup_ainsert_same. apply update_user_at.
    + beq. rewrite alookup_ainsert_other by exact E.
      pose proof (update_user_other (st_cache s) u id E) as (H1 & H2 & H3 & H4 & H5). cbn zeta in *.
      specialize (S id). rewrite H1, H2, H3, H4, H5. exact S.
Qed.

Lemma wf_empty : wf state_empty.
Proof.
  constructor; cbn.
  - intros id u H. discriminate.
  - constructor.
  - intro id. cbn. repeat split; reflexivity.
Qed.

Lemma wf_same_users : forall s s',
  st_users s' = st_users s -> st_cache s' = st_cache s -> wf s -> wf s'.
Proof. intros s s' E1 E2 [K D S]. constructor; rewrite ?E1, ?E2; assumption. Qed.

Lemma create_user_wf : forall s id key fk roles, wf s -> wf (snd (create_user s id key fk roles)).
Proof.
  intros s id key fk roles W. unfold create_user.
  destruct (validate_user_id id); [exact W|].
  destruct (match key with Some k => _ | None => false end); [exact W|].
  destruct (alookup id (st_users s)); [exact W|]. cbn [snd]. apply put_user_wf. exact W.
Qed.

Lemma revoke_key_wf : forall s id, wf s -> wf (snd (revoke_key s id)).
Proof.
  intros s id W. unfold revoke_key. destruct (alookup id (st_users s)); [|exact W]. cbn [snd].
  eapply wf_same_users; [| |apply put_user_wf; exact W]; reflexivity.
Qed.

Lemma grant_permission_wf : forall s id t p, wf s -> wf (snd (grant_permission s id t p)).
Proof.
  intros s id t p W. unfold grant_permission. destruct (alookup id (st_users s)); [|exact W].
  cbn [snd]. apply put_user_wf. exact W.
Qed.

Lemma revoke_permission_wf : forall s id t, wf s -> wf (snd (revoke_permission s id t)).
Proof.
  intros s id t W. unfold revoke_permission. destruct (alookup id (st_users s)); [|exact W].
  cbn [snd]. apply put_user_wf. exact W.
Qed.

Lemma grant_loop_wf : forall ts s r w id, wf s -> wf (snd (grant_loop s r w ts id)).
Proof.
  induction ts as [|t ts IH]; intros s r w id W; cbn [grant_loop]; [exact W|].
  destruct (negb (smem t (st_schemas s))); [exact W|].
  destruct (grant_permission s id t _) as [[e|] s'] eqn:G; [exact W|].
  apply IH. change s' with (snd (@None auth_err, s')). rewrite <- G. apply grant_permission_wf. exact W.
Qed.

Lemma revoke_loop_wf : forall ts s r w id, wf s -> wf (snd (revoke_loop s r w ts id)).
Proof.
  induction ts as [|t ts IH]; intros s r w id W; cbn [revoke_loop]; [exact W|].
  destruct (grant_permission s id t _) as [[e|] s'] eqn:G; [exact W|].
  apply IH. change s' with (snd (@None auth_err, s')). rewrite <- G. apply grant_permission_wf. exact W.
Qed.

Lemma dispatch_wf : forall s who c k, wf s -> wf (snd (dispatch s who c k)).
Proof.
  intros s who c k W. destruct c; cbn [dispatch];
    repeat match goal with
    | |- wf (snd (if ?b then _ else _)) => destruct b
    | |- wf (snd (match ?x with Some _ => _ | None => _ end)) => destruct x
    | |- wf (snd (_, s)) => exact W
    end; try exact W;
    try (eapply wf_same_users; [| |exact W]; reflexivity).
  - destruct (create_user s id key k _) as [[e|] s'] eqn:C; [exact W|].
    change s' with (snd (@None auth_err, s')). rewrite <- C. apply create_user_wf. exact W.
  - destruct (revoke_key s id) as [[e|] s'] eqn:C; [exact W|].
    change s' with (snd (@None auth_err, s')). rewrite <- C. apply revoke_key_wf. exact W.
  - apply grant_loop_wf. exact W.
  - apply revoke_loop_wf. exact W.
Qed.

(** * Restart: the cache rebuilt from the user records is in sync again *)

Lemma rebuild_sync : forall us c done,
  NoDup (map fst (done ++ us)) -> keyed (done ++ us) ->
  (forall id, In id (map fst us) -> alookup id done = None) ->
  cache_sync done c ->
  cache_sync (done ++ us) (fold_left (fun c e => update_user c (snd e)) us c).
Proof.
  induction us as [|[k u] us IH]; intros c done D K F S.
  - rewrite app_nil_r. exact S.
  - cbn [fold_left snd].
    replace (done ++ (k, u) :: us) with ((done ++ [(k, u)]) ++ us) in * by (rewrite <- app_assoc; reflexivity).
    assert (Hk : alookup k done = None) by (apply F; left; reflexivity).
    assert (Hlk : forall id, alookup id (done ++ [(k, u)]) =
                   match alookup id done with Some v => Some v | None => if bytes_eqb id k then Some u else None end).
    { clear. induction done as [|[k0 v0] done IHd]; intro id; cbn [app alookup].
      - reflexivity.
      - destruct (bytes_eqb id k0); [reflexivity|apply IHd]. }
    assert (Hid : u_id u = k).
    { apply (K k u). clear - Hk. induction done as [|[k0 v0] done IHd]; cbn [app alookup] in *.
      - cbn. rewrite bytes_eqb_refl. reflexivity.
      - destruct (bytes_eqb k k0); [discriminate|]. apply IHd. exact Hk. }
    apply IH; try assumption.
    + intros id Hin. rewrite Hlk. rewrite F by (right; exact Hin).
      destruct (bytes_eqb id k) eqn:E; [|reflexivity]. beq. subst id. exfalso.
      rewrite <- app_assoc, map_app in D. cbn [map fst app] in D. apply NoDup_remove_2 in D.
      apply D. apply in_or_app. right. exact Hin.
    + intro id. rewrite Hlk. destruct (bytes_eqb id k) eqn:E.
      * beq. subst id. rewrite Hk. rewrite <- Hid. apply update_user_at.
      * beq. assert (N : id <> u_id u) by congruence.
        pose proof (update_user_other c u id N) as (H1 & H2 & H3 & H4 & H5). cbn zeta in *.
        rewrite H1, H2, H3, H4, H5. specialize (S id). destruct (alookup id done); exact S.
Qed.

Lemma restart_wf : forall s, wf s -> wf (restart s).
Proof.
  intros s [K D S]. unfold restart. constructor; cbn [st_users st_cache]; try assumption.
  apply (rebuild_sync (st_users s) pcache_empty []); cbn [app]; try assumption.
  - intros. reflexivity.
  - intro id. cbn. repeat split; reflexivity.
Qed.

(** * Reachable states: every history of operations *)

Inductive step : state -> state -> Prop :=
| st_create s id key fk roles : step s (snd (create_user s id key fk roles))
| st_revoke_key s id : step s (snd (revoke_key s id))
| st_grant s id t p : step s (snd (grant_permission s id t p))
| st_revoke_perm s id t : step s (snd (revoke_permission s id t))
| st_session s tok uid now e : step s (new_session s tok uid now e)
| st_revoke_token s tok : step s (snd (revoke_token s tok))
| st_revoke_sessions s uid : step s (snd (revoke_user_sessions s uid))
| st_dispatch s who c k : step s (snd (dispatch s who c k))
| st_gate hmac cfg s conn line now tok : step s (snd (gate_tcp hmac cfg s conn line now tok))
| st_restart s : step s (restart s).

Inductive reachable_from (s0 : state) : state -> Prop :=
| rf_refl : reachable_from s0 s0
| rf_step s s' : reachable_from s0 s -> step s s' -> reachable_from s0 s'.

Definition reachable : state -> Prop := reachable_from state_empty.

Lemma gate_tcp_users : forall hmac cfg s conn line now tok,
  let s' := snd (gate_tcp hmac cfg s conn line now tok) in
  st_users s' = st_users s /\ st_cache s' = st_cache s.
Proof.
  intros. subst s'. unfold gate_tcp.
  repeat match goal with
  | |- context [if ?b then _ else _] => destruct b
  | |- context [match ?x with Some _ => _ | None => _ end] => destruct x
  | |- context [let '(_, _) := ?x in _] => destruct x
  | p : (_ * _)%type |- _ => destruct p
  end; cbn [snd]; split; reflexivity.
Qed.

Lemma step_wf : forall s s', step s s' -> wf s -> wf s'.
Proof.
  intros s s' H W. destruct H.
  - apply create_user_wf; assumption.
  - apply revoke_key_wf; assumption.
  - apply grant_permission_wf; assumption.
  - apply revoke_permission_wf; assumption.
  - eapply wf_same_users; [| |eassumption]; reflexivity.
  - eapply wf_same_users; [| |eassumption]; reflexivity.
  - eapply wf_same_users; [| |eassumption]; reflexivity.
  - apply dispatch_wf; assumption.
  - pose proof (gate_tcp_users hmac cfg s conn line now tok) as [E1 E2]. cbn zeta in *.
    eapply wf_same_users; eassumption.
  - apply restart_wf; assumption.
Qed.

Lemma reachable_from_wf : forall s0 s, reachable_from s0 s -> wf s0 -> wf s.
Proof. induction 1; intro W; [exact W|]. eapply step_wf; eauto. Qed.

Lemma reachable_wf : forall s, reachable s -> wf s.
Proof. intros s H. eapply reachable_from_wf; [exact H|apply wf_empty]. Qed.

(** * can_read / can_write against a declarative RBAC statement *)

(** The declarative statement names the roles as the documentation does; that the Rust match
    arms (regenerated into [Params]) are exactly these names is a side condition checked here. *)
Lemma roles_as_documented :
  auth_roles_admin = [bs "admin"] /\
  auth_roles_read_only = [bs "read-only"; bs "viewer"] /\
  auth_roles_editor = [bs "editor"] /\
  auth_roles_write_only = [bs "write-only"].
Proof. repeat split; reflexivity. Qed.

Definition has_role (u : user) (name : string) : Prop := In (bs name) (u_roles u).

Lemma role_in_spec : forall names roles,
  role_in names roles = true <-> exists r, In r roles /\ In r names.
Proof.
  intros. unfold role_in. rewrite existsb_exists. split; intros [r [H1 H2]]; exists r; split; try assumption;
    apply smem_true; assumption.
Qed.

Lemma role_admin : forall u, role_in auth_roles_admin (u_roles u) = true <-> has_role u "admin".
Proof.
  intro u. rewrite role_in_spec. destruct roles_as_documented as (-> & _). unfold has_role. split.
  - intros [r [H1 [H2|[]]]]. subst. exact H1.
  - intro H. eexists. split; [exact H|left; reflexivity].
Qed.
Lemma role_ro : forall u, role_in auth_roles_read_only (u_roles u) = true <-> has_role u "read-only" \/ has_role u "viewer".
Proof.
  intro u. rewrite role_in_spec. destruct roles_as_documented as (_ & -> & _). unfold has_role. split.
  - intros [r [H1 [H2|[H2|[]]]]]; subst; auto.
  - intros [H|H]; eexists; (split; [exact H|]); cbn; auto.
Qed.
Lemma role_ed : forall u, role_in auth_roles_editor (u_roles u) = true <-> has_role u "editor".
Proof.
  intro u. rewrite role_in_spec. destruct roles_as_documented as (_ & _ & -> & _). unfold has_role. split.
  - intros [r [H1 [H2|[]]]]. subst. exact H1.
  - intro H. eexists. split; [exact H|left; reflexivity].
Qed.
Lemma role_wo : forall u, role_in auth_roles_write_only (u_roles u) = true <-> has_role u "write-only".
Proof.
  intro u. rewrite role_in_spec. destruct roles_as_documented as (_ & _ & _ & ->). unfold has_role. split.
  - intros [r [H1 [H2|[]]]]. subst. exact H1.
  - intro H. eexists. split; [exact H|left; reflexivity].
Qed.

(** Declarative access rules (docs: "Access Control Priority" / "How Permission Override Works"):
    - READ: admin; or the permission set of the type grants read; or a reading role
      (read-only / viewer / editor) unless the permission set of the type denies both;
    - WRITE: admin; or the permission set of the type grants write; or, when the type has no
      permission set at all, a writing role (editor / write-only). *)
Definition may_read (us : list (bytes * user)) (uid t : bytes) : Prop :=
  exists u, alookup uid us = Some u /\
    (has_role u "admin"
     \/ (exists p, alookup t (u_perms u) = Some p /\ p_read p = true)
     \/ ((has_role u "read-only" \/ has_role u "viewer" \/ has_role u "editor")
         /\ alookup t (u_perms u) <> Some (mkPerm false false))).

Definition may_write (us : list (bytes * user)) (uid t : bytes) : Prop :=
  exists u, alookup uid us = Some u /\
    (has_role u "admin"
     \/ (exists p, alookup t (u_perms u) = Some p /\ p_write p = true)
     \/ (alookup t (u_perms u) = None /\ (has_role u "editor" \/ has_role u "write-only"))).

Definition admin_user (us : list (bytes * user)) (uid : bytes) : Prop :=
  exists u, alookup uid us = Some u /\ has_role u "admin".

Definition writer_user (us : list (bytes * user)) (uid : bytes) : Prop :=
  exists u, alookup uid us = Some u /\
    (has_role u "admin" \/ has_role u "editor" \/ has_role u "write-only").

Lemma cache_perm_sync : forall s uid t u, wf s -> alookup uid (st_users s) = Some u ->
  cache_perm (st_cache s) uid t = alookup t (u_perms u).
Proof.
  intros s uid t u W H. pose proof (wf_sync s W uid) as S. rewrite H in S.
  destruct S as (_ & _ & _ & _ & S). unfold cache_perm. rewrite S. unfold user_cache_perms.
  destruct (u_perms u); reflexivity.
Qed.

Lemma b2p : forall (b : bool) (P : Prop), (b = true <-> P) -> (b = false -> ~ P).
Proof. intros b P H E HP. apply H in HP. congruence. Qed.

Lemma ex_some : forall {A} (u : A) (Q : A -> Prop), (exists v, Some u = Some v /\ Q v) <-> Q u.
Proof.
  intros A u Q. split.
  - intros [v [E H]]. inversion E; subst. exact H.
  - intro H. exists u. split; [reflexivity|exact H].
Qed.

Theorem can_read_spec : forall s uid t, wf s ->
  (can_read (st_cache s) uid t = true <-> may_read (st_users s) uid t).
Proof.
  intros s uid t W. pose proof (wf_sync s W uid) as S. unfold can_read, may_read.
  destruct (alookup uid (st_users s)) as [u|] eqn:L.
  - rewrite (cache_perm_sync s uid t u W L).
    etransitivity; [|symmetry; apply ex_some]. cbn beta.
    destruct S as (Sa & Sr & Se & _ & _). rewrite Sa, Sr, Se.
    pose proof (role_admin u) as Ra. pose proof (role_ro u) as Rr. pose proof (role_ed u) as Re.
    destruct (role_in auth_roles_admin (u_roles u)) eqn:Ba.
    { split; [|reflexivity]. intros _. left. apply Ra. reflexivity. }
    pose proof (b2p _ _ Ra eq_refl) as Na.
    assert (RR : role_in auth_roles_read_only (u_roles u) || role_in auth_roles_editor (u_roles u) = true <->
                 (has_role u "read-only" \/ has_role u "viewer" \/ has_role u "editor")).
    { rewrite orb_true_iff, Rr, Re. tauto. }
    destruct (alookup t (u_perms u)) as [[pr pw]|]; cbn [p_read p_write].
    + destruct pr.
      { split; [|reflexivity]. intros _. right. left. eexists. split; reflexivity. }
      destruct pw; cbn [negb andb].
      * rewrite RR. split.
        -- intro H. right. right. split; [exact H|discriminate].
        -- intros [H|[[p [Hp Hr]]|[H _]]]; [contradiction| |exact H]. inversion Hp; subst. discriminate.
      * split; [discriminate|].
        intros [H|[[p [Hp Hr]]|[_ H]]]; [contradiction| |]. inversion Hp; subst. discriminate.
        exfalso. apply H. reflexivity.
    + rewrite RR. split.
      * intro H. right. right. split; [exact H|discriminate].
      * intros [H|[[p [Hp Hr]]|[H _]]]; [contradiction|discriminate|exact H].
  - destruct S as (Sa & Sr & Se & _ & Sp). unfold cache_perm. rewrite Sa, Sr, Se, Sp. cbn.
    split; [discriminate|]. intros [u [E _]]. discriminate.
Qed.

Theorem can_write_spec : forall s uid t, wf s ->
  (can_write (st_cache s) uid t = true <-> may_write (st_users s) uid t).
Proof.
  intros s uid t W. pose proof (wf_sync s W uid) as S. unfold can_write, may_write.
  destruct (alookup uid (st_users s)) as [u|] eqn:L.
  - rewrite (cache_perm_sync s uid t u W L).
    etransitivity; [|symmetry; apply ex_some]. cbn beta.
    destruct S as (Sa & _ & Se & Sw & _). rewrite Sa, Se, Sw.
    pose proof (role_admin u) as Ra. pose proof (role_wo u) as Rw. pose proof (role_ed u) as Re.
    destruct (role_in auth_roles_admin (u_roles u)) eqn:Ba.
    { split; [|reflexivity]. intros _. left. apply Ra. reflexivity. }
    pose proof (b2p _ _ Ra eq_refl) as Na.
    assert (RR : role_in auth_roles_editor (u_roles u) || role_in auth_roles_write_only (u_roles u) = true <->
                 (has_role u "editor" \/ has_role u "write-only")).
    { rewrite orb_true_iff, Rw, Re. tauto. }
    destruct (alookup t (u_perms u)) as [[pr pw]|]; cbn [p_read p_write].
    + split.
      * intro H. subst pw. right. left. eexists. split; reflexivity.
      * intros [H|[[p [Hp Hr]]|[H _]]]; [contradiction| |discriminate]. inversion Hp; subst. exact Hr.
    + rewrite RR. split.
      * intro H. right. right. split; [reflexivity|exact H].
      * intros [H|[[p [Hp Hr]]|[_ H]]]; [contradiction|discriminate|exact H].
  - destruct S as (Sa & _ & Se & Sw & Sp). unfold cache_perm. rewrite Sa, Se, Sw, Sp. cbn.
    split; [discriminate|]. intros [u [E _]]. discriminate.
Qed.

Lemma is_admin_spec : forall s uid, wf s ->
  (is_admin (st_cache s) uid = true <-> admin_user (st_users s) uid).
Proof.
  intros s uid W. pose proof (wf_sync s W uid) as S. unfold is_admin, admin_user.
  destruct (alookup uid (st_users s)) as [u|] eqn:L.
  - destruct S as (Sa & _). rewrite Sa. rewrite role_admin. split.
    + intro H. exists u. split; [reflexivity|exact H].
    + intros [u' [E H]]. inversion E; subst. exact H.
  - destruct S as (Sa & _). rewrite Sa. split; [discriminate|]. intros [u [E _]]. discriminate.
Qed.

Lemma writer_role_spec : forall s uid, wf s ->
  (writer_role (st_cache s) uid = true <-> writer_user (st_users s) uid).
Proof.
  intros s uid W. pose proof (wf_sync s W uid) as S. unfold writer_role, writer_user.
  destruct (alookup uid (st_users s)) as [u|] eqn:L.
  - destruct S as (Sa & _ & Se & Sw & _). rewrite Sa, Se, Sw.
    rewrite !orb_true_iff, role_admin, role_ed, role_wo. split.
    + intro H. exists u. split; [reflexivity|tauto].
    + intros [u' [E H]]. inversion E; subst. tauto.
  - destruct S as (Sa & _ & Se & Sw & _). rewrite Sa, Se, Sw. cbn. split; [discriminate|].
    intros [u [E _]]. discriminate.
Qed.

(** the wording of the property: access implies a permission for the type or a role *)
Corollary may_read_weak : forall us uid t, may_read us uid t ->
  exists u, alookup uid us = Some u /\
    ((exists p, alookup t (u_perms u) = Some p /\ p_read p = true)
     \/ has_role u "admin" \/ has_role u "read-only" \/ has_role u "viewer" \/ has_role u "editor").
Proof. intros us uid t [u [E H]]. exists u. split; [exact E|]. tauto. Qed.

Corollary may_write_weak : forall us uid t, may_write us uid t ->
  exists u, alookup uid us = Some u /\
    ((exists p, alookup t (u_perms u) = Some p /\ p_write p = true)
     \/ has_role u "admin" \/ has_role u "editor" \/ has_role u "write-only").
Proof. intros us uid t [u [E H]]. exists u. split; [exact E|]. tauto. Qed.

(** * The gates *)

Lemma split_byte_spec : forall c s a b, split_byte c s = Some (a, b) -> s = a ++ c :: b /\ ~ In c a.
Proof.
  intros c. induction s as [|x r IH]; intros a b H; cbn [split_byte] in H; [discriminate|].
  destruct (x =? c) eqn:E.
  - inversion H; subst. apply N.eqb_eq in E. subst. split; [reflexivity|intros []].
  - destruct (split_byte c r) as [[a' b']|]; [|discriminate]. inversion H; subst.
    destruct (IH a' b eq_refl) as [-> N]. split; [reflexivity|].
    intros [C|C]; [apply N.eqb_neq in E; congruence|contradiction].
Qed.

Lemma is_prefix_spec : forall p s, is_prefix p s = true -> s = p ++ skipn (List.length p) s.
Proof.
  induction p as [|x p IH]; intros [|y s] H; cbn [is_prefix] in H; try discriminate; try reflexivity.
  apply andb_true_iff in H as [H1 H2]. apply N.eqb_eq in H1. subst y.
  cbn [List.length skipn app]. f_equal. apply IH. exact H2.
Qed.

Lemma rsplit_sub_spec : forall pat s a b, rsplit_sub pat s = Some (a, b) -> s = a ++ pat ++ b.
Proof.
  intros pat. induction s as [|x r IH]; intros a b H; cbn [rsplit_sub] in H; [discriminate|].
  destruct (rsplit_sub pat r) as [[a' b']|].
  - inversion H; subst. cbn [app]. f_equal. apply IH. reflexivity.
  - destruct (is_prefix pat (x :: r)) eqn:P; [|discriminate]. inversion H; subst.
    cbn [app]. apply is_prefix_spec. exact P.
Qed.

Lemma parse_auth_spec : forall s uid sig c, parse_auth s = Some (uid, sig, c) ->
  s = uid ++ colon :: sig ++ colon :: c /\ uid <> [] /\ ~ In colon uid /\ ~ In colon sig.
Proof.
  intros s uid sig c H. unfold parse_auth in H.
  destruct (split_byte colon s) as [[u rest]|] eqn:S1; [|discriminate].
  destruct (split_byte colon rest) as [[g cm]|] eqn:S2; [|discriminate].
  destruct (is_nil u || (auth_max_user_id_len <? blen u)) eqn:E1; [discriminate|].
  destruct (auth_max_sig_len <? blen g); [discriminate|]. inversion H; subst.
  apply split_byte_spec in S1 as [-> N1]. apply split_byte_spec in S2 as [-> N2].
  repeat split; try assumption. intro C. subst. cbn in E1. discriminate.
Qed.

Lemma validate_token_sound : forall s tok now uid, validate_token s tok now = Some uid ->
  exists exp u, alookup tok (st_sessions s) = Some (uid, exp) /\ now <= exp /\
                alookup uid (st_users s) = Some u /\ u_active u = true.
Proof.
  intros s tok now uid H. unfold validate_token in H.
  destruct (alookup tok (st_sessions s)) as [[u0 exp]|] eqn:L; [|discriminate].
  destruct (exp <? now) eqn:E; [discriminate|].
  destruct (alookup u0 (st_users s)) as [u|] eqn:LU; [|discriminate].
  destruct (u_active u) eqn:A; [|discriminate]. inversion H; subst.
  exists exp, u. repeat split; try assumption. apply N.ltb_ge in E. exact E.
Qed.

Section GateProofs.
  Variable hmac : bytes -> bytes -> bytes.

  Lemma verify_signature_sound : forall s msg uid sig,
    verify_signature hmac s msg uid sig = true ->
    exists u, alookup uid (st_users s) = Some u /\ u_active u = true /\ sig = hmac (u_key u) msg.
  Proof.
    intros s msg uid sig H. unfold verify_signature in H.
    destruct (auth_max_sig_len <? blen sig); [discriminate|].
    destruct (auth_max_user_id_len <? blen uid); [discriminate|].
    destruct (auth_verify_rejects_reserved && is_reserved_id uid); [discriminate|].
    destruct (alookup uid (st_users s)) as [u|]; [|discriminate].
    apply andb_true_iff in H as [H1 H2]. beq. exists u. auto.
  Qed.

  (** since fix 139a8cf no signature is accepted for a reserved id, whatever the store holds *)
  Lemma verify_signature_not_reserved : forall s msg uid sig,
    verify_signature hmac s msg uid sig = true -> is_reserved_id uid = false.
  Proof.
    intros s msg uid sig H. unfold verify_signature in H.
    destruct (auth_max_sig_len <? blen sig); [discriminate|].
    destruct (auth_max_user_id_len <? blen uid); [discriminate|].
    change auth_verify_rejects_reserved with true in H. cbn [andb] in H.
    destruct (is_reserved_id uid); [discriminate|reflexivity].
  Qed.

  (** the converse, for signatures and ids within the length limits *)
  Lemma verify_signature_complete : forall s msg uid u,
    alookup uid (st_users s) = Some u -> u_active u = true -> is_reserved_id uid = false ->
    blen (hmac (u_key u) msg) <= auth_max_sig_len -> blen uid <= auth_max_user_id_len ->
    verify_signature hmac s msg uid (hmac (u_key u) msg) = true.
  Proof.
    intros s msg uid u L A R B1 B2. unfold verify_signature.
    apply N.ltb_ge in B1. apply N.ltb_ge in B2. rewrite B1, B2, R, andb_false_r, L, A, bytes_eqb_refl. reflexivity.
  Qed.

  (** What a line must carry for the gate to hand a command on as user [uid]. *)
  Inductive credential (s : state) (conn : option bytes) (now : N) (line text uid : bytes) : Prop :=
  | cred_inline u sig :
      alookup uid (st_users s) = Some u -> u_active u = true ->
      trim line = uid ++ colon :: sig ++ colon :: text ->
      sig = hmac (u_key u) text ->
      credential s conn now line text uid
  | cred_connection u sig rest :
      conn = Some uid ->
      alookup uid (st_users s) = Some u -> u_active u = true ->
      trim line = sig ++ colon :: rest -> text = trim rest ->
      sig = hmac (u_key u) text ->
      credential s conn now line text uid
  | cred_token u before after exp :
      trim line = before ++ token_marker ++ after -> text = trim before ->
      alookup (trim after) (st_sessions s) = Some (uid, exp) -> now <= exp ->
      alookup uid (st_users s) = Some u -> u_active u = true ->
      credential s conn now line text uid.

  Definition auth_on (cfg : gate_cfg) : Prop := g_bypass cfg = false /\ g_has_mgr cfg = true.

  Theorem gate_sound : forall cfg s conn line now tok text uid conn' s',
    auth_on cfg ->
    gate_tcp hmac cfg s conn line now tok = (GDispatch text uid, conn', s') ->
    credential s conn now line text uid /\ conn' = conn /\ s' = s.
  Proof.
    intros cfg s conn line now tok text uid conn' s' [B M] H. unfold gate_tcp in H. rewrite B, M in H.
    cbn [negb andb] in H.
    destruct ((5 <=? blen (trim line)) && eq_ignore_case (firstn 5 (trim line)) auth_word).
    { destruct (split_byte colon (trim (skipn 5 (trim line)))) as [[u g]|]; [|discriminate].
      destruct (verify_signature hmac s u u g); discriminate. }
    destruct (rsplit_sub token_marker (trim line)) as [[before after]|] eqn:R.
    - destruct (negb (is_nil (trim after)) && (blen (trim after) <=? auth_token_max_len)) eqn:TL.
      + destruct (validate_token s (trim after) now) as [u0|] eqn:V.
        * inversion H; subst. apply validate_token_sound in V as (exp & u & V1 & V2 & V3 & V4).
          apply rsplit_sub_spec in R. repeat split. eapply cred_token; eauto.
        * destruct conn as [cu|].
          -- destruct (split_byte colon (trim line)) as [[g rest]|] eqn:S1; [|discriminate].
             destruct (verify_signature hmac s (trim rest) cu g) eqn:VS; [|discriminate].
             inversion H; subst. apply verify_signature_sound in VS as (u & L & A & E).
             apply split_byte_spec in S1 as [S1 _]. repeat split. eapply cred_connection; eauto.
          -- destruct (parse_auth (trim line)) as [[[u g] c]|] eqn:PA; [|discriminate].
             destruct (verify_signature hmac s c u g) eqn:VS; [|discriminate].
             inversion H; subst. apply verify_signature_sound in VS as (u0 & L & A & E).
             apply parse_auth_spec in PA as (PA & _). repeat split. eapply cred_inline; eauto.
      + destruct conn as [cu|].
        * destruct (split_byte colon (trim line)) as [[g rest]|] eqn:S1; [|discriminate].
          destruct (verify_signature hmac s (trim rest) cu g) eqn:VS; [|discriminate].
          inversion H; subst. apply verify_signature_sound in VS as (u & L & A & E).
          apply split_byte_spec in S1 as [S1 _]. repeat split. eapply cred_connection; eauto.
        * destruct (parse_auth (trim line)) as [[[u g] c]|] eqn:PA; [|discriminate].
          destruct (verify_signature hmac s c u g) eqn:VS; [|discriminate].
          inversion H; subst. apply verify_signature_sound in VS as (u0 & L & A & E).
          apply parse_auth_spec in PA as (PA & _). repeat split. eapply cred_inline; eauto.
    - destruct conn as [cu|].
      + destruct (split_byte colon (trim line)) as [[g rest]|] eqn:S1; [|discriminate].
        destruct (verify_signature hmac s (trim rest) cu g) eqn:VS; [|discriminate].
        inversion H; subst. apply verify_signature_sound in VS as (u & L & A & E).
        apply split_byte_spec in S1 as [S1 _]. repeat split. eapply cred_connection; eauto.
      + destruct (parse_auth (trim line)) as [[[u g] c]|] eqn:PA; [|discriminate].
        destruct (verify_signature hmac s c u g) eqn:VS; [|discriminate].
        inversion H; subst. apply verify_signature_sound in VS as (u0 & L & A & E).
        apply parse_auth_spec in PA as (PA & _). repeat split. eapply cred_inline; eauto.
  Qed.
End GateProofs.

Section GateProofs2.
  Variable hmac : bytes -> bytes -> bytes.

  (** AUTH is accepted only for [hmac key user_id] of an active user *)
  Theorem auth_sound : forall cfg s conn line now tok uid conn' s',
    auth_on cfg ->
    gate_tcp hmac cfg s conn line now tok = (GAuthOk uid, conn', s') ->
    exists u sig,
      alookup uid (st_users s) = Some u /\ u_active u = true /\
      eq_ignore_case (firstn 5 (trim line)) auth_word = true /\
      trim (skipn 5 (trim line)) = uid ++ colon :: sig /\ sig = hmac (u_key u) uid /\
      conn' = Some uid /\ s' = new_session s tok uid now (g_expiry cfg).
  Proof.
    intros cfg s conn line now tok uid conn' s' [B M] H. unfold gate_tcp in H. rewrite B, M in H.
    cbn [negb andb] in H.
    destruct ((5 <=? blen (trim line)) && eq_ignore_case (firstn 5 (trim line)) auth_word) eqn:A.
    - apply andb_true_iff in A as [_ A].
      destruct (split_byte colon (trim (skipn 5 (trim line)))) as [[u g]|] eqn:S1; [|discriminate].
      destruct (verify_signature hmac s u u g) eqn:VS; [|discriminate].
      inversion H; subst. apply verify_signature_sound in VS as (u0 & L & Ac & E).
      apply split_byte_spec in S1 as [S1 _]. exists u0, g. repeat split; assumption.
    - exfalso.
      destruct (rsplit_sub token_marker (trim line)) as [[before after]|];
        [destruct (negb (is_nil (trim after)) && (blen (trim after) <=? auth_token_max_len));
         [destruct (validate_token s (trim after) now); [discriminate|]|]|];
        (destruct conn as [cu|];
         [destruct (split_byte colon (trim line)) as [[g rest]|]; [|discriminate];
          destruct (verify_signature hmac s (trim rest) cu g); discriminate
         |destruct (parse_auth (trim line)) as [[[u g] c]|]; [|discriminate];
          destruct (verify_signature hmac s c u g); discriminate]).
  Qed.

  (** the UNIX-socket gate: inline credentials only *)
  Theorem gate_unix_sound : forall cfg s line text uid,
    auth_on cfg -> gate_unix hmac cfg s line = GDispatch text uid ->
    credential hmac s None 0 line text uid.
  Proof.
    intros cfg s line text uid [B M] H. unfold gate_unix in H. rewrite B, M in H. cbn [negb] in H.
    destruct (parse_auth (trim line)) as [[[u g] c]|] eqn:PA; [|discriminate].
    destruct (verify_signature hmac s c u g) eqn:VS; [|discriminate].
    inversion H; subst. apply verify_signature_sound in VS as (u0 & L & A & E).
    apply parse_auth_spec in PA as (PA & _). eapply cred_inline; eauto.
  Qed.

  (** the HTTP /command gate: a header signature over the trimmed body, or inline credentials *)
  Theorem gate_http_sound : forall cfg s hdr body text uid,
    auth_on cfg -> gate_http hmac cfg s hdr body = GDispatch text uid ->
    (exists u sig, hdr = Some (uid, sig) /\ text = trim body /\
        alookup uid (st_users s) = Some u /\ u_active u = true /\ sig = hmac (u_key u) (trim body))
    \/ (hdr = None /\ credential hmac s None 0 body text uid).
  Proof.
    intros cfg s hdr body text uid [B M] H. unfold gate_http in H. rewrite B, M in H. cbn [negb] in H.
    destruct hdr as [[hu hs]|].
    - destruct (verify_signature hmac s (trim body) hu hs) eqn:VS; [|discriminate].
      inversion H; subst. apply verify_signature_sound in VS as (u0 & L & A & E).
      left. exists u0, hs. repeat split; assumption.
    - destruct (parse_auth (trim body)) as [[[u g] c]|] eqn:PA; [|discriminate].
      destruct (verify_signature hmac s c u g) eqn:VS; [|discriminate].
      inversion H; subst. apply verify_signature_sound in VS as (u0 & L & A & E).
      apply parse_auth_spec in PA as (PA & _). right. split; [reflexivity|]. eapply cred_inline; eauto.
  Qed.

  (** * Revocation *)

  Definition inactive (s : state) (id : bytes) : Prop :=
    exists u, alookup id (st_users s) = Some u /\ u_active u = false.

  Lemma credential_active : forall s conn now line text uid,
    credential hmac s conn now line text uid ->
    exists u, alookup uid (st_users s) = Some u /\ u_active u = true.
  Proof. intros s conn now line text uid H. destruct H; eauto. Qed.

  (** no line is dispatched, and no AUTH accepted, for a user whose record is inactive *)
  Lemma inactive_rejected : forall cfg s id conn line now tok,
    auth_on cfg -> inactive s id ->
    match fst (fst (gate_tcp hmac cfg s conn line now tok)) with
    | GDispatch _ u => u <> id
    | GAuthOk u => u <> id
    | GReject => True
    end.
  Proof.
    intros cfg s id conn line now tok On [u [L A]].
    destruct (gate_tcp hmac cfg s conn line now tok) as [[r c'] s''] eqn:G. cbn [fst].
    destruct r as [|au|text du]; [exact I| |].
    - apply auth_sound in G as (u0 & sig & L0 & A0 & _); [|exact On]. intro E. subst. congruence.
    - apply gate_sound in G as (C & _); [|exact On]. apply credential_active in C as (u0 & L0 & A0).
      intro E. subst. congruence.
  Qed.
End GateProofs2.

Lemma revoke_key_inactive : forall s id s', revoke_key s id = (None, s') -> inactive s' id.
Proof.
  intros s id s' H. unfold revoke_key in H. destruct (alookup id (st_users s)) as [u|]; [|discriminate].
  inversion H; subst. eexists. split.
  - cbn [set_sessions st_users put_user set_users_cache u_id]. apply alookup_ainsert_same.
  - reflexivity.
Qed.

Lemma put_user_inactive : forall s u id,
  inactive s id -> (u_id u = id -> u_active u = false) -> inactive (put_user s u) id.
Proof.
  intros s u id [v [L A]] H. unfold inactive, put_user, set_users_cache. cbn [st_users].
  destruct (bytes_eqb id (u_id u)) eqn:E.
  - beq. subst id. rewrite alookup_ainsert_same. eexists. split; [reflexivity|]. apply H. reflexivity.
  - beq. rewrite alookup_ainsert_other by exact E. eauto.
Qed.

Lemma same_users_inactive : forall s s' id, st_users s' = st_users s -> inactive s id -> inactive s' id.
Proof. intros s s' id E [u H]. exists u. rewrite E. exact H. Qed.

Lemma create_user_inactive : forall s id0 key fk roles id,
  inactive s id -> inactive (snd (create_user s id0 key fk roles)) id.
Proof.
  intros s id0 key fk roles id I. unfold create_user.
  destruct (validate_user_id id0); [exact I|].
  destruct (match key with Some k => _ | None => false end); [exact I|].
  destruct (alookup id0 (st_users s)) eqn:L; [exact I|]. cbn [snd].
  apply put_user_inactive; [exact I|]. cbn [u_id]. intro E. subst. destruct I as [u [L' _]]. congruence.
Qed.

Lemma revoke_key_keeps_inactive : forall s id0 id, inactive s id -> inactive (snd (revoke_key s id0)) id.
Proof.
  intros s id0 id I. unfold revoke_key. destruct (alookup id0 (st_users s)) as [u|]; [|exact I]. cbn [snd].
  eapply same_users_inactive; [reflexivity|]. apply put_user_inactive; [exact I|]. reflexivity.
Qed.

Lemma grant_permission_inactive : forall s id0 t p id,
  inactive s id -> inactive (snd (grant_permission s id0 t p)) id.
Proof.
  intros s id0 t p id I. unfold grant_permission. destruct (alookup id0 (st_users s)) as [u|] eqn:L; [|exact I].
  cbn [snd]. apply put_user_inactive; [exact I|]. cbn [u_id u_active]. intro E. subst.
  destruct I as [v [L' A]]. congruence.
Qed.

Lemma revoke_permission_inactive : forall s id0 t id,
  inactive s id -> inactive (snd (revoke_permission s id0 t)) id.
Proof.
  intros s id0 t id I. unfold revoke_permission. destruct (alookup id0 (st_users s)) as [u|] eqn:L; [|exact I].
  cbn [snd]. apply put_user_inactive; [exact I|]. cbn [u_id u_active]. intro E. subst.
  destruct I as [v [L' A]]. congruence.
Qed.

Lemma grant_loop_inactive : forall ts s r w id0 id, inactive s id -> inactive (snd (grant_loop s r w ts id0)) id.
Proof.
  induction ts as [|t ts IH]; intros s r w id0 id I; cbn [grant_loop]; [exact I|].
  destruct (negb (smem t (st_schemas s))); [exact I|].
  destruct (grant_permission s id0 t _) as [[e|] s'] eqn:G; [exact I|].
  apply IH. change s' with (snd (@None auth_err, s')). rewrite <- G. apply grant_permission_inactive. exact I.
Qed.

Lemma revoke_loop_inactive : forall ts s r w id0 id, inactive s id -> inactive (snd (revoke_loop s r w ts id0)) id.
Proof.
  induction ts as [|t ts IH]; intros s r w id0 id I; cbn [revoke_loop]; [exact I|].
  destruct (grant_permission s id0 t _) as [[e|] s'] eqn:G; [exact I|].
  apply IH. change s' with (snd (@None auth_err, s')). rewrite <- G. apply grant_permission_inactive. exact I.
Qed.

Lemma dispatch_inactive : forall s who c k id, inactive s id -> inactive (snd (dispatch s who c k)) id.
Proof.
  intros s who c k id I. destruct c; cbn [dispatch];
    repeat match goal with
    | |- inactive (snd (if ?b then _ else _)) _ => destruct b
    | |- inactive (snd (match ?x with Some _ => _ | None => _ end)) _ => destruct x
    | |- inactive (snd (_, s)) _ => exact I
    end; try exact I;
    try (eapply same_users_inactive; [|exact I]; reflexivity).
  - destruct (create_user s id0 key k _) as [[e|] s'] eqn:C; [exact I|].
    change s' with (snd (@None auth_err, s')). rewrite <- C. apply create_user_inactive. exact I.
  - destruct (revoke_key s id0) as [[e|] s'] eqn:C; [exact I|].
    change s' with (snd (@None auth_err, s')). rewrite <- C. apply revoke_key_keeps_inactive. exact I.
  - apply grant_loop_inactive. exact I.
  - apply revoke_loop_inactive. exact I.
Qed.

Lemma step_inactive : forall s s' id, step s s' -> inactive s id -> inactive s' id.
Proof.
  intros s s' id H I. destruct H.
  - apply create_user_inactive; exact I.
  - apply revoke_key_keeps_inactive; exact I.
  - apply grant_permission_inactive; exact I.
  - apply revoke_permission_inactive; exact I.
  - eapply same_users_inactive; [|exact I]; reflexivity.
  - eapply same_users_inactive; [|exact I]; reflexivity.
  - eapply same_users_inactive; [|exact I]; reflexivity.
  - apply dispatch_inactive; exact I.
  - pose proof (gate_tcp_users hmac cfg s conn line now tok) as [E1 _]. cbn zeta in E1.
    eapply same_users_inactive; eassumption.
  - eapply same_users_inactive; [|exact I]; reflexivity.
Qed.

Lemma reachable_from_inactive : forall s0 s id, reachable_from s0 s -> inactive s0 id -> inactive s id.
Proof. induction 1; intro I; [exact I|]. eapply step_inactive; eauto. Qed.

(** * No account ever carries a reserved id (fix 139a8cf: [validate_user_id] rejects them) *)

Definition no_reserved (s : state) : Prop :=
  forall id, is_reserved_id id = true -> alookup id (st_users s) = None.

Lemma validate_user_id_not_reserved : forall id, validate_user_id id = None -> is_reserved_id id = false.
Proof.
  intros id H. unfold validate_user_id in H.
  destruct (is_nil id); [discriminate|]. destruct (auth_max_user_id_len <? blen id); [discriminate|].
  destruct (negb (forallb id_char_ok id)); [discriminate|].
  change auth_validate_rejects_reserved with true in H. cbn [andb] in H.
  destruct (is_reserved_id id); [discriminate|reflexivity].
Qed.

Lemma put_user_no_reserved : forall s u, no_reserved s -> is_reserved_id (u_id u) = false -> no_reserved (put_user s u).
Proof.
  intros s u N R id H. unfold put_user, set_users_cache. cbn [st_users].
  rewrite alookup_ainsert_other; [apply N; exact H|]. intro E. subst. congruence.
Qed.

Lemma existing_not_reserved : forall s id u, no_reserved s -> alookup id (st_users s) = Some u -> is_reserved_id id = false.
Proof. intros s id u N L. destruct (is_reserved_id id) eqn:E; [|reflexivity]. rewrite (N id E) in L. discriminate. Qed.

Lemma same_users_no_reserved : forall s s', st_users s' = st_users s -> no_reserved s -> no_reserved s'.
Proof. intros s s' E N id H. rewrite E. apply N. exact H. Qed.

Lemma create_user_no_reserved : forall s id key fk roles, no_reserved s -> no_reserved (snd (create_user s id key fk roles)).
Proof.
  intros s id key fk roles N. unfold create_user.
  destruct (validate_user_id id) eqn:V; [exact N|].
  destruct (match key with Some k => _ | None => false end); [exact N|].
  destruct (alookup id (st_users s)); [exact N|]. cbn [snd].
  apply put_user_no_reserved; [exact N|]. cbn [u_id]. apply validate_user_id_not_reserved. exact V.
Qed.

Lemma revoke_key_no_reserved : forall s id, no_reserved s -> no_reserved (snd (revoke_key s id)).
Proof.
  intros s id N. unfold revoke_key. destruct (alookup id (st_users s)) as [u|] eqn:L; [|exact N]. cbn [snd].
  eapply same_users_no_reserved; [reflexivity|]. apply put_user_no_reserved; [exact N|]. cbn [u_id].
  eapply existing_not_reserved; eauto.
Qed.

Lemma grant_permission_no_reserved : forall s id t p, no_reserved s -> no_reserved (snd (grant_permission s id t p)).
Proof.
  intros s id t p N. unfold grant_permission. destruct (alookup id (st_users s)) as [u|] eqn:L; [|exact N]. cbn [snd].
  apply put_user_no_reserved; [exact N|]. cbn [u_id]. eapply existing_not_reserved; eauto.
Qed.

Lemma revoke_permission_no_reserved : forall s id t, no_reserved s -> no_reserved (snd (revoke_permission s id t)).
Proof.
  intros s id t N. unfold revoke_permission. destruct (alookup id (st_users s)) as [u|] eqn:L; [|exact N]. cbn [snd].
  apply put_user_no_reserved; [exact N|]. cbn [u_id]. eapply existing_not_reserved; eauto.
Qed.

Lemma grant_loop_no_reserved : forall ts s r w id, no_reserved s -> no_reserved (snd (grant_loop s r w ts id)).
Proof.
  induction ts as [|t ts IH]; intros s r w id N; cbn [grant_loop]; [exact N|].
  destruct (negb (smem t (st_schemas s))); [exact N|].
  destruct (grant_permission s id t _) as [[e|] s'] eqn:G; [exact N|].
  apply IH. change s' with (snd (@None auth_err, s')). rewrite <- G. apply grant_permission_no_reserved. exact N.
Qed.

Lemma revoke_loop_no_reserved : forall ts s r w id, no_reserved s -> no_reserved (snd (revoke_loop s r w ts id)).
Proof.
  induction ts as [|t ts IH]; intros s r w id N; cbn [revoke_loop]; [exact N|].
  destruct (grant_permission s id t _) as [[e|] s'] eqn:G; [exact N|].
  apply IH. change s' with (snd (@None auth_err, s')). rewrite <- G. apply grant_permission_no_reserved. exact N.
Qed.

Lemma dispatch_no_reserved : forall s who c k, no_reserved s -> no_reserved (snd (dispatch s who c k)).
Proof.
  intros s who c k N. destruct c; cbn [dispatch];
    repeat match goal with
    | |- no_reserved (snd (if ?b then _ else _)) => destruct b
    | |- no_reserved (snd (match ?x with Some _ => _ | None => _ end)) => destruct x
    | |- no_reserved (snd (_, s)) => exact N
    end; try exact N;
    try (eapply same_users_no_reserved; [|exact N]; reflexivity).
  - destruct (create_user s id key k _) as [[e|] s'] eqn:C; [exact N|].
    change s' with (snd (@None auth_err, s')). rewrite <- C. apply create_user_no_reserved. exact N.
  - destruct (revoke_key s id) as [[e|] s'] eqn:C; [exact N|].
    change s' with (snd (@None auth_err, s')). rewrite <- C. apply revoke_key_no_reserved. exact N.
  - apply grant_loop_no_reserved. exact N.
  - apply revoke_loop_no_reserved. exact N.
Qed.

Lemma step_no_reserved : forall s s', step s s' -> no_reserved s -> no_reserved s'.
Proof.
  intros s s' H N. destruct H.
  - apply create_user_no_reserved; exact N.
  - apply revoke_key_no_reserved; exact N.
  - apply grant_permission_no_reserved; exact N.
  - apply revoke_permission_no_reserved; exact N.
  - eapply same_users_no_reserved; [|exact N]; reflexivity.
  - eapply same_users_no_reserved; [|exact N]; reflexivity.
  - eapply same_users_no_reserved; [|exact N]; reflexivity.
  - apply dispatch_no_reserved; exact N.
  - pose proof (gate_tcp_users hmac cfg s conn line now tok) as [E1 _]. cbn zeta in E1.
    eapply same_users_no_reserved; eassumption.
  - eapply same_users_no_reserved; [|exact N]; reflexivity.
Qed.

(** In every reachable state no user record is named "bypass" or "no-auth". *)
Theorem reachable_no_reserved : forall s, reachable s -> no_reserved s.
Proof.
  unfold reachable. induction 1.
  - intros id _. reflexivity.
  - eapply step_no_reserved; eauto.
Qed.

(** Hence, with authentication on, no request is ever attributed to a reserved id: the identity
    for which the handlers skip their checks cannot be obtained through a gate. *)
Theorem gate_never_reserved : forall hmac cfg s conn line now tok,
  reachable s -> auth_on cfg ->
  match fst (fst (gate_tcp hmac cfg s conn line now tok)) with
  | GDispatch _ u => is_reserved_id u = false
  | GAuthOk u => is_reserved_id u = false
  | GReject => True
  end.
Proof.
  intros hmac cfg s conn line now tok R On. pose proof (reachable_no_reserved s R) as N.
  destruct (gate_tcp hmac cfg s conn line now tok) as [[r c'] s''] eqn:G. cbn [fst].
  destruct r as [|au|text du]; [exact I| |].
  - apply auth_sound in G as (u0 & sig & L0 & _); [|exact On]. eapply existing_not_reserved; eauto.
  - apply gate_sound in G as (C & _); [|exact On]. apply credential_active in C as (u0 & L0 & _).
    eapply existing_not_reserved; eauto.
Qed.

Theorem gate_unix_never_reserved : forall hmac cfg s line text uid,
  reachable s -> auth_on cfg -> gate_unix hmac cfg s line = GDispatch text uid -> is_reserved_id uid = false.
Proof.
  intros hmac cfg s line text uid R On G. apply gate_unix_sound in G; [|exact On].
  apply credential_active in G as (u0 & L0 & _). eapply existing_not_reserved; [apply reachable_no_reserved|]; eauto.
Qed.

Theorem gate_http_never_reserved : forall hmac cfg s hdr body text uid,
  reachable s -> auth_on cfg -> gate_http hmac cfg s hdr body = GDispatch text uid -> is_reserved_id uid = false.
Proof.
  intros hmac cfg s hdr body text uid R On G. apply gate_http_sound in G; [|exact On].
  destruct G as [(u & sig & _ & _ & L & _)|(_ & C)].
  - eapply existing_not_reserved; [apply reachable_no_reserved|]; eauto.
  - apply credential_active in C as (u0 & L0 & _). eapply existing_not_reserved; [apply reachable_no_reserved|]; eauto.
Qed.

(** Revoking a key takes effect for the next request — and for every later one, whatever
    happens in between (restart included): nothing is dispatched or AUTH-accepted for the user,
    neither by signature nor by a token issued earlier. *)
Theorem revoke_key_next : forall hmac s id s1 s2 cfg conn line now tok,
  revoke_key s id = (None, s1) -> reachable_from s1 s2 -> auth_on cfg ->
  match fst (fst (gate_tcp hmac cfg s2 conn line now tok)) with
  | GDispatch _ u => u <> id
  | GAuthOk u => u <> id
  | GReject => True
  end.
Proof.
  intros hmac s id s1 s2 cfg conn line now tok R F On. apply inactive_rejected; [exact On|].
  eapply reachable_from_inactive; [exact F|]. eapply revoke_key_inactive. exact R.
Qed.

(** * Permission revocation *)

Definition entry (s : state) (id t : bytes) : option perm :=
  match alookup id (st_users s) with
  | Some u => alookup t (u_perms u)
  | None => None
  end.

Definition roles_of (s : state) (id : bytes) : list bytes :=
  match alookup id (st_users s) with Some u => u_roles u | None => [] end.

Lemma grant_permission_entry : forall s id t p s',
  grant_permission s id t p = (None, s') ->
  entry s' id t = Some p /\ (forall t', t' <> t -> entry s' id t' = entry s id t').
Proof.
  intros s id t p s' H. unfold grant_permission in H.
  destruct (alookup id (st_users s)) as [u|] eqn:L; [|discriminate]. inversion H; subst. clear H.
  unfold entry, put_user, set_users_cache. cbn [st_users u_id]. rewrite alookup_ainsert_same. cbn [u_perms].
  split; [apply alookup_ainsert_same|]. intros t' N. rewrite L. apply alookup_ainsert_other. exact N.
Qed.

Lemma get_permission_entry : forall s id t,
  get_permission s id t = match entry s id t with Some p => p | None => perm_none end.
Proof. intros. unfold get_permission, entry. destruct (alookup id (st_users s)); reflexivity. Qed.

Definition revoked (r w : bool) (o : option perm) : Prop :=
  exists p, o = Some p /\ (r = true -> p_read p = false) /\ (w = true -> p_write p = false).

Lemma revoke_loop_entry : forall ts s r w id s' t,
  revoke_loop s r w ts id = (OExec, s') ->
  (In t ts \/ revoked r w (entry s id t)) -> revoked r w (entry s' id t).
Proof.
  induction ts as [|t0 ts IH]; intros s r w id s' t H C; cbn [revoke_loop] in H.
  - inversion H; subst. destruct C as [[]|C]. exact C.
  - destruct (grant_permission s id t0 _) as [[e|] s1] eqn:G; [discriminate|].
    apply grant_permission_entry in G as [G1 G2].
    apply (IH s1 r w id s' t H).
    destruct (bytes_eqb t t0) eqn:E.
    + beq. subst t0. right. eexists. split; [exact G1|]. cbn [p_read p_write].
      split; intros ->; rewrite andb_false_r; reflexivity.
    + beq. destruct C as [[C|C]|C]; [congruence|left; exact C|]. right. rewrite G2 by exact E. exact C.
Qed.

(** REVOKE takes effect for the next check: once [REVOKE … ON ts FROM id] has been executed,
    write access to a revoked type is left to admins only, read access to admins and reading
    roles only, and after revoking both nothing but the admin role gives access. *)
Theorem revoke_perm_next : forall s who r w ts id k s' t,
  wf s -> dispatch s who (CRevokePerm r w ts id) k = (OExec, s') -> In t ts ->
  (w = true -> can_write (st_cache s') id t = true -> admin_user (st_users s') id) /\
  (r = true -> can_read (st_cache s') id t = true ->
     exists u, alookup id (st_users s') = Some u /\
       (has_role u "admin" \/ has_role u "read-only" \/ has_role u "viewer" \/ has_role u "editor")) /\
  (r = true -> w = true -> can_read (st_cache s') id t = true -> admin_user (st_users s') id).
Proof.
  intros s who r w ts id k s' t W H Hin.
  assert (W' : wf s') by (change s' with (snd (OExec, s')); rewrite <- H; apply dispatch_wf; exact W).
  cbn [dispatch] in H. destruct (hcheck auth_skip_perms who (is_admin (st_cache s))) as [o|] eqn:HC.
  { inversion H; subst. unfold hcheck in HC. destruct who; [destruct (_ || _)|]; discriminate. }
  pose proof (revoke_loop_entry ts s r w id s' t H (or_introl Hin)) as (p & E & Pr & Pw).
  unfold entry in E. destruct (alookup id (st_users s')) as [u|] eqn:L; [|discriminate].
  repeat split.
  - intros -> CW. apply (can_write_spec s' id t W') in CW as (u' & L' & [A|[(p' & E' & Q)|(E' & _)]]);
      rewrite L in L'; inversion L'; subst u'.
    + exists u. auto.
    + rewrite E in E'. inversion E'; subst. rewrite Pw in Q by reflexivity. discriminate.
    + congruence.
  - intros -> CR. apply (can_read_spec s' id t W') in CR as (u' & L' & [A|[(p' & E' & Q)|(A & _)]]);
      rewrite L in L'; inversion L'; subst u'; exists u; (split; [reflexivity|]).
    + auto.
    + rewrite E in E'. inversion E'; subst. rewrite Pr in Q by reflexivity. discriminate.
    + tauto.
  - intros -> -> CR. apply (can_read_spec s' id t W') in CR as (u' & L' & [A|[(p' & E' & Q)|(_ & N)]]);
      rewrite L in L'; inversion L'; subst u'.
    + exists u. auto.
    + rewrite E in E'. inversion E'; subst. rewrite Pr in Q by reflexivity. discriminate.
    + exfalso. apply N. rewrite E. destruct p as [pr pw]. cbn in Pr, Pw.
      rewrite Pr, Pw by reflexivity. reflexivity.
Qed.

(** * The main statement, its refutation and the strongest true variant *)

(** what the declarative policy demands of user [uid] for command [c] *)
Definition needs (s : state) (uid : bytes) (c : cmd) : Prop :=
  match c with
  | CStore t => may_write (st_users s) uid t
  | CQuery q => forall t, In t (q_types q) -> may_read (st_users s) uid t
  | CReplay t present => forall t', In t' (replay_types t present) -> may_read (st_users s) uid t'
  | CCompare qs => forall t, In t (flat_map q_types qs) -> may_read (st_users s) uid t
  | CRemember _ q => forall t, In t (q_types q) -> may_read (st_users s) uid t
  | CShow name => forall t, In t (mat_types s name) -> may_read (st_users s) uid t
  | CFlush => writer_user (st_users s) uid
  | CPing | CBatch => True
  | CDefine _ | CCreateUser _ _ _ | CRevokeKey _ | CListUsers
  | CGrant _ _ _ _ | CRevokePerm _ _ _ _ | CShowPerms _ => admin_user (st_users s) uid
  end.

Definition policy (s : state) (who : option bytes) (c : cmd) : Prop :=
  match c with
  | CPing | CBatch => True
  | _ => exists uid, who = Some uid /\ needs s uid c
  end.

(** C13 as stated: whatever is executed was authorised.  The caller's identity is whatever a gate
    can hand to the dispatcher; since fix 139a8cf that is never the reserved id for which the
    handlers skip their checks ([gate_never_reserved]). *)
Definition authorized_only : Prop :=
  forall s who c k s', reachable s -> who <> Some auth_bypass_id ->
    dispatch s who c k = (OExec, s') -> policy s who c.

(** the known classes of violating inputs (decidable, by command kind only).  After d146031,
    20fee3f, 8e7945c and 79dcefb only SHOW and FLUSH are left. *)
Definition UncheckedShow (c : cmd) : bool := match c with CShow _ => true | _ => false end.
Definition FlushNoRole (c : cmd) : bool := match c with CFlush => true | _ => false end.
Definition KnownClass (c : cmd) : bool := UncheckedShow c || FlushNoRole c.

(** Environment fact carried by the abstract command: the event types stored in a context
    ([present] of a whole-context REPLAY) are defined event types - STORE refuses anything else. *)
Definition cmd_wf (s : state) (c : cmd) : Prop :=
  match c with
  | CReplay None present => forall t, In t present -> smem t (st_schemas s) = true
  | _ => True
  end.

Lemma reserved_id_is_bypass : auth_bypass_id = bs "bypass".
Proof. reflexivity. Qed.

Lemma hcheck_some_not_exec : forall skip who ok o, hcheck skip who ok = Some o -> o <> OExec.
Proof.
  intros skip who ok o H. unfold hcheck in H. destruct who as [u|]; [destruct (_ || _)|];
    inversion H; discriminate.
Qed.

Lemma hcheck_none : forall skip who ok, hcheck skip who ok = None ->
  exists u, who = Some u /\ ((skip = true /\ u = auth_bypass_id) \/ ok u = true).
Proof.
  intros skip who ok H. unfold hcheck in H. destruct who as [u|]; [|discriminate].
  destruct ((skip && bytes_eqb u auth_bypass_id) || ok u) eqn:E; [|discriminate].
  exists u. split; [reflexivity|]. apply orb_true_iff in E as [E|E]; [|right; exact E].
  apply andb_true_iff in E as [E1 E2]. beq. left. auto.
Qed.

Ltac exec_check H :=
  match type of H with
  | (match ?x with Some o => (o, _) | None => _ end) = (OExec, _) =>
      let HC := fresh "HC" in
      destruct x as [?o|] eqn:HC;
      [exfalso; inversion H; subst; eapply hcheck_some_not_exec; [exact HC|reflexivity]|]
  end.

Lemma read_check_pass : forall s who ts, wf s ->
  read_check true (st_cache s) who ts = None ->
  exists u, who = Some u /\ (u = auth_bypass_id \/ forall t, In t ts -> may_read (st_users s) u t).
Proof.
  intros s who ts W H. unfold read_check in H. apply hcheck_none in H as (u & -> & [[_ E]|E]).
  - exists u. auto.
  - exists u. split; [reflexivity|]. right. intros t Hin. rewrite forallb_forall in E.
    apply can_read_spec; [exact W|]. apply E. exact Hin.
Qed.

Theorem outside_known : forall s who c k s',
  wf s -> who <> Some auth_bypass_id -> KnownClass c = false -> cmd_wf s c ->
  dispatch s who c k = (OExec, s') -> policy s who c.
Proof.
  intros s who c k s' W NBy K CW H. unfold KnownClass in K.
  apply orb_false_iff in K as [K2 K3].
  assert (NB : forall u, who = Some u -> true = true -> u <> auth_bypass_id).
  { intros u -> _ E. subst u. apply NBy. reflexivity. }
  destruct c; try discriminate K2; try discriminate K3; cbn [dispatch] in H; cbn [policy needs].
  - (* STORE *)
    change auth_ident_store with true in H. cbv iota in H. exec_check H.
    apply hcheck_none in HC as (u & -> & [[_ E]|E]); [exfalso; eapply NB; eauto; reflexivity|].
    exists u. split; [reflexivity|]. apply can_write_spec; assumption.
  - (* QUERY, sequence queries included (79dcefb) *)
    destruct q as [t seq]. cbn [fst snd] in H.
    destruct (is_blank t); [discriminate|].
    change auth_ident_query with true in H. change auth_query_checks_sequence with true in H. cbv iota in H.
    exec_check H. exec_check H.
    apply hcheck_none in HC as (u & -> & [[_ E]|E]); [exfalso; eapply NB; eauto; reflexivity|].
    apply hcheck_none in HC0 as (u' & Eu & [[_ E']|E']); inversion Eu; subst u';
      [exfalso; eapply NB; eauto; reflexivity|].
    exists u. split; [reflexivity|]. cbn [q_types fst snd]. intros t' [<-|Hin].
    + apply can_read_spec; assumption.
    + rewrite forallb_forall in E'. apply can_read_spec; [exact W|]. apply E'. exact Hin.
  - (* REPLAY (d146031) *)
    change auth_ident_replay with true in H.
    destruct (read_check true (st_cache s) who (match t with Some t0 => [t0] | None => st_schemas s end)) as [o|] eqn:RC.
    { exfalso. inversion H; subst. unfold read_check in RC. eapply hcheck_some_not_exec; [exact RC|reflexivity]. }
    destruct (read_check_pass s who _ W RC) as (u & -> & [E|R]); [exfalso; eapply NB; eauto; reflexivity|].
    exists u. split; [reflexivity|]. intros t' Hin. destruct t as [t0|]; cbn [replay_types] in Hin.
    + apply R. exact Hin.
    + apply R. apply smem_true. apply CW. exact Hin.
  - (* comparison (20fee3f) *)
    change auth_ident_compare with true in H.
    destruct (read_check true (st_cache s) who (flat_map q_types qs)) as [o|] eqn:RC.
    { exfalso. inversion H; subst. unfold read_check in RC. eapply hcheck_some_not_exec; [exact RC|reflexivity]. }
    destruct (read_check_pass s who _ W RC) as (u & -> & [E|R]); [exfalso; eapply NB; eauto; reflexivity|].
    exists u. split; [reflexivity|]. exact R.
  - (* REMEMBER (8e7945c) *)
    change auth_ident_remember with true in H.
    destruct (read_check true (st_cache s) who (q_types q)) as [o|] eqn:RC.
    { exfalso. inversion H; subst. unfold read_check in RC. eapply hcheck_some_not_exec; [exact RC|reflexivity]. }
    destruct (read_check_pass s who _ W RC) as (u & -> & [E|R]); [exfalso; eapply NB; eauto; reflexivity|].
    exists u. split; [reflexivity|]. exact R.
  - (* PING *) exact I.
  - (* DEFINE *)
    change auth_ident_define with true in H. cbv iota in H. exec_check H.
    apply hcheck_none in HC as (u & -> & [[_ E]|E]); [exfalso; eapply NB; eauto; reflexivity|].
    exists u. split; [reflexivity|]. apply is_admin_spec; assumption.
  - (* CREATE USER *)
    destruct (hcheck auth_skip_users who (is_admin (st_cache s))) as [o|] eqn:HC.
    { inversion H; subst. exfalso. eapply hcheck_some_not_exec; eauto. }
    apply hcheck_none in HC as (u & -> & [[_ E]|E]); [exfalso; eapply NB; eauto; reflexivity|].
    exists u. split; [reflexivity|]. apply is_admin_spec; assumption.
  - (* REVOKE KEY *)
    destruct (hcheck auth_skip_users who (is_admin (st_cache s))) as [o|] eqn:HC.
    { inversion H; subst. exfalso. eapply hcheck_some_not_exec; eauto. }
    apply hcheck_none in HC as (u & -> & [[_ E]|E]); [exfalso; eapply NB; eauto; reflexivity|].
    exists u. split; [reflexivity|]. apply is_admin_spec; assumption.
  - (* LIST USERS *)
    exec_check H.
    apply hcheck_none in HC as (u & -> & [[_ E]|E]); [exfalso; eapply NB; eauto; reflexivity|].
    exists u. split; [reflexivity|]. apply is_admin_spec; assumption.
  - (* GRANT *)
    destruct (hcheck auth_skip_perms who (is_admin (st_cache s))) as [o|] eqn:HC.
    { inversion H; subst. exfalso. eapply hcheck_some_not_exec; eauto. }
    apply hcheck_none in HC as (u & -> & [[_ E]|E]); [exfalso; eapply NB; eauto; reflexivity|].
    exists u. split; [reflexivity|]. apply is_admin_spec; assumption.
  - (* REVOKE *)
    destruct (hcheck auth_skip_perms who (is_admin (st_cache s))) as [o|] eqn:HC.
    { inversion H; subst. exfalso. eapply hcheck_some_not_exec; eauto. }
    apply hcheck_none in HC as (u & -> & [[_ E]|E]); [exfalso; eapply NB; eauto; reflexivity|].
    exists u. split; [reflexivity|]. apply is_admin_spec; assumption.
  - (* SHOW PERMISSIONS *)
    destruct (hcheck auth_skip_perms who (is_admin (st_cache s))) as [o|] eqn:HC.
    { inversion H; subst. exfalso. eapply hcheck_some_not_exec; eauto. }
    apply hcheck_none in HC as (u & -> & [[_ E]|E]); [exfalso; eapply NB; eauto; reflexivity|].
    exists u. split; [reflexivity|]. apply is_admin_spec; assumption.
  - (* BATCH *) exact I.
Qed.

(** the commands of the two remaining classes do not depend on the caller's identity at all *)
Lemma no_identity_commands : forall s who who' c k,
  KnownClass c = true -> dispatch s who c k = dispatch s who' c k.
Proof.
  intros s who who' c k H. destruct c; try discriminate H; cbn [dispatch];
    unfold read_check;
    change auth_ident_show with false; change auth_ident_flush with false; reflexivity.
Qed.

(** ** (a) repaired by 139a8cf: the reserved ids cannot be created *)
Theorem reserved_id_rejected : forall s id key fk roles,
  is_reserved_id id = true ->
  create_user s id key fk roles = (Some EInvalidId, s).
Proof.
  intros s id key fk roles R. unfold create_user.
  assert (V : validate_user_id id = Some EInvalidId).
  { unfold validate_user_id. destruct (is_nil id); [reflexivity|].
    unfold is_reserved_id in R. apply orb_true_iff in R as [R|R]; beq; subst id; vm_compute; reflexivity. }
  rewrite V. reflexivity.
Qed.

(** ** Witnesses *)
Definition w_root : option bytes := Some (bs "root").
Definition w_state : state :=
  let s1 := snd (create_user state_empty (bs "root") (Some (bs "rootkey")) [] [bs "admin"]) in
  let s2 := snd (dispatch s1 w_root (CDefine (bs "ta")) []) in
  let s3 := snd (dispatch s2 w_root (CDefine (bs "tb")) []) in
  let s5 := snd (dispatch s3 w_root (CCreateUser (bs "rd") (Some (bs "k1")) None) []) in
  let s6 := snd (dispatch s5 w_root (CGrant true false [bs "ta"] (bs "rd")) []) in
  snd (dispatch s6 w_root (CRemember (bs "mb") (bs "tb", [])) []).

Lemma w_state_reachable : reachable w_state.
Proof.
  unfold w_state, reachable. cbv zeta.
  repeat (eapply rf_step; [|apply st_dispatch]). eapply rf_step; [apply rf_refl|apply st_create].
Qed.

Lemma w_state_wf : wf w_state.
Proof. apply reachable_wf. apply w_state_reachable. Qed.

Lemma not_admin : forall uid, is_admin (st_cache w_state) uid = false -> ~ admin_user (st_users w_state) uid.
Proof. intros uid H A. apply (is_admin_spec _ _ w_state_wf) in A. congruence. Qed.
Lemma not_reader : forall uid t, can_read (st_cache w_state) uid t = false -> ~ may_read (st_users w_state) uid t.
Proof. intros uid t H A. apply (can_read_spec _ _ _ w_state_wf) in A. congruence. Qed.
Lemma not_writer : forall uid, writer_role (st_cache w_state) uid = false -> ~ writer_user (st_users w_state) uid.
Proof. intros uid H A. apply (writer_role_spec _ _ w_state_wf) in A. congruence. Qed.

(** (b) SHOW: user "rd" (READ on "ta" only) is shown a materialisation of "tb" rows *)
Lemma refute_show :
  exists s', dispatch w_state (Some (bs "rd")) (CShow (bs "mb")) [] = (OExec, s')
  /\ UncheckedShow (CShow (bs "mb")) = true
  /\ ~ policy w_state (Some (bs "rd")) (CShow (bs "mb")).
Proof.
  eexists. split; [vm_compute; reflexivity|]. split; [reflexivity|].
  intros (uid & E & A). inversion E; subst uid. cbn [needs] in A.
  specialize (A (bs "tb")).
  assert (In (bs "tb") (mat_types w_state (bs "mb"))) as HI by (vm_compute; left; reflexivity).
  apply A in HI. revert HI. apply not_reader. vm_compute. reflexivity.
Qed.

Lemma refute_flush :
  exists s', dispatch w_state (Some (bs "rd")) CFlush [] = (OExec, s')
  /\ FlushNoRole CFlush = true /\ ~ policy w_state (Some (bs "rd")) CFlush.
Proof.
  eexists. split; [vm_compute; reflexivity|]. split; [reflexivity|].
  intros (uid & E & A). inversion E; subst uid. revert A. apply not_writer. vm_compute. reflexivity.
Qed.

Definition rd_is_not_bypass : Some (bs "rd") <> Some auth_bypass_id.
Proof. discriminate. Qed.

Theorem authorized_only_refuted :
  ~ authorized_only /\
  (exists s who c k s', reachable s /\ who <> Some auth_bypass_id /\ dispatch s who c k = (OExec, s') /\ UncheckedShow c = true /\ ~ policy s who c) /\
  (exists s who c k s', reachable s /\ who <> Some auth_bypass_id /\ dispatch s who c k = (OExec, s') /\ FlushNoRole c = true /\ ~ policy s who c).
Proof.
  split; [|split].
  - intro A. destruct refute_flush as (s' & D & _ & N). apply N.
    eapply A; [apply w_state_reachable|apply rd_is_not_bypass|exact D].
  - destruct refute_show as (s' & D & K & N). do 5 eexists. split; [apply w_state_reachable|]. split; [apply rd_is_not_bypass|]. eauto.
  - destruct refute_flush as (s' & D & K & N). do 5 eexists. split; [apply w_state_reachable|]. split; [apply rd_is_not_bypass|]. eauto.
Qed.

(** The former witnesses of the repaired classes are refused now: "rd" holds READ on "ta" only
    ("ta" and "tb" are defined).  Whole-context REPLAY needs every defined type. *)
Example repaired_witnesses :
  fst (dispatch w_state (Some (bs "rd")) (CReplay None [bs "ta"; bs "tb"]) []) = O403 /\
  fst (dispatch w_state (Some (bs "rd")) (CReplay None [bs "ta"]) []) = O403 /\
  fst (dispatch w_state (Some (bs "rd")) (CReplay (Some (bs "tb")) [bs "ta"; bs "tb"]) []) = O403 /\
  fst (dispatch w_state (Some (bs "rd")) (CReplay (Some (bs "ta")) [bs "ta"; bs "tb"]) []) = OExec /\
  fst (dispatch w_state None (CReplay (Some (bs "ta")) [bs "ta"]) []) = O401 /\
  fst (dispatch w_state w_root (CReplay None [bs "ta"; bs "tb"]) []) = OExec /\
  fst (dispatch w_state (Some (bs "rd")) (CRemember (bs "m2") (bs "tb", [])) []) = O403 /\
  fst (dispatch w_state (Some (bs "rd")) (CRemember (bs "m2") (bs "ta", [])) []) = OExec /\
  fst (dispatch w_state (Some (bs "rd")) (CCompare [(bs "ta", []); (bs "tb", [])]) []) = O403 /\
  fst (dispatch w_state (Some (bs "rd")) (CCompare [(bs "ta", []); (bs "ta", [])]) []) = OExec /\
  fst (dispatch w_state (Some (bs "rd")) (CQuery (bs "ta", [bs "tb"])) []) = O403 /\
  fst (dispatch w_state (Some (bs "rd")) (CQuery (bs "ta", [bs "ta"])) []) = OExec.
Proof. repeat split; vm_compute; reflexivity. Qed.

(** the hypotheses of [outside_known] are satisfiable *)
Example outside_known_inhabited :
  KnownClass (CQuery (bs "ta", [])) = false /\
  KnownClass (CReplay None [bs "ta"]) = false /\ cmd_wf w_state (CReplay None [bs "ta"; bs "tb"]) /\
  fst (dispatch w_state (Some (bs "rd")) (CQuery (bs "ta", [])) []) = OExec /\
  fst (dispatch w_state (Some (bs "rd")) (CQuery (bs "tb", [])) []) = O403 /\
  fst (dispatch w_state (Some (bs "rd")) (CStore (bs "ta")) []) = O403 /\
  fst (dispatch w_state None (CStore (bs "ta")) []) = O401 /\
  dispatch w_state w_root (CCreateUser (bs "bypass") (Some (bs "kb")) (Some [bs "admin"])) [] = (O400, w_state) /\
  dispatch w_state w_root (CCreateUser (bs "no-auth") (Some (bs "kb")) None) [] = (O400, w_state).
Proof.
  repeat split; try (vm_compute; reflexivity).
  intros t [<-|[<-|[]]]; vm_compute; reflexivity.
Qed.

(** The four command kinds that used to be known classes, spelled out: an executed REPLAY,
    REMEMBER, comparison or (sequence) query was issued by a user who may read every event type
    it reads. *)
Theorem read_commands_checked : forall s u c k s',
  wf s -> u <> auth_bypass_id -> cmd_wf s c ->
  match c with CReplay _ _ | CRemember _ _ | CCompare _ | CQuery _ => True | _ => False end ->
  dispatch s (Some u) c k = (OExec, s') -> needs s u c.
Proof.
  intros s u c k s' W N CW Kd H.
  assert (P : policy s (Some u) c).
  { eapply outside_known; eauto; [intro E; inversion E; contradiction|]. destruct c; try contradiction; reflexivity. }
  destruct c; try contradiction; destruct P as (u' & E & P); inversion E; subst; exact P.
Qed.

(** * End to end: a TCP line that gets a command executed *)
Section EndToEnd.
  Variable hmac : bytes -> bytes -> bytes.
  Variable parse : bytes -> option cmd.

  (** Every executed command came with a credential of the executing user, who is not a
      reserved id, and - outside the known classes - was entitled to it. *)
  Theorem served_outside_known : forall cfg s conn line now tok key c uid conn' s',
    reachable s -> auth_on cfg ->
    serve_tcp hmac parse cfg s conn line now tok key = (SOut c uid OExec, conn', s') ->
    exists text, credential hmac s conn now line text uid /\ parse text = Some c /\
                 is_reserved_id uid = false /\
                 (KnownClass c = false -> cmd_wf s c -> policy s (Some uid) c).
  Proof.
    intros cfg s conn line now tok key c uid conn' s' R On H. unfold serve_tcp in H.
    pose proof (gate_never_reserved hmac cfg s conn line now tok R On) as NR.
    destruct (gate_tcp hmac cfg s conn line now tok) as [[r c1] s1] eqn:G. cbn [fst] in NR.
    unfold after_gate in H. destruct r as [|au|text du]; try (inversion H; fail).
    destruct (parse text) as [c0|] eqn:P; [|inversion H].
    destruct (dispatch s1 (Some du) c0 key) as [o s2] eqn:D. inversion H; subst. clear H.
    apply gate_sound in G as (C & _ & ->); [|exact On].
    exists text. split; [exact C|]. split; [exact P|]. split; [exact NR|].
    intros K CW. eapply outside_known; eauto; [apply reachable_wf; exact R|].
    intro E. inversion E; subst. vm_compute in NR. discriminate.
  Qed.

  Theorem served_unix_outside_known : forall cfg s line key c uid s',
    reachable s -> auth_on cfg ->
    serve_unix hmac parse cfg s line key = (SOut c uid OExec, s') ->
    is_reserved_id uid = false /\ (KnownClass c = false -> cmd_wf s c -> policy s (Some uid) c).
  Proof.
    intros cfg s line key c uid s' R On H. unfold serve_unix, after_gate in H.
    destruct (gate_unix hmac cfg s line) as [|au|text du] eqn:G; try (inversion H; fail).
    destruct (parse text) as [c0|]; [|inversion H].
    destruct (dispatch s (Some du) c0 key) as [o s2] eqn:D. inversion H; subst. clear H.
    pose proof (gate_unix_never_reserved _ _ _ _ _ _ R On G) as NR. split; [exact NR|].
    intros K CW. eapply outside_known; eauto; [apply reachable_wf; exact R|].
    intro E. inversion E; subst. vm_compute in NR. discriminate.
  Qed.

  Theorem served_http_outside_known : forall cfg s hdr body key c uid s',
    reachable s -> auth_on cfg ->
    serve_http hmac parse cfg s hdr body key = (SOut c uid OExec, s') ->
    is_reserved_id uid = false /\ (KnownClass c = false -> cmd_wf s c -> policy s (Some uid) c).
  Proof.
    intros cfg s hdr body key c uid s' R On H. unfold serve_http, after_gate in H.
    destruct (gate_http hmac cfg s hdr body) as [|au|text du] eqn:G; try (inversion H; fail).
    destruct (parse text) as [c0|]; [|inversion H].
    destruct (dispatch s (Some du) c0 key) as [o s2] eqn:D. inversion H; subst. clear H.
    pose proof (gate_http_never_reserved _ _ _ _ _ _ _ R On G) as NR. split; [exact NR|].
    intros K CW. eapply outside_known; eauto; [apply reachable_wf; exact R|].
    intro E. inversion E; subst. vm_compute in NR. discriminate.
  Qed.
End EndToEnd.

(** satisfiability of the gate theorems' hypotheses, with a toy keyed function for [hmac] *)
Definition toy_hmac (k m : bytes) : bytes := k ++ [35] ++ m.
Definition cfg_on : gate_cfg := mkCfg false true 300.

Example gate_dispatches :
  let line := bs "rd:k1#PING:PING" in
  fst (fst (gate_tcp toy_hmac cfg_on w_state None line 10 (bs "tok"))) = GDispatch (bs "PING") (bs "rd") /\
  fst (fst (gate_tcp toy_hmac cfg_on w_state None (bs "rd:k1#PINg:PING") 10 (bs "tok"))) = GReject /\
  fst (fst (gate_tcp toy_hmac cfg_on w_state None (bs "AUTH rd:k1#rd") 10 (bs "tok"))) = GAuthOk (bs "rd") /\
  (let s1 := snd (gate_tcp toy_hmac cfg_on w_state None (bs "AUTH rd:k1#rd") 10 (bs "tok")) in
   fst (fst (gate_tcp toy_hmac cfg_on s1 None (bs "PING TOKEN tok") 310 [])) = GDispatch (bs "PING") (bs "rd") /\
   fst (fst (gate_tcp toy_hmac cfg_on s1 None (bs "PING TOKEN tok") 311 [])) = GReject /\
   fst (fst (gate_tcp toy_hmac cfg_on s1 (Some (bs "rd")) (bs "k1#PING: PING ") 10 [])) = GDispatch (bs "PING") (bs "rd")).
Proof. cbv zeta. repeat split; vm_compute; reflexivity. Qed.

Example revoke_key_inhabited :
  exists s1, revoke_key w_state (bs "rd") = (None, s1) /\
    fst (fst (gate_tcp toy_hmac cfg_on s1 None (bs "rd:k1#PING:PING") 10 [])) = GReject.
Proof. eexists. split; vm_compute; reflexivity. Qed.

Example revoke_perm_inhabited :
  exists s', dispatch w_state w_root (CRevokePerm true false [bs "ta"] (bs "rd")) [] = (OExec, s') /\
    can_read (st_cache w_state) (bs "rd") (bs "ta") = true /\ can_read (st_cache s') (bs "rd") (bs "ta") = false.
Proof. eexists. repeat split; vm_compute; reflexivity. Qed.

(** * The statements of Props/C13.v, over reachable states *)
Theorem can_read_reachable : forall s uid t, reachable s ->
  (can_read (st_cache s) uid t = true <-> may_read (st_users s) uid t).
Proof. intros. apply can_read_spec. apply reachable_wf. assumption. Qed.

Theorem can_write_reachable : forall s uid t, reachable s ->
  (can_write (st_cache s) uid t = true <-> may_write (st_users s) uid t).
Proof. intros. apply can_write_spec. apply reachable_wf. assumption. Qed.

Theorem revoke_perm_reachable : forall s who r w ts id k s' t,
  reachable s -> dispatch s who (CRevokePerm r w ts id) k = (OExec, s') -> In t ts ->
  (w = true -> can_write (st_cache s') id t = true -> admin_user (st_users s') id) /\
  (r = true -> can_read (st_cache s') id t = true ->
     exists u, alookup id (st_users s') = Some u /\
       (has_role u "admin" \/ has_role u "read-only" \/ has_role u "viewer" \/ has_role u "editor")) /\
  (r = true -> w = true -> can_read (st_cache s') id t = true -> admin_user (st_users s') id).
Proof. intros. eapply revoke_perm_next; eauto. apply reachable_wf. assumption. Qed.

Theorem outside_known_reachable : forall s who c k s',
  reachable s -> who <> Some auth_bypass_id -> KnownClass c = false -> cmd_wf s c ->
  dispatch s who c k = (OExec, s') -> policy s who c.
Proof. intros. eapply outside_known; eauto. apply reachable_wf. assumption. Qed.

Theorem read_commands_reachable : forall s u c k s',
  reachable s -> u <> auth_bypass_id -> cmd_wf s c ->
  match c with CReplay _ _ | CRemember _ _ | CCompare _ | CQuery _ => True | _ => False end ->
  dispatch s (Some u) c k = (OExec, s') -> needs s u c.
Proof. intros. eapply read_commands_checked; eauto. apply reachable_wf. assumption. Qed.

(** * GRANT / REVOKE naming several event types *)

(** one more single-type GRANT after what has been done so far *)
Definition then_grant (r w : bool) (id : bytes) (acc : outcome * state) (t : bytes) : outcome * state :=
  match acc with
  | (OExec, s) => grant_loop s r w [t] id
  | other => other
  end.
Definition then_revoke (r w : bool) (id : bytes) (acc : outcome * state) (t : bytes) : outcome * state :=
  match acc with
  | (OExec, s) => revoke_loop s r w [t] id
  | other => other
  end.

Lemma fold_then_grant_stuck : forall r w id ts o s, o <> OExec ->
  fold_left (then_grant r w id) ts (o, s) = (o, s).
Proof. induction ts as [|t ts IH]; intros o s N; cbn [fold_left]; [reflexivity|]. destruct o; try contradiction; apply IH; discriminate. Qed.
Lemma fold_then_revoke_stuck : forall r w id ts o s, o <> OExec ->
  fold_left (then_revoke r w id) ts (o, s) = (o, s).
Proof. induction ts as [|t ts IH]; intros o s N; cbn [fold_left]; [reflexivity|]. destruct o; try contradiction; apply IH; discriminate. Qed.

(** A GRANT over several event types is the sequence of the single-type GRANTs, each one
    reading the permissions the previous ones left (and stopping at the first that fails). *)
Theorem grant_many_eq_fold : forall ts s r w id,
  grant_loop s r w ts id = fold_left (then_grant r w id) ts (OExec, s).
Proof.
  induction ts as [|t ts IH]; intros s r w id; [reflexivity|].
  cbn [fold_left then_grant]. cbn [grant_loop].
  destruct (negb (smem t (st_schemas s))).
  - symmetry. apply fold_then_grant_stuck. discriminate.
  - destruct (grant_permission s id t _) as [[e|] s'].
    + symmetry. apply fold_then_grant_stuck. discriminate.
    + apply IH.
Qed.

Theorem revoke_many_eq_fold : forall ts s r w id,
  revoke_loop s r w ts id = fold_left (then_revoke r w id) ts (OExec, s).
Proof.
  induction ts as [|t ts IH]; intros s r w id; [reflexivity|].
  cbn [fold_left then_revoke]. cbn [revoke_loop].
  destruct (grant_permission s id t _) as [[e|] s'].
  - symmetry. apply fold_then_revoke_stuck. discriminate.
  - apply IH.
Qed.

Definition bytes_eq_dec : forall a b : bytes, {a = b} + {a <> b} := list_eq_dec N.eq_dec.

Lemma get_permission_after : forall s id t0 p s' t,
  grant_permission s id t0 p = (None, s') ->
  get_permission s' id t = if bytes_eqb t t0 then p else get_permission s id t.
Proof.
  intros s id t0 p s' t G. apply grant_permission_entry in G as [G1 G2]. rewrite !get_permission_entry.
  destruct (bytes_eqb t t0) eqn:E; beq.
  - subst. rewrite G1. reflexivity.
  - rewrite G2 by exact E. reflexivity.
Qed.

(** After an executed multi-type GRANT every listed type holds exactly what it held before plus
    the granted permissions — whatever the user holds on the other listed types, in whatever
    order they are listed, listed once or several times — and every other type is untouched. *)
Theorem grant_many_entry : forall ts s r w id s',
  grant_loop s r w ts id = (OExec, s') ->
  (forall t, In t ts ->
     entry s' id t = Some (mkPerm (p_read (get_permission s id t) || r) (p_write (get_permission s id t) || w))) /\
  (forall t, ~ In t ts -> entry s' id t = entry s id t).
Proof.
  induction ts as [|t0 ts IH]; intros s r w id s' H; cbn [grant_loop] in H.
  - inversion H; subst. split; [intros t []|reflexivity].
  - destruct (negb (smem t0 (st_schemas s))); [discriminate|].
    destruct (grant_permission s id t0 _) as [[e|] s1] eqn:G; [discriminate|].
    destruct (IH s1 r w id s' H) as [I1 I2].
    pose proof (grant_permission_entry _ _ _ _ _ G) as [G1 G2].
    split.
    + intros t Hin. destruct (in_dec bytes_eq_dec t ts) as [Hts|Hts].
      * rewrite (I1 t Hts). rewrite (get_permission_after _ _ _ _ _ t G).
        destruct (bytes_eqb t t0) eqn:E; [|reflexivity]. beq. subst t0. cbn [p_read p_write].
        rewrite <- !orb_assoc, !orb_diag. reflexivity.
      * destruct Hin as [<-|Hin]; [|contradiction]. rewrite (I2 t0 Hts). exact G1.
    + intros t Hn. rewrite I2 by (intro C; apply Hn; right; exact C).
      apply G2. intro C. apply Hn. left. congruence.
Qed.

Theorem revoke_many_entry : forall ts s r w id s',
  revoke_loop s r w ts id = (OExec, s') ->
  (forall t, In t ts ->
     entry s' id t = Some (mkPerm (p_read (get_permission s id t) && negb r) (p_write (get_permission s id t) && negb w))) /\
  (forall t, ~ In t ts -> entry s' id t = entry s id t).
Proof.
  induction ts as [|t0 ts IH]; intros s r w id s' H; cbn [revoke_loop] in H.
  - inversion H; subst. split; [intros t []|reflexivity].
  - destruct (grant_permission s id t0 _) as [[e|] s1] eqn:G; [discriminate|].
    destruct (IH s1 r w id s' H) as [I1 I2].
    pose proof (grant_permission_entry _ _ _ _ _ G) as [G1 G2].
    split.
    + intros t Hin. destruct (in_dec bytes_eq_dec t ts) as [Hts|Hts].
      * rewrite (I1 t Hts). rewrite (get_permission_after _ _ _ _ _ t G).
        destruct (bytes_eqb t t0) eqn:E; [|reflexivity]. beq. subst t0. cbn [p_read p_write].
        rewrite <- !andb_assoc, !andb_diag. reflexivity.
      * destruct Hin as [<-|Hin]; [|contradiction]. rewrite (I2 t0 Hts). exact G1.
    + intros t Hn. rewrite I2 by (intro C; apply Hn; right; exact C).
      apply G2. intro C. apply Hn. left. congruence.
Qed.

(** granting a permission does not change who is an admin, so the handler's admin check gives
    the same answer before every step of the loop *)
Lemma grant_permission_is_admin : forall s id t p s' x, wf s ->
  grant_permission s id t p = (None, s') -> is_admin (st_cache s') x = is_admin (st_cache s) x.
Proof.
  intros s id t p s' x W G. unfold grant_permission in G.
  destruct (alookup id (st_users s)) as [u|] eqn:L; [|discriminate]. inversion G; subst. clear G.
  unfold is_admin, put_user, set_users_cache. cbn [st_cache].
  set (u' := mkUser id (u_key u) (u_active u) (u_roles u) (ainsert t p (u_perms u))).
  destruct (bytes_eqb x id) eqn:E; beq.
  - subst x. pose proof (update_user_at (st_cache s) u') as (A & _). cbn [u_id u'] in A. cbn zeta in A.
    rewrite A. cbn [u_roles u']. pose proof (wf_sync s W id) as S. rewrite L in S. destruct S as (S & _). symmetry. exact S.
  - pose proof (update_user_other (st_cache s) u' x) as (A & _); [cbn; exact E|]. exact A.
Qed.

Theorem dispatch_grant_many : forall s who r w t ts id k, reachable s ->
  dispatch s who (CGrant r w (t :: ts) id) k =
  match dispatch s who (CGrant r w [t] id) k with
  | (OExec, s') => dispatch s' who (CGrant r w ts id) k
  | other => other
  end.
Proof.
  intros s who r w t ts id k R. pose proof (reachable_wf s R) as W. cbn [dispatch].
  destruct (hcheck auth_skip_perms who (is_admin (st_cache s))) as [o|] eqn:HC.
  { pose proof (hcheck_some_not_exec _ _ _ _ HC) as N. destruct o; try reflexivity. contradiction. }
  cbn [grant_loop]. destruct (negb (smem t (st_schemas s))); [reflexivity|].
  destruct (grant_permission s id t _) as [[e|] s1] eqn:G; [reflexivity|].
  assert (HC' : hcheck auth_skip_perms who (is_admin (st_cache s1)) = None).
  { unfold hcheck in *. destruct who as [u|]; [|discriminate].
    rewrite (grant_permission_is_admin _ _ _ _ _ u W G). exact HC. }
  rewrite HC'. reflexivity.
Qed.

Example grant_many_inhabited :
  (* "rd" holds READ on ta; GRANT WRITE ON tb, ta leaves tb with WRITE only and ta with both *)
  exists s', dispatch w_state w_root (CGrant false true [bs "tb"; bs "ta"] (bs "rd")) [] = (OExec, s') /\
    entry s' (bs "rd") (bs "tb") = Some (mkPerm false true) /\
    entry s' (bs "rd") (bs "ta") = Some (mkPerm true true).
Proof. eexists. repeat split; vm_compute; reflexivity. Qed.

(** * Frame property: only CREATE USER and REVOKE KEY touch an account's [active] flag *)

Definition active_of (s : state) (id : bytes) : option bool :=
  match alookup id (st_users s) with Some u => Some (u_active u) | None => None end.

Lemma put_user_active_of : forall s u id,
  active_of (put_user s u) id = if bytes_eqb id (u_id u) then Some (u_active u) else active_of s id.
Proof.
  intros s u id. unfold active_of, put_user, set_users_cache. cbn [st_users].
  destruct (bytes_eqb id (u_id u)) eqn:E; beq.
  - subst. rewrite alookup_ainsert_same. reflexivity.
  - rewrite alookup_ainsert_other by exact E. reflexivity.
Qed.

(** the manager-level permission operations keep every account's flag *)
Theorem grant_permission_keeps_active : forall s id0 t p id,
  active_of (snd (grant_permission s id0 t p)) id = active_of s id.
Proof.
  intros s id0 t p id. unfold grant_permission.
  destruct (alookup id0 (st_users s)) as [u|] eqn:L; [|reflexivity]. cbn [snd].
  rewrite put_user_active_of. cbn [u_id u_active].
  destruct (bytes_eqb id id0) eqn:E; [|reflexivity]. beq. subst. unfold active_of. rewrite L. reflexivity.
Qed.

Theorem revoke_permission_keeps_active : forall s id0 t id,
  active_of (snd (revoke_permission s id0 t)) id = active_of s id.
Proof.
  intros s id0 t id. unfold revoke_permission.
  destruct (alookup id0 (st_users s)) as [u|] eqn:L; [|reflexivity]. cbn [snd].
  rewrite put_user_active_of. cbn [u_id u_active].
  destruct (bytes_eqb id id0) eqn:E; [|reflexivity]. beq. subst. unfold active_of. rewrite L. reflexivity.
Qed.

Lemma grant_loop_keeps_active : forall ts s r w id0 id,
  active_of (snd (grant_loop s r w ts id0)) id = active_of s id.
Proof.
  induction ts as [|t ts IH]; intros s r w id0 id; cbn [grant_loop]; [reflexivity|].
  destruct (negb (smem t (st_schemas s))); [reflexivity|].
  destruct (grant_permission s id0 t _) as [[e|] s'] eqn:G; [reflexivity|].
  rewrite IH. change s' with (snd (@None auth_err, s')). rewrite <- G. apply grant_permission_keeps_active.
Qed.

Lemma revoke_loop_keeps_active : forall ts s r w id0 id,
  active_of (snd (revoke_loop s r w ts id0)) id = active_of s id.
Proof.
  induction ts as [|t ts IH]; intros s r w id0 id; cbn [revoke_loop]; [reflexivity|].
  destruct (grant_permission s id0 t _) as [[e|] s'] eqn:G; [reflexivity|].
  rewrite IH. change s' with (snd (@None auth_err, s')). rewrite <- G. apply grant_permission_keeps_active.
Qed.

(** what CREATE USER and REVOKE KEY do to the flag *)
Lemma create_user_active_of : forall s id0 key fk roles id,
  active_of (snd (create_user s id0 key fk roles)) id = active_of s id \/
  (id = id0 /\ active_of s id = None /\ active_of (snd (create_user s id0 key fk roles)) id = Some true).
Proof.
  intros s id0 key fk roles id. unfold create_user.
  destruct (validate_user_id id0); [left; reflexivity|].
  destruct (match key with Some k => _ | None => false end); [left; reflexivity|].
  destruct (alookup id0 (st_users s)) eqn:L; [left; reflexivity|]. cbn [snd].
  rewrite put_user_active_of. cbn [u_id u_active].
  destruct (bytes_eqb id id0) eqn:E; [|left; reflexivity]. beq. subst. right.
  repeat split. unfold active_of. rewrite L. reflexivity.
Qed.

Lemma revoke_key_active_of : forall s id0 id,
  active_of (snd (revoke_key s id0)) id = active_of s id \/
  (id = id0 /\ active_of (snd (revoke_key s id0)) id = Some false).
Proof.
  intros s id0 id. unfold revoke_key. destruct (alookup id0 (st_users s)) as [u|]; [|left; reflexivity]. cbn [snd].
  change (active_of (set_sessions ?a ?b) id) with (active_of a id).
  rewrite put_user_active_of. cbn [u_id u_active].
  destruct (bytes_eqb id id0) eqn:E; [|left; reflexivity]. beq. subst. right. split; reflexivity.
Qed.

(** Every command: the flag of account [id] is unchanged, unless the command is an executed
    CREATE USER [id] (absent -> active) or REVOKE KEY [id] (-> inactive).  In particular GRANT,
    REVOKE (any number of event types), DEFINE, STORE, … never change it. *)
Theorem dispatch_active_frame : forall s who c k id,
  let s' := snd (dispatch s who c k) in
  active_of s' id = active_of s id \/
  (exists key roles, c = CCreateUser id key roles /\ active_of s id = None /\ active_of s' id = Some true) \/
  (c = CRevokeKey id /\ active_of s' id = Some false).
Proof.
  intros s who c k id. cbn zeta. destruct c; cbn [dispatch];
    repeat match goal with
    | |- context [snd (if ?b then _ else _)] => destruct b
    | |- context [snd (match ?x with Some _ => _ | None => _ end)] => destruct x
    end; try (left; reflexivity).
  - destruct (create_user s id0 key k _) as [[e|] s'] eqn:C; [left; reflexivity|]. cbn [snd].
    pose proof (create_user_active_of s id0 key k (match roles with Some r => r | None => [] end) id) as [H|(E & H1 & H2)];
      rewrite C in *; cbn [snd] in *; [left; exact H|]. subst. right. left. eauto.
  - destruct (revoke_key s id0) as [[e|] s'] eqn:C; [left; reflexivity|]. cbn [snd].
    pose proof (revoke_key_active_of s id0 id) as [H|(E & H)]; rewrite C in *; cbn [snd] in *; [left; exact H|].
    subst. right. right. auto.
  - left. apply grant_loop_keeps_active.
  - left. apply revoke_loop_keeps_active.
Qed.

Theorem perm_commands_keep_active : forall s who r w ts uid k id,
  active_of (snd (dispatch s who (CGrant r w ts uid) k)) id = active_of s id /\
  active_of (snd (dispatch s who (CRevokePerm r w ts uid) k)) id = active_of s id.
Proof.
  intros. split.
  - destruct (dispatch_active_frame s who (CGrant r w ts uid) k id) as [H|[(key & roles & E & _)|(E & _)]];
      [exact H|discriminate|discriminate].
  - destruct (dispatch_active_frame s who (CRevokePerm r w ts uid) k id) as [H|[(key & roles & E & _)|(E & _)]];
      [exact H|discriminate|discriminate].
Qed.

(** Over every step of every history (gates, sessions, restart included): a flag only ever goes
    absent -> active (account created) or -> inactive (key revoked); never inactive -> active. *)
Theorem step_active_frame : forall s s' id, step s s' ->
  active_of s' id = active_of s id \/
  (active_of s id = None /\ active_of s' id = Some true) \/
  active_of s' id = Some false.
Proof.
  intros s s' id H. destruct H.
  - destruct (create_user_active_of s id0 key fk roles id) as [E|(_ & E1 & E2)]; auto.
  - destruct (revoke_key_active_of s id0 id) as [E|(_ & E)]; auto.
  - left. apply grant_permission_keeps_active.
  - left. apply revoke_permission_keeps_active.
  - left. reflexivity.
  - left. reflexivity.
  - left. reflexivity.
  - destruct (dispatch_active_frame s who c k id) as [E|[(key & roles & _ & E1 & E2)|(_ & E)]]; auto.
  - left. pose proof (gate_tcp_users hmac cfg s conn line now tok) as [E1 _]. cbn zeta in E1.
    unfold active_of. rewrite E1. reflexivity.
  - left. reflexivity.
Qed.

Theorem never_reactivated : forall s0 s id, reachable_from s0 s ->
  active_of s0 id = Some false -> active_of s id = Some false.
Proof.
  intros s0 s id R. induction R as [|s s' R IH St]; intro A0; [exact A0|]. specialize (IH A0).
  destruct (step_active_frame s s' id St) as [E|[(E & _)|E]]; congruence.
Qed.
