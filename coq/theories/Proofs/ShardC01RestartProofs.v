(** C01, continued: a kill of the QUIESCENT process followed by a restart keeps the
    WAL-file-id / segment-id lockstep of Model/Shard.v, so histories made of
    lockstep lifetimes separated by quiescent kill/restart cycles lose nothing.

    Quiescent: no flush job queued or running, the WAL thread has drained its
    queue and rotated after a filling write, the writer's file is not unlinked. *)
From Coq Require Import NArith List Bool Lia.
From Coq Require Import ZifyBool ZifyNat ZifyN.
From Snel Require Import Model.Shard Proofs.ShardC01Proofs.
Import ListNotations.
Open Scope N_scope.

(** * Lists: dropping a prefix *)

Definition drop (n : N) (l : list event) : list event := skipn (N.to_nat n) l.

Lemma drop_snoc : forall n l x, n <= len l -> drop n (l ++ [x]) = drop n l ++ [x].
Proof.
  unfold drop, len; intros n l x H. rewrite skipn_app.
  replace (N.to_nat n - length l)%nat with 0%nat by lia. reflexivity.
Qed.

Lemma drop_all : forall n l, len l <= n -> drop n l = [].
Proof. unfold drop, len; intros n l H. apply skipn_all2. lia. Qed.

Lemma drop_len : forall n l, len (drop n l) = len l - n.
Proof. unfold drop, len; intros n l. rewrite skipn_length. lia. Qed.

Lemma nth_skipn_In : forall k (l : list event) i e,
  nth_error l i = Some e -> (k <= i)%nat -> In e (skipn k l).
Proof.
  induction k as [|k IH]; intros l i e H L; cbn [skipn]; [eapply nth_error_In, H|].
  destruct l as [|x r]; [destruct i; discriminate H|].
  destruct i as [|i]; [lia|]. cbn [nth_error] in H. apply (IH r i e H). lia.
Qed.

Lemma drop_at_pos : forall n l i e, at_pos l i e -> n <= i -> In e (drop n l).
Proof. unfold drop, at_pos; intros n l i e H L. eapply nth_skipn_In; [exact H|lia]. Qed.

(** * Log files: lookup, strictly increasing ids *)

Fixpoint wal_get (files : list (N * list event)) (id : N) : list event :=
  match files with
  | [] => []
  | (i, es) :: r => if i =? id then es else wal_get r id
  end.

Fixpoint ids_sorted (files : list (N * list event)) : Prop :=
  match files with
  | [] => True
  | f :: r => (forall g, In g r -> fst f < fst g) /\ ids_sorted r
  end.

Lemma wal_get_none : forall files id, (forall g, In g files -> fst g <> id) -> wal_get files id = [].
Proof.
  induction files as [|[i es] r IH]; intros id H; cbn [wal_get]; [reflexivity|].
  destruct (N.eqb_spec i id) as [E|E]; [exfalso; exact (H (i, es) (or_introl eq_refl) E)|].
  apply IH. intros g Hg; apply H; right; exact Hg.
Qed.

Lemma sorted_append : forall files id e, ids_sorted files -> ids_sorted (wal_append files id e).
Proof.
  induction files as [|[i es] r IH]; intros id e H; cbn [wal_append].
  - cbn [ids_sorted]. split; [intros g []|exact I].
  - cbn [ids_sorted] in H. destruct H as [H1 H2].
    destruct (N.eqb_spec i id) as [E|E]; [|destruct (N.ltb_spec id i) as [L|L]]; cbn [ids_sorted fst].
    + split; assumption.
    + split; [|split; assumption]. intros g [<-|Hg]; cbn [fst]; [exact L|]. specialize (H1 g Hg). cbn [fst] in H1. lia.
    + split; [|apply IH, H2]. intros g Hg. destruct (wal_append_In _ _ _ _ Hg) as [Hr|[Hr _]].
      * apply (H1 g Hr).
      * cbn [fst]. lia.
Qed.

Lemma sorted_touch : forall files id, ids_sorted files -> ids_sorted (wal_touch files id).
Proof.
  induction files as [|[i es] r IH]; intros id H; cbn [wal_touch].
  - cbn [ids_sorted]. split; [intros g []|exact I].
  - pose proof H as H0. cbn [ids_sorted] in H. destruct H as [H1 H2].
    destruct (N.eqb_spec i id) as [E|E]; [exact H0|destruct (N.ltb_spec id i) as [L|L]]; cbn [ids_sorted fst].
    + split; [|split; assumption]. intros g [<-|Hg]; cbn [fst]; [exact L|]. specialize (H1 g Hg). cbn [fst] in H1. lia.
    + split; [|apply IH, H2]. intros g Hg. destruct (wal_touch_In _ _ _ Hg) as [Hr| ->].
      * apply (H1 g Hr).
      * cbn [fst]. lia.
Qed.

Lemma sorted_filter : forall p files, ids_sorted files -> ids_sorted (filter p files).
Proof.
  induction files as [|f r IH]; intros H; cbn [filter]; [exact I|].
  cbn [ids_sorted] in H. destruct H as [H1 H2]. destruct (p f); [|apply IH, H2].
  cbn [ids_sorted]. split; [|apply IH, H2]. intros g Hg. apply filter_In in Hg. apply H1, Hg.
Qed.

Lemma wal_get_append : forall files id e,
  ids_sorted files -> wal_get (wal_append files id e) id = wal_get files id ++ [e].
Proof.
  induction files as [|[i es] r IH]; intros id e H; cbn [wal_append wal_get].
  - rewrite N.eqb_refl. reflexivity.
  - cbn [ids_sorted] in H. destruct H as [H1 H2].
    destruct (N.eqb_spec i id) as [E|E]; cbn [wal_get].
    + destruct (N.eqb_spec i id); [reflexivity|contradiction].
    + destruct (N.ltb_spec id i) as [L|L]; cbn [wal_get].
      * rewrite N.eqb_refl. rewrite wal_get_none; [reflexivity|].
        intros g Hg. specialize (H1 g Hg). cbn [fst] in H1. lia.
      * destruct (N.eqb_spec i id); [contradiction|]. apply IH, H2.
Qed.

Lemma wal_get_touch_new : forall files id,
  (forall g, In g files -> fst g <> id) -> wal_get (wal_touch files id) id = [].
Proof.
  induction files as [|[i es] r IH]; intros id H; cbn [wal_touch wal_get].
  - rewrite N.eqb_refl. reflexivity.
  - destruct (N.eqb_spec i id) as [E|E]; [exfalso; exact (H (i, es) (or_introl eq_refl) E)|].
    destruct (id <? i); cbn [wal_get].
    + rewrite N.eqb_refl. reflexivity.
    + destruct (N.eqb_spec i id); [contradiction|]. apply IH. intros g Hg; apply H; right; exact Hg.
Qed.

Lemma wal_get_filter : forall (q : N -> bool) files id, q id = true ->
  wal_get (filter (fun f => q (fst f)) files) id = wal_get files id.
Proof.
  induction files as [|[i es] r IH]; intros id Hq; cbn [filter wal_get fst]; [reflexivity|].
  destruct (q i) eqn:Qi; cbn [wal_get].
  - destruct (i =? id); [reflexivity|apply IH, Hq].
  - destruct (N.eqb_spec i id) as [E|E]; [congruence|apply IH, Hq].
Qed.

Lemma wal_append_has : forall files id e, exists es, In (id, es) (wal_append files id e).
Proof.
  intros files id e; induction files as [|[i es] r IH]; cbn [wal_append].
  - exists [e]; left; reflexivity.
  - destruct (N.eqb_spec i id) as [E|E]; [|destruct (id <? i)].
    + exists (es ++ [e]); left; rewrite E; reflexivity.
    + exists [e]; left; reflexivity.
    + destruct IH as [es' H]. exists es'; right; exact H.
Qed.

(** a sorted list of files whose ids all equal [w] is one file *)
Lemma single_file : forall files w es0,
  ids_sorted files -> (forall f, In f files -> fst f = w) -> In (w, es0) files ->
  files = [(w, wal_get files w)].
Proof.
  intros files w es0 Hs Hw Hin. destruct files as [|[i es] r]; [destruct Hin|].
  cbn [ids_sorted] in Hs. destruct Hs as [H1 _].
  assert (Ei : i = w) by (apply (Hw (i, es)); left; reflexivity). subst i.
  destruct r as [|g r'].
  - cbn [wal_get]. rewrite N.eqb_refl. reflexivity.
  - exfalso. specialize (H1 g (or_introl eq_refl)). cbn [fst] in H1.
    assert (fst g = w) by (apply Hw; right; left; reflexivity). lia.
Qed.

Lemma restart_single : forall c w es, len es < c ->
  find_next_wal_id c [(w, es)] = w /\ wal_touch [(w, es)] w = [(w, es)] /\
  wal_count_entries [(w, es)] = len es.
Proof.
  intros c w es H. unfold find_next_wal_id, wal_count_entries, wal_max_id.
  cbn [fold_left fst wal_touch wal_lines]. replace (N.max 0 w) with w by lia. rewrite !N.eqb_refl.
  repeat split. destruct (N.eqb_spec w 0) as [E|E]; [symmetry; exact E|].
  destruct (N.ltb_spec (len es) c); [reflexivity|lia].
Qed.

(** [RangeAllocator::from_existing_ids] returns the next id when the ids are [0 .. a-1], inside the level-0 band *)
Lemma alloc0_from_is : forall l a,
  (forall i, In i l -> i < a) -> a <= level_span -> (a = 0 \/ In (a - 1) l) -> alloc0_from l = a.
Proof.
  intros l a Hlt Ha Hex. unfold alloc0_from.
  assert (G : forall (l : list N) m, (forall i, In i l -> i < a) -> m <= a -> (m = a \/ In (a - 1) l) ->
              fold_left (fun m i => if i <? level_span then N.max m (N.succ i) else m) l m = a).
  { induction l0 as [|i r IH]; intros m Hl Hm Hx; cbn [fold_left].
    - destruct Hx as [Hx|[]]; exact Hx.
    - pose proof (Hl i (or_introl eq_refl)) as Hi.
      destruct (N.ltb_spec i level_span) as [L|L]; [|lia]. apply IH.
      + intros k Hk; apply Hl; right; exact Hk.
      + lia.
      + destruct Hx as [Hx|[Hx|Hx]]; [left; lia|left; lia|right; exact Hx]. }
  apply G; [exact Hlt|lia|]. destruct Hex as [->|H]; [left; reflexivity|right; exact H].
Qed.

Lemma dir_add_rows_has : forall ds seg rows k,
  (exists d, In d ds /\ sid d = k) -> exists d, In d (dir_add_rows ds seg rows) /\ sid d = k.
Proof.
  intros ds seg rows k [d [Hd Hk]]. induction ds as [|x r IH]; [destruct Hd|]. cbn [dir_add_rows].
  destruct (N.eqb_spec (sid x) seg) as [E|E].
  - destruct Hd as [->|Hd].
    + exists (mkSeg seg (srows d ++ rows)); split; [left; reflexivity|cbn [sid]; congruence].
    + exists d; split; [right; exact Hd|exact Hk].
  - destruct Hd as [->|Hd].
    + exists d; split; [left; reflexivity|exact Hk].
    + destruct (IH Hd) as [d' [Hd' Hk']]. exists d'; split; [right; exact Hd'|exact Hk'].
Qed.

Lemma has_uid_dir : forall ds seg u, has_uid ds seg u = true -> exists d, In d ds /\ sid d = seg.
Proof.
  intros ds seg u H. unfold has_uid in H. apply existsb_exists in H. destruct H as [d [Hd H]].
  apply andb_true_iff in H. destruct H as [H _]. apply N.eqb_eq in H. exists d; auto.
Qed.

(** * The extended lockstep invariant *)

(** number of segments whose log files have been pruned *)
Definition cleanedn (js : list job) (a : N) : N :=
  match js with
  | [] => a
  | j :: _ => match jstage j with StWalCleaned => jseg j + 1 | _ => jseg j end
  end.

Lemma cleanedn_snoc : forall js a j, jseg j = a -> jstage j = StQueued -> cleanedn (js ++ [j]) (a + 1) = cleanedn js a.
Proof. intros [|x r] a j H Hq; cbn [app cleanedn]; [rewrite Hq; exact H|reflexivity]. Qed.

Record ext_inv (c : N) (P D : list event) (s : shard) : Prop := {
  ei_clean : cleanedn (jobs s) (alloc0 s) <= wcur s;
  ei_low : forall f, In f (walfiles s) -> cleanedn (jobs s) (alloc0 s) <= fst f;
  ei_sorted : ids_sorted (walfiles s);
  ei_cur : exists es, In (wcur s, es) (walfiles s);
  (** the current log file holds exactly the durable events of the current rotation, in order *)
  ei_get : wal_get (walfiles s) (wcur s) = drop (wcur s * c) D;
  ei_dirs : forall k, k < pubn (jobs s) (alloc0 s) -> exists d, In d (dirs s) /\ sid d = k;
  (** the memtable holds exactly the stored events of the current rotation, in order *)
  ei_mem : mem s = drop (alloc0 s * c) P
}.

Definition lockq_inv (c : N) (P D : list event) (s : shard) : Prop :=
  lock_inv c P D s /\ wunlinked s = false /\ wlost s = [] /\ ext_inv c P D s.

Lemma ext_init : forall c, ext_inv c [] [] (init c).
Proof.
  intros c. constructor; unfold init; proj; cbn [cleanedn pubn].
  - lia.
  - intros f [<-|[]]; cbn [fst]; lia.
  - cbn [ids_sorted]. split; [intros g []|exact I].
  - exists []; left; reflexivity.
  - reflexivity.
  - intros k H; lia.
  - reflexivity.
Qed.

Lemma ext_store : forall c P D s e, 0 < c ->
  lock_inv c P D s -> ext_inv c P D s -> ext_inv c (P ++ [e]) D (store s e).
Proof.
  intros c P D s e Hc HI [Eclean Elow Esorted Ecur Eget Edirs Emem].
  destruct (store_frame s e) as (Ec & Eq & Ef & Ed & El & Ew & En & Eu & _).
  destruct (li_mem _ _ _ _ HI) as [Hlen Hm]. pose proof (li_cap _ _ _ _ HI) as Icap.
  destruct (store_cases s e) as [(Hlt & Em & Ep & Ej & Ea)|(Hge & Em & Ep & Ej & Ea)];
    constructor; rewrite ?Ef, ?Ed, ?Ew, ?Em, ?Ej, ?Ea; try assumption.
  - rewrite Emem. symmetry. apply drop_snoc. lia.
  - rewrite <- N.add_1_r, cleanedn_snoc by reflexivity. exact Eclean.
  - rewrite <- N.add_1_r, cleanedn_snoc by reflexivity. exact Elow.
  - rewrite <- N.add_1_r, pubn_snoc by reflexivity. exact Edirs.
  - symmetry. apply drop_all. rewrite len_app, len_cons, len_nil. rewrite Icap in Hge. lia.
Qed.

Lemma ext_wal_write : forall c P D s,
  lock_inv c P D s -> ext_inv c P D s -> wunlinked s = false -> wcnt s < c ->
  ext_inv c P (D ++ written_by (walq s) LWalWrite) (wal_write s).
Proof.
  intros c P D s HI [Eclean Elow Esorted Ecur Eget Edirs Emem] Hu Hw.
  cbn [written_by]. destruct (walq s) as [|e q] eqn:Eq.
  { rewrite (wal_write_nil s Eq), app_nil_r. constructor; assumption. }
  destruct (wal_write_frame s) as (Ec & Eq' & Ed & Em & Ep & Ej & Ea & Ew & Eu).
  destruct (wal_write_cons s e q Eq) as [En [(Hu' & _)|(_ & Ef & _)]]; [congruence|].
  destruct (li_cnt _ _ _ _ HI) as [Hcnt _].
  constructor; rewrite ?Ed, ?Em, ?Ej, ?Ea, ?Ew, ?Ef; try assumption.
  - intros f Hf. destruct (wal_append_In _ _ _ _ Hf) as [H|[H _]]; [apply Elow, H|rewrite H; exact Eclean].
  - apply sorted_append, Esorted.
  - apply wal_append_has.
  - rewrite wal_get_append by exact Esorted. rewrite Eget. symmetry. apply drop_snoc. lia.
Qed.

Lemma ext_wal_rotate : forall c P D s,
  lock_inv c P D s -> ext_inv c P D s -> ext_inv c P D (wal_rotate s).
Proof.
  intros c P D s HI HE. unfold wal_rotate. destruct (N.leb_spec (cap s) (wcnt s)) as [Hr|Hr]; [|exact HE].
  destruct HE as [Eclean Elow Esorted Ecur Eget Edirs Emem].
  destruct (li_cnt _ _ _ _ HI) as [Hcnt Hle]. pose proof (li_cap _ _ _ _ HI) as Icap.
  pose proof (li_ids _ _ _ _ HI) as Iids.
  constructor; proj; try assumption.
  - lia.
  - intros f Hf. destruct (wal_touch_In _ _ _ Hf) as [H| ->]; [apply Elow, H|cbn [fst]; lia].
  - apply sorted_touch, Esorted.
  - apply wal_touch_has.
  - rewrite wal_get_touch_new; [symmetry; apply drop_all; lia|].
    intros g Hg. specialize (Iids g Hg). lia.
Qed.

Lemma idle_wcur : forall c P D s j rest,
  lock_inv c P D s -> jobs s = j :: rest -> walq s = [] -> wcnt s < c -> jseg j + 1 <= wcur s.
Proof.
  intros c P D s j rest [Icap Ififo Icnt _ _ Imem _ Ijobs _ _ _ _ _ _] Ej Eq Hn.
  rewrite Ej in Ijobs. cbn [hseg jobs_from] in Ijobs. destruct Ijobs as (_ & _ & _ & Hr).
  apply jobs_from_le in Hr. rewrite Eq, app_nil_r in Ififo. subst P.
  destruct (N.le_gt_cases (jseg j + 1) (wcur s)) as [L|L]; [exact L|exfalso].
  assert (Hle : wcur s + 1 <= alloc0 s) by lia. pose proof (mul_le _ _ c Hle). lia.
Qed.

Lemma ext_fw : forall c P D s l, 0 < c ->
  lock_inv c P D s -> ext_inv c P D s -> prune_ok s (LFw l) = true -> ext_inv c P D (fw_step s l).
Proof.
  intros c P D s l Hc HI HE Hp. pose proof HE as HE0.
  unfold fw_step, set_jobs, wal_cleanup. destruct (jobs s) as [|j rest] eqn:Ej; [exact HE|].
  assert (Hidle : is_empty (walq s) && (wcnt s <? cap s) = true -> jseg j + 1 <= wcur s).
  { intros H. apply andb_true_iff in H. destruct H as [Hq Hn]. apply N.ltb_lt in Hn.
    rewrite (li_cap _ _ _ _ HI) in Hn. destruct (walq s) eqn:Eq; [|discriminate Hq].
    eapply idle_wcur; eassumption. }
  destruct HI as [Icap Ififo Icnt Iids Ifiles Imem Imemrows Ijobs Itail Ipub Iunl Idirs Ihead Ilost].
  destruct HE as [Eclean Elow Esorted Ecur Eget Edirs Emem].
  rewrite Ej in *. cbn [hseg jobs_from tl] in *.
  destruct Ijobs as (Hseg & Hne & Hjevs & Hrest).
  assert (Hemp : is_empty (jevs j) = false) by (destruct (jevs j); [congruence|reflexivity]).
  destruct l; destruct (jstage j) eqn:Est; rewrite ?Hemp; cbn [orb negb]; try exact HE0.
  - (* FwBegin *)
    constructor; proj; cbn [cleanedn pubn indexed jseg jevs jstage] in *; rewrite ?Est in *; cbn [indexed] in *; assumption.
  - (* FwMkdir *)
    constructor; proj; cbn [cleanedn pubn indexed jseg jevs jstage] in *; rewrite ?Est in *; cbn [indexed] in *; try assumption.
    intros k Hk. apply dir_add_rows_has, Edirs, Hk.
  - (* FwWrite *)
    destruct (negb (memb u (uids_of (jevs j))) || dir_has_uid s (jseg j) u); [exact HE0|].
    constructor; proj; cbn [cleanedn pubn indexed jseg jevs jstage] in *; rewrite ?Est in *; cbn [indexed] in *; try assumption.
    intros k Hk. apply dir_add_rows_has, Edirs, Hk.
  - (* FwIndex *)
    destruct (forallb (dir_has_uid s (jseg j)) (uids_of (jevs j))) eqn:Hall; cbn [negb]; [|exact HE0].
    constructor; proj; cbn [cleanedn pubn indexed jseg jevs jstage] in *; rewrite ?Est in *; cbn [indexed] in *; try assumption.
    intros k Hk. destruct (N.ltb_spec k (jseg j)) as [L|L]; [apply Edirs, L|].
    assert (k = jseg j) by lia. subst k.
    destruct (jevs j) as [|e0 r0] eqn:Ejv; [congruence|].
    rewrite forallb_forall in Hall.
    assert (Hu : dir_has_uid s (jseg j) (euid e0) = true).
    { apply Hall. apply memb_In. rewrite <- Ejv in *. apply uids_of_In. rewrite Ejv; left; reflexivity. }
    rewrite dir_has_uid_eq in Hu. eapply has_uid_dir, Hu.
  - (* FwPublish *)
    constructor; proj; cbn [cleanedn pubn indexed jseg jevs jstage] in *; rewrite ?Est in *; cbn [indexed] in *; assumption.
  - (* FwClear *)
    constructor; proj; cbn [cleanedn pubn indexed jseg jevs jstage] in *; rewrite ?Est in *; cbn [indexed] in *; assumption.
  - (* FwWalDel *)
    destruct (N.ltb_spec id (N.succ (jseg j))) as [Hid|Hid]; cbn [negb]; [|exact HE0].
    cbn [prune_ok] in Hp. specialize (Hidle Hp).
    constructor; proj; cbn [cleanedn pubn indexed jseg jevs jstage] in *; rewrite ?Est in *; cbn [indexed] in *; try assumption.
    + intros f Hf. apply filter_In in Hf. apply Elow, Hf.
    + apply sorted_filter, Esorted.
    + destruct Ecur as [es Hes]. exists es. apply filter_In; split; [exact Hes|]. cbn [fst].
      apply negb_true_iff, N.eqb_neq. lia.
    + rewrite (wal_get_filter (fun i => negb (i =? id))); [exact Eget|].
      apply negb_true_iff, N.eqb_neq. lia.
  - (* FwWalClean *)
    cbn [prune_ok] in Hp. specialize (Hidle Hp).
    constructor; proj; cbn [cleanedn pubn indexed jseg jevs jstage] in *; rewrite ?Est in *; cbn [indexed] in *; try assumption.
    + intros f Hf. apply filter_In in Hf. destruct Hf as [_ Hf]. apply negb_true_iff, N.ltb_ge in Hf. lia.
    + apply sorted_filter, Esorted.
    + destruct Ecur as [es Hes]. exists es. apply filter_In; split; [exact Hes|]. cbn [fst].
      apply negb_true_iff, N.ltb_ge. lia.
    + rewrite (wal_get_filter (fun i => negb (i <? N.succ (jseg j)))); [exact Eget|].
      apply negb_true_iff, N.ltb_ge. lia.
  - (* FwDone *)
    assert (Hh : cleanedn rest (alloc0 s) = jseg j + 1 /\ pubn rest (alloc0 s) = jseg j + 1).
    { destruct rest as [|j1 r1]; cbn [cleanedn pubn jobs_from] in *.
      - split; lia.
      - destruct Hrest as (Hs1 & _). inversion Itail as [|x y Hq Hqs]; subst.
        rewrite Hq; cbn [indexed]. split; lia. }
    destruct Hh as (Hh1 & Hh2).
    constructor; proj; rewrite ?Hh1, ?Hh2; cbn [cleanedn pubn indexed] in *; rewrite ?Est in *; cbn [indexed] in *; assumption.
Qed.

(** * One step of a lockstep lifetime *)

(** a label of a lockstep lifetime in a state where the WAL thread's program order and
    the "WAL idle at every log-file deletion" condition hold *)
Definition step_ok (s : shard) (l : label) : bool :=
  lockstep_label l && (match l with LWalWrite => wcnt s <? cap s | _ => true end) && prune_ok s l.

Lemma lockq_step : forall c P D s l, 0 < c ->
  lockq_inv c P D s -> step_ok s l = true ->
  lockq_inv c (P ++ stored_by l) (D ++ written_by (walq s) l) (step s l).
Proof.
  intros c P D s l Hc (HI & Hu & Hl & HE) Hok. unfold step_ok in Hok.
  rewrite !andb_true_iff in Hok. destruct Hok as ((Hlab & Hord) & Hpr).
  assert (Hw : l = LWalWrite -> wcnt s < c).
  { intros ->. apply N.ltb_lt in Hord. rewrite (li_cap _ _ _ _ HI) in Hord. exact Hord. }
  destruct (idle_step c P D s l Hc HI Hlab Hw Hpr Hu Hl) as [Hu' Hl'].
  split; [apply lock_step; assumption|]. split; [exact Hu'|]. split; [exact Hl'|].
  destruct l as [e0| | | |f| |]; try discriminate Hlab; cbn [step stored_by].
  - cbn [written_by]. rewrite app_nil_r. apply ext_store; assumption.
  - rewrite app_nil_r. apply ext_wal_write; [assumption|assumption|exact Hu|apply Hw; reflexivity].
  - cbn [written_by]. rewrite !app_nil_r. apply ext_wal_rotate; assumption.
  - cbn [written_by]. rewrite !app_nil_r. apply ext_fw; assumption.
Qed.

(** * Kill of the quiescent process, restart *)

Definition quiescentb (s : shard) : bool :=
  is_empty (jobs s) && is_empty (walq s) && (wcnt s <? cap s) && negb (wunlinked s) &&
  (alloc0 s <=? level_span).

Lemma lockq_restart : forall c P D s, 0 < c -> lockq_inv c P D s -> quiescentb s = true ->
  lockq_inv c P D (restart (crash s)) /\
  alloc0 (restart (crash s)) = alloc0 s /\ wcur (restart (crash s)) = wcur s /\
  wcnt (restart (crash s)) = wcnt s /\ mem (restart (crash s)) = mem s /\
  wcnt (restart (crash s)) = len (mem (restart (crash s))) /\
  walfiles (restart (crash s)) = walfiles s /\ dirs (restart (crash s)) = dirs s /\
  wcur s = alloc0 s /\ P = D.
Proof.
  intros c P D s Hc (HI & Hu & Hl & HE) Hq.
  unfold quiescentb in Hq. rewrite !andb_true_iff in Hq. destruct Hq as ((((Qj & Qq) & Qn) & _) & Qa).
  destruct (jobs s) as [|j0 r0] eqn:Ej; [|discriminate]. destruct (walq s) as [|x0 q0] eqn:Eq; [|discriminate].
  apply N.ltb_lt in Qn. apply N.leb_le in Qa.
  destruct HI as [Icap Ififo Icnt Iids Ifiles Imem Imemrows Ijobs Itail Ipub Iunl Idirs Ihead Ilost].
  destruct HE as [Eclean Elow Esorted Ecur Eget Edirs Emem].
  rewrite ?Ej, ?Eq in *. cbn [hseg pubn dirbound cleanedn jobs_from tl] in *.
  rewrite app_nil_r in Ififo. subst D. rewrite Icap in Qn.
  assert (Ew : wcur s = alloc0 s).
  { destruct (N.eq_dec (wcur s) (alloc0 s)) as [E|E]; [exact E|exfalso].
    assert (Hle : alloc0 s + 1 <= wcur s) by lia. pose proof (mul_le _ _ c Hle). lia. }
  assert (En : wcnt s = len (mem s)) by (rewrite Ew in Icnt; lia).
  destruct Ecur as [es0 Hes0].
  assert (Efiles : walfiles s = [(wcur s, drop (wcur s * c) P)]).
  { rewrite <- Eget. apply (single_file _ _ es0); [exact Esorted| |exact Hes0].
    intros f Hf. specialize (Iids f Hf). specialize (Elow f Hf). lia. }
  assert (Hlen : len (drop (wcur s * c) P) = wcnt s) by (rewrite drop_len; lia).
  destruct (restart_single c (wcur s) (drop (wcur s * c) P)) as (R1 & R2 & R3); [lia|].
  assert (Ea : alloc0_from (sort_n (map sid (dirs s))) = alloc0 s).
  { apply alloc0_from_is.
    - intros i Hi. apply sort_n_In, in_map_iff in Hi. destruct Hi as [d [<- Hd]]. apply Idirs, Hd.
    - exact Qa.
    - destruct (N.eqb_spec (alloc0 s) 0) as [E0|E0]; [left; exact E0|right].
      destruct (Edirs (alloc0 s - 1)) as [d [Hd Hk]]; [lia|]. apply sort_n_In, in_map_iff. exists d; auto. }
  assert (Es' : restart (crash s) =
                mkShard (cap s) (mem s) [] [] (sort_n (map sid (dirs s))) (dirs s) (index s) []
                        (walfiles s) (wcur s) (wcnt s) false (alloc0 s) [] (wlost s)).
  { unfold restart, crash; proj. rewrite Ea, Icap, Efiles, R1, R2, R3, Hlen. cbn [map concat snd].
    rewrite app_nil_r, Ew, <- Emem. reflexivity. }
  rewrite Es'; proj.
  split; [|repeat split; assumption || reflexivity].
  split; [|split; [reflexivity|split; [exact Hl|]]].
  - constructor; proj; cbn [hseg pubn dirbound jobs_from tl]; rewrite ?app_nil_r;
      try first [assumption | reflexivity | discriminate | constructor].
  - constructor; proj; cbn [cleanedn pubn]; try assumption. exists es0; exact Hes0.
Qed.

(** * Histories: lockstep lifetimes separated by quiescent kill/restart cycles *)

(** no manual FLUSH; [LCrash] only in a quiescent state and immediately followed by
    [LRestart]; [LRestart] only directly after [LCrash]; inside a lifetime the WAL
    thread's program order and "WAL idle at every log-file deletion" ([step_ok]) *)
Fixpoint lockstep_q (s : shard) (ls : list label) : bool :=
  match ls with
  | [] => true
  | LCrash :: r =>
      match r with
      | LRestart :: r' => quiescentb s && lockstep_q (restart (crash s)) r'
      | _ => false
      end
  | l :: r => step_ok s l && lockstep_q (step s l) r
  end.

Lemma stored_cons : forall l r, stored (l :: r) = stored_by l ++ stored r.
Proof. intros [e| | | |f| |] r; reflexivity. Qed.

Lemma lockq_run : forall n ls, (length ls <= n)%nat -> forall c P D s, 0 < c ->
  lockq_inv c P D s -> lockstep_q s ls = true ->
  lockq_inv c (P ++ stored ls) (D ++ durable_from (walq s) ls) (run s ls).
Proof.
  induction n as [|n IH]; intros ls Hn c P D s Hc HI Hq.
  { destruct ls; [|cbn [length] in Hn; lia]. cbn [stored durable_from run fold_left]. rewrite !app_nil_r. exact HI. }
  destruct ls as [|l r]; [cbn [stored durable_from run fold_left]; rewrite !app_nil_r; exact HI|].
  cbn [length] in Hn.
  assert (Hstep : step_ok s l && lockstep_q (step s l) r = true ->
                  lockq_inv c (P ++ stored (l :: r)) (D ++ durable_from (walq s) (l :: r)) (run s (l :: r))).
  { intros H. apply andb_true_iff in H. destruct H as [H1 H2].
    rewrite stored_cons. cbn [durable_from run fold_left]. rewrite !app_assoc, <- walq_step.
    apply IH; [lia|exact Hc|apply lockq_step; assumption|exact H2]. }
  destruct l as [e0| | | |f| |]; cbn [lockstep_q] in Hq; try (apply Hstep; exact Hq).
  destruct r as [|l2 r']; [discriminate Hq|].
  destruct l2 as [e0| | | |f| |]; try discriminate Hq.
  apply andb_true_iff in Hq. destruct Hq as [Hq1 Hq2]. cbn [length] in Hn.
  destruct (lockq_restart c P D s Hc HI Hq1) as (HI' & _).
  cbn [stored durable_from written_by pend_step app run fold_left step].
  assert (Ew : walq (restart (crash s)) = []) by reflexivity.
  rewrite <- Ew. apply IH; [lia|exact Hc|exact HI'|exact Hq2].
Qed.

Lemma lockq_init : forall c, 0 < c -> lockq_inv c [] [] (init c).
Proof. intros c Hc. split; [apply lock_init, Hc|]. split; [reflexivity|]. split; [reflexivity|apply ext_init]. Qed.

Lemma lockq_reach : forall c ls, 0 < c -> lockstep_q (init c) ls = true ->
  lockq_inv c (stored ls) (durable ls) (run (init c) ls).
Proof.
  intros c ls Hc Hq.
  exact (lockq_run (length ls) ls (le_n _) c [] [] (init c) Hc (lockq_init c Hc) Hq).
Qed.

(** ** the theorems *)

(** a kill + restart of the quiescent process changes nothing the lockstep depends on:
    same next segment id, same log file id, same entry counter, which equals the fill
    level of the recovered memtable; the recovered memtable is the old one; nothing is
    pruned or unlinked; the invariant holds again *)
Theorem quiescent_restart_keeps_lockstep : forall c ls, 0 < c ->
  lockstep_q (init c) ls = true -> quiescentb (run (init c) ls) = true ->
  let s := run (init c) ls in
  let s' := restart (crash s) in
  alloc0 s' = alloc0 s /\ wcur s' = wcur s /\ wcnt s' = wcnt s /\ mem s' = mem s /\
  wcnt s' = len (mem s') /\ wcur s' = alloc0 s' /\
  walfiles s' = walfiles s /\ dirs s' = dirs s /\ wlost s' = [] /\ wunlinked s' = false /\
  lockq_inv c (stored ls) (durable ls) s'.
Proof.
  intros c ls Hc Hq Hqs s s'.
  destruct (lockq_restart c _ _ s Hc (lockq_reach c ls Hc Hq) Hqs)
    as (HI' & Ea & Ew & En & Em & Enm & Ef & Ed & Ewa & _).
  fold s' in HI', Ea, Ew, En, Em, Enm, Ef, Ed.
  pose proof HI' as HI0. destruct HI' as (H1 & H2 & H3 & H4).
  refine (conj Ea (conj Ew (conj En (conj Em (conj Enm (conj _ (conj Ef (conj Ed (conj H3 (conj H2 HI0)))))))))).
  rewrite Ea, Ew. exact Ewa.
Qed.

(** the invariant form: preserved by [LCrash; LRestart] from any quiescent state *)
Theorem quiescent_restart_preserves_inv : forall c P D s, 0 < c ->
  lockq_inv c P D s -> quiescentb s = true -> lockq_inv c P D (restart (crash s)).
Proof. intros c P D s Hc HI Hq. exact (proj1 (lockq_restart c P D s Hc HI Hq)). Qed.

(** nothing is ever pruned or unlinked in such a history, and the lockstep relations hold *)
Theorem lockstep_q_no_prune : forall c ls, 0 < c -> lockstep_q (init c) ls = true ->
  let s := run (init c) ls in
  wlost s = [] /\ wunlinked s = false /\
  len (durable ls) = wcur s * c + wcnt s /\ len (stored ls) = alloc0 s * c + len (mem s) /\
  wcnt s <= c /\ len (mem s) < c /\
  wal_get (walfiles s) (wcur s) = drop (wcur s * c) (durable ls) /\
  mem s = drop (alloc0 s * c) (stored ls).
Proof.
  intros c ls Hc Hq s. destruct (lockq_reach c ls Hc Hq) as (HI & Hu & Hl & HE). fold s in HI, Hu, Hl, HE.
  destruct (li_cnt _ _ _ _ HI). destruct (li_mem _ _ _ _ HI).
  repeat split; try assumption; [apply (ei_get _ _ _ _ HE)|apply (ei_mem _ _ _ _ HE)].
Qed.

(** every durable event is read exactly once after any number of quiescent kill/restart
    cycles interleaved with stores and background flushes *)
Theorem exactly_once_across_quiescent_restarts : forall c ls e, 0 < c ->
  lockstep_q (init c) ls = true -> NoDup (map ek (stored ls)) -> In e (durable ls) ->
  occ e (select (restart (crash (run (init c) ls))) (euid e)) = 1%nat /\
  occ e (select (restart (run (init c) ls)) (euid e)) = 1%nat /\
  wlost (run (init c) ls) = [] /\ wunlinked (run (init c) ls) = false.
Proof.
  intros c ls e Hc Hq Hn He. destruct (lockstep_q_no_prune c ls Hc Hq) as (Hl & Hu & _).
  destruct (survives_unless_pruned c ls e Hn He) as [H1 H2]; [rewrite Hl; intros []|].
  repeat split; assumption.
Qed.

(** in every reachable state without flush job and with a drained WAL queue, the WAL file id
    equals the next segment id and the writer's counter equals the memtable's fill level
    (so the [wcnt < cap] conjunct of [quiescentb] is implied by the others) *)
Theorem quiet_state_lockstep : forall c ls, 0 < c -> lockstep_q (init c) ls = true ->
  let s := run (init c) ls in
  jobs s = [] -> walq s = [] ->
  wcur s = alloc0 s /\ wcnt s = len (mem s) /\ wcnt s < c.
Proof.
  intros c ls Hc Hq s Ej Eq. destruct (lockq_reach c ls Hc Hq) as (HI & _ & _ & HE). fold s in HI, HE.
  destruct (li_cnt _ _ _ _ HI) as [Hcnt Hle]. destruct (li_mem _ _ _ _ HI) as [Hlen Hm].
  pose proof (li_fifo _ _ _ _ HI) as Hf. rewrite Eq, app_nil_r in Hf.
  pose proof (ei_clean _ _ _ _ HE) as Hcl. rewrite Ej in Hcl. cbn [cleanedn] in Hcl.
  assert (Ew : wcur s = alloc0 s).
  { destruct (N.eq_dec (wcur s) (alloc0 s)) as [E|E]; [exact E|exfalso].
    assert (Hle2 : alloc0 s + 1 <= wcur s) by lia. pose proof (mul_le _ _ c Hle2). rewrite Hf in Hlen. lia. }
  rewrite Hf, Ew in *. lia.
Qed.

(** ** corners *)

(** [alloc0_from] only looks at ids inside the level-0 band: with more than
    [level_span] level-0 segments the restart would not find the next id (hence the
    bound in [quiescentb]; not reachable without compaction having run long before) *)
Theorem alloc0_outside_band_refuted :
  exists ids a, (forall i, In i ids -> i < a) /\ In (a - 1) ids /\ alloc0_from ids <> a.
Proof.
  exists [level_span], (level_span + 1). split; [|split].
  - intros i [<-|[]]. vm_compute. reflexivity.
  - left. reflexivity.
  - vm_compute. discriminate.
Qed.

(** a kill while a flush job is queued (not quiescent) changes the allocator and the
    memtable: the lockstep relations of [quiescent_restart_keeps_lockstep] fail *)
Theorem nonquiescent_restart_refuted :
  exists c ls, 0 < c /\ lockstep_q (init c) ls = true /\
    let s := run (init c) ls in
    quiescentb s = false /\ walq s = [] /\
    (alloc0 (restart (crash s)) <> alloc0 s /\ mem (restart (crash s)) <> mem s /\
     ~ (len (mem (restart (crash s))) < c)).
Proof.
  exists 2, [LStore (mkEv 1 0 0); LWalWrite; LStore (mkEv 2 0 0); LWalWrite].
  split; [reflexivity|]. split; [vm_compute; reflexivity|].
  split; [vm_compute; reflexivity|]. split; [vm_compute; reflexivity|].
  split; [vm_compute; discriminate|]. split; [vm_compute; discriminate|vm_compute; discriminate].
Qed.

(** ** non-vacuity: two lifetimes, cap 3, partial memtable at the kill, then two rotations *)

Module QTraces.
  Import Traces.
  Definition flush0 (k : N) : list label := [fb; fm; fw0; fi; fp; fc; wd k; fx; fd].
  (** first lifetime: one full rotation (flushed), two more events; kill; restart;
      second lifetime: four more events = rotations 1 and 2 (both flushed), one event left *)
  Definition two_lifetimes : list label :=
    [S 1; W; S 2; W; S 3; W; Wr] ++ flush0 0 ++ [S 4; W; S 5; W] ++ [K; T] ++
    [S 6; W; Wr] ++ flush0 1 ++ [S 7; W; S 8; W; S 9; W; Wr] ++ flush0 2 ++ [S 10; W].
End QTraces.

Example lockstep_q_nonvacuous :
  exists c ls e, 0 < c /\ lockstep_q (init c) ls = true /\ one_lifetime ls = false /\
    NoDup (map ek (stored ls)) /\ In e (durable ls) /\
    quiescentb (run (init c) ls) = true /\
    alloc0 (run (init c) ls) = 3 /\ wcur (run (init c) ls) = 3 /\ len (mem (run (init c) ls)) = 1 /\
    len (select (restart (crash (run (init c) ls))) 0) = 10.
Proof.
  exists 3, QTraces.two_lifetimes, (Traces.E 5).
  split; [reflexivity|]. split; [vm_compute; reflexivity|]. split; [vm_compute; reflexivity|].
  split; [apply nodupb_NoDup; vm_compute; reflexivity|]. split; [apply inb_In; vm_compute; reflexivity|].
  repeat split; vm_compute; reflexivity.
Qed.

(** the kill in that trace hits a partly filled memtable *)
Example quiescent_kill_nonvacuous :
  exists c ls, 0 < c /\ lockstep_q (init c) ls = true /\ quiescentb (run (init c) ls) = true /\
    len (mem (run (init c) ls)) = 2 /\ wcnt (run (init c) ls) = 2 /\ alloc0 (run (init c) ls) = 1.
Proof.
  exists 3, ([Traces.S 1; Traces.W; Traces.S 2; Traces.W; Traces.S 3; Traces.W; Traces.Wr] ++ QTraces.flush0 0 ++
             [Traces.S 4; Traces.W; Traces.S 5; Traces.W]).
  split; [reflexivity|]. repeat split; vm_compute; reflexivity.
Qed.
