(** C07, part 1: text lemmas — decimal printing followed by the Rust / serde_json readers is the
    identity on integers; results of the integer readers are in range. *)
From Coq Require Import ZArith NArith List Bool Lia.
From Coq Require Import ZifyBool ZifyNat ZifyN.
From Snel Require Import Base.Bytes Model.Float64 Model.RustText Model.JsonV7 Gen.Params.
Import ListNotations.
Open Scope Z_scope.

(** * byte strings *)
Lemma bytes_eqb_refl : forall a, bytes_eqb a a = true.
Proof. induction a as [|x a IH]; cbn [bytes_eqb]; [reflexivity|]. rewrite N.eqb_refl, IH. reflexivity. Qed.

Lemma bytes_eqb_eq : forall a b, bytes_eqb a b = true -> a = b.
Proof.
  induction a as [|x a IH]; intros [|y b] H; cbn [bytes_eqb] in H; try discriminate; [reflexivity|].
  apply andb_true_iff in H. destruct H as [H1 H2]. apply N.eqb_eq in H1. subst y. f_equal. apply IH, H2.
Qed.

Lemma bytes_eqb_neq : forall a b, bytes_eqb a b = false -> a <> b.
Proof. intros a b H E. subst b. rewrite bytes_eqb_refl in H. discriminate. Qed.

(** * decimal digits *)
Lemma is_digit_mod10 : forall n : N, is_digit (48 + n mod 10)%N = true.
Proof. intros n. unfold is_digit. assert (n mod 10 < 10)%N by (apply N.mod_lt; lia). lia. Qed.
Lemma digit_val_mod10 : forall n : N, digit_val (48 + n mod 10)%N = (n mod 10)%N.
Proof. intros n. unfold digit_val. lia. Qed.

Lemma all_digits_app : forall a b, all_digits (a ++ b) = all_digits a && all_digits b.
Proof. induction a as [|x a IH]; intros b; cbn [app all_digits]; [reflexivity|]. rewrite IH, andb_assoc. reflexivity. Qed.
Lemma digits_val_app : forall a b acc, digits_val (a ++ b) acc = digits_val b (digits_val a acc).
Proof. induction a as [|x a IH]; intros b acc; cbn [app digits_val]; [reflexivity|apply IH]. Qed.

Lemma digits_val_ge : forall s acc, 0 <= acc -> acc <= digits_val s acc.
Proof.
  induction s as [|c s IH]; intros acc H; cbn [digits_val]; [lia|].
  assert (0 <= Z.of_N (digit_val c)) by lia.
  specialize (IH (acc * 10 + Z.of_N (digit_val c))). lia.
Qed.

Lemma ddf_unfold : forall f n acc,
  dec_digits_fuel (S f) n acc =
  if (n / 10 =? 0)%N then (48 + n mod 10)%N :: acc else dec_digits_fuel f (n / 10)%N ((48 + n mod 10)%N :: acc).
Proof. reflexivity. Qed.

(** the digit string of [n]: digits only, value [n], non-empty, no leading zero unless [n = 0] *)
Definition head_nonzero (ds : bytes) : Prop :=
  match ds with c :: _ => c <> 48%N | [] => False end.

Lemma ddf_spec : forall f n acc,
  (n < 2 ^ N.of_nat (S f))%N ->
  exists ds, dec_digits_fuel (S f) n acc = ds ++ acc /\ all_digits ds = true /\
             digits_val ds 0 = Z.of_N n /\ ds <> [] /\ ((0 < n)%N -> head_nonzero ds).
Proof.
  induction f as [|f IH]; intros n acc Hn.
  - change (2 ^ N.of_nat 1)%N with 2%N in Hn. rewrite ddf_unfold.
    assert (E : (n / 10 = 0)%N) by (apply N.div_small; lia). rewrite E. cbn [N.eqb].
    exists [(48 + n mod 10)%N]. cbn [app all_digits digits_val]. rewrite is_digit_mod10, digit_val_mod10.
    rewrite N.mod_small by lia.
    repeat split; try reflexivity; try lia; [discriminate|]. intros Hp. cbn [head_nonzero]. lia.
  - rewrite ddf_unfold.
    destruct (N.eqb_spec (n / 10) 0) as [E|E].
    + exists [(48 + n mod 10)%N]. cbn [app all_digits digits_val]. rewrite is_digit_mod10, digit_val_mod10.
      assert (n < 10)%N by (apply N.div_small_iff in E; lia).
      rewrite N.mod_small by lia.
      repeat split; try reflexivity; try lia; [discriminate|]. intros Hp. cbn [head_nonzero]. lia.
    + assert (Hlt : (n / 10 < 2 ^ N.of_nat (S f))%N).
      { rewrite (Nat2N.inj_succ (S f)), N.pow_succ_r' in Hn.
        apply N.div_lt_upper_bound; lia. }
      destruct (IH (n / 10)%N ((48 + n mod 10)%N :: acc) Hlt) as (ds & E1 & E2 & E3 & E4 & E5).
      exists (ds ++ [(48 + n mod 10)%N]). rewrite E1, <- app_assoc. cbn [app].
      split; [reflexivity|].
      split; [rewrite all_digits_app, E2; cbn [all_digits]; rewrite is_digit_mod10; reflexivity|].
      split.
      { rewrite digits_val_app, E3. cbn [digits_val]. rewrite digit_val_mod10.
        pose proof (N.div_mod n 10). lia. }
      split; [destruct ds; discriminate|].
      intros _. assert (Hq : (0 < n / 10)%N) by lia. specialize (E5 Hq).
      destruct ds as [|c ds']; [contradiction|]. exact E5.
Qed.

Lemma dec_of_N_spec : forall n,
  all_digits (dec_of_N n) = true /\ digits_val (dec_of_N n) 0 = Z.of_N n /\ dec_of_N n <> [] /\
  ((0 < n)%N -> head_nonzero (dec_of_N n)).
Proof.
  intros n. unfold dec_of_N.
  assert (Hn : (n < 2 ^ N.of_nat (S (N.to_nat (N.log2 n))))%N).
  { rewrite Nat2N.inj_succ, N2Nat.id.
    destruct (N.eq_dec n 0) as [->|Hnz]; [reflexivity|].
    apply N.log2_spec. lia. }
  destruct (ddf_spec _ n [] Hn) as (ds & E1 & E2 & E3 & E4 & E5).
  rewrite E1, app_nil_r. auto.
Qed.

Lemma all_digits_head : forall c s, all_digits (c :: s) = true -> is_digit c = true.
Proof. intros c s H. cbn [all_digits] in H. apply andb_true_iff in H. tauto. Qed.

Lemma is_digit_not_sign : forall c, is_digit c = true -> c <> 43%N /\ c <> 45%N.
Proof. intros c H. unfold is_digit in H. lia. Qed.

(** [dec_of_Z] of a non-negative number *)
Lemma dec_of_Z_nonneg : forall z, 0 <= z -> dec_of_Z z = dec_of_N (Z.to_N z).
Proof.
  intros [|p|p] H; try lia; cbn [dec_of_Z Z.to_N]; [|reflexivity].
  vm_compute. reflexivity.
Qed.
Lemma dec_of_Z_neg : forall z, z < 0 -> dec_of_Z z = 45%N :: dec_of_N (Z.to_N (- z)).
Proof. intros [|p|p] H; try lia. reflexivity. Qed.

Lemma digits_opt_dec : forall n, digits_opt (dec_of_N n) = Some (Z.of_N n).
Proof.
  intros n. destruct (dec_of_N_spec n) as (H1 & H2 & H3 & _). unfold digits_opt.
  destruct (dec_of_N n) as [|c r]; [contradiction|]. rewrite H1, H2. reflexivity.
Qed.

Lemma dec_of_N_head : forall n, exists c r, dec_of_N n = c :: r /\ is_digit c = true.
Proof.
  intros n. destruct (dec_of_N_spec n) as (H1 & _ & H3 & _).
  destruct (dec_of_N n) as [|c r]; [contradiction|]. exists c, r. split; [reflexivity|].
  eapply all_digits_head, H1.
Qed.

(** the readers on a string that does not start with a sign *)
Lemma parse_u64_noplus : forall c r, c <> 43%N ->
  parse_u64 (c :: r) = match digits_opt (c :: r) with
                       | Some v => if v <=? u64_max then Some v else None
                       | None => None end.
Proof.
  intros c r Hc. unfold parse_u64. destruct c as [|p]; [reflexivity|].
  repeat (destruct p as [p|p|]; try reflexivity). contradiction.
Qed.
Lemma parse_i64_nosign : forall c r, c <> 43%N -> c <> 45%N ->
  parse_i64 (c :: r) = match digits_opt (c :: r) with
                       | Some v => if v <=? i64_max then Some v else None
                       | None => None end.
Proof.
  intros c r Hp Hm. unfold parse_i64. destruct c as [|p]; [reflexivity|].
  repeat (destruct p as [p|p|]; try reflexivity); contradiction.
Qed.
Lemma parse_i64_plus : forall r,
  parse_i64 (43%N :: r) = match digits_opt r with
                          | Some v => if v <=? i64_max then Some v else None
                          | None => None end.
Proof. reflexivity. Qed.
Lemma parse_i64_minus : forall r,
  parse_i64 (45%N :: r) = match digits_opt r with
                          | Some v => if v <=? 2 ^ 63 then Some (- v) else None
                          | None => None end.
Proof. reflexivity. Qed.
Lemma parse_u64_plus : forall r,
  parse_u64 (43%N :: r) = match digits_opt r with
                          | Some v => if v <=? u64_max then Some v else None
                          | None => None end.
Proof. reflexivity. Qed.

(** * Rust's integer readers on printed integers *)
Lemma parse_u64_dec : forall n, 0 <= n <= u64_max -> parse_u64 (dec_of_Z n) = Some n.
Proof.
  intros n Hn. rewrite dec_of_Z_nonneg by lia.
  destruct (dec_of_N_head (Z.to_N n)) as (c & r & E & Hc). rewrite E.
  destruct (is_digit_not_sign c Hc) as [Hp _].
  rewrite parse_u64_noplus by exact Hp. rewrite <- E, digits_opt_dec, Z2N.id by lia.
  destruct (Z.leb_spec n u64_max); [reflexivity|lia].
Qed.

Lemma parse_i64_dec : forall z, i64_min <= z <= i64_max -> parse_i64 (dec_of_Z z) = Some z.
Proof.
  intros z Hz. unfold i64_min, i64_max in Hz. destruct (Z.ltb_spec z 0) as [Hneg|Hpos].
  - rewrite dec_of_Z_neg by lia. rewrite parse_i64_minus, digits_opt_dec, Z2N.id by lia.
    destruct (Z.leb_spec (- z) (2 ^ 63)); [f_equal; lia|lia].
  - rewrite dec_of_Z_nonneg by lia.
    destruct (dec_of_N_head (Z.to_N z)) as (c & r & E & Hc). rewrite E.
    destruct (is_digit_not_sign c Hc) as [Hp Hm].
    rewrite parse_i64_nosign by assumption. rewrite <- E, digits_opt_dec, Z2N.id by lia.
    unfold i64_max. destruct (Z.leb_spec z (2 ^ 63 - 1)); [reflexivity|lia].
Qed.

(** results of the readers are in range *)
Lemma digits_val_nonneg : forall s acc, 0 <= acc -> 0 <= digits_val s acc.
Proof. intros s acc H. pose proof (digits_val_ge s acc H). lia. Qed.

Lemma digits_opt_nonneg : forall s v, digits_opt s = Some v -> 0 <= v.
Proof.
  intros s v H. unfold digits_opt in H. destruct s as [|c r]; [discriminate|].
  destruct (all_digits (c :: r)); [|discriminate]. inversion H. apply digits_val_nonneg. lia.
Qed.

Lemma parse_u64_range : forall s u, parse_u64 s = Some u -> 0 <= u <= u64_max.
Proof.
  intros s u H. unfold parse_u64 in H.
  destruct (digits_opt _) as [v|] eqn:E; [|discriminate].
  destruct (Z.leb_spec v u64_max); [|discriminate]. inversion H. subst.
  split; [eapply digits_opt_nonneg, E|assumption].
Qed.

Lemma parse_i64_range : forall s z, parse_i64 s = Some z -> i64_min <= z <= i64_max.
Proof.
  intros s z H. unfold i64_min, i64_max in *.
  destruct s as [|c r]; [cbn in H; discriminate|].
  destruct (N.eq_dec c 45) as [->|Hm].
  - rewrite parse_i64_minus in H. destruct (digits_opt r) as [v|] eqn:E; [|discriminate].
    destruct (Z.leb_spec v (2 ^ 63)); [|discriminate]. inversion H. subst.
    pose proof (digits_opt_nonneg _ _ E). lia.
  - destruct (N.eq_dec c 43) as [->|Hp].
    + rewrite parse_i64_plus in H. destruct (digits_opt r) as [v|] eqn:E; [|discriminate].
      unfold i64_max in H. destruct (Z.leb_spec v (2 ^ 63 - 1)); [|discriminate]. inversion H. subst.
      pose proof (digits_opt_nonneg _ _ E). lia.
    + rewrite parse_i64_nosign in H by assumption.
      destruct (digits_opt (c :: r)) as [v|] eqn:E; [|discriminate].
      unfold i64_max in H. destruct (Z.leb_spec v (2 ^ 63 - 1)); [|discriminate]. inversion H. subst.
      pose proof (digits_opt_nonneg _ _ E). lia.
Qed.

(** * [parse::<f64>] on a printed integer is the correctly rounded double of the integer *)
Lemma split_sign_nosign : forall c r, c <> 43%N -> c <> 45%N -> split_sign (c :: r) = (false, c :: r).
Proof.
  intros c r Hp Hm. unfold split_sign. destruct c as [|p]; [reflexivity|].
  repeat (destruct p as [p|p|]; try reflexivity); contradiction.
Qed.

Lemma span_digits_all : forall s acc cnt,
  all_digits s = true -> span_digits s acc cnt = (digits_val s acc, cnt + Z.of_nat (length s), []).
Proof.
  induction s as [|c s IH]; intros acc cnt H; cbn [span_digits digits_val length].
  - f_equal. f_equal. lia.
  - cbn [all_digits] in H. apply andb_true_iff in H. destruct H as [H1 H2]. rewrite H1, IH by exact H2.
    f_equal. f_equal. lia.
Qed.

Lemma to_lower_digit : forall c, is_digit c = true -> to_lower c = c.
Proof.
  intros c H. unfold to_lower. unfold is_digit in H.
  destruct ((65 <=? c)%N && (c <=? 90)%N) eqn:E; [lia|reflexivity].
Qed.

Lemma ndigits_fuel_bounds : forall f x c, c <= ndigits_fuel f x c <= c + Z.of_nat f.
Proof.
  induction f as [|f IH]; intros x c; cbn [ndigits_fuel]; [lia|].
  destruct (x <=? 0); [lia|]. specialize (IH (x / 10) (c + 1)). lia.
Qed.

Lemma dec_mag_int : forall m, 0 <= m < 2 ^ 64 -> dec_mag m 0 = round_mag m 1.
Proof.
  intros m Hm. unfold dec_mag. destruct (Z.leb_spec m 0) as [H0|H0].
  - assert (m = 0) by lia. subst m. reflexivity.
  - pose proof (ndigits_fuel_bounds (S (Z.to_nat (Z.log2 m))) m 0) as Hb. fold (ndigits m) in Hb.
    assert (Hl : Z.log2 m < 64) by (apply Z.log2_lt_pow2; lia).
    assert (Hl0 : 0 <= Z.log2 m) by apply Z.log2_nonneg.
    destruct (Z.ltb_spec 400 (0 + ndigits m)); [lia|].
    destruct (Z.ltb_spec (0 + ndigits m) (-400)); [lia|].
    cbn [Z.leb Z.compare]. change (10 ^ 0) with 1. rewrite Z.mul_1_r. reflexivity.
Qed.

Lemma parse_f64_unsigned_digits : forall neg s,
  s <> [] -> all_digits s = true -> digits_val s 0 < 2 ^ 64 ->
  parse_f64_unsigned neg s = Some (f64_with_sign neg (round_mag (digits_val s 0) 1)).
Proof.
  intros neg s Hne Hd Hv. destruct s as [|c r]; [contradiction|].
  pose proof (all_digits_head _ _ Hd) as Hc.
  unfold parse_f64_unsigned.
  assert (Hl : lower (c :: r) = c :: lower r) by (unfold lower; cbn [map]; rewrite to_lower_digit by exact Hc; reflexivity).
  rewrite Hl. unfold kw_inf, kw_infinity, kw_nan. cbn [bytes_eqb].
  assert (Hi : (c =? 105)%N = false) by (unfold is_digit in Hc; lia).
  assert (Hn : (c =? 110)%N = false) by (unfold is_digit in Hc; lia).
  rewrite Hi, Hn. cbn [andb orb].
  rewrite span_digits_all by exact Hd.
  assert (Hlen : (0 + Z.of_nat (length (c :: r)) + 0 =? 0) = false) by (cbn [length]; lia).
  rewrite Hlen. unfold f64_of_dec. rewrite dec_mag_int; [reflexivity|].
  split; [apply digits_val_nonneg; lia|exact Hv].
Qed.

Lemma parse_f64_dec : forall z, - 2 ^ 64 < z < 2 ^ 64 -> parse_f64 (dec_of_Z z) = Some (f64_of_int z).
Proof.
  intros z Hz. unfold parse_f64, f64_of_int. destruct (Z.ltb_spec z 0) as [Hneg|Hpos].
  - rewrite dec_of_Z_neg by lia. cbn [split_sign].
    destruct (dec_of_N_spec (Z.to_N (- z))) as (H1 & H2 & H3 & _).
    rewrite parse_f64_unsigned_digits; try assumption; rewrite H2, Z2N.id by lia; [reflexivity|lia].
  - rewrite dec_of_Z_nonneg by lia.
    destruct (dec_of_N_spec (Z.to_N z)) as (H1 & H2 & H3 & _).
    destruct (dec_of_N_head (Z.to_N z)) as (c & r & E & Hc).
    destruct (is_digit_not_sign c Hc) as [Hp Hm].
    rewrite E, split_sign_nosign by assumption. rewrite <- E.
    rewrite parse_f64_unsigned_digits; try assumption; rewrite H2, Z2N.id by lia; [reflexivity|lia].
Qed.

(** * [serde_json::from_str] on a printed unsigned integer *)
Lemma int_digits_all : forall r acc,
  all_digits r = true -> 0 <= acc -> digits_val r acc <= u64_max ->
  int_digits r acc = (digits_val r acc, 0, false, []).
Proof.
  induction r as [|c r IH]; intros acc Hd Ha Hv; cbn [int_digits digits_val]; [reflexivity|].
  cbn [all_digits] in Hd. apply andb_true_iff in Hd. destruct Hd as [Hc Hr]. rewrite Hc.
  cbn [digits_val] in Hv.
  assert (Hs : 0 <= acc * 10 + Z.of_N (digit_val c)) by lia.
  pose proof (digits_val_ge r _ Hs) as Hge.
  destruct (Z.ltb_spec u64_max (acc * 10 + Z.of_N (digit_val c))); [lia|].
  apply IH; assumption.
Qed.

Lemma parse_number_legacy_digits : forall c r n,
  all_digits (c :: r) = true -> digits_val (c :: r) 0 = n -> 0 <= n <= u64_max -> (c = 48%N -> r = []) ->
  parse_number_legacy false (c :: r) = Some (JU64 n, []).
Proof.
  intros c r n Hd Hv Hn H0. pose proof (all_digits_head _ _ Hd) as Hc.
  cbn [all_digits] in Hd. apply andb_true_iff in Hd. destruct Hd as [_ Hr].
  cbn [digits_val] in Hv. rewrite Z.mul_0_l, Z.add_0_l in Hv.
  unfold parse_number_legacy. rewrite Hc.
  destruct (N.eqb_spec c 48) as [E48|E48].
  - rewrite (H0 E48) in *. subst c. cbn in Hv. subst n. reflexivity.
  - rewrite int_digits_all; [|exact Hr|lia|rewrite Hv; lia].
    rewrite Hv. cbn [number_tail negb]. reflexivity.
Qed.

Lemma parse_number_rt_digits : forall c r n,
  all_digits (c :: r) = true -> digits_val (c :: r) 0 = n -> 0 <= n <= u64_max -> (c = 48%N -> r = []) ->
  parse_number_rt false (c :: r) = Some (JU64 n, []).
Proof.
  intros c r n Hd Hv Hn H0. pose proof (all_digits_head _ _ Hd) as Hc.
  assert (Hb : number_body_rt false (c :: r) = Some (JU64 n, [])).
  { unfold number_body_rt. rewrite span_digits_all by exact Hd. rewrite Hv.
    unfold number_int. destruct (Z.ltb_spec u64_max n); [lia|]. reflexivity. }
  unfold parse_number_rt. rewrite Hc.
  destruct (N.eqb_spec c 48) as [E48|E48]; [|exact Hb].
  rewrite (H0 E48) in *. exact Hb.
Qed.

Lemma parse_json_dec : forall n, 0 <= n <= u64_max -> parse_json (dec_of_Z n) = Some (JU64 n).
Proof.
  intros n Hn. rewrite dec_of_Z_nonneg by lia.
  destruct (dec_of_N_spec (Z.to_N n)) as (H1 & H2 & H3 & H4).
  destruct (dec_of_N_head (Z.to_N n)) as (c & r & E & Hc).
  assert (H0 : c = 48%N -> r = []).
  { intros ->. destruct (Z.eq_dec n 0) as [->|Hnz].
    - cbn in E. inversion E. reflexivity.
    - exfalso. assert (Hp : (0 < Z.to_N n)%N) by lia. specialize (H4 Hp). rewrite E in H4. cbn [head_nonzero] in H4. contradiction. }
  unfold parse_json. rewrite E in *.
  replace (2 * length (c :: r) + 4)%nat with (S (2 * length (c :: r) + 3))%nat by lia.
  cbn [pvalue].
  assert (Hws : skip_ws (c :: r) = c :: r).
  { unfold skip_ws. cbn [drop_while]. assert (Hw : is_json_ws c = false) by (unfold is_json_ws; unfold is_digit in Hc; lia).
    rewrite Hw. reflexivity. }
  rewrite Hws.
  assert (T1 : (c =? 110)%N = false) by (unfold is_digit in Hc; lia).
  assert (T2 : (c =? 116)%N = false) by (unfold is_digit in Hc; lia).
  assert (T3 : (c =? 102)%N = false) by (unfold is_digit in Hc; lia).
  assert (T4 : (c =? 34)%N = false) by (unfold is_digit in Hc; lia).
  assert (T5 : (c =? 45)%N = false) by (unfold is_digit in Hc; lia).
  rewrite T1, T2, T3, T4, T5, Hc.
  rewrite Z2N.id in H2 by lia.
  assert (Hp : parse_number false (c :: r) = Some (JU64 n, [])).
  { unfold parse_number. destruct value_serde_float_roundtrip;
      [apply parse_number_rt_digits|apply parse_number_legacy_digits]; assumption. }
  rewrite Hp. cbn [skip_ws drop_while]. reflexivity.
Qed.
