(** Printing then parsing a well-formed WHERE expression is the identity
    (for the grammar as it is and for the repaired one, under every keyword casing). *)
From Coq Require Import NArith ZArith List Bool Lia.
From Coq Require Import ZifyBool ZifyNat ZifyN.
From Snel Require Import Base.Bytes Model.Tokenizer Model.Parser Model.Printer Proofs.ParserBasics.
Import ListNotations.
Open Scope N_scope.
Ltac Zify.zify_post_hook ::= Z.div_mod_to_equations.

Ltac norm_app := repeat (rewrite <- app_assoc || rewrite <- app_comm_cons); cbn [app].

(** * Follow sets *)

Definition head_ok (rest : bytes) : bool :=
  match rest with [] => true | c :: _ => (c =? 32) || (c =? 41) end.
Definition fld_stop (rest : bytes) : bool := negb (head_is (fun c => is_ident_char c || (c =? 46)) rest).
Definition val_stop (rest : bytes) : bool := negb (head_is (fun c => is_ident_char c || (c =? 46)) rest).

Definition fstop (rest : bytes) : Prop :=
  head_ok rest = true /\ cmp_op (ws rest) = None /\ ci K_IN (ws rest) = None.
Definition astop (rest : bytes) : Prop := fstop rest /\ ci K_AND (ws rest) = None.
Definition ostop (rest : bytes) : Prop := astop rest /\ ci K_OR (ws rest) = None.

Lemma head_ok_fld_stop : forall rest, head_ok rest = true -> fld_stop rest = true.
Proof.
  intros [|c r] H; [reflexivity|]. unfold head_ok in H. unfold fld_stop, head_is.
  unfold is_ident_char, is_alpha, is_digit. cbv beta. lia.
Qed.

Lemma fld_stop_nonalpha : forall rest, fld_stop rest = true -> head_is is_alpha rest = false.
Proof.
  intros [|c r] H; [reflexivity|]. unfold fld_stop, head_is in *. unfold is_ident_char, is_alpha, is_digit in *. cbv beta in *. lia.
Qed.

Lemma fld_stop_nonident : forall rest, fld_stop rest = true -> head_is is_ident_char rest = false.
Proof. intros [|c r] H; [reflexivity|]. unfold fld_stop, head_is in *. unfold is_ident_char, is_alpha, is_digit in *. cbv beta in *. lia. Qed.

Lemma fld_stop_nondigit : forall rest, fld_stop rest = true -> head_is is_digit rest = false.
Proof. intros [|c r] H; [reflexivity|]. unfold fld_stop, head_is in *. unfold is_ident_char, is_alpha, is_digit in *. cbv beta in *. lia. Qed.

Lemma fld_stop_nodot : forall c r, fld_stop (c :: r) = true -> (c =? 46) = false.
Proof. intros c r H. unfold fld_stop, head_is in H. unfold is_ident_char, is_alpha, is_digit in *. cbv beta in H. lia. Qed.

(** * Identifiers and fields *)

Lemma ident_print : forall i rest,
  ident_syntax i = true -> head_is is_ident_char rest = false ->
  ident (i ++ rest) = Some (i, rest).
Proof.
  intros [|c r] rest Hi Hr; cbn in Hi; [discriminate|].
  apply andb_prop in Hi as [Hc Hr']. unfold ident, ident_with. cbn [app]. rewrite Hc.
  rewrite (span_app _ _ _ Hr' Hr). auto.
Qed.

Lemma split_dot_spec : forall f a o, split_dot f = (a, o) ->
  forallb (fun c => negb (c =? 46)) a = true /\
  match o with None => f = a | Some b2 => f = a ++ 46 :: b2 end.
Proof.
  induction f as [|c f IH]; intros a o H; cbn in H.
  - inversion H; subst. auto.
  - destruct (c =? 46) eqn:E.
    + inversion H; subst. apply N.eqb_eq in E. subst. auto.
    + destruct (split_dot f) as [a' o'] eqn:S. inversion H; subst.
      destruct (IH _ _ eq_refl) as [H1 H2]. split.
      * cbn. rewrite E, H1. auto.
      * destruct o; subst; auto.
Qed.

Lemma wf_ident_syntax : forall i, wf_ident i = true -> ident_syntax i = true.
Proof. intros i H. unfold wf_ident in H. apply andb_prop in H. tauto. Qed.

Lemma field_print : forall f rest,
  wf_field f = true -> fld_stop rest = true -> field (f ++ rest) = Some (f, rest).
Proof.
  intros f rest Hf Hr. unfold wf_field in Hf.
  destruct (split_dot f) as [a o] eqn:S. apply split_dot_spec in S as [Hnd Hf'].
  unfold field. destruct o as [b2|].
  - apply andb_prop in Hf as [Ha Hb]. subst f. norm_app.
    rewrite (ident_print a (46 :: b2 ++ rest) (wf_ident_syntax _ Ha) eq_refl).
    cbn [N.eqb Pos.eqb]. rewrite (ident_print b2 rest Hb (fld_stop_nonident _ Hr)). auto.
  - subst f. rewrite (ident_print a rest (wf_ident_syntax _ Hf) (fld_stop_nonident _ Hr)).
    destruct rest as [|c r]; auto. rewrite (fld_stop_nodot _ _ Hr). auto.
Qed.

(** the leading alphabetic run of a well-formed identifier is not a keyword *)
Lemma span_prefix : forall p a rest, head_is p rest = false ->
  span p (a ++ rest) = (fst (span p a), snd (span p a) ++ rest).
Proof.
  induction a as [|c a IH]; intros rest Hr; cbn [app span].
  - destruct rest as [|x r]; cbn in *; auto. rewrite Hr. auto.
  - destruct (p c) eqn:E.
    + rewrite (IH _ Hr). destruct (span p a); auto.
    + auto.
Qed.

Lemma existsb_false_In : forall (A : Type) (f : A -> bool) l x, existsb f l = false -> In x l -> f x = false.
Proof.
  induction l; cbn; intros x H Hin; [tauto|]. apply orb_false_elim in H as [H1 H2].
  destruct Hin; subst; auto.
Qed.

Lemma ci_wf_ident : forall i k rest,
  wf_ident i = true -> In k keywords -> head_is is_alpha rest = false ->
  ci k (i ++ rest) = None.
Proof.
  intros i k rest Hi Hk Hr. unfold ci. rewrite (span_prefix _ _ _ Hr).
  unfold wf_ident in Hi. apply andb_prop in Hi as [_ Hkw].
  destruct (span is_alpha i) as [w r] eqn:S. cbn [fst snd] in *.
  destruct w as [|c w]; auto.
  unfold is_keyword in Hkw. apply negb_true_iff in Hkw.
  rewrite (existsb_false_In _ _ _ _ Hkw Hk). auto.
Qed.

Lemma ci_wf_field : forall f k rest,
  wf_field f = true -> In k keywords -> fld_stop rest = true ->
  ci k (f ++ rest) = None.
Proof.
  intros f k rest Hf Hk Hr. unfold wf_field in Hf.
  destruct (split_dot f) as [a o] eqn:S. apply split_dot_spec in S as [_ Hf'].
  destruct o as [b2|].
  - apply andb_prop in Hf as [Ha _]. subst f. norm_app. apply ci_wf_ident; auto.
  - subst f. apply ci_wf_ident; auto. apply fld_stop_nonalpha; auto.
Qed.

Lemma wf_field_head : forall f rest, wf_field f = true ->
  exists c r, f ++ rest = c :: r /\ is_ident_start c = true.
Proof.
  intros f rest Hf. unfold wf_field in Hf.
  destruct (split_dot f) as [a o] eqn:S. apply split_dot_spec in S as [_ Hf'].
  assert (Ha : ident_syntax a = true).
  { destruct o; [apply andb_prop in Hf as [Hf _]|]; apply wf_ident_syntax; auto. }
  destruct a as [|c a]; cbn in Ha; [discriminate|]. apply andb_prop in Ha as [Hc _].
  destruct o; subst f; cbn [app]; eauto.
Qed.

(** * Values *)

Lemma string_lit_print : forall s rest, no_quote s = true ->
  string_lit (34 :: s ++ 34 :: rest) = Some (s, rest).
Proof.
  intros s rest Hs. unfold string_lit. cbn [N.eqb Pos.eqb].
  rewrite (span_app (fun c => negb (c =? 34)) s (34 :: rest) Hs eq_refl). auto.
Qed.

Lemma integer_digits : forall d rest,
  all_digits d = true -> d <> [] -> head_is is_digit rest = false ->
  integer (d ++ rest) = Some ((false, d), rest).
Proof.
  intros d rest Hd Hne Hr. unfold integer.
  destruct d as [|c d']; [congruence|]. cbn [app].
  assert (Hc : (c =? 45) = false).
  { unfold all_digits in Hd. cbn [forallb] in Hd. unfold is_digit in Hd. lia. }
  rewrite Hc. change (c :: d' ++ rest) with ((c :: d') ++ rest).
  rewrite (span_app _ _ _ Hd Hr). auto.
Qed.

Lemma integer_neg_digits : forall d rest,
  all_digits d = true -> d <> [] -> head_is is_digit rest = false ->
  integer (45 :: d ++ rest) = Some ((true, d), rest).
Proof.
  intros d rest Hd Hne Hr. unfold integer. cbn [N.eqb Pos.eqb].
  rewrite (span_app _ _ _ Hd Hr). destruct d; [congruence|auto].
Qed.

Lemma val_stop_nondigit : forall rest, val_stop rest = true -> head_is is_digit rest = false.
Proof. exact fld_stop_nondigit. Qed.

Lemma number_text_int : forall (neg : bool) d rest,
  all_digits d = true -> d <> [] -> val_stop rest = true ->
  number_text ((if neg then [45] else []) ++ d ++ rest) = Some ((neg, d, None), rest).
Proof.
  intros neg d rest Hd Hne Hr. unfold number_text.
  assert (Hi : integer ((if neg then [45] else []) ++ d ++ rest) = Some ((neg, d), rest)).
  { destruct neg; cbn [app]; [apply integer_neg_digits|apply integer_digits]; auto using val_stop_nondigit. }
  rewrite Hi. destruct rest as [|c r]; auto. rewrite (fld_stop_nodot _ _ Hr). auto.
Qed.

Lemma number_text_float : forall (neg : bool) d fd rest,
  all_digits d = true -> d <> [] -> all_digits fd = true -> fd <> [] -> val_stop rest = true ->
  number_text ((if neg then [45] else []) ++ d ++ 46 :: fd ++ rest) = Some ((neg, d, Some fd), rest).
Proof.
  intros neg d fd rest Hd Hne Hfd Hfne Hr. unfold number_text.
  assert (Hi : integer ((if neg then [45] else []) ++ d ++ 46 :: fd ++ rest) = Some ((neg, d), 46 :: fd ++ rest)).
  { destruct neg; cbn [app]; [apply integer_neg_digits|apply integer_digits]; auto. }
  rewrite Hi. cbn [N.eqb Pos.eqb].
  rewrite (span_app _ _ _ Hfd (val_stop_nondigit _ Hr)). destruct fd; [congruence|auto].
Qed.

Lemma dec_of_Z_shape : forall z, exists (neg : bool) d,
  dec_of_Z z = (if neg then [45] else []) ++ d /\ all_digits d = true /\ d <> [] /\
  (if neg then (- Z.of_N (digits_val d 0))%Z else Z.of_N (digits_val d 0)) = z.
Proof.
  intros [|p|p]; cbn [dec_of_Z].
  - exists false, [48]. repeat split; auto. congruence.
  - destruct (dec_of_N_spec (Npos p)) as (H1 & H2 & H3). exists false, (dec_of_N (Npos p)).
    rewrite H3. repeat split; auto.
  - destruct (dec_of_N_spec (Npos p)) as (H1 & H2 & H3). exists true, (dec_of_N (Npos p)).
    rewrite H3. repeat split; auto.
Qed.

Lemma wf_float_parts : forall neg d fd, wf_val (VFloat neg d fd) = true ->
  all_digits d = true /\ all_digits fd = true /\ d <> [] /\ fd <> [] /\ float_overflows d fd = false.
Proof.
  intros neg d fd H. cbn [wf_val] in H.
  apply andb_prop in H as [H H5]. apply andb_prop in H as [H H4]. apply andb_prop in H as [H H3].
  apply andb_prop in H as [H1 H2]. apply negb_true_iff in H5.
  repeat split; auto; intro E; subst; discriminate.
Qed.

Lemma is_some_string_lit_digit : forall c r, (c =? 34) = false -> string_lit (c :: r) = None.
Proof. intros c r H. unfold string_lit. rewrite H. auto. Qed.

Section WithMode.
Variable fx : bool.
Variable sp : bytes -> bytes.
Hypothesis Hsp : speller_ok sp.

Lemma value_print : forall v rest, wf_val v = true -> val_stop rest = true ->
  value fx (print_val v ++ rest) = Ok (v, rest).
Proof.
  intros v rest Hv Hr. unfold value, alt. destruct v as [s|z|neg d fd|bv]; cbn [print_val wf_val] in *.
  - norm_app. rewrite (string_lit_print s rest Hv). auto.
  - destruct (dec_of_Z_shape z) as (neg & d & E & Hd & Hne & Hz). rewrite E. norm_app.
    assert (Hs : string_lit ((if neg then [45] else []) ++ d ++ rest) = None).
    { destruct neg; cbn [app]; [reflexivity|]. destruct d as [|c d']; [congruence|].
      apply is_some_string_lit_digit. unfold all_digits in Hd. cbn [forallb] in Hd. unfold is_digit in Hd. lia. }
    rewrite Hs. unfold number. rewrite (number_text_int neg d rest Hd Hne Hr).
    unfold conv_i64. rewrite Hz. rewrite Hv. auto.
  - destruct (wf_float_parts neg d fd Hv) as (Hd & Hfd & Hdne & Hfne & Hov).
    norm_app.
    assert (Hs : string_lit ((if neg then [45] else []) ++ d ++ 46 :: fd ++ rest) = None).
    { destruct neg; cbn [app]; [reflexivity|]. destruct d as [|c d']; [congruence|].
      apply is_some_string_lit_digit. unfold all_digits in Hd. cbn [forallb] in Hd. unfold is_digit in Hd. lia. }
    rewrite Hs. unfold number. rewrite (number_text_float neg d fd rest); auto.
    rewrite Hov. auto.
  - discriminate.
Qed.

Lemma print_val_head : forall v rest, wf_val v = true -> head_is is_tws (print_val v ++ rest) = false.
Proof.
  intros v rest Hv. destruct v as [s|z|neg d fd|bv]; cbn [print_val wf_val] in *.
  - reflexivity.
  - destruct (dec_of_Z_shape z) as (neg & d & E & Hd & Hne & Hz). rewrite E.
    destruct neg; [reflexivity|]. destruct d as [|c d']; [congruence|]. cbn [app head_is].
    unfold all_digits in Hd. cbn [forallb] in Hd. unfold is_digit in Hd. unfold is_tws. lia.
  - destruct (wf_float_parts neg d fd Hv) as (Hd & Hfd & Hdne & Hfne & Hov).
    destruct neg; [reflexivity|]. destruct d as [|c d']; [congruence|]. cbn [app head_is].
    unfold all_digits in Hd. cbn [forallb] in Hd. unfold is_digit in Hd. unfold is_tws. lia.
  - discriminate.
Qed.

(** * Keywords *)

Lemma K_alpha : forall k, In k keywords -> all_alpha k = true /\ k <> [].
Proof.
  intros k H. cbn in H.
  repeat (destruct H as [H|H]; [subst k; split; [reflexivity|vm_compute; discriminate]|]). contradiction.
Qed.

Lemma sp_head_alpha : forall k rest, In k keywords -> head_is is_alpha (sp k ++ rest) = true.
Proof.
  intros k rest Hk. destruct (K_alpha k Hk) as [Ha Hne].
  pose proof (speller_alpha sp k Hsp Ha) as H1. pose proof (speller_nonempty sp k Hsp Hne) as H2.
  destruct (sp k) as [|c w]; [congruence|]. cbn in *. apply andb_prop in H1. tauto.
Qed.

Lemma alpha_not_ws : forall s, head_is is_alpha s = true -> head_is is_tws s = false.
Proof. intros [|c r] H; cbn in *; [discriminate|]. unfold is_alpha in H. unfold is_tws. lia. Qed.

Lemma cmp_op_alpha : forall s, head_is is_alpha s = true -> cmp_op s = None.
Proof.
  intros [|c r] H; cbn in *; [discriminate|]. unfold is_alpha in H.
  unfold cmp_op, cmp_op1. destruct r as [|d r'].
  - replace (c =? 61) with false by lia. replace (c =? 62) with false by lia. replace (c =? 60) with false by lia. auto.
  - replace (c =? 33) with false by lia. replace (c =? 62) with false by lia. replace (c =? 60) with false by lia.
    replace (c =? 61) with false by lia. auto.
Qed.

Lemma ci_sp : forall k rest, In k keywords -> head_is is_alpha rest = false -> ci k (sp k ++ rest) = Some rest.
Proof. intros k rest Hk Hr. destruct (K_alpha k Hk). apply ci_spell; auto. Qed.

(** a spelled keyword is not another keyword *)
Lemma ci_sp_other : forall k k' rest, In k keywords -> In k' keywords -> k <> k' ->
  head_is is_alpha rest = false -> ci k' (sp k ++ rest) = None.
Proof.
  intros k k' rest Hk Hk' Hne Hr. destruct (K_alpha k Hk) as [Ha Hn].
  apply ci_other; auto using speller_alpha.
  unfold ci_eqb. rewrite (Hsp k).
  destruct (bytes_eqb (map to_upper k) (map to_upper k')) eqn:E; auto.
  apply bytes_eqb_eq in E. exfalso. apply Hne.
  cbn in Hk, Hk'.
  repeat (destruct Hk as [Hk|Hk]; [subst k|]); try contradiction;
  repeat (destruct Hk' as [Hk'|Hk']; [subst k'|]); try contradiction; try reflexivity; vm_compute in E; discriminate.
Qed.

Ltac kw_in := cbn; tauto.

Lemma lit_hit : forall c r, lit c (c :: r) = Some r.
Proof. intros. unfold lit. rewrite N.eqb_refl. auto. Qed.

(** * Lists of values *)

Definition vstep : P jval := fun s1 => match comma_sep s1 with Some s2 => value fx s2 | None => Err end.

Lemma many_vals : forall vs fuel rest, (length vs < fuel)%nat -> forallb wf_val vs = true ->
  many fuel vstep (flat_map (fun y => 44 :: 32 :: print_val y) vs ++ 41 :: rest) = Ok (vs, 41 :: rest).
Proof.
  induction vs as [|v vs IH]; intros fuel rest Hf Hw; (destruct fuel as [|fuel]; [cbn in Hf; lia|]).
  - reflexivity.
  - cbn in Hw. apply andb_prop in Hw as [Hv Hvs]. cbn [flat_map many]. norm_app.
    unfold vstep at 1. unfold comma_sep.
    rewrite (ws_nows (44 :: _) eq_refl), lit_hit, ws_space, (ws_nows _ (print_val_head v _ Hv)).
    rewrite (value_print v); auto.
    + rewrite (IH fuel rest); auto. cbn in Hf. lia.
    + destruct vs; reflexivity.
Qed.

Lemma flat_map_length_ge : forall (vs : list jval) X,
  (length vs <= length (flat_map (fun y => 44%N :: 32%N :: print_val y) vs ++ X))%nat.
Proof.
  induction vs; intro X; cbn [flat_map length]; [lia|]. norm_app. cbn [length].
  rewrite app_length. specialize (IHvs X). rewrite app_length in *. lia.
Qed.

Lemma vals_print : forall vs rest, forallb wf_val vs = true ->
  sep_list (value fx) comma_sep (print_vals vs ++ 41 :: rest) = Ok (vs, 41 :: rest).
Proof.
  intros vs rest Hw. unfold sep_list, print_vals, sep_print. destruct vs as [|v vs].
  - reflexivity.
  - cbn in Hw. apply andb_prop in Hw as [Hv Hvs]. norm_app.
    rewrite (value_print v); [|auto|destruct vs; reflexivity].
    fold vstep. rewrite many_vals; auto. pose proof (flat_map_length_ge vs (41 :: rest)). lia.
Qed.

(** * Leaves *)

Lemma print_op_step : forall o r, cmp_op (print_op o ++ 32 :: r) = Some (o, 32 :: r).
Proof. intros [] r; reflexivity. Qed.

Lemma print_op_head : forall o r, head_is is_tws (print_op o ++ r) = false.
Proof. intros [] r; reflexivity. Qed.

Lemma leaf_cmp : forall f o v rest,
  wf_field f = true -> wf_val v = true -> head_ok rest = true ->
  leaf fx (f ++ 32 :: print_op o ++ 32 :: print_val v ++ rest) = Ok (ECmp f o v, rest).
Proof.
  intros f o v rest Hf Hv Hr. unfold leaf, alt, comparison, bind, lift, skip, ret.
  rewrite (field_print f (32 :: _) Hf eq_refl).
  rewrite ws_space, (ws_nows _ (print_op_head o _)), print_op_step.
  rewrite ws_space, (ws_nows _ (print_val_head v _ Hv)).
  rewrite (value_print v rest Hv (head_ok_fld_stop _ Hr)). auto.
Qed.

Lemma leaf_in : forall f vs rest,
  wf_field f = true -> forallb wf_val vs = true ->
  leaf fx (f ++ 32 :: sp K_IN ++ 32 :: 40 :: print_vals vs ++ 41 :: rest) = Ok (EIn f vs, rest).
Proof.
  intros f vs rest Hf Hv. unfold leaf, alt.
  assert (Hc : comparison fx (f ++ 32 :: sp K_IN ++ 32 :: 40 :: print_vals vs ++ 41 :: rest) = Err).
  { unfold comparison, bind, lift, skip. rewrite (field_print f (32 :: _) Hf eq_refl).
    rewrite ws_space, (ws_nows _ (alpha_not_ws _ (sp_head_alpha K_IN _ ltac:(kw_in)))).
    rewrite (cmp_op_alpha _ (sp_head_alpha K_IN _ ltac:(kw_in))). auto. }
  rewrite Hc. unfold in_expr, bind, lift, skip, kw, sym, ret.
  rewrite (field_print f (32 :: _) Hf eq_refl).
  rewrite ws_space, (ws_nows _ (alpha_not_ws _ (sp_head_alpha K_IN _ ltac:(kw_in)))).
  rewrite (ci_sp K_IN (32 :: _) ltac:(kw_in) eq_refl).
  cbn [ws drop_while is_tws N.eqb Pos.eqb orb lit].
  assert (Hws : ws (print_vals vs ++ 41 :: rest) = print_vals vs ++ 41 :: rest).
  { apply ws_nows. unfold print_vals, sep_print. destruct vs as [|v vs]; [reflexivity|].
    cbn in Hv. apply andb_prop in Hv as [Hv _]. norm_app. apply print_val_head; auto. }
  change (drop_while is_tws (print_vals vs ++ 41 :: rest)) with (ws (print_vals vs ++ 41 :: rest)).
  rewrite Hws, (vals_print vs rest Hv). reflexivity.
Qed.

Lemma leaf_atom : forall f rest,
  wf_field f = true -> fstop rest ->
  leaf fx (f ++ rest) = Ok (ECmp f OpEq (VBool true), rest).
Proof.
  intros f rest Hf (Hh & Hc & Hi). pose proof (head_ok_fld_stop _ Hh) as Hs.
  unfold leaf, alt, comparison, in_expr, atom, bind, lift, skip, kw, ret.
  rewrite (field_print f _ Hf Hs), Hc, Hi. auto.
Qed.

(** a leaf is not the start of NOT / a parenthesis *)
Lemma leaf_not_not : forall f rest, wf_field f = true -> fld_stop rest = true -> ci K_NOT (f ++ rest) = None.
Proof. intros. apply ci_wf_field; auto. kw_in. Qed.

Lemma leaf_not_paren : forall f rest, wf_field f = true -> lit 40 (f ++ rest) = None.
Proof.
  intros f rest Hf. destruct (wf_field_head f rest Hf) as (c & r & E & Hc). rewrite E. cbn.
  unfold is_ident_start, is_alpha in Hc. replace (c =? 40) with false by lia. auto.
Qed.

(** * Stops produced by the printer *)

Lemma fstop_kw : forall k rest, In k keywords -> k <> K_IN -> head_is is_alpha rest = false ->
  fstop (32 :: sp k ++ rest).
Proof.
  intros k rest Hk Hne Hr. unfold fstop. rewrite ws_space.
  rewrite (ws_nows _ (alpha_not_ws _ (sp_head_alpha k _ Hk))).
  repeat split; auto.
  - apply cmp_op_alpha, sp_head_alpha; auto.
  - apply ci_sp_other; auto. kw_in.
Qed.

Lemma fstop_paren : forall rest, fstop (41 :: rest).
Proof. intro rest. repeat split; try reflexivity; destruct rest; reflexivity. Qed.
Lemma astop_paren : forall rest, astop (41 :: rest).
Proof. intro rest. repeat split; try reflexivity; destruct rest; reflexivity. Qed.
Lemma ostop_paren : forall rest, ostop (41 :: rest).
Proof. intro rest. repeat split; try reflexivity; destruct rest; reflexivity. Qed.
Lemma ostop_nil : ostop [].
Proof. repeat split; reflexivity. Qed.

Lemma astop_kw : forall k rest, In k keywords -> k <> K_IN -> k <> K_AND -> head_is is_alpha rest = false ->
  astop (32 :: sp k ++ rest).
Proof.
  intros k rest Hk H1 H2 Hr. split; [apply fstop_kw; auto|].
  rewrite ws_space, (ws_nows _ (alpha_not_ws _ (sp_head_alpha k _ Hk))). apply ci_sp_other; auto. kw_in.
Qed.

Lemma ostop_kw : forall k rest, In k keywords -> k <> K_IN -> k <> K_AND -> k <> K_OR -> head_is is_alpha rest = false ->
  ostop (32 :: sp k ++ rest).
Proof.
  intros k rest Hk H1 H2 H3 Hr. split; [apply astop_kw; auto|].
  rewrite ws_space, (ws_nows _ (alpha_not_ws _ (sp_head_alpha k _ Hk))). apply ci_sp_other; auto. kw_in.
Qed.

(** * The expression grammar *)

Definition rt_at (e : expr) (f0 : nat) : Prop :=
  forall f, (f0 <= f)%nat -> forall rest,
    (ostop rest -> or_expr fx f (print_expr_at sp 0 e ++ rest) = Ok (e, rest)) /\
    (astop rest -> and_expr fx f (print_expr_at sp 1 e ++ rest) = Ok (e, rest)) /\
    (fstop rest -> factor fx f (print_expr_at sp 2 e ++ rest) = Ok (e, rest)).

(** from the factor level to the levels above, for an expression printed without parentheses *)
Lemma lift_levels : forall e txt f rest,
  (forall rest', fstop rest' -> factor fx f (txt ++ rest') = Ok (e, rest')) ->
  (astop rest -> and_expr fx (S f) (txt ++ rest) = Ok (e, rest)) /\
  (ostop rest -> or_expr fx (S (S f)) (txt ++ rest) = Ok (e, rest)).
Proof.
  intros e txt f rest H.
  assert (Ha : astop rest -> and_expr fx (S f) (txt ++ rest) = Ok (e, rest)).
  { intros [Hf Hand]. rewrite and_expr_S, (H _ Hf), Hand. auto. }
  split; auto.
  intros [Hast Hor]. rewrite or_expr_S, (Ha Hast), Hor. auto.
Qed.

(** ** heads of printed expressions *)

Definition goodhead (c : N) : bool := is_ident_start c || (c =? 40).

Lemma goodhead_nows : forall c r, goodhead c = true -> head_is is_tws (c :: r) = false.
Proof.
  intros c r H. unfold goodhead, is_ident_start, is_alpha in H. unfold head_is, is_tws. lia.
Qed.

Lemma wf_cmp : forall f o v lvl, wf_expr (ECmp f o v) = true ->
  wf_field f = true /\
  ((o = OpEq /\ v = VBool true /\ print_expr_at sp lvl (ECmp f o v) = f) \/
   (wf_val v = true /\ print_expr_at sp lvl (ECmp f o v) = f ++ 32 :: print_op o ++ 32 :: print_val v)).
Proof.
  intros f o v lvl H.
  destruct v as [s|z|neg d fd|[|]]; destruct o; cbn [wf_expr print_expr_at] in *;
    try (apply andb_prop in H as [H1 H2]; split; [exact H1|right; split; [exact H2|reflexivity]]);
    try (split; [exact H|left; auto]).
Qed.

Lemma sp_goodhead : forall k rest, In k keywords -> exists c r, sp k ++ rest = c :: r /\ goodhead c = true.
Proof.
  intros k rest Hk. pose proof (sp_head_alpha k rest Hk) as H.
  destruct (sp k ++ rest) as [|c r]; [discriminate|]. exists c, r. split; auto.
  unfold head_is in H. unfold goodhead, is_ident_start. rewrite H. auto.
Qed.

Lemma print_head : forall e lvl rest, wf_expr e = true ->
  exists c r, print_expr_at sp lvl e ++ rest = c :: r /\ goodhead c = true.
Proof.
  induction e as [f o v | f vs | x IHx y IHy | x IHx y IHy | x IHx]; intros lvl rest Hw.
  - destruct (wf_cmp f o v lvl Hw) as [Hf [(-> & -> & E)|(Hv & E)]]; rewrite E; norm_app.
    + destruct (wf_field_head f rest Hf) as (c & r & E' & Hc); rewrite E'; exists c, r; split; auto;
      unfold goodhead; rewrite Hc; auto.
    + destruct (wf_field_head f (32 :: print_op o ++ 32 :: print_val v ++ rest) Hf) as (c & r & E' & Hc);
      rewrite E'; exists c, r; split; auto; unfold goodhead; rewrite Hc; auto.
  - cbn [wf_expr print_expr_at] in *. apply andb_prop in Hw as [Hf _]. norm_app.
    destruct (wf_field_head f (32 :: sp K_IN ++ 32 :: 40 :: print_vals vs ++ 41 :: rest) Hf) as (c & r & E' & Hc).
    rewrite E'. exists c, r. split; auto. unfold goodhead. rewrite Hc. auto.
  - cbn [wf_expr print_expr_at] in *. apply andb_prop in Hw as [Hx Hy].
    destruct (Nat.ltb 1 lvl); norm_app.
    + exists 40, (print_expr_at sp 2 x ++ 32 :: sp K_AND ++ 32 :: print_expr_at sp 1 y ++ 41 :: rest). auto.
    + apply IHx; auto.
  - cbn [wf_expr print_expr_at] in *. apply andb_prop in Hw as [Hx Hy].
    destruct (Nat.ltb 0 lvl); norm_app.
    + exists 40, (print_expr_at sp 1 x ++ 32 :: sp K_OR ++ 32 :: print_expr_at sp 0 y ++ 41 :: rest). auto.
    + apply IHx; auto.
  - cbn [wf_expr print_expr_at] in *. norm_app. apply sp_goodhead. kw_in.
Qed.

Lemma print_nows : forall e lvl rest, wf_expr e = true -> ws (print_expr_at sp lvl e ++ rest) = print_expr_at sp lvl e ++ rest.
Proof.
  intros e lvl rest Hw. destruct (print_head e lvl rest Hw) as (c & r & E & Hc). rewrite E.
  apply ws_nows, goodhead_nows; auto.
Qed.

(** ** the three levels *)

Lemma factor_leaf : forall s e f rest,
  ci K_NOT s = None -> lit 40 s = None -> leaf fx s = Ok (e, rest) ->
  factor fx (S f) s = Ok (e, rest).
Proof. intros s e f rest H1 H2 H3. rewrite factor_S, H1. unfold paren_or_leaf. rewrite H2. auto. Qed.

Lemma rt_from_factor : forall e txt f0,
  print_expr_at sp 0 e = txt -> print_expr_at sp 1 e = txt -> print_expr_at sp 2 e = txt ->
  (forall f, (f0 <= f)%nat -> forall rest, fstop rest -> factor fx f (txt ++ rest) = Ok (e, rest)) ->
  rt_at e (S (S f0)).
Proof.
  intros e txt f0 E0 E1 E2 H f Hf rest. rewrite E0, E1, E2.
  destruct f as [|[|f]]; try lia.
  destruct (lift_levels e txt f rest (H f ltac:(lia))) as [_ Ho].
  destruct (lift_levels e txt (S f) rest (H (S f) ltac:(lia))) as [Ha _].
  repeat split; auto. apply H. lia.
Qed.

Lemma paren_wrap : forall e txt f,
  (forall rest, head_is is_tws (txt ++ rest) = false) ->
  (forall rest, ostop rest -> or_expr fx f (txt ++ rest) = Ok (e, rest)) ->
  forall rest, factor fx (S f) (40 :: txt ++ 41 :: rest) = Ok (e, rest).
Proof.
  intros e txt f Hh H rest. rewrite factor_S. rewrite (ci_nonalpha K_NOT (40 :: _) eq_refl).
  unfold paren_or_leaf. rewrite lit_hit, (ws_nows _ (Hh _)), (H _ (ostop_paren rest)).
  rewrite (ws_nows (41 :: rest) eq_refl), lit_hit. auto.
Qed.

Lemma rt_expr : forall e, wf_expr e = true -> exists f0, rt_at e f0.
Proof.
  induction e as [f o v | f vs | x IHx y IHy | x IHx y IHy | x IHx]; intro Hw.
  - (* comparison / bare field *)
    exists 3%nat.
    destruct (wf_cmp f o v 0 Hw) as [Hf _].
    apply (rt_from_factor _ (print_expr_at sp 0 (ECmp f o v)) 1).
    + reflexivity.
    + destruct v as [| | |[|]]; destruct o; reflexivity.
    + destruct v as [| | |[|]]; destruct o; reflexivity.
    + intros fu Hfu rest Hst. destruct fu as [|fu]; [lia|].
      pose proof Hst as (Hh & _ & _). pose proof (head_ok_fld_stop _ Hh) as Hfs.
      destruct (wf_cmp f o v 0 Hw) as [_ [(-> & -> & E)|(Hv & E)]]; rewrite E.
      * apply factor_leaf; [apply leaf_not_not; auto|apply leaf_not_paren; auto|apply leaf_atom; auto].
      * norm_app. apply factor_leaf.
        -- apply (leaf_not_not f (32 :: _)); auto.
        -- apply leaf_not_paren; auto.
        -- apply leaf_cmp; auto.
  - (* IN *)
    exists 3%nat. cbn [wf_expr] in Hw. apply andb_prop in Hw as [Hf Hv].
    apply (rt_from_factor _ (print_expr_at sp 0 (EIn f vs)) 1); try reflexivity.
    intros fu Hfu rest Hst. destruct fu as [|fu]; [lia|]. cbn [print_expr_at]. norm_app.
    apply factor_leaf.
    + apply (leaf_not_not f (32 :: _)); auto.
    + apply leaf_not_paren; auto.
    + apply leaf_in; auto.
  - (* AND *)
    cbn [wf_expr] in Hw. apply andb_prop in Hw as [Hx Hy].
    destruct (IHx Hx) as [fx0 Rx]. destruct (IHy Hy) as [fy0 Ry].
    exists (S (S (S (fx0 + fy0)))).
    set (txt := print_expr_at sp 2 x ++ 32 :: sp K_AND ++ 32 :: print_expr_at sp 1 y).
    assert (L1 : forall f, (fx0 + fy0 <= f)%nat -> forall rest, astop rest ->
                 and_expr fx (S f) (txt ++ rest) = Ok (EAnd x y, rest)).
    { intros f Hf rest Hst. unfold txt. norm_app. rewrite and_expr_S.
      destruct (Rx f ltac:(lia) (32 :: sp K_AND ++ 32 :: print_expr_at sp 1 y ++ rest)) as (_ & _ & Hfac).
      rewrite Hfac by (apply fstop_kw; [kw_in|vm_compute; discriminate|reflexivity]).
      rewrite ws_space, (ws_nows _ (alpha_not_ws _ (sp_head_alpha K_AND _ ltac:(kw_in)))).
      rewrite (ci_sp K_AND (32 :: _) ltac:(kw_in) eq_refl).
      rewrite ws_space, (print_nows y 1 rest Hy).
      destruct (Ry f ltac:(lia) rest) as (_ & Hand & _). rewrite (Hand Hst). auto. }
    assert (L0 : forall f, (fx0 + fy0 <= f)%nat -> forall rest, ostop rest ->
                 or_expr fx (S (S f)) (txt ++ rest) = Ok (EAnd x y, rest)).
    { intros f Hf rest [Hast Hor]. rewrite or_expr_S, (L1 f Hf rest Hast), Hor. auto. }
    assert (Hh : forall rest, head_is is_tws (txt ++ rest) = false).
    { intro rest. unfold txt. norm_app. destruct (print_head x 2 (32 :: sp K_AND ++ 32 :: print_expr_at sp 1 y ++ rest) Hx) as (c & r & E & Hc).
      rewrite E. apply goodhead_nows; auto. }
    intros f Hf rest. destruct f as [|[|[|f]]]; try lia.
    cbn [print_expr_at Nat.ltb Nat.leb]. fold txt. repeat split.
    + apply L0. lia.
    + apply L1. lia.
    + intros _. norm_app. apply (paren_wrap (EAnd x y) txt (S (S f)) Hh). intros r Hr. apply L0; auto. lia.
  - (* OR *)
    cbn [wf_expr] in Hw. apply andb_prop in Hw as [Hx Hy].
    destruct (IHx Hx) as [fx0 Rx]. destruct (IHy Hy) as [fy0 Ry].
    exists (S (S (S (fx0 + fy0)))).
    set (txt := print_expr_at sp 1 x ++ 32 :: sp K_OR ++ 32 :: print_expr_at sp 0 y).
    assert (L0 : forall f, (fx0 + fy0 <= f)%nat -> forall rest, ostop rest ->
                 or_expr fx (S f) (txt ++ rest) = Ok (EOr x y, rest)).
    { intros f Hf rest Hst. unfold txt. norm_app. rewrite or_expr_S.
      destruct (Rx f ltac:(lia) (32 :: sp K_OR ++ 32 :: print_expr_at sp 0 y ++ rest)) as (_ & Hand & _).
      rewrite Hand by (apply astop_kw; [kw_in|vm_compute; discriminate|vm_compute; discriminate|reflexivity]).
      rewrite ws_space, (ws_nows _ (alpha_not_ws _ (sp_head_alpha K_OR _ ltac:(kw_in)))).
      rewrite (ci_sp K_OR (32 :: _) ltac:(kw_in) eq_refl).
      rewrite ws_space, (print_nows y 0 rest Hy).
      destruct (Ry f ltac:(lia) rest) as (Hor & _ & _). rewrite (Hor Hst). auto. }
    assert (Hh : forall rest, head_is is_tws (txt ++ rest) = false).
    { intro rest. unfold txt. norm_app. destruct (print_head x 1 (32 :: sp K_OR ++ 32 :: print_expr_at sp 0 y ++ rest) Hx) as (c & r & E & Hc).
      rewrite E. apply goodhead_nows; auto. }
    assert (L2 : forall f, (fx0 + fy0 <= f)%nat -> forall rest,
                 factor fx (S (S f)) (40 :: txt ++ 41 :: rest) = Ok (EOr x y, rest)).
    { intros f Hf rest. apply (paren_wrap (EOr x y) txt (S f) Hh). intros r Hr. apply L0; auto. }
    intros f Hf rest. destruct f as [|[|[|f]]]; try lia.
    cbn [print_expr_at Nat.ltb Nat.leb]. fold txt. repeat split.
    + apply L0. lia.
    + intros [Hfs Hand]. norm_app. rewrite and_expr_S, (L2 f ltac:(lia) rest), Hand. auto.
    + intros _. norm_app. apply L2. lia.
  - (* NOT *)
    cbn [wf_expr] in Hw. destruct (IHx Hw) as [fx0 Rx].
    exists (S (S (S fx0))).
    apply (rt_from_factor _ (print_expr_at sp 0 (ENot x)) (S fx0)); try reflexivity.
    intros fu Hfu rest Hst. destruct fu as [|fu]; [lia|]. cbn [print_expr_at]. norm_app.
    rewrite factor_S, (ci_sp K_NOT (32 :: _) ltac:(kw_in) eq_refl), ws_space, (print_nows x 2 rest Hw).
    destruct (Rx fu ltac:(lia) rest) as (_ & _ & Hfac). rewrite (Hfac Hst). auto.
Qed.


End WithMode.
