(** Proofs about Model/WalArchive.v (C19). *)
From Coq Require Import ZArith NArith List Bool Lia.
From Coq Require Import ZifyBool ZifyNat ZifyN.
From Snel Require Import Base.Bytes Gen.Params Model.WalArchive.
Import ListNotations.
Ltac Zify.zify_post_hook ::= Z.div_mod_to_equations.
Open Scope N_scope.

(** * Byte strings, association lists *)

Lemma bytes_eqb_refl : forall a, bytes_eqb a a = true.
Proof. induction a as [|x a IH]; cbn [bytes_eqb]; [reflexivity|]. rewrite N.eqb_refl, IH. reflexivity. Qed.

Lemma bytes_eqb_eq : forall a b, bytes_eqb a b = true -> a = b.
Proof.
  induction a as [|x a IH]; intros [|y b] H; cbn [bytes_eqb] in H; try discriminate; [reflexivity|].
  apply andb_true_iff in H. destruct H as [H1 H2]. apply N.eqb_eq in H1. subst y. f_equal. auto.
Qed.

Lemma bytes_eqb_neq : forall a b, bytes_eqb a b = false -> a <> b.
Proof. intros a b H E. subst b. rewrite bytes_eqb_refl in H. discriminate. Qed.

Lemma bytes_eqb_sym : forall a b, bytes_eqb a b = bytes_eqb b a.
Proof.
  intros a b. destruct (bytes_eqb a b) eqn:E.
  - apply bytes_eqb_eq in E. subst b. symmetry. apply bytes_eqb_refl.
  - destruct (bytes_eqb b a) eqn:E2; [|reflexivity].
    apply bytes_eqb_eq in E2. subst b. rewrite bytes_eqb_refl in E. discriminate.
Qed.

Lemma lookup_put_same : forall A n (o : A) d, lookup n (put n o d) = Some o.
Proof.
  intros A n o d. induction d as [|[n' o'] r IH]; cbn [put lookup].
  - rewrite bytes_eqb_refl. reflexivity.
  - destruct (bytes_eqb n n') eqn:E; cbn [lookup]; [rewrite bytes_eqb_refl; reflexivity|].
    rewrite E. exact IH.
Qed.

Lemma lookup_put_other : forall A n m (o : A) d, bytes_eqb n m = false -> lookup n (put m o d) = lookup n d.
Proof.
  intros A n m o d Hnm. induction d as [|[n' o'] r IH]; cbn [put lookup].
  - rewrite Hnm. reflexivity.
  - destruct (bytes_eqb m n') eqn:E; cbn [lookup].
    + apply bytes_eqb_eq in E. subst n'. rewrite Hnm. reflexivity.
    + destruct (bytes_eqb n n'); [reflexivity|exact IH].
Qed.

Definition names {A} (d : list (bytes * A)) : list bytes := map fst d.

Lemma lookup_in : forall A n (o : A) d, lookup n d = Some o -> In (n, o) d.
Proof.
  intros A n o d. induction d as [|[n' o'] r IH]; cbn [lookup]; [discriminate|].
  destruct (bytes_eqb n n') eqn:E; intro H.
  - apply bytes_eqb_eq in E. inversion H. subst. left. reflexivity.
  - right. auto.
Qed.

Lemma in_lookup : forall A n (o : A) d, NoDup (names d) -> In (n, o) d -> lookup n d = Some o.
Proof.
  intros A n o d. induction d as [|[n' o'] r IH]; intros ND Hin; [destruct Hin|].
  cbn [lookup]. cbn [names map fst] in ND. inversion ND as [|? ? Hnotin ND']. subst.
  destruct Hin as [E|Hin].
  - inversion E. subst. rewrite bytes_eqb_refl. reflexivity.
  - destruct (bytes_eqb n n') eqn:E.
    + apply bytes_eqb_eq in E. subst n'. exfalso. apply Hnotin. apply in_map_iff. exists (n, o). auto.
    + apply IH; assumption.
Qed.

Lemma lookup_none_not_in : forall A n (o : A) d, lookup n d = None -> ~ In (n, o) d.
Proof.
  intros A n o d. induction d as [|[n' o'] r IH]; cbn [lookup]; intros H Hin; [destruct Hin|].
  destruct (bytes_eqb n n') eqn:E; [discriminate|].
  destruct Hin as [E2|Hin]; [inversion E2; subst; rewrite bytes_eqb_refl in E; discriminate|].
  exact (IH H Hin).
Qed.

(** * Decimal digits *)

Fixpoint val (s : bytes) (acc : N) : N :=
  match s with [] => acc | c :: r => val r (acc * 10 + digit_val c) end.

Lemma val_app : forall a b acc, val (a ++ b) acc = val b (val a acc).
Proof. induction a as [|x a IH]; intros b acc; cbn [app val]; [reflexivity|apply IH]. Qed.

Lemma is_digit_mod10 : forall n, is_digit (48 + n mod 10) = true.
Proof. intros n. unfold is_digit. assert (n mod 10 < 10) by (apply N.mod_lt; lia). lia. Qed.

Lemma digit_val_mod10 : forall n, digit_val (48 + n mod 10) = n mod 10.
Proof. intros n. unfold digit_val. lia. Qed.

Lemma pow10_succ : forall w, 10 ^ N.of_nat (S w) = 10 * 10 ^ N.of_nat w.
Proof. intros w. rewrite Nat2N.inj_succ, N.pow_succ_r'. reflexivity. Qed.

Lemma pow10_pos : forall w, 0 < 10 ^ N.of_nat w.
Proof. intros w. apply N.neq_0_lt_0, N.pow_nonzero. lia. Qed.

Lemma pad_digits_all : forall w n, forallb is_digit (pad_digits w n) = true.
Proof.
  induction w as [|w IH]; intros n; cbn [pad_digits]; [reflexivity|].
  rewrite forallb_app, IH. cbn [forallb]. rewrite is_digit_mod10. reflexivity.
Qed.

Lemma pad_digits_length : forall w n, length (pad_digits w n) = w.
Proof.
  induction w as [|w IH]; intros n; cbn [pad_digits]; [reflexivity|].
  rewrite app_length, IH. cbn [length]. lia.
Qed.

Lemma pad_digits_val : forall w n acc, val (pad_digits w n) acc = acc * 10 ^ N.of_nat w + n mod 10 ^ N.of_nat w.
Proof.
  induction w as [|w IH]; intros n acc.
  - cbn [pad_digits val]. change (10 ^ N.of_nat 0) with 1. rewrite N.mod_1_r. lia.
  - cbn [pad_digits]. rewrite val_app, IH. cbn [val]. rewrite digit_val_mod10, pow10_succ.
    pose proof (pow10_pos w) as Hp.
    rewrite (N.mod_mul_r n 10 (10 ^ N.of_nat w)) by lia. lia.
Qed.

Lemma ddf_unfold : forall f n acc,
  dec_digits_fuel (S f) n acc =
  if n / 10 =? 0 then (48 + n mod 10) :: acc else dec_digits_fuel f (n / 10) ((48 + n mod 10) :: acc).
Proof. reflexivity. Qed.

Lemma ddf_spec : forall f n acc,
  n < 2 ^ N.of_nat (S f) ->
  exists ds, dec_digits_fuel (S f) n acc = ds ++ acc /\ forallb is_digit ds = true /\ val ds 0 = n /\ ds <> [].
Proof.
  induction f as [|f IH]; intros n acc Hn.
  - change (2 ^ N.of_nat 1) with 2 in Hn. rewrite ddf_unfold.
    assert (E : n / 10 = 0) by lia. rewrite E. cbn [N.eqb].
    exists [48 + n mod 10]. cbn [app forallb val]. rewrite is_digit_mod10, digit_val_mod10.
    repeat split; try reflexivity; [lia|discriminate].
  - rewrite ddf_unfold.
    destruct (N.eqb_spec (n / 10) 0) as [E|E].
    + exists [48 + n mod 10]. cbn [app forallb val]. rewrite is_digit_mod10, digit_val_mod10.
      repeat split; try reflexivity; [lia|discriminate].
    + assert (Hlt : n / 10 < 2 ^ N.of_nat (S f)).
      { rewrite (Nat2N.inj_succ (S f)), N.pow_succ_r' in Hn. lia. }
      destruct (IH (n / 10) ((48 + n mod 10) :: acc) Hlt) as (ds & E1 & E2 & E3 & E4).
      exists (ds ++ [48 + n mod 10]). rewrite E1, <- app_assoc. cbn [app].
      split; [reflexivity|]. split; [rewrite forallb_app, E2; cbn [forallb]; rewrite is_digit_mod10; reflexivity|].
      split; [rewrite val_app, E3; cbn [val]; rewrite digit_val_mod10; lia|].
      destruct ds; discriminate.
Qed.

Lemma dec_of_N_spec : forall n,
  forallb is_digit (dec_of_N n) = true /\ val (dec_of_N n) 0 = n /\ dec_of_N n <> [].
Proof.
  intros n. unfold dec_of_N.
  assert (Hn : n < 2 ^ N.of_nat (S (N.to_nat (N.log2 n)))).
  { rewrite Nat2N.inj_succ, N2Nat.id.
    destruct (N.eq_dec n 0) as [->|Hnz]; [reflexivity|].
    apply N.log2_spec. lia. }
  destruct (ddf_spec _ n [] Hn) as (ds & E1 & E2 & E3 & E4).
  rewrite E1, app_nil_r. auto.
Qed.

Lemma pad_dec_spec : forall w n,
  forallb is_digit (pad_dec w n) = true /\ val (pad_dec w n) 0 = n.
Proof.
  intros w n. unfold pad_dec. destruct (N.ltb_spec n (10 ^ N.of_nat w)) as [H|H].
  - split; [apply pad_digits_all|]. rewrite pad_digits_val, N.mod_small by exact H. lia.
  - destruct (dec_of_N_spec n) as (H1 & H2 & _). auto.
Qed.

(** the leading run of digits of a string *)
Fixpoint span_digits (s : bytes) : bytes * bytes :=
  match s with
  | [] => ([], [])
  | c :: r => if is_digit c then let (a, b) := span_digits r in (c :: a, b) else ([], s)
  end.

Lemma span_digits_app : forall ds c r,
  forallb is_digit ds = true -> is_digit c = false -> span_digits (ds ++ c :: r) = (ds, c :: r).
Proof.
  induction ds as [|d ds IH]; intros c r Hd Hc; cbn [app span_digits].
  - rewrite Hc. reflexivity.
  - cbn [forallb] in Hd. apply andb_true_iff in Hd. destruct Hd as [H1 H2].
    rewrite H1, (IH c r H2 Hc). reflexivity.
Qed.

(** * Archive names determine the log id *)

Lemma archive_name_shape : forall id s e,
  exists rest, archive_name id s e = walarch_arch_prefix ++ pad_dec walarch_arch_pad_width id ++ 45 :: rest.
Proof.
  intros id s e. unfold archive_name, walarch_arch_sep1. cbn [app]. eexists. reflexivity.
Qed.

Lemma archive_name_inj_id : forall id s e id' s' e',
  archive_name id s e = archive_name id' s' e' -> id = id'.
Proof.
  intros id s e id' s' e' H.
  destruct (archive_name_shape id s e) as (r & E). destruct (archive_name_shape id' s' e') as (r' & E').
  rewrite E, E' in H. apply app_inv_head in H.
  destruct (pad_dec_spec walarch_arch_pad_width id) as (D1 & V1).
  destruct (pad_dec_spec walarch_arch_pad_width id') as (D2 & V2).
  assert (S1 := span_digits_app _ 45 r D1 eq_refl). assert (S2 := span_digits_app _ 45 r' D2 eq_refl).
  rewrite H in S1. rewrite S1 in S2. inversion S2 as [[E1 E2]]. rewrite E1 in V1. congruence.
Qed.

Lemma afile_name_inj_id : forall id es id' es',
  afile_name (make_archive id es) = afile_name (make_archive id' es') -> id = id'.
Proof. intros id es id' es'. unfold afile_name, make_archive. cbn [a_log_id a_start a_end]. apply archive_name_inj_id. Qed.

(** * The archive encoding is the identity on entries read from a log *)

(** serde_json never produces a non-finite float from text *)
Definition jvalue_wf (v : jvalue) : Prop :=
  match v with JFloat bits => f64_finite bits = true | _ => True end.
(** a timestamp is a u64 *)
Definition jentry_wf (j : jentry) : Prop :=
  j_ts j <= u64_max /\ Forall (fun p => jvalue_wf (snd p)) (j_payload j).
Definition line_wf (l : line) : Prop := match l with LEntry j => jentry_wf j | _ => True end.

Definition stable (v : scalar) : Prop := mp_roundtrip v = v.

Lemma scalar_of_json_stable : forall v, jvalue_wf v -> stable (scalar_of_json v).
Proof.
  intros [| b | z | bits | s | c] H; unfold stable; cbn [scalar_of_json mp_roundtrip]; try reflexivity.
  - destruct (z <=? i64_max)%Z; reflexivity.
  - cbn [jvalue_wf] in H. rewrite H. reflexivity.
Qed.

Lemma map_insert_forall : forall A (P : A -> Prop) k v m,
  P v -> Forall (fun p => P (snd p)) m -> Forall (fun p => P (snd p)) (map_insert k v m).
Proof.
  intros A P k v m Hv. induction m as [|[k' v'] r IH]; intro Hm; cbn [map_insert].
  - constructor; [exact Hv|constructor].
  - inversion Hm as [|? ? H1 H2]. subst. destruct (bytes_cmp k k').
    + constructor; assumption.
    + constructor; [exact Hv|exact Hm].
    + constructor; [exact H1|auto].
Qed.

Lemma build_map_forall : forall A (P : A -> Prop) ps,
  Forall (fun p => P (snd p)) ps -> Forall (fun p => P (snd p)) (build_map ps).
Proof.
  intros A P ps. unfold build_map.
  assert (G : forall m, Forall (fun p => P (snd p)) m -> Forall (fun p => P (snd p)) ps ->
                        Forall (fun p => P (snd p)) (fold_left (fun m p => map_insert (fst p) (snd p) m) ps m)).
  { induction ps as [|p ps IH]; intros m Hm Hps; cbn [fold_left]; [exact Hm|].
    inversion Hps as [|? ? H1 H2]. subst. apply IH; [|exact H2]. apply map_insert_forall; assumption. }
  intro H. apply G; [constructor|exact H].
Qed.

Lemma mp_entry_line_born : forall j, jentry_wf j -> mp_entry (entry_of_json j) = entry_of_json j.
Proof.
  intros j Hj. unfold mp_entry, entry_of_json. cbn [e_ts e_ctx e_type e_payload e_id]. f_equal.
  assert (F : Forall (fun p => stable (snd p)) (build_map (map (fun p => (fst p, scalar_of_json (snd p))) (j_payload j)))).
  { apply build_map_forall. destruct Hj as [_ Hj]. induction Hj as [|p l Hp Hl IH]; cbn [map]; constructor; auto.
    cbn [snd]. apply scalar_of_json_stable. exact Hp. }
  induction F as [|[k v] l Hv Hl IH]; cbn [map]; [reflexivity|].
  cbn [fst snd] in *. unfold stable in Hv. rewrite Hv, IH. reflexivity.
Qed.

Lemma parse_lines_lossless : forall ls es,
  Forall line_wf ls -> parse_lines ls = Some es -> map mp_entry es = es.
Proof.
  induction ls as [|l ls IH]; intros es Hwf H; cbn [parse_lines] in H.
  - inversion H. reflexivity.
  - inversion Hwf as [|? ? Hl Hls]. subst. destruct l as [| | |j]; try discriminate; auto.
    destruct (parse_lines ls) as [es'|] eqn:E; [|discriminate]. inversion H. subst.
    cbn [map]. rewrite (mp_entry_line_born j Hl), (IH es' Hls eq_refl). reflexivity.
Qed.

(** * [archive_log] *)

Definition dir_of (root : aroot) : adir := match root with RDir d => d | _ => [] end.
Definition root_lookup (nm : bytes) (root : aroot) : option aobj := lookup nm (dir_of root).

(** every call either leaves the directory content alone and fails, or writes exactly the
    archive name of the log it read *)
Lemma archive_log_char : forall io wal root id root' r,
  archive_log io wal root id = (root', r) ->
  (r = None /\ (root' = root \/ root' = RDir (dir_of root))) \/
  (exists ls es, lookup (log_name id) wal = Some (WFile ls) /\ parse_lines ls = Some es /\
     root <> RNotDir /\ lookup (afile_name (make_archive id es)) (dir_of root) <> Some ADirEnt /\
     ((io id = IoFailLate /\ r = None /\
       root' = RDir (put (afile_name (make_archive id es)) AGarbage (dir_of root))) \/
      (io id = IoOk /\ r = Some (afile_name (make_archive id es)) /\
       root' = RDir (put (afile_name (make_archive id es)) (AFile (make_archive id es)) (dir_of root))))).
Proof.
  intros io wal root id root' r H. unfold archive_log in H.
  destruct (lookup (log_name id) wal) as [[ls|]|] eqn:EL;
    [|inversion H; left; auto|inversion H; left; auto].
  destruct (parse_lines ls) as [es|] eqn:EP; [|inversion H; left; auto].
  destruct root as [| |d].
  - (* RMissing *)
    cbn [lookup] in H. destruct (io id) eqn:EI; inversion H; subst.
    + right. exists ls, es. repeat split; try assumption; try discriminate. right. auto.
    + left. cbn [dir_of]. auto.
    + right. exists ls, es. repeat split; try assumption; try discriminate. left. auto.
  - inversion H. left. auto.
  - cbn [dir_of].
    destruct (lookup (afile_name (make_archive id es)) d) as [[f| |]|] eqn:ED;
      try (destruct (io id) eqn:EI; inversion H; subst;
           [ right; exists ls, es; repeat split; try assumption; try discriminate; try congruence; right; auto
           | left; auto
           | right; exists ls, es; repeat split; try assumption; try discriminate; try congruence; left; auto ]).
    inversion H. left. auto.
Qed.

Lemma archive_log_notdir : forall io wal id, archive_log io wal RNotDir id = (RNotDir, None).
Proof.
  intros io wal id. unfold archive_log.
  destruct (lookup (log_name id) wal) as [[ls|]|]; try reflexivity.
  destruct (parse_lines ls); reflexivity.
Qed.

(** a name no log of this call maps to keeps its object *)
Lemma archive_log_frame : forall io wal root id root' r nm,
  archive_log io wal root id = (root', r) ->
  (forall ls es, lookup (log_name id) wal = Some (WFile ls) -> parse_lines ls = Some es ->
                 bytes_eqb nm (afile_name (make_archive id es)) = false) ->
  root_lookup nm root' = root_lookup nm root.
Proof.
  intros io wal root id root' r nm H Hnm. unfold root_lookup.
  destruct (archive_log_char _ _ _ _ _ _ H) as [(_ & [->| ->])|(ls & es & EL & EP & _ & _ & [(_ & _ & ->)|(_ & _ & ->)])];
    try reflexivity; cbn [dir_of]; apply lookup_put_other; eauto.
Qed.

(** an archive written for log [id] survives every later [archive_log] of the same pass *)
Definition holds (root : aroot) (id : N) (es : list entry) : Prop :=
  root_lookup (afile_name (make_archive id es)) root = Some (AFile (make_archive id es)).

Lemma archive_log_keeps : forall io wal root id ls es id2 root' r,
  holds root id es -> io id = IoOk ->
  lookup (log_name id) wal = Some (WFile ls) -> parse_lines ls = Some es ->
  archive_log io wal root id2 = (root', r) -> holds root' id es.
Proof.
  intros io wal root id ls es id2 root' r Hh Hio EL EP H. unfold holds, root_lookup in *.
  destruct (archive_log_char _ _ _ _ _ _ H) as [(_ & [->| ->])|(ls2 & es2 & EL2 & EP2 & _ & _ & Hc)];
    try exact Hh.
  destruct (bytes_eqb (afile_name (make_archive id es)) (afile_name (make_archive id2 es2))) eqn:E.
  - apply bytes_eqb_eq in E. assert (id = id2) by (eapply afile_name_inj_id; eassumption). subst id2.
    rewrite EL in EL2. inversion EL2. subst ls2. rewrite EP in EP2. inversion EP2. subst es2.
    destruct Hc as [(Hio2 & _)|(_ & _ & ->)]; [congruence|]. cbn [dir_of]. apply lookup_put_same.
  - destruct Hc as [(_ & _ & ->)|(_ & _ & ->)]; cbn [dir_of]; rewrite lookup_put_other by exact E; exact Hh.
Qed.

Lemma archive_log_ok_holds : forall io wal root id root' nm,
  archive_log io wal root id = (root', Some nm) ->
  exists ls es, lookup (log_name id) wal = Some (WFile ls) /\ parse_lines ls = Some es /\ io id = IoOk /\
                nm = afile_name (make_archive id es) /\ holds root' id es.
Proof.
  intros io wal root id root' nm H.
  destruct (archive_log_char _ _ _ _ _ _ H) as [(E & _)|(ls & es & EL & EP & _ & _ & [(_ & E & _)|(Hio & E & ->)])];
    try discriminate.
  exists ls, es. inversion E. repeat split; try assumption. unfold holds, root_lookup. cbn [dir_of]. apply lookup_put_same.
Qed.

(** * The scan *)

(** Flags regenerated from the Rust text (tools/params/p40_walarch.py).  The proofs below are about the
    repaired code: they stop compiling if a flag flips back. *)
Lemma scan_flag : walarch_scan_canonical_only = true.
Proof. reflexivity. Qed.
Lemma own_dir_flag : walarch_cleaner_archives_own_dir = true.
Proof. reflexivity. Qed.
Lemma numeric_sort_flag : walarch_recovery_numeric_sort = true.
Proof. reflexivity. Qed.

(** the scan accepts a name only as the canonical name of an eligible id *)
Lemma scan_id_spec : forall n keep id,
  scan_id n keep = Some id ->
  parse_log_name n = Some id /\ walarch_eligible id keep = true /\ n = log_name id.
Proof.
  intros n keep id H. unfold scan_id in H. rewrite scan_flag in H. cbn [negb orb] in H.
  destruct (parse_log_name n) as [id'|]; [|discriminate].
  destruct (walarch_eligible id' keep) eqn:He; [|discriminate]. cbn [andb] in H.
  destruct (bytes_eqb n (log_name id')) eqn:E; [|discriminate]. inversion H. subst id'.
  apply bytes_eqb_eq in E. auto.
Qed.

Lemma scan_id_none : forall n keep,
  (forall id, parse_log_name n = Some id -> walarch_eligible id keep = true -> n <> log_name id) ->
  scan_id n keep = None.
Proof.
  intros n keep H. destruct (scan_id n keep) as [id|] eqn:E; [|reflexivity].
  destruct (scan_id_spec _ _ _ E) as (H1 & H2 & H3). exfalso. exact (H id H1 H2 H3).
Qed.

Lemma archive_scan_keeps : forall io wal id ls es todo root keep root' res,
  holds root id es -> io id = IoOk ->
  lookup (log_name id) wal = Some (WFile ls) -> parse_lines ls = Some es ->
  archive_scan io wal todo root keep = (root', res) -> holds root' id es.
Proof.
  intros io wal id ls es todo. induction todo as [|[n o] r IH]; intros root keep root' res Hh Hio EL EP H;
    cbn [archive_scan] in H.
  - inversion H. subst. exact Hh.
  - destruct (scan_id n keep) as [id2|]; [|eauto].
    destruct (archive_log io wal root id2) as [root1 r1] eqn:E1.
    destruct (archive_scan io wal r root1 keep) as [root2 rs] eqn:E2.
    inversion H. subst. eapply IH; [|exact Hio|exact EL|exact EP|exact E2].
    eapply archive_log_keeps; eassumption.
Qed.

(** every successful result of the pass names an archive that is in place at the end *)
Lemma archive_scan_results : forall io wal todo root keep root' res nm,
  archive_scan io wal todo root keep = (root', res) -> In (Some nm) res ->
  exists id ls es, lookup (log_name id) wal = Some (WFile ls) /\ parse_lines ls = Some es /\
                   nm = afile_name (make_archive id es) /\ holds root' id es.
Proof.
  intros io wal todo. induction todo as [|[n o] r IH]; intros root keep root' res nm H Hin; cbn [archive_scan] in H.
  - inversion H. subst. destruct Hin.
  - destruct (scan_id n keep) as [id|]; [|eauto].
    destruct (archive_log io wal root id) as [root1 r1] eqn:E1.
    destruct (archive_scan io wal r root1 keep) as [root2 rs] eqn:E2.
    inversion H. subst. destruct Hin as [E|Hin]; [|eauto].
    subst r1. destruct (archive_log_ok_holds _ _ _ _ _ _ E1) as (ls & es & EL & EP & Hio & En & Hh).
    exists id, ls, es. repeat split; try assumption. eapply archive_scan_keeps; eassumption.
Qed.

(** every accepted entry contributes a result *)
Lemma archive_scan_entry : forall io wal todo root keep root' res n o id,
  archive_scan io wal todo root keep = (root', res) ->
  In (n, o) todo -> scan_id n keep = Some id ->
  existsb is_none res = false ->
  exists ls es, lookup (log_name id) wal = Some (WFile ls) /\ parse_lines ls = Some es /\ io id = IoOk /\
                holds root' id es.
Proof.
  intros io wal todo. induction todo as [|[n' o'] r IH]; intros root keep root' res n o id H Hin Hs Hok;
    [destruct Hin|]. cbn [archive_scan] in H.
  destruct Hin as [E|Hin].
  - inversion E. subst n' o'. rewrite Hs in H.
    destruct (archive_log io wal root id) as [root1 r1] eqn:E1.
    destruct (archive_scan io wal r root1 keep) as [root2 rs] eqn:E2.
    inversion H. subst. cbn [existsb] in Hok. apply orb_false_iff in Hok. destruct Hok as [Hr1 _].
    destruct r1 as [nm|]; [|discriminate].
    destruct (archive_log_ok_holds _ _ _ _ _ _ E1) as (ls & es & EL & EP & Hio & En & Hh).
    exists ls, es. repeat split; try assumption. eapply archive_scan_keeps; eassumption.
  - destruct (scan_id n' keep) as [id2|]; [|eauto].
    destruct (archive_log io wal root id2) as [root1 r1] eqn:E1.
    destruct (archive_scan io wal r root1 keep) as [root2 rs] eqn:E2.
    inversion H. subst. cbn [existsb] in Hok. apply orb_false_iff in Hok. destruct Hok as [_ Hrs]. eauto.
Qed.

(** names outside [round_archive_names] are not touched by the pass *)
Lemma in_round_names : forall wal keep n o id ls es,
  In (n, o) wal -> scan_id n keep = Some id ->
  lookup (log_name id) wal = Some (WFile ls) -> parse_lines ls = Some es ->
  In (afile_name (make_archive id es)) (round_archive_names wal keep).
Proof.
  intros wal keep n o id ls es Hin Hs EL EP. unfold round_archive_names.
  apply in_flat_map. exists (n, o). split; [exact Hin|]. cbn [fst]. rewrite Hs, EL, EP. left. reflexivity.
Qed.

Lemma name_reused_false : forall nm wal keep x,
  name_reused nm wal keep = false -> In x (round_archive_names wal keep) -> bytes_eqb nm x = false.
Proof.
  intros nm wal keep x H Hin. unfold name_reused in H.
  destruct (bytes_eqb nm x) eqn:E; [|reflexivity].
  assert (existsb (bytes_eqb nm) (round_archive_names wal keep) = true) by (apply existsb_exists; eauto).
  congruence.
Qed.

Lemma archive_scan_frame : forall io wal keep nm todo root root' res,
  name_reused nm wal keep = false -> incl todo wal ->
  archive_scan io wal todo root keep = (root', res) ->
  root_lookup nm root' = root_lookup nm root.
Proof.
  intros io wal keep nm todo. induction todo as [|[n o] r IH]; intros root root' res Hnr Hincl H; cbn [archive_scan] in H.
  - inversion H. reflexivity.
  - assert (Hr : incl r wal) by (intros x Hx; apply Hincl; right; exact Hx).
    destruct (scan_id n keep) as [id|] eqn:Hs; [|eauto].
    destruct (archive_log io wal root id) as [root1 r1] eqn:E1.
    destruct (archive_scan io wal r root1 keep) as [root2 rs] eqn:E2.
    inversion H. subst. rewrite (IH _ _ _ Hnr Hr E2).
    eapply archive_log_frame; [exact E1|]. intros ls es EL EP.
    eapply name_reused_false; [exact Hnr|]. eapply in_round_names; try eassumption. apply Hincl. left. reflexivity.
Qed.

(** * The cleaner *)

Lemma abort_flag : walarch_abort_on_failure = true.
Proof. reflexivity. Qed.

(** since fix db8e58e the archive pass reads the directory the cleaner deletes from *)
Lemma archiver_dir_eq : forall w, archiver_dir w = cleaner_dir w.
Proof. intro w. unfold archiver_dir. rewrite own_dir_flag. reflexivity. Qed.

Lemma cleaner_dir_set : forall w d root, cleaner_dir (set_cleaner_dir w d root) = d.
Proof. intros [wal [c|] r] d root; reflexivity. Qed.
Lemma w_root_set : forall w d root, w_root (set_cleaner_dir w d root) = root.
Proof. intros [wal [c|] r] d root; reflexivity. Qed.

(** The batch archive attempts every eligible directory entry: in the Rust text (shape of
    [archive_logs_up_to] regenerated as [walarch_archives_every_eligible]: one [archive_log] per entry the
    scan accepts, pushed onto the returned vector, nothing cut off) and in the model ([archive_scan] returns
    one result per entry [scan_id] accepts).  The cleaner's reading of "no [Err] among the results" as
    "every file the deletion pass will hit is archived" rests on this. *)
Lemma archives_all_flag : walarch_archives_every_eligible = true.
Proof. reflexivity. Qed.

Definition scan_hits (keep : N) (d : wdir) : wdir :=
  filter (fun p => negb (is_none (scan_id (fst p) keep))) d.

Lemma archive_scan_length : forall io wal todo root keep,
  length (snd (archive_scan io wal todo root keep)) = length (scan_hits keep todo).
Proof.
  intros io wal todo. induction todo as [|[n o] r IH]; intros root keep; cbn [archive_scan scan_hits filter fst].
  - reflexivity.
  - destruct (scan_id n keep) as [id|] eqn:E; cbn [is_none negb].
    + destruct (archive_log io wal root id) as [root1 r1] eqn:E1.
      specialize (IH root1 keep).
      destruct (archive_scan io wal r root1 keep) as [root2 rs] eqn:E2.
      cbn [snd length] in *. unfold scan_hits in IH. rewrite IH. reflexivity.
    + apply IH.
Qed.

(** the three outcomes of [cleanup_up_to true] in one place *)
Lemma cleanup_conservative_char : forall fl w keep w' res,
  cleanup_up_to true fl w keep = (w', res) ->
  exists root1,
    archive_scan (f_io fl) (cleaner_dir w) (cleaner_dir w) (w_root w) keep = (root1, res) /\
    w_root w' = root1 /\
    ((existsb is_none res = true /\ w_wal w' = w_wal w /\ w_cwal w' = w_cwal w) \/
     (existsb is_none res = false /\ cleaner_dir w' = delete_pass (f_del_ok fl) keep (cleaner_dir w))).
Proof.
  intros fl w keep w' res H. unfold cleanup_up_to in H. rewrite archiver_dir_eq in H.
  unfold archive_logs_up_to in H.
  destruct (archive_scan (f_io fl) (cleaner_dir w) (cleaner_dir w) (w_root w) keep) as [root1 res1] eqn:E.
  rewrite abort_flag in H. cbn [andb] in H.
  destruct (existsb is_none res1) eqn:Ex; inversion H; subst w' res; exists root1.
  - split; [reflexivity|]. split; [reflexivity|]. left. auto.
  - split; [reflexivity|]. split; [apply w_root_set|]. right. split; [exact Ex|apply cleaner_dir_set].
Qed.

Theorem no_delete_on_any_failure : forall fl w keep w' res,
  cleanup_up_to true fl w keep = (w', res) ->
  existsb is_none res = true ->
  w_wal w' = w_wal w /\ w_cwal w' = w_cwal w.
Proof.
  intros fl w keep w' res H Hf.
  destruct (cleanup_conservative_char _ _ _ _ _ H) as (root1 & _ & _ & [(_ & H1 & H2)|(Ex & _)]); [auto|congruence].
Qed.

(** the archives written before (or after) the failing one stay in place *)
Theorem partial_failure_keeps_archives : forall fl w keep w' res nm,
  cleanup_up_to true fl w keep = (w', res) -> In (Some nm) res ->
  exists id ls es, lookup (log_name id) (cleaner_dir w) = Some (WFile ls) /\ parse_lines ls = Some es /\
                   nm = afile_name (make_archive id es) /\
                   root_lookup nm (w_root w') = Some (AFile (make_archive id es)).
Proof.
  intros fl w keep w' res nm H Hin.
  destruct (cleanup_conservative_char _ _ _ _ _ H) as (root1 & E & Hr & _). rewrite Hr.
  destruct (archive_scan_results _ _ _ _ _ _ _ _ E Hin) as (id & ls & es & EL & EP & En & Hh).
  exists id, ls, es. repeat split; try assumption. subst nm. exact Hh.
Qed.

(** ** Which fault patterns make the pass fail *)

Lemma archive_scan_notdir : forall io wal todo keep root' res,
  archive_scan io wal todo RNotDir keep = (root', res) -> root' = RNotDir.
Proof.
  intros io wal todo. induction todo as [|[n o] r IH]; intros keep root' res H; cbn [archive_scan] in H.
  - inversion H. reflexivity.
  - destruct (scan_id n keep) as [id|]; [|eauto].
    rewrite archive_log_notdir in H.
    destruct (archive_scan io wal r RNotDir keep) as [root2 rs] eqn:E2. inversion H. subst. eauto.
Qed.

Lemma archive_log_squat : forall io wal root id root' r nm,
  root_lookup nm root = Some ADirEnt -> archive_log io wal root id = (root', r) ->
  root_lookup nm root' = Some ADirEnt.
Proof.
  intros io wal root id root' r nm Hs H. unfold root_lookup in *.
  destruct (archive_log_char _ _ _ _ _ _ H) as [(_ & [->| ->])|(ls & es & _ & _ & _ & Hnd & Hc)]; try exact Hs.
  assert (E : bytes_eqb nm (afile_name (make_archive id es)) = false).
  { destruct (bytes_eqb nm (afile_name (make_archive id es))) eqn:E; [|reflexivity].
    apply bytes_eqb_eq in E. subst nm. congruence. }
  destruct Hc as [(_ & _ & ->)|(_ & _ & ->)]; cbn [dir_of]; rewrite lookup_put_other by exact E; exact Hs.
Qed.

Lemma archive_scan_squat : forall io wal nm todo root keep root' res,
  root_lookup nm root = Some ADirEnt -> archive_scan io wal todo root keep = (root', res) ->
  root_lookup nm root' = Some ADirEnt.
Proof.
  intros io wal nm todo. induction todo as [|[n o] r IH]; intros root keep root' res Hs H; cbn [archive_scan] in H.
  - inversion H. subst. exact Hs.
  - destruct (scan_id n keep) as [id|]; [|eauto].
    destruct (archive_log io wal root id) as [root1 r1] eqn:E1.
    destruct (archive_scan io wal r root1 keep) as [root2 rs] eqn:E2.
    inversion H. subst. eapply IH; [|exact E2]. eapply archive_log_squat; eassumption.
Qed.

(** For every fault pattern of the statement — the archive path is not a directory, the log
    is a directory / not UTF-8, the environment fails the write (early or late), a directory occupies
    the archive file name — the pass reports a failure. *)
Theorem fault_patterns_fail : forall fl w keep w' res o id,
  cleanup_up_to true fl w keep = (w', res) ->
  In (log_name id, o) (cleaner_dir w) -> parse_log_name (log_name id) = Some id -> walarch_eligible id keep = true ->
  (w_root w = RNotDir
   \/ lookup (log_name id) (cleaner_dir w) = Some WDir
   \/ (exists ls, lookup (log_name id) (cleaner_dir w) = Some (WFile ls) /\ parse_lines ls = None)
   \/ f_io fl id <> IoOk
   \/ (exists ls es, lookup (log_name id) (cleaner_dir w) = Some (WFile ls) /\ parse_lines ls = Some es /\
                     root_lookup (afile_name (make_archive id es)) (w_root w) = Some ADirEnt)) ->
  existsb is_none res = true.
Proof.
  intros fl w keep w' res o id H Hin Hp He Hcause.
  destruct (cleanup_conservative_char _ _ _ _ _ H) as (root1 & E & _ & _).
  assert (Hs : scan_id (log_name id) keep = Some id).
  { unfold scan_id. rewrite Hp, He, bytes_eqb_refl, orb_true_r. reflexivity. }
  destruct (existsb is_none res) eqn:Ex; [reflexivity|exfalso].
  destruct (archive_scan_entry _ _ _ _ _ _ _ _ _ _ E Hin Hs Ex) as (ls & es & EL & EP & Hio & Hh).
  destruct Hcause as [C|[C|[(ls' & C1 & C2)|[C|(ls' & es' & C1 & C2 & C3)]]]]; try congruence.
  - rewrite C in E. apply archive_scan_notdir in E. subst root1. unfold holds, root_lookup in Hh. cbn in Hh. discriminate.
  - rewrite C1 in EL. inversion EL. subst ls'. rewrite EP in C2. inversion C2. subst es'.
    pose proof (archive_scan_squat _ _ _ _ _ _ _ _ C3 E) as Hsq. unfold holds in Hh. congruence.
Qed.

(** ** Deleted implies archived *)

Lemma delete_pass_gone : forall del keep d n o,
  In (n, o) d -> lookup n (delete_pass del keep d) = None -> delete_hits del keep (n, o) = true.
Proof.
  intros del keep d n o Hin Hl. destruct (delete_hits del keep (n, o)) eqn:E; [reflexivity|exfalso].
  eapply lookup_none_not_in; [exact Hl|]. unfold delete_pass. apply filter_In. split; [exact Hin|]. rewrite E. reflexivity.
Qed.

(** Every log file that is gone after a conservative cleanup — whatever the directory contents, the keep
    id, the faults and the way the cleaner was built — has the archive made of exactly its parseable
    entries, in order, under its id. *)
Theorem deleted_implies_archived : forall fl w keep w' res n ls,
  NoDup (names (cleaner_dir w)) ->
  cleanup_up_to true fl w keep = (w', res) ->
  In (n, WFile ls) (cleaner_dir w) -> lookup n (cleaner_dir w') = None ->
  exists id es, n = log_name id /\ parse_log_name n = Some id /\ parse_lines ls = Some es /\
    root_lookup (afile_name (make_archive id es)) (w_root w') = Some (AFile (make_archive id es)).
Proof.
  intros fl w keep w' res n ls ND H Hin Hgone.
  destruct (cleanup_conservative_char _ _ _ _ _ H) as (root1 & E & Hr & [(_ & H1 & H2)|(Ex & Hd)]).
  - assert (Hc : cleaner_dir w' = cleaner_dir w) by (unfold cleaner_dir; rewrite H1, H2; reflexivity).
    rewrite Hc, (in_lookup _ _ _ _ ND Hin) in Hgone. discriminate.
  - rewrite Hd in Hgone. pose proof (delete_pass_gone _ _ _ _ _ Hin Hgone) as Hh.
    unfold delete_hits in Hh. cbn [fst snd] in Hh.
    destruct (scan_id n keep) as [id|] eqn:Hs; [|discriminate].
    destruct (archive_scan_entry _ _ _ _ _ _ _ _ _ _ E Hin Hs Ex) as (ls' & es & EL & EP & _ & Hhold).
    destruct (scan_id_spec _ _ _ Hs) as (Hp & _ & En). subst n.
    rewrite (in_lookup _ _ _ _ ND Hin) in EL. inversion EL. subst ls'.
    exists id, es. rewrite Hr. repeat split; try assumption.
Qed.

(** A file whose name is not the canonical name of an eligible id is never removed (either mode). *)
Theorem foreign_names_untouched : forall c fl w keep w' res n o,
  cleanup_up_to c fl w keep = (w', res) ->
  In (n, o) (cleaner_dir w) ->
  (forall id, parse_log_name n = Some id -> walarch_eligible id keep = true -> n <> log_name id) ->
  In (n, o) (cleaner_dir w').
Proof.
  intros c fl w keep w' res n o H Hin Hf. pose proof (scan_id_none _ _ Hf) as Hs.
  assert (Hkeep : In (n, o) (delete_pass (f_del_ok fl) keep (cleaner_dir w))).
  { unfold delete_pass. apply filter_In. split; [exact Hin|]. unfold delete_hits. cbn [fst]. rewrite Hs. reflexivity. }
  destruct c.
  - destruct (cleanup_conservative_char _ _ _ _ _ H) as (root1 & _ & _ & [(_ & H1 & H2)|(_ & Hd)]).
    + unfold cleaner_dir in *. rewrite H1, H2. exact Hin.
    + rewrite Hd. exact Hkeep.
  - unfold cleanup_up_to in H. inversion H. rewrite cleaner_dir_set. exact Hkeep.
Qed.

(** ** Archives are kept by later passes unless their name is written again *)

Theorem archive_kept_outside_known : forall c fl w keep w' res nm,
  cleanup_up_to c fl w keep = (w', res) ->
  name_reused nm (cleaner_dir w) keep = false ->
  root_lookup nm (w_root w') = root_lookup nm (w_root w).
Proof.
  intros c fl w keep w' res nm H Hnr. destruct c.
  - destruct (cleanup_conservative_char _ _ _ _ _ H) as (root1 & E & Hr & _). rewrite Hr.
    eapply archive_scan_frame; [exact Hnr| |exact E]. apply incl_refl.
  - unfold cleanup_up_to in H. inversion H. rewrite w_root_set. reflexivity.
Qed.

(** ** Histories *)

Lemma run_history_kept : forall h root nm,
  Forall (fun r => name_reused nm (r_wal r) (r_keep r) = false) h ->
  root_lookup nm (run_history root h) = root_lookup nm root.
Proof.
  induction h as [|r h IH]; intros root nm HF; cbn [run_history]; [reflexivity|].
  inversion HF as [|? ? H1 H2]. subst. rewrite (IH _ _ H2).
  unfold run_round. destruct (cleanup_up_to true (r_faults r) (mkWorld (r_wal r) None root) (r_keep r)) as [w' res] eqn:E.
  cbn [fst]. apply (archive_kept_outside_known _ _ _ _ _ _ nm E). exact H1.
Qed.

(** A log deleted by some cleanup of a history has its entries in the archive directory at the end of
    the history, provided no later cleanup archives a log under the same archive file name. *)
Theorem history_deleted_stay_archived : forall root r h root1 wal1 res n ls,
  NoDup (names (r_wal r)) ->
  run_round root r = (root1, wal1, res) ->
  In (n, WFile ls) (r_wal r) -> lookup n wal1 = None ->
  exists id es, n = log_name id /\ parse_lines ls = Some es /\
    (Forall (fun r' => name_reused (afile_name (make_archive id es)) (r_wal r') (r_keep r') = false) h ->
     root_lookup (afile_name (make_archive id es)) (run_history root1 h) = Some (AFile (make_archive id es))).
Proof.
  intros root r h root1 wal1 res n ls ND Hr Hin Hgone. unfold run_round in Hr.
  destruct (cleanup_up_to true (r_faults r) (mkWorld (r_wal r) None root) (r_keep r)) as [w' res'] eqn:E.
  inversion Hr. subst root1 wal1 res'.
  assert (Hc : cleaner_dir w' = w_wal w').
  { destruct (cleanup_conservative_char _ _ _ _ _ E) as (root1 & _ & _ & [(_ & H1 & H2)|(_ & Hd)]).
    - unfold cleaner_dir. rewrite H2. reflexivity.
    - unfold cleanup_up_to in E. rewrite archiver_dir_eq in E.
      destruct (archive_logs_up_to (f_io (r_faults r)) (cleaner_dir (mkWorld (r_wal r) None root)) (w_root (mkWorld (r_wal r) None root)) (r_keep r)).
      destruct (walarch_abort_on_failure && existsb is_none l); inversion E; reflexivity. }
  rewrite <- Hc in Hgone.
  destruct (deleted_implies_archived (r_faults r) (mkWorld (r_wal r) None root) (r_keep r) w' res n ls
              ND E Hin Hgone) as (id & es & En & Hp & EP & Hh).
  exists id, es. repeat split; try assumption. intro HF. rewrite run_history_kept by exact HF. exact Hh.
Qed.

(** * Recovery *)

(** the (id, parseable entries) of the files a successful pass archives, in directory order *)
Fixpoint eligible_entries (wal : wdir) (keep : N) : list (N * list entry) :=
  match wal with
  | [] => []
  | (n, o) :: r =>
      match scan_id n keep, o with
      | Some id, WFile ls =>
          match parse_lines ls with
          | Some es => (id, es) :: eligible_entries r keep
          | None => eligible_entries r keep
          end
      | _, _ => eligible_entries r keep
      end
  end.
Definition id_leb (a b : N * list entry) : bool := fst a <=? fst b.
(** the entries of the archived logs in log-id order *)
Definition expected_recovery (wal : wdir) (keep : N) : list entry :=
  flat_map snd (isort_by id_leb (eligible_entries wal keep)).

Definition arch_of (x : N * list entry) : bytes * aobj :=
  (afile_name (make_archive (fst x) (snd x)), AFile (make_archive (fst x) (snd x))).

Lemma eligible_entries_in : forall wal keep id es,
  In (id, es) (eligible_entries wal keep) ->
  exists n ls, In (n, WFile ls) wal /\ scan_id n keep = Some id /\ parse_lines ls = Some es.
Proof.
  induction wal as [|[n o] r IH]; intros keep id es H; cbn [eligible_entries] in H; [destruct H|].
  assert (G : In (id, es) (eligible_entries r keep) ->
              exists n0 ls, In (n0, WFile ls) ((n, o) :: r) /\ scan_id n0 keep = Some id /\ parse_lines ls = Some es).
  { intro H'. destruct (IH _ _ _ H') as (n0 & ls & H1 & H2). exists n0, ls. split; [right; exact H1|exact H2]. }
  destruct (scan_id n keep) as [id'|] eqn:Hs; [|auto]. destruct o as [ls|]; [|auto].
  destruct (parse_lines ls) as [es'|] eqn:EP; [|auto].
  destruct H as [E|H]; [|auto]. inversion E. subst. exists n, ls. repeat split; auto. left. reflexivity.
Qed.

Lemma put_fresh : forall A n (o : A) d, ~ In n (names d) -> put n o d = d ++ [(n, o)].
Proof.
  intros A n o d. induction d as [|[n' o'] r IH]; intro H; cbn [put app]; [reflexivity|].
  destruct (bytes_eqb n n') eqn:E.
  - apply bytes_eqb_eq in E. subst n'. exfalso. apply H. left. reflexivity.
  - rewrite IH; [reflexivity|]. intro Hin. apply H. right. exact Hin.
Qed.

(** after a pass without failure the archive directory is the old content followed by one archive per
    accepted log, in scan order *)
Lemma archive_scan_success_dir : forall io wal keep,
  NoDup (names wal) ->
  forall todo root root' res,
  incl todo wal -> root <> RNotDir ->
  archive_scan io wal todo root keep = (root', res) -> existsb is_none res = false ->
  (forall x, In x (eligible_entries todo keep) -> ~ In (fst (arch_of x)) (names (dir_of root))) ->
  NoDup (map (fun x => fst (arch_of x)) (eligible_entries todo keep)) ->
  root' <> RNotDir /\ dir_of root' = dir_of root ++ map arch_of (eligible_entries todo keep).
Proof.
  intros io wal keep ND todo. induction todo as [|[n o] r IH]; intros root root' res Hincl Hroot H Hok Hfresh Hnd;
    cbn [archive_scan] in H.
  - inversion H. subst. cbn [eligible_entries map]. rewrite app_nil_r. auto.
  - assert (Hr : incl r wal) by (intros x Hx; apply Hincl; right; exact Hx).
    assert (Hin : In (n, o) wal) by (apply Hincl; left; reflexivity).
    cbn [eligible_entries] in Hfresh, Hnd |- *.
    destruct (scan_id n keep) as [id|] eqn:Hs; [|eauto].
    destruct (archive_log io wal root id) as [root1 r1] eqn:E1.
    destruct (archive_scan io wal r root1 keep) as [root2 rs] eqn:E2.
    inversion H. subst root2 res. cbn [existsb] in Hok. apply orb_false_iff in Hok. destruct Hok as [Hr1 Hrs].
    destruct r1 as [nm|]; [|discriminate].
    destruct (archive_log_char _ _ _ _ _ _ E1) as [(C & _)|(ls & es & EL & EP & _ & _ & [(_ & C & _)|(Hio & _ & Eroot)])];
      try discriminate.
    destruct (scan_id_spec _ _ _ Hs) as (_ & _ & En). subst n.
    rewrite (in_lookup _ _ _ _ ND Hin) in EL. inversion EL. subst o.
    rewrite EP in Hfresh, Hnd |- *. cbn [map] in Hnd. apply NoDup_cons_iff in Hnd. destruct Hnd as [Hnotin Hnd'].
    assert (Hf0 : ~ In (afile_name (make_archive id es)) (names (dir_of root))).
    { apply (Hfresh (id, es)). left. reflexivity. }
    rewrite put_fresh in Eroot by exact Hf0. subst root1.
    assert (Hnd1 : RDir (dir_of root ++ [(afile_name (make_archive id es), AFile (make_archive id es))]) <> RNotDir)
      by discriminate.
    destruct (IH _ _ _ Hr Hnd1 E2 Hrs) as (G1 & G2).
    + intros x Hx. cbn [dir_of]. unfold names. rewrite map_app. cbn [map fst]. intro Hc. apply in_app_or in Hc.
      destruct Hc as [Hc|[Hc|[]]].
      * apply (Hfresh x); [right; exact Hx|exact Hc].
      * apply Hnotin. apply in_map_iff. exists x. split; [symmetry; exact Hc|exact Hx].
    + exact Hnd'.
    + split; [exact G1|]. rewrite G2. cbn [dir_of map]. rewrite <- app_assoc. reflexivity.
Qed.

Lemma eligible_ids_nodup : forall wal keep,
  NoDup (names wal) -> NoDup (map fst (eligible_entries wal keep)).
Proof.
  induction wal as [|[n o] r IH]; intros keep ND; cbn [eligible_entries]; [constructor|].
  cbn [names map fst] in ND. inversion ND as [|? ? Hnotin ND']. subst.
  pose proof (IH keep ND') as IHr.
  destruct (scan_id n keep) as [id|] eqn:Hs; [|exact IHr]. destruct o as [ls|]; [|exact IHr].
  destruct (parse_lines ls) as [es|]; [|exact IHr].
  cbn [map fst]. constructor; [|exact IHr]. intro Hin. apply in_map_iff in Hin. destruct Hin as ([id' es'] & E & Hin).
  cbn [fst] in E. subst id'. destruct (eligible_entries_in _ _ _ _ Hin) as (n' & ls' & H1 & H2 & _).
  destruct (scan_id_spec _ _ _ H2) as (_ & _ & E1). destruct (scan_id_spec _ _ _ Hs) as (_ & _ & E2).
  subst n n'. apply Hnotin. apply in_map_iff. exists (log_name id, WFile ls'). auto.
Qed.

(** ** Sorting *)

Lemma insert_by_in : forall A (leb : A -> A -> bool) x l y, In y (insert_by leb x l) <-> y = x \/ In y l.
Proof.
  intros A leb x l y. induction l as [|z l IH]; cbn [insert_by].
  - cbn [In]. intuition.
  - destruct (leb x z); cbn [In]; [intuition|]. rewrite IH. intuition.
Qed.

Lemma isort_by_in : forall A (leb : A -> A -> bool) l y, In y (isort_by leb l) <-> In y l.
Proof.
  intros A leb l y. induction l as [|x l IH]; cbn [isort_by fold_right]; [reflexivity|].
  fold (isort_by leb l). rewrite insert_by_in, IH. cbn [In]. intuition.
Qed.

Lemma insert_by_map : forall A B (f : A -> B) (leA : A -> A -> bool) (leB : B -> B -> bool) a s,
  (forall b, In b s -> leB (f a) (f b) = leA a b) ->
  insert_by leB (f a) (map f s) = map f (insert_by leA a s).
Proof.
  intros A B f leA leB a s. induction s as [|b s IH]; intro H; cbn [map insert_by]; [reflexivity|].
  rewrite (H b) by (left; reflexivity). destruct (leA a b); cbn [map]; [reflexivity|].
  rewrite IH; [reflexivity|]. intros b' Hb'. apply H. right. exact Hb'.
Qed.

Lemma isort_by_map : forall A B (f : A -> B) (leA : A -> A -> bool) (leB : B -> B -> bool) l,
  (forall a b, In a l -> In b l -> leB (f a) (f b) = leA a b) ->
  isort_by leB (map f l) = map f (isort_by leA l).
Proof.
  intros A B f leA leB l. induction l as [|a l IH]; intro H; cbn [map isort_by fold_right]; [reflexivity|].
  fold (isort_by leB (map f l)). fold (isort_by leA l).
  rewrite IH by (intros x y Hx Hy; apply H; right; assumption).
  apply insert_by_map. intros b Hb. apply H; [left; reflexivity|]. right. apply isort_by_in in Hb. exact Hb.
Qed.

(** ** The numeric sort key of an archive name is (id, start, end) *)

Lemma val_ge : forall s acc, acc <= val s acc.
Proof.
  induction s as [|c s IH]; intro acc; cbn [val]; [lia|].
  specialize (IH (acc * 10 + digit_val c)). lia.
Qed.

Lemma digits_val_ok : forall s acc,
  forallb is_digit s = true -> val s acc <= u64_max -> digits_val s acc = Some (val s acc).
Proof.
  induction s as [|c s IH]; intros acc Hd Hv; cbn [digits_val val] in *; [reflexivity|].
  apply andb_true_iff in Hd. destruct Hd as [H1 H2]. rewrite H1.
  pose proof (val_ge s (acc * 10 + digit_val c)) as Hge.
  destruct (N.leb_spec (acc * 10 + digit_val c) u64_max) as [_|Hgt]; [|lia]. apply IH; assumption.
Qed.

Lemma digits_val_le : forall s acc n, digits_val s acc = Some n -> acc <= u64_max -> n <= u64_max.
Proof.
  induction s as [|c s IH]; intros acc n H Ha; cbn [digits_val] in H.
  - inversion H. subst. exact Ha.
  - destruct (is_digit c); [|discriminate].
    destruct (N.leb_spec (acc * 10 + digit_val c) u64_max) as [Hle|_]; [|discriminate]. eapply IH; eassumption.
Qed.

Lemma parse_u64_le : forall s n, parse_u64 s = Some n -> n <= u64_max.
Proof.
  intros s n H. unfold parse_u64 in H.
  destruct (match s with [] => s | c :: r => if c =? 43 then r else s end) as [|c r]; [discriminate|].
  eapply digits_val_le; [exact H|]. unfold u64_max. lia.
Qed.

Lemma parse_u64_digits : forall s,
  forallb is_digit s = true -> s <> [] -> val s 0 <= u64_max -> parse_u64 s = Some (val s 0).
Proof.
  intros [|c r] Hd Hne Hv; [congruence|]. unfold parse_u64.
  assert (Hc : (c =? 43) = false).
  { cbn [forallb] in Hd. apply andb_true_iff in Hd. destruct Hd as [H1 _]. unfold is_digit in H1. lia. }
  rewrite Hc. apply digits_val_ok; assumption.
Qed.

Lemma parse_log_name_le : forall n id, parse_log_name n = Some id -> id <= u64_max.
Proof.
  intros n id H. unfold parse_log_name in H.
  destruct (strip_prefix walarch_log_prefix n); [|discriminate].
  destruct (strip_suffix walarch_log_suffix b); [|discriminate]. eapply parse_u64_le; exact H.
Qed.

Lemma split_on_digits_end : forall d, forallb is_digit d = true -> split_on walarch_key_sep d = [d].
Proof.
  induction d as [|x d IH]; intro H; cbn [split_on]; [reflexivity|].
  cbn [forallb] in H. apply andb_true_iff in H. destruct H as [H1 H2].
  assert (E : (x =? walarch_key_sep) = false) by (unfold walarch_key_sep, is_digit in *; lia).
  rewrite E, (IH H2). reflexivity.
Qed.

Lemma split_on_digits_app : forall d r,
  forallb is_digit d = true -> split_on walarch_key_sep (d ++ walarch_key_sep :: r) = d :: split_on walarch_key_sep r.
Proof.
  induction d as [|x d IH]; intros r H; cbn [app split_on].
  - rewrite N.eqb_refl. reflexivity.
  - cbn [forallb] in H. apply andb_true_iff in H. destruct H as [H1 H2].
    assert (E : (x =? walarch_key_sep) = false) by (unfold walarch_key_sep, is_digit in *; lia).
    rewrite E, (IH r H2). reflexivity.
Qed.

Lemma strip_prefix_app : forall p y, strip_prefix p (p ++ y) = Some y.
Proof. induction p as [|c p IH]; intro y; cbn [app strip_prefix]; [reflexivity|]. rewrite N.eqb_refl. apply IH. Qed.

Lemma strip_suffix_app : forall q x, strip_suffix q (x ++ q) = Some x.
Proof. intros q x. unfold strip_suffix. rewrite rev_app_distr, strip_prefix_app, rev_involutive. reflexivity. Qed.

Lemma pad_dec_nonempty : forall n, pad_dec walarch_arch_pad_width n <> [].
Proof.
  intros n. unfold pad_dec. destruct (n <? 10 ^ N.of_nat walarch_arch_pad_width).
  - intro E. apply (f_equal (@length N)) in E. rewrite pad_digits_length in E. discriminate E.
  - apply dec_of_N_spec.
Qed.

Lemma archive_sort_key_name : forall id s e,
  id <= u64_max -> s <= u64_max -> e <= u64_max ->
  archive_sort_key (archive_name id s e) = (id, s, e).
Proof.
  intros id s e Hi Hs He. unfold archive_sort_key, archive_name.
  change walarch_arch_prefix with walarch_key_prefix. rewrite strip_prefix_app.
  change walarch_arch_suffix with walarch_key_suffix. rewrite !app_assoc, strip_suffix_app, <- !app_assoc.
  change walarch_arch_sep1 with [walarch_key_sep]. change walarch_arch_sep2 with [walarch_key_sep]. cbn [app].
  destruct (pad_dec_spec walarch_arch_pad_width id) as (D1 & V1).
  destruct (dec_of_N_spec s) as (D2 & V2 & N2). destruct (dec_of_N_spec e) as (D3 & V3 & N3).
  rewrite (split_on_digits_app _ _ D1), (split_on_digits_app _ _ D2), (split_on_digits_end _ D3).
  rewrite (parse_u64_digits _ D1 (pad_dec_nonempty id)) by (rewrite V1; exact Hi).
  rewrite (parse_u64_digits _ D2 N2) by (rewrite V2; exact Hs).
  rewrite (parse_u64_digits _ D3 N3) by (rewrite V3; exact He).
  rewrite V1, V2, V3. reflexivity.
Qed.

Lemma key_cmp_refl : forall k, key_cmp k k = Eq.
Proof. intros [[a b] c]. unfold key_cmp. rewrite !N.compare_refl. reflexivity. Qed.

Lemma bytes_cmp_refl : forall a, bytes_cmp a a = Eq.
Proof. induction a as [|x a IH]; cbn [bytes_cmp]; [reflexivity|]. rewrite N.compare_refl. exact IH. Qed.

(** the header of an archive stays within u64 when ids and timestamps are *)
Definition bounded (x : N * list entry) : Prop :=
  fst x <= u64_max /\ Forall (fun e => e_ts e <= u64_max) (snd x).

Lemma ts_min_le : forall es a, fold_left (fun a e => N.min a (e_ts e)) es a <= a.
Proof. induction es as [|e es IH]; intro a; cbn [fold_left]; [lia|]. specialize (IH (N.min a (e_ts e))). lia. Qed.

Lemma ts_max_le : forall es a,
  a <= u64_max -> Forall (fun e => e_ts e <= u64_max) es -> fold_left (fun a e => N.max a (e_ts e)) es a <= u64_max.
Proof.
  induction es as [|e es IH]; intros a Ha HF; cbn [fold_left]; [exact Ha|].
  inversion HF as [|? ? H1 H2]. subst. apply IH; [lia|exact H2].
Qed.

Lemma arch_key : forall x, bounded x -> archive_sort_key (fst (arch_of x)) = (fst x, a_start (make_archive (fst x) (snd x)), a_end (make_archive (fst x) (snd x))).
Proof.
  intros [id es] [Hi Hts]. cbn [fst snd] in *. unfold arch_of. cbn [fst]. unfold afile_name.
  apply archive_sort_key_name; [exact Hi| |].
  - unfold make_archive. cbn [a_start]. destruct (N.of_nat (length es) =? 0); [unfold u64_max; lia|].
    unfold ts_min. apply ts_min_le.
  - unfold make_archive. cbn [a_end]. unfold ts_max. apply ts_max_le; [unfold u64_max; lia|exact Hts].
Qed.

(** name order of archives = id order of their logs, for ids of any width *)
Lemma name_leb_arch : forall x y,
  bounded x -> bounded y -> (fst x = fst y -> x = y) ->
  name_leb (arch_of x) (arch_of y) = id_leb x y.
Proof.
  intros x y Bx By Hinj. unfold name_leb. rewrite numeric_sort_flag.
  destruct (N.eq_dec (fst x) (fst y)) as [E|E].
  - specialize (Hinj E). subst y. rewrite key_cmp_refl, bytes_cmp_refl. unfold id_leb. symmetry. apply N.leb_le. lia.
  - rewrite (arch_key x Bx), (arch_key y By). unfold key_cmp, id_leb.
    destruct (N.compare_spec (fst x) (fst y)); destruct (N.leb_spec (fst x) (fst y)); try lia; reflexivity.
Qed.

(** ** Extension *)

Lemma archive_name_has_ext : forall id s e, has_ext (archive_name id s e) = true.
Proof.
  intros id s e. unfold has_ext, archive_name.
  change walarch_arch_suffix with ([46; 119; 97; 108] ++ walarch_ext).
  rewrite !app_assoc. rewrite strip_suffix_app. rewrite <- !app_assoc.
  unfold walarch_arch_prefix. cbn [app]. reflexivity.
Qed.

(** ** The round trip *)

Definition wal_wf (wal : wdir) : Prop :=
  Forall (fun p => match snd p with WFile ls => Forall line_wf ls | WDir => True end) wal.

Lemma parse_lines_ts : forall ls es,
  Forall line_wf ls -> parse_lines ls = Some es -> Forall (fun e => e_ts e <= u64_max) es.
Proof.
  induction ls as [|l ls IH]; intros es Hwf H; cbn [parse_lines] in H.
  - inversion H. constructor.
  - inversion Hwf as [|? ? Hl Hls]. subst. destruct l as [| | |j]; try discriminate; auto.
    destruct (parse_lines ls) as [es'|] eqn:E; [|discriminate]. inversion H. subst.
    constructor; [|auto]. destruct Hl as [Hts _]. exact Hts.
Qed.

Lemma filter_ext_old : forall (d : adir),
  (forall n o, In (n, o) d -> has_ext n = false) -> filter (fun p => has_ext (fst p)) d = [].
Proof.
  induction d as [|[n o] r IH]; intro H; cbn [filter fst]; [reflexivity|].
  rewrite (H n o) by (left; reflexivity). apply IH. intros n' o' Hin. eapply H. right. exact Hin.
Qed.

Lemma filter_ext_new : forall l, filter (fun p => has_ext (fst p)) (map arch_of l) = map arch_of l.
Proof.
  induction l as [|x l IH]; cbn [map filter]; [reflexivity|].
  unfold arch_of at 1. cbn [fst]. unfold afile_name. rewrite archive_name_has_ext. rewrite IH. reflexivity.
Qed.

(** Recovery after a conservative cleanup that reported no failure returns exactly the entries of the
    archived logs, line order within a log, logs in id order — for ids of any width, foreign file names in
    the WAL directory and either way of building the cleaner. *)
Theorem recover_roundtrip : forall fl w keep w' res,
  NoDup (names (cleaner_dir w)) -> wal_wf (cleaner_dir w) ->
  w_root w <> RNotDir -> (forall n o, In (n, o) (dir_of (w_root w)) -> has_ext n = false) ->
  cleanup_up_to true fl w keep = (w', res) ->
  existsb is_none res = false ->
  recover_all (w_root w') = Some (expected_recovery (cleaner_dir w) keep).
Proof.
  intros fl w keep w' res ND Hwf Hroot Hold H Hok.
  destruct (cleanup_conservative_char _ _ _ _ _ H) as (root1 & E & Hr & _). rewrite Hr. clear H Hr.
  set (wal := cleaner_dir w) in *. set (root := w_root w) in *.
  pose proof (eligible_ids_nodup wal keep ND) as Hids.
  assert (Hinj : forall x y, In x (eligible_entries wal keep) -> In y (eligible_entries wal keep) -> fst x = fst y -> x = y).
  { clear - Hids. induction (eligible_entries wal keep) as [|z l IH]; intros x y Hx Hy Exy; [destruct Hx|].
    cbn [map] in Hids. inversion Hids as [|? ? Hn Hd]. subst.
    destruct Hx as [->|Hx]; destruct Hy as [->|Hy]; auto.
    - exfalso. apply Hn. rewrite Exy. apply in_map. exact Hy.
    - exfalso. apply Hn. rewrite <- Exy. apply in_map. exact Hx. }
  assert (Hnames : NoDup (map (fun x => fst (arch_of x)) (eligible_entries wal keep))).
  { clear - Hids. induction (eligible_entries wal keep) as [|z l IH]; cbn [map]; [constructor|].
    cbn [map] in Hids. inversion Hids as [|? ? Hn Hd]. subst. constructor; [|auto].
    intro Hin. apply in_map_iff in Hin. destruct Hin as (y & Ey & Hy). unfold arch_of in Ey. cbn [fst] in Ey.
    apply afile_name_inj_id in Ey. apply Hn. rewrite <- Ey. apply in_map. exact Hy. }
  assert (Hfresh : forall x, In x (eligible_entries wal keep) -> ~ In (fst (arch_of x)) (names (dir_of root))).
  { intros x Hx Hin. unfold names in Hin. apply in_map_iff in Hin. destruct Hin as ([n o] & En & Hin). cbn [fst] in En.
    pose proof (Hold n o Hin) as Hne. rewrite En in Hne. unfold arch_of in Hne. cbn [fst] in Hne.
    unfold afile_name in Hne. rewrite archive_name_has_ext in Hne. discriminate. }
  destruct (archive_scan_success_dir _ wal keep ND wal root root1 res (incl_refl _) Hroot E Hok Hfresh Hnames) as (G1 & G2).
  unfold recover_all, list_archives.
  destruct root1 as [| |d1]; [cbn [dir_of] in G2| congruence |].
  - symmetry in G2. apply app_eq_nil in G2. destruct G2 as [_ G2]. unfold expected_recovery.
    destruct (eligible_entries wal keep); [reflexivity|discriminate].
  - cbn [dir_of] in G2. subst d1. rewrite filter_app, filter_ext_old by exact Hold. cbn [app].
    rewrite filter_ext_new.
    assert (Hb : forall x, In x (eligible_entries wal keep) -> bounded x).
    { intros [id es] Hx. destruct (eligible_entries_in _ _ _ _ Hx) as (n & ls & H1 & H2 & H3).
      destruct (scan_id_spec _ _ _ H2) as (Hp & _ & _). split; cbn [fst snd].
      - eapply parse_log_name_le; exact Hp.
      - eapply parse_lines_ts; [|exact H3]. unfold wal_wf in Hwf. rewrite Forall_forall in Hwf. apply (Hwf _ H1). }
    rewrite (isort_by_map _ _ arch_of id_leb name_leb).
    2:{ intros a b Ha Hb'. apply name_leb_arch; auto. }
    f_equal. unfold expected_recovery.
    assert (Hloss : forall x, In x (isort_by id_leb (eligible_entries wal keep)) -> map mp_entry (snd x) = snd x).
    { intros [id es] Hx. apply isort_by_in in Hx. destruct (eligible_entries_in _ _ _ _ Hx) as (n & ls & H1 & _ & H4).
      cbn [snd]. eapply parse_lines_lossless; [|exact H4].
      unfold wal_wf in Hwf. rewrite Forall_forall in Hwf. apply (Hwf _ H1). }
    induction (isort_by id_leb (eligible_entries wal keep)) as [|x l IH]; cbn [map flat_map]; [reflexivity|].
    rewrite IH by (intros y Hy; apply Hloss; right; exact Hy).
    unfold arch_of at 1. cbn [snd entries_of]. unfold make_archive at 1. cbn [a_entries].
    rewrite Hloss by (left; reflexivity). reflexivity.
Qed.

(** * Witnesses: where the property still fails on the faithful model, and satisfiability of the hypotheses *)

Definition wit_line (ts id : N) : line := LEntry (mkJEntry ts [99] [116] [] id).
Definition wit_entry (ts id : N) : entry := entry_of_json (mkJEntry ts [99] [116] [] id).
Definition no_faults : faults := mkFaults (fun _ => IoOk) (fun _ => true).

Ltac nodup2 := constructor; [intros [H|[]]; vm_compute in H; discriminate H|constructor; [intros []|constructor]].
Ltac nodup1 := constructor; [intros []|constructor].

(** two lifetimes: the WAL id restarts at 0, the second log 0 covers the same second as the first *)
Definition wit_round1 : round := mkRound [(log_name 0, WFile [wit_line 5 1])] 1 no_faults.
Definition wit_round2 : round := mkRound [(log_name 0, WFile [wit_line 5 2])] 1 no_faults.

Theorem archive_names_unique_refuted :
  exists root r1 r2 n ls es,
    NoDup (names (r_wal r1)) /\ wal_wf (r_wal r1) /\
    NoDup (names (r_wal r2)) /\ wal_wf (r_wal r2) /\
    In (n, WFile ls) (r_wal r1) /\ parse_lines ls = Some es /\ es <> [] /\
    lookup n (snd (fst (run_round root r1))) = None /\
    existsb is_none (snd (run_round (fst (fst (run_round root r1))) r2)) = false /\
    forall nm f, root_lookup nm (run_history root [r1; r2]) = Some (AFile f) -> a_entries f <> es.
Proof.
  exists RMissing, wit_round1, wit_round2, (log_name 0), [wit_line 5 1], [wit_entry 5 1].
  split; [cbn [wit_round1 r_wal names map fst]; nodup1|].
  split; [repeat constructor; vm_compute; discriminate|].
  split; [cbn [wit_round2 r_wal names map fst]; nodup1|].
  split; [repeat constructor; vm_compute; discriminate|].
  split; [left; reflexivity|]. split; [reflexivity|]. split; [discriminate|].
  split; [vm_compute; reflexivity|]. split; [vm_compute; reflexivity|].
  intros nm f H. remember (run_history RMissing [wit_round1; wit_round2]) as r eqn:Er. vm_compute in Er. subst r.
  unfold root_lookup in H. cbn [dir_of lookup] in H.
  destruct (bytes_eqb nm _); [|discriminate]. inversion H. subst f. vm_compute. discriminate.
Qed.

(** ** The hypotheses of the positive theorems are satisfiable, with a non-trivial outcome *)

Definition ex_wal : wdir :=
  [(log_name 1, WFile [wit_line 7 3; LJunk]); (log_name 0, WFile [wit_line 5 1; LBlank; wit_line 6 2]);
   (log_name 2, WFile [wit_line 9 4])].

(** a squatting directory on the archive name of log 1: log 0 is archived, nothing is deleted *)
Definition ex_squat_root : aroot := RDir [(archive_name 1 7 7, ADirEnt)].

Example ex_no_delete_on_failure :
  let r := cleanup_up_to true no_faults (mkWorld ex_wal None ex_squat_root) 2 in
  existsb is_none (snd r) = true /\ w_wal (fst r) = ex_wal /\
  In (Some (archive_name 0 5 6)) (snd r) /\
  root_lookup (archive_name 0 5 6) (w_root (fst r)) = Some (AFile (make_archive 0 [wit_entry 5 1; wit_entry 6 2])).
Proof. vm_compute. repeat split; auto. Qed.

Example ex_deleted_archived_recovered :
  let r := cleanup_up_to true no_faults (mkWorld ex_wal None RMissing) 2 in
  NoDup (names ex_wal) /\ wal_wf ex_wal /\
  existsb is_none (snd r) = false /\
  names (w_wal (fst r)) = [log_name 2] /\
  recover_all (w_root (fst r)) = Some [wit_entry 5 1; wit_entry 6 2; wit_entry 7 3].
Proof.
  cbv zeta. split.
  { cbn [ex_wal names map fst]. constructor; [intros [H|[H|[]]]; vm_compute in H; discriminate H|nodup2]. }
  split; [repeat constructor; vm_compute; discriminate|]. vm_compute. repeat split; reflexivity.
Qed.

(** the former counterexamples, now instances of the positive theorems:
    "wal-1.log" next to "wal-00001.log" — only the canonical file is archived and deleted, the foreign
    one is left alone (fix 1c3fa90) *)
Definition alias_1 : bytes := walarch_log_prefix ++ [49] ++ walarch_log_suffix.
Example ex_alias_left_alone :
  let w := mkWorld [(alias_1, WFile [wit_line 5 2]); (log_name 1, WFile [wit_line 5 1])] None RMissing in
  let r := cleanup_up_to true no_faults w 2 in
  parse_log_name alias_1 = Some 1 /\ existsb is_none (snd r) = false /\
  w_wal (fst r) = [(alias_1, WFile [wit_line 5 2])] /\
  recover_all (w_root (fst r)) = Some [wit_entry 5 1].
Proof. vm_compute. repeat split; reflexivity. Qed.

(** a cleaner built on its own directory archives that directory (fix db8e58e) *)
Example ex_own_dir_archived :
  let w := mkWorld [] (Some [(log_name 0, WFile [wit_line 5 1])]) RMissing in
  let r := cleanup_up_to true no_faults w 1 in
  cleaner_dir (fst r) = [] /\ recover_all (w_root (fst r)) = Some [wit_entry 5 1].
Proof. vm_compute. split; reflexivity. Qed.

(** ids 99999 and 100000 come back in id order (fix 06752f6) although "wal-100000-…" < "wal-99999-…" as strings *)
Example ex_wide_ids_in_order :
  let wal := [(log_name 100000, WFile [wit_line 6 2]); (log_name 99999, WFile [wit_line 5 1])] in
  let r := cleanup_up_to true no_faults (mkWorld wal None RMissing) 100001 in
  bytes_cmp (archive_name 100000 6 6) (archive_name 99999 5 5) = Lt /\
  existsb is_none (snd r) = false /\ w_wal (fst r) = [] /\
  recover_all (w_root (fst r)) = Some [wit_entry 5 1; wit_entry 6 2] /\
  expected_recovery wal 100001 = [wit_entry 5 1; wit_entry 6 2].
Proof. vm_compute. repeat split; reflexivity. Qed.

Example ex_name_not_reused :
  name_reused (archive_name 0 5 5) (r_wal wit_round2) (r_keep wit_round2) = true /\
  name_reused (archive_name 0 5 5) ex_wal 3 = false.
Proof. vm_compute. split; reflexivity. Qed.

Example ex_fault_oracle :
  let fl := mkFaults (fun id => if id =? 1 then IoFailLate else IoOk) (fun _ => true) in
  let r := cleanup_up_to true fl (mkWorld ex_wal None RMissing) 3 in
  existsb is_none (snd r) = true /\ w_wal (fst r) = ex_wal /\
  root_lookup (archive_name 1 7 7) (w_root (fst r)) = Some AGarbage /\
  root_lookup (archive_name 2 9 9) (w_root (fst r)) = Some (AFile (make_archive 2 [wit_entry 9 4])).
Proof. vm_compute. repeat split; reflexivity. Qed.

Theorem archive_roundtrip_lossless : forall id ls es,
  Forall line_wf ls -> parse_lines ls = Some es ->
  a_entries (make_archive id es) = es.
Proof. intros id ls es H1 H2. unfold make_archive. cbn [a_entries]. exact (parse_lines_lossless ls es H1 H2). Qed.

Example ex_lossless :
  Forall line_wf [wit_line 5 1; LJunk; LEntry (mkJEntry 6 [99] [116] [([98], JInt 18446744073709551615); ([97], JFloat 4609434218613702656); ([98], JNested [91; 93])] 2)]
  /\ parse_lines [wit_line 5 1; LJunk; LEntry (mkJEntry 6 [99] [116] [([98], JInt 18446744073709551615); ([97], JFloat 4609434218613702656); ([98], JNested [91; 93])] 2)]
     = Some [wit_entry 5 1; mkEntry 6 [99] [116] [([97], SFloat 4609434218613702656); ([98], SUtf8 [91; 93])] 2].
Proof.
  split; [|vm_compute; reflexivity].
  repeat constructor; try (vm_compute; discriminate); try reflexivity.
Qed.

(** the history theorem's hypotheses hold on a two-cleanup history with a non-trivial outcome *)
Example ex_history_kept :
  let r1 := mkRound ex_wal 2 no_faults in
  let r2 := mkRound [(log_name 5, WFile [wit_line 9 9]); (log_name 2, WFile [wit_line 9 4])] 6 no_faults in
  NoDup (names (r_wal r1)) /\
  lookup (log_name 0) (snd (fst (run_round RMissing r1))) = None /\
  Forall (fun r' => name_reused (archive_name 0 5 6) (r_wal r') (r_keep r') = false) [r2] /\
  root_lookup (archive_name 0 5 6) (run_history RMissing [r1; r2])
  = Some (AFile (make_archive 0 [wit_entry 5 1; wit_entry 6 2])) /\
  recover_all (run_history RMissing [r1; r2])
  = Some [wit_entry 5 1; wit_entry 6 2; wit_entry 7 3; wit_entry 9 4; wit_entry 9 9].
Proof.
  cbv zeta. split.
  { cbn [r_wal ex_wal names map fst]. constructor; [intros [H|[H|[]]]; vm_compute in H; discriminate H|nodup2]. }
  split; [vm_compute; reflexivity|].
  split; [constructor; [vm_compute; reflexivity|constructor]|].
  split; vm_compute; reflexivity.
Qed.

(** * The lines of a log file, and archive completeness with respect to WAL replay *)

Definition no_nl (l : bytes) : Prop := forallb (fun x => negb (x =? 10)) l = true.

Lemma split_on_nonempty : forall c s, exists h t, split_on c s = h :: t.
Proof.
  intros c s. induction s as [|x s IH]; cbn [split_on]; [eauto|].
  destruct (x =? c); [eauto|]. destruct IH as (h & t & ->). eauto.
Qed.

Lemma split_on_app_sep : forall c a r, split_on c (a ++ c :: r) = split_on c a ++ split_on c r.
Proof.
  intros c a r. induction a as [|x a IH]; cbn [app split_on].
  - rewrite N.eqb_refl. reflexivity.
  - destruct (x =? c); [rewrite IH; reflexivity|].
    rewrite IH. destruct (split_on_nonempty c a) as (h & t & ->). reflexivity.
Qed.

Lemma split_on_no_sep : forall c l, forallb (fun x => negb (x =? c)) l = true -> split_on c l = [l].
Proof.
  intros c l. induction l as [|x l IH]; intro H; cbn [split_on]; [reflexivity|].
  cbn [forallb] in H. apply andb_true_iff in H. destruct H as [H1 H2]. apply negb_true_iff in H1.
  rewrite H1, (IH H2). reflexivity.
Qed.

Lemma lines_of_pieces_app : forall A R, R <> [] -> lines_of_pieces (A ++ R) = map strip_cr A ++ lines_of_pieces R.
Proof.
  induction A as [|p A IH]; intros R HR; [reflexivity|].
  cbn [app map]. rewrite <- (IH R HR). cbn [lines_of_pieces].
  destruct (A ++ R) eqn:E; [|reflexivity].
  apply app_eq_nil in E. destruct E as [_ E]. contradiction.
Qed.

Lemma split_lines_app_nl : forall a r, split_lines (a ++ 10 :: r) = map strip_cr (split_on 10 a) ++ split_lines r.
Proof.
  intros a r. unfold split_lines. rewrite split_on_app_sep. apply lines_of_pieces_app.
  destruct (split_on_nonempty 10 r) as (h & t & ->). discriminate.
Qed.

Lemma split_lines_terminated : forall a, split_lines (a ++ [10]) = map strip_cr (split_on 10 a).
Proof. intro a. rewrite split_lines_app_nl. cbn. apply app_nil_r. Qed.

Lemma split_lines_app : forall a r, split_lines (a ++ 10 :: r) = split_lines (a ++ [10]) ++ split_lines r.
Proof. intros a r. rewrite split_lines_app_nl, split_lines_terminated. reflexivity. Qed.

Lemma split_lines_single : forall l, no_nl l -> l <> [] -> split_lines l = [l].
Proof.
  intros l H Hne. unfold split_lines. rewrite (split_on_no_sep 10 l H). cbn [lines_of_pieces].
  destruct l; [congruence|reflexivity].
Qed.

Lemma strip_cr_crlf : forall l, strip_cr (l ++ [13]) = l.
Proof.
  intro l. unfold strip_cr. rewrite <- !rev_alt, rev_app_distr. cbn [rev app]. rewrite N.eqb_refl, <- rev_alt.
  apply rev_involutive.
Qed.

(** the final-line shapes *)
Lemma file_lines_empty : forall cls, file_lines cls [] = [].
Proof. reflexivity. Qed.
Lemma file_lines_only_newline : forall cls, file_lines cls [10] = [cls []].
Proof. reflexivity. Qed.

(** a file is a run of terminated lines followed by a last line without newline: the last line is a line *)
Theorem last_line_without_newline : forall cls pre l,
  (pre = [] \/ exists b, pre = b ++ [10]) -> no_nl l -> l <> [] ->
  file_lines cls (pre ++ l) = file_lines cls pre ++ [cls l].
Proof.
  intros cls pre l Hpre Hl Hne. unfold file_lines.
  destruct Hpre as [->|(b & ->)].
  - cbn [app]. rewrite (split_lines_single l Hl Hne). reflexivity.
  - rewrite <- app_assoc. cbn [app]. rewrite split_lines_app, (split_lines_single l Hl Hne), map_app. reflexivity.
Qed.

(** "\r\n" terminates a line like "\n" *)
Theorem crlf_terminated_line : forall cls pre l,
  (pre = [] \/ exists b, pre = b ++ [10]) -> no_nl l ->
  file_lines cls (pre ++ l ++ [13; 10]) = file_lines cls pre ++ [cls l].
Proof.
  intros cls pre l Hpre Hl. unfold file_lines.
  assert (E : split_lines (l ++ [13; 10]) = [l]).
  { change (l ++ [13; 10]) with (l ++ [13] ++ [10]). rewrite app_assoc, split_lines_terminated.
    rewrite (split_on_no_sep 10 (l ++ [13])).
    - cbn [map]. rewrite strip_cr_crlf. reflexivity.
    - unfold no_nl in Hl. rewrite forallb_app, Hl. reflexivity. }
  destruct Hpre as [->|(b & ->)].
  - cbn [app]. rewrite E. reflexivity.
  - rewrite <- app_assoc. cbn [app]. rewrite split_lines_app, E, map_app. reflexivity.
Qed.

Lemma replay_entries_app : forall a b, replay_entries (a ++ b) = replay_entries a ++ replay_entries b.
Proof.
  induction a as [|l a IH]; intro b; cbn [app replay_entries]; [reflexivity|].
  destruct l; rewrite IH; reflexivity.
Qed.

(** what the archiver reads from a file is what WAL replay would restore from it *)
Lemma parse_lines_replay : forall ls es, parse_lines ls = Some es -> es = replay_entries ls.
Proof.
  induction ls as [|l ls IH]; intros es H; cbn [parse_lines replay_entries] in *.
  - inversion H. reflexivity.
  - destruct l as [| | |j]; try discriminate; auto.
    destruct (parse_lines ls) as [es'|]; [|discriminate]. inversion H. f_equal. auto.
Qed.

(** Archive completeness: a log file that is gone after a conservative cleanup has an archive that
    returns exactly the entries WAL replay would have restored from that file, in order. *)
Theorem archive_complete_for_replay : forall fl w keep w' res n ls,
  NoDup (names (cleaner_dir w)) -> Forall line_wf ls ->
  cleanup_up_to true fl w keep = (w', res) ->
  In (n, WFile ls) (cleaner_dir w) -> lookup n (cleaner_dir w') = None ->
  exists id f, n = log_name id /\ a_log_id f = id /\
               root_lookup (afile_name f) (w_root w') = Some (AFile f) /\
               a_entries f = replay_entries ls.
Proof.
  intros fl w keep w' res n ls ND Hwf H Hin Hgone.
  destruct (deleted_implies_archived _ _ _ _ _ _ _ ND H Hin Hgone) as (id & es & En & _ & EP & Hh).
  exists id, (make_archive id es). repeat split; try assumption.
  rewrite (archive_roundtrip_lossless id ls es Hwf EP). apply parse_lines_replay. exact EP.
Qed.

(** … in particular for a file whose last line is a complete entry without a trailing newline (what a
    crash between the writer's two writes leaves): the entry is in the archive. *)
Theorem unterminated_last_entry_archived : forall fl w keep w' res n cls pre l j,
  NoDup (names (cleaner_dir w)) -> Forall line_wf (file_lines cls (pre ++ l)) ->
  (pre = [] \/ exists b, pre = b ++ [10]) -> no_nl l -> l <> [] -> cls l = LEntry j ->
  cleanup_up_to true fl w keep = (w', res) ->
  In (n, WFile (file_lines cls (pre ++ l))) (cleaner_dir w) -> lookup n (cleaner_dir w') = None ->
  exists f, root_lookup (afile_name f) (w_root w') = Some (AFile f) /\
            a_entries f = replay_entries (file_lines cls pre) ++ [entry_of_json j].
Proof.
  intros fl w keep w' res n cls pre l j ND Hwf Hpre Hl Hne Hc H Hin Hgone.
  destruct (archive_complete_for_replay _ _ _ _ _ _ _ ND Hwf H Hin Hgone) as (id & f & _ & _ & Hr & He).
  exists f. split; [exact Hr|]. rewrite He, (last_line_without_newline cls pre l Hpre Hl Hne), replay_entries_app, Hc.
  reflexivity.
Qed.

Example ex_unterminated_last_entry :
  let cls := fun b => if bytes_eqb b [65] then wit_line 5 1 else if bytes_eqb b [66] then wit_line 6 2 else LJunk in
  (* content "A\r\nB" : entry, CRLF, entry without newline *)
  let w := mkWorld [(log_name 0, WFile (file_lines cls [65; 13; 10; 66]))] None RMissing in
  let r := cleanup_up_to true no_faults w 1 in
  file_lines cls [65; 13; 10; 66] = [wit_line 5 1; wit_line 6 2] /\
  w_wal (fst r) = [] /\ recover_all (w_root (fst r)) = Some [wit_entry 5 1; wit_entry 6 2].
Proof. vm_compute. repeat split; reflexivity. Qed.

(** one archive result per eligible entry of the cleaner's directory, by the shape of the Rust text and in the model *)
Lemma results_cover_every_eligible : forall fl w keep w' res,
  walarch_archives_every_eligible = true /\
  (cleanup_up_to true fl w keep = (w', res) -> length res = length (scan_hits keep (cleaner_dir w))).
Proof.
  intros fl w keep w' res. split; [exact archives_all_flag|]. intro H.
  destruct (cleanup_conservative_char _ _ _ _ _ H) as [root1 [E _]].
  rewrite <- (archive_scan_length (f_io fl) (cleaner_dir w) (cleaner_dir w) (w_root w) keep). rewrite E. reflexivity.
Qed.
