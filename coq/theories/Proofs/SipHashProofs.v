(** Proofs about Model/SipHash.v (C12): the hash is a 64-bit value, [route] lands below the
    shard count, and known answers of the reference SipHash-1-3 / of Rust's DefaultHasher. *)
From Coq Require Import NArith List Bool Lia.
From Coq Require Import ZifyBool ZifyNat ZifyN.
From Snel Require Import Base.Bytes Gen.Params Model.SipHash.
Import ListNotations.
Open Scope N_scope.

Lemma m64_pos : 0 < m64. Proof. reflexivity. Qed.

Lemma lt_pow2_log2 : forall a n, a < 2 ^ n -> a = 0 \/ N.log2 a < n.
Proof.
  intros a n H. destruct (N.eq_dec a 0) as [->|Hnz]; [left; reflexivity|right].
  apply N.log2_lt_pow2; [lia|exact H].
Qed.

Lemma lxor_lt_pow2 : forall a b n, a < 2 ^ n -> b < 2 ^ n -> N.lxor a b < 2 ^ n.
Proof.
  intros a b n Ha Hb.
  destruct (N.eq_dec (N.lxor a b) 0) as [->|Hnz].
  { apply N.neq_0_lt_0, N.pow_nonzero. lia. }
  apply N.log2_lt_pow2; [lia|].
  pose proof (N.log2_lxor a b) as Hl.
  destruct (lt_pow2_log2 _ _ Ha) as [->|Ha']; destruct (lt_pow2_log2 _ _ Hb) as [->|Hb'].
  - rewrite N.lxor_0_l in Hnz. contradiction.
  - rewrite N.lxor_0_l. exact Hb'.
  - rewrite N.lxor_0_r. exact Ha'.
  - lia.
Qed.

Lemma lor_lt_pow2 : forall a b n, a < 2 ^ n -> b < 2 ^ n -> N.lor a b < 2 ^ n.
Proof.
  intros a b n Ha Hb.
  destruct (N.eq_dec (N.lor a b) 0) as [->|Hnz].
  { apply N.neq_0_lt_0, N.pow_nonzero. lia. }
  apply N.log2_lt_pow2; [lia|].
  pose proof (N.log2_lor a b) as Hl.
  destruct (lt_pow2_log2 _ _ Ha) as [->|Ha']; destruct (lt_pow2_log2 _ _ Hb) as [->|Hb'].
  - rewrite N.lor_0_l in Hnz. contradiction.
  - rewrite N.lor_0_l. exact Hb'.
  - rewrite N.lor_0_r. exact Ha'.
  - lia.
Qed.

Lemma add64_lt : forall a b, add64 a b < m64.
Proof. intros. unfold add64. apply N.mod_lt. discriminate. Qed.

Lemma rotl64_lt : forall x r, x < m64 -> rotl64 x r < m64.
Proof.
  intros x r Hx. unfold rotl64, m64 in *. apply lor_lt_pow2.
  - apply N.mod_lt. discriminate.
  - rewrite N.shiftr_div_pow2. apply N.le_lt_trans with x; [|exact Hx].
    apply N.div_le_upper_bound; [apply N.pow_nonzero; lia|].
    assert (1 <= 2 ^ (64 - r)) by (apply N.lt_pred_le, N.neq_0_lt_0, N.pow_nonzero; lia). nia.
Qed.

Ltac split4 := split; [|split; [|split]].

Definition wf (s : sip) : Prop := v0 s < m64 /\ v1 s < m64 /\ v2 s < m64 /\ v3 s < m64.

Lemma sipround_wf : forall s, wf s -> wf (sipround s).
Proof.
  intros s (H0 & H1 & H2 & H3). unfold sipround, wf. cbn [v0 v1 v2 v3].
  split4;
    repeat first [apply add64_lt | apply rotl64_lt | apply (lxor_lt_pow2 _ _ 64) | assumption].
Qed.

Lemma rounds_wf : forall n s, wf s -> wf (rounds n s).
Proof. induction n as [|n IH]; intros s H; cbn [rounds]; [exact H|]. apply IH, sipround_wf, H. Qed.

Lemma absorb_wf : forall c s m, wf s -> m < m64 -> wf (absorb c s m).
Proof.
  intros c s m (H0 & H1 & H2 & H3) Hm. unfold absorb.
  assert (Hin : wf (mkSip (v0 s) (v1 s) (v2 s) (N.lxor (v3 s) m))).
  { unfold wf. cbn [v0 v1 v2 v3]. split4; try assumption.
    apply (lxor_lt_pow2 _ _ 64); assumption. }
  pose proof (rounds_wf c _ Hin) as Hs1.
  destruct (rounds c (mkSip (v0 s) (v1 s) (v2 s) (N.lxor (v3 s) m))) as [a0 a1 a2 a3].
  unfold wf in *. cbn [v0 v1 v2 v3] in *. destruct Hs1 as (A0 & A1 & A2 & A3).
  split4; try assumption. apply (lxor_lt_pow2 _ _ 64); assumption.
Qed.

Lemma le_word_lt : forall bs, le_word bs < 256 ^ N.of_nat (length bs).
Proof.
  induction bs as [|b r IH]; cbn [le_word length]; [reflexivity|].
  rewrite Nat2N.inj_succ, N.pow_succ_r'.
  assert (b mod 256 < 256) by (apply N.mod_lt; discriminate). lia.
Qed.

Lemma sip_blocks_spec : forall c bs s s' tail,
  wf s -> sip_blocks c s bs = (s', tail) -> wf s' /\ (length tail < 8)%nat.
Proof.
  intros c bs. 
  assert (G : forall n bs, (length bs <= n)%nat -> forall s s' tail,
    wf s -> sip_blocks c s bs = (s', tail) -> wf s' /\ (length tail < 8)%nat).
  { induction n as [|n IH]; intros l Hl s s' tail Hwf E.
    - destruct l; [|cbn in Hl; lia]. cbn in E. inversion E; subst. split; [exact Hwf|cbn; lia].
    - destruct l as [|b0 [|b1 [|b2 [|b3 [|b4 [|b5 [|b6 [|b7 rest]]]]]]]];
        try (cbn in E; inversion E; subst; split; [exact Hwf|cbn; lia]).
      cbn [sip_blocks] in E. eapply (IH rest); [cbn in Hl; lia| |exact E].
      apply absorb_wf; [exact Hwf|].
      pose proof (le_word_lt [b0; b1; b2; b3; b4; b5; b6; b7]) as Hw. exact Hw. }
  intros s s' tail. apply (G (length bs) bs). lia.
Qed.

Lemma sip_init_wf : forall k0 k1, k0 < m64 -> k1 < m64 -> wf (sip_init k0 k1).
Proof.
  intros k0 k1 H0 H1. unfold sip_init, wf. cbn [v0 v1 v2 v3].
  split4; apply (lxor_lt_pow2 _ _ 64); try assumption; reflexivity.
Qed.

(** The hash is a 64-bit value for every message (so [as usize] loses nothing on a 64-bit target). *)
Lemma siphash_lt : forall c d k0 k1 msg, k0 < m64 -> k1 < m64 -> siphash c d k0 k1 msg < m64.
Proof.
  intros c d k0 k1 msg H0 H1. unfold siphash.
  destruct (sip_blocks c (sip_init k0 k1) msg) as [s tail] eqn:E.
  destruct (sip_blocks_spec _ _ _ _ _ (sip_init_wf _ _ H0 H1) E) as (Hs & Ht).
  set (b := _ + le_word tail).
  assert (Hb : b < m64).
  { unfold b. pose proof (le_word_lt tail) as Hw.
    assert (256 ^ N.of_nat (length tail) <= 256 ^ 7) by (apply N.pow_le_mono_r; lia).
    assert (N.of_nat (length msg) mod 256 < 256) by (apply N.mod_lt; discriminate).
    change (256 ^ 7) with (2 ^ 56) in *. change m64 with (256 * 2 ^ 56). nia. }
  pose proof (absorb_wf c s b Hs Hb) as Ha.
  destruct (absorb c s b) as [a0 a1 a2 a3]. unfold wf in Ha. cbn [v0 v1 v2 v3] in *.
  destruct Ha as (A0 & A1 & A2 & A3).
  assert (Hin : wf (mkSip a0 a1 (N.lxor a2 255) a3)).
  { unfold wf. cbn [v0 v1 v2 v3]. split4; try assumption.
    apply (lxor_lt_pow2 _ _ 64); [assumption|reflexivity]. }
  pose proof (rounds_wf d _ Hin) as Hs2.
  destruct (rounds d (mkSip a0 a1 (N.lxor a2 255) a3)) as [c0 c1 c2 c3].
  unfold wf in Hs2. cbn [v0 v1 v2 v3] in *. destruct Hs2 as (B0 & B1 & B2 & B3).
  repeat apply (lxor_lt_pow2 _ _ 64); assumption.
Qed.

Lemma default_hash_str_lt : forall ctx, default_hash_str ctx < 2 ^ 64.
Proof. intro ctx. unfold default_hash_str. apply siphash_lt; reflexivity. Qed.

(** [route_lt_n] and totality for a non-empty cluster. *)
Lemma route_lt_n : forall ctx n r, route ctx n = Some r -> r < n.
Proof.
  intros ctx n r H. unfold route in H. destruct (N.eqb_spec n 0) as [->|Hn]; [discriminate|].
  inversion H. apply N.mod_lt. exact Hn.
Qed.

Lemma route_some : forall ctx n, n <> 0 -> exists r, route ctx n = Some r /\ r < n.
Proof.
  intros ctx n Hn. unfold route. destruct (N.eqb_spec n 0) as [E|_]; [contradiction|].
  eexists. split; [reflexivity|]. apply N.mod_lt. exact Hn.
Qed.

Lemma route_none_iff : forall ctx n, route ctx n = None <-> n = 0.
Proof. intros ctx n. unfold route. destruct (N.eqb_spec n 0); split; intro; congruence. Qed.

(** The pointer-width truncation is the identity (64-bit target): the shard is hash mod n. *)
Lemma route_is_hash_mod : forall ctx n, n <> 0 -> route ctx n = Some (default_hash_str ctx mod n).
Proof.
  intros ctx n Hn. unfold route. destruct (N.eqb_spec n 0) as [E|_]; [contradiction|].
  rewrite (N.mod_small (default_hash_str ctx)); [reflexivity|]. apply default_hash_str_lt.
Qed.

(** Known answers.  SipHash-1-3 under the reference key 00 .. 0f of the messages (), 00..07 and
    00..0e: entries 0, 8 and 15 of the vector table of Rust's core tests ([test_siphash_1_3]);
    and Rust's [DefaultHasher] on "" and "a" as observed on the pinned toolchain. *)
Example siphash13_reference_vectors :
  siphash 1 3 506097522914230528 1084818905618843912 [] = 12370263754033579228 /\
  siphash 1 3 506097522914230528 1084818905618843912 [0;1;2;3;4;5;6;7] = 3931806377309739662 /\
  siphash 1 3 506097522914230528 1084818905618843912
    [0;1;2;3;4;5;6;7;8;9;10;11;12;13;14] = 15213397504630561110.
Proof. vm_compute. repeat split; reflexivity. Qed.

Example default_hasher_known_answers :
  default_hash_str [] = 3476900567878811119 /\ default_hash_str [97] = 8186225505942432243.
Proof. vm_compute. split; reflexivity. Qed.
