(** C16, ISO-8601 side: every RFC 3339 spelling of an instant parses to the
    floor of the instant.  About Model/Time.v ([parse_rfc3339], [parse_date_only],
    [parse_str_to_epoch_seconds]) and the printers of Model/TimePrint.v. *)
From Coq Require Import ZArith NArith List Bool Lia.
From Coq Require Import ZifyBool ZifyNat ZifyN.
From Snel Require Import Base.Bytes Base.Civil Gen.Params Model.Time Model.TimePrint
                         Proofs.CivilProofs Proofs.TimeProofs.
Import ListNotations.
Ltac Zify.zify_post_hook ::= Z.div_mod_to_equations.

(** * Digits *)

Lemma is_digit_48 : forall x, (x < 10)%N -> is_digit (48 + x) = true.
Proof. intros x Hx. unfold is_digit. lia. Qed.

Lemma digit_val_48 : forall x, digit_val (48 + x) = x.
Proof. intros x. unfold digit_val. lia. Qed.

Lemma is_digit_range : forall c, is_digit c = true -> (48 <= c <= 57)%N.
Proof. intros c H. unfold is_digit in H. lia. Qed.

Lemma digit_not_ws : forall c, is_digit c = true -> is_ascii_ws c = false.
Proof. intros c H. apply is_digit_range in H. unfold is_ascii_ws. lia. Qed.

Lemma pad2_explicit : forall n,
  pad_digits 2 n = [(48 + (n / 10) mod 10)%N; (48 + n mod 10)%N].
Proof. reflexivity. Qed.

Lemma pad4_explicit : forall n,
  pad_digits 4 n = [(48 + (n / 10 / 10 / 10) mod 10)%N; (48 + (n / 10 / 10) mod 10)%N;
                    (48 + (n / 10) mod 10)%N; (48 + n mod 10)%N].
Proof. reflexivity. Qed.

(** * [scan_number] on explicit digit pairs / quadruples *)

Lemma scan_number_aux_done : forall s acc, scan_number_aux s 0 0 acc = Some (acc, s).
Proof. intros s acc. destruct s; reflexivity. Qed.

Lemma scan_number_2 : forall a b rest k,
  (k <= 2)%nat -> is_digit a = true -> is_digit b = true ->
  scan_number (a :: b :: rest) k 2
  = Some (Z.of_N (digit_val a) * 10 + Z.of_N (digit_val b), rest).
Proof.
  intros a b rest k Hk Ha Hb. unfold scan_number.
  destruct k as [|[|[|k]]]; try lia;
    cbn [scan_number_aux pred]; rewrite Ha; cbn [scan_number_aux pred]; rewrite Hb;
    cbn [scan_number_aux pred]; rewrite scan_number_aux_done; f_equal; f_equal; lia.
Qed.

Lemma scan_number_4 : forall a b c d rest k,
  (k <= 4)%nat -> is_digit a = true -> is_digit b = true -> is_digit c = true -> is_digit d = true ->
  scan_number (a :: b :: c :: d :: rest) k 4
  = Some (((Z.of_N (digit_val a) * 10 + Z.of_N (digit_val b)) * 10 + Z.of_N (digit_val c)) * 10
          + Z.of_N (digit_val d), rest).
Proof.
  intros a b c d rest k Hk Ha Hb Hc Hd. unfold scan_number.
  destruct k as [|[|[|[|[|k]]]]]; try lia;
    cbn [scan_number_aux pred]; rewrite Ha; cbn [scan_number_aux pred]; rewrite Hb;
    cbn [scan_number_aux pred]; rewrite Hc; cbn [scan_number_aux pred]; rewrite Hd;
    cbn [scan_number_aux pred]; rewrite scan_number_aux_done; f_equal; f_equal; lia.
Qed.

Lemma scan_number_pad2 : forall z rest k,
  (k <= 2)%nat -> (0 <= z < 100)%Z ->
  scan_number (pad2 z ++ rest) k 2 = Some (z, rest).
Proof.
  intros z rest k Hk Hz. unfold pad2. rewrite pad2_explicit. cbn [app].
  rewrite scan_number_2; [|exact Hk|apply is_digit_48; lia|apply is_digit_48; lia].
  rewrite !digit_val_48. f_equal. f_equal. lia.
Qed.

Lemma scan_number_pad4 : forall z rest k,
  (k <= 4)%nat -> (0 <= z < 10000)%Z ->
  scan_number (pad4 z ++ rest) k 4 = Some (z, rest).
Proof.
  intros z rest k Hk Hz. unfold pad4. rewrite pad4_explicit. cbn [app].
  rewrite scan_number_4; [|exact Hk|apply is_digit_48; lia ..].
  rewrite !digit_val_48. f_equal. f_equal. lia.
Qed.

Lemma scan_char_same : forall c r, scan_char (c :: r) c = Some r.
Proof. intros c r. unfold scan_char. rewrite N.eqb_refl. reflexivity. Qed.

(** * Fractional seconds: a digit run followed by a non-digit is skipped entirely *)

Lemma drop_digits_app : forall ds o rest,
  forallb is_digit ds = true -> is_digit o = false ->
  drop_while is_digit (ds ++ o :: rest) = o :: rest.
Proof.
  induction ds as [|c ds IH]; intros o rest Hd Ho; cbn [app drop_while].
  - rewrite Ho. reflexivity.
  - cbn [forallb] in Hd. apply andb_prop in Hd. destruct Hd as [Hc Hd].
    rewrite Hc. apply IH; assumption.
Qed.

Lemma scan_frac_aux_digits : forall n ds o rest acc cnt,
  forallb is_digit ds = true -> is_digit o = false ->
  exists v ds',
    scan_frac_aux (ds ++ o :: rest) n acc cnt
    = (v, (cnt + Nat.min n (length ds))%nat, ds' ++ o :: rest)
    /\ forallb is_digit ds' = true.
Proof.
  induction n as [|n IH]; intros ds o rest acc cnt Hd Ho.
  - exists acc, ds. split; [|exact Hd].
    destruct ds; cbn [app scan_frac_aux Nat.min]; f_equal; f_equal; lia.
  - destruct ds as [|c ds]; cbn [app scan_frac_aux].
    + rewrite Ho. exists acc, []. split; [cbn [length app Nat.min]; f_equal; f_equal; lia | reflexivity].
    + cbn [forallb] in Hd. apply andb_prop in Hd. destruct Hd as [Hc Hd]. rewrite Hc.
      destruct (IH ds o rest (acc * 10 + Z.of_N (digit_val c))%Z (S cnt) Hd Ho) as [v [ds' [E F]]].
      exists v, ds'. split; [|exact F]. rewrite E. cbn [length Nat.min]. f_equal. f_equal. lia.
Qed.

Lemma scan_nanosecond_digits : forall c ds o rest,
  forallb is_digit (c :: ds) = true -> is_digit o = false ->
  exists v, scan_nanosecond ((c :: ds) ++ o :: rest) = Some (v, o :: rest).
Proof.
  intros c ds o rest Hd Ho. unfold scan_nanosecond.
  destruct (scan_frac_aux_digits 9 (c :: ds) o rest 0%Z O Hd Ho) as [v [ds' [E F]]].
  rewrite E. cbn [length Nat.min Nat.add].
  rewrite (drop_digits_app ds' o rest F Ho).
  eexists. reflexivity.
Qed.

(** the "[.frac]" step of [parse_rfc3339], as a function *)
Definition frac_skip (s : bytes) : option bytes :=
  match s with
  | 46%N :: r => match scan_nanosecond r with
                 | None => None
                 | Some (_, r') => Some r'
                 end
  | _ => Some s
  end.

Lemma frac_skip_print : forall frac o rest,
  forallb is_digit frac = true -> is_digit o = false -> o <> 46%N ->
  frac_skip (print_frac frac ++ o :: rest) = Some (o :: rest).
Proof.
  intros frac o rest Hd Ho H46. destruct frac as [|c ds].
  - cbn [print_frac app]. unfold frac_skip.
    destruct o as [|p]; [reflexivity|].
    do 6 (destruct p as [p|p|]; try reflexivity). congruence.
  - cbn [print_frac app]. unfold frac_skip.
    destruct (scan_nanosecond_digits c ds o rest Hd Ho) as [v E].
    change (c :: ds ++ o :: rest) with ((c :: ds) ++ o :: rest). rewrite E. reflexivity.
Qed.

(** * The UTC offset *)

Open Scope Z_scope.

Lemma scan_offset_numeric : forall sgn neg h1 h2 m1 m2,
  (sgn = [43%N] /\ neg = false) \/ (sgn = [45%N] /\ neg = true)
   \/ (sgn = [226%N; 136%N; 146%N] /\ neg = true) ->
  is_digit h1 = true -> is_digit h2 = true -> is_digit m1 = true -> is_digit m2 = true ->
  (m1 <= 53)%N ->
  scan_offset (sgn ++ h1 :: h2 :: 58%N :: [m1; m2])
  = Some ((if neg then Z.opp else (fun x => x))
            (Z.of_N (digit_val h1 * 10 + digit_val h2) * 3600
             + Z.of_N (digit_val m1 * 10 + digit_val m2) * 60), []).
Proof.
  intros sgn neg h1 h2 m1 m2 Hs H1 H2 M1 M2 M53.
  assert (L : (m1 <=? 53)%N = true) by lia.
  destruct Hs as [[-> ->]|[[-> ->]|[-> ->]]]; cbn [app]; unfold scan_offset;
    rewrite H1, H2; cbn [andb]; rewrite scan_char_same; rewrite M1, M2, L; cbn [andb]; reflexivity.
Qed.

Definition tz_ok (off : Z) (tz : tz_spelling) : Prop :=
  match tz with TzZulu _ => off = 0 | TzNumeric _ => True end.

Lemma print_offset_scan : forall off tz,
  Z.abs off <= 1439 -> tz_ok off tz ->
  scan_offset (print_offset_gen off tz) = Some (off * 60, []).
Proof.
  intros off tz Hoff Htz. destruct tz as [lower|um].
  - cbn [tz_ok] in Htz. subst off. destruct lower; reflexivity.
  - unfold print_offset_gen. cbv zeta. unfold pad2. rewrite !pad2_explicit. cbn [app].
    rewrite (scan_offset_numeric (print_sign off um) (off <? 0)).
    + rewrite !digit_val_48. f_equal. f_equal.
      destruct (Z.ltb_spec off 0); cbv beta; lia.
    + unfold print_sign. destruct (off <? 0); destruct um; tauto.
    + apply is_digit_48; lia.
    + apply is_digit_48; lia.
    + apply is_digit_48; lia.
    + apply is_digit_48; lia.
    + lia.
Qed.

Lemma print_offset_head : forall off tz,
  exists o rest, print_offset_gen off tz = o :: rest /\ is_digit o = false /\ o <> 46%N.
Proof.
  intros off tz. destruct tz as [lower|um].
  - destruct lower; cbn [print_offset_gen]; eexists; eexists;
      (split; [reflexivity | split; [reflexivity | discriminate]]).
  - unfold print_offset_gen, print_sign. cbv zeta.
    destruct (off <? 0); destruct um; cbn [app]; eexists; eexists;
      (split; [reflexivity | split; [reflexivity | discriminate]]).
Qed.

Definition sep_ok (sep : N) : bool := (sep =? 84)%N || (sep =? 116)%N || (sep =? 32)%N.

(** * parse (print x) = x *)

Theorem parse_print_rfc3339_gen : forall y m d h mi s frac sep off tz,
  0 <= y <= 9999 -> valid_ymd y m d = true ->
  0 <= h < 24 -> 0 <= mi < 60 -> 0 <= s <= 60 ->
  forallb is_digit frac = true -> sep_ok sep = true ->
  Z.abs off <= 1439 -> tz_ok off tz ->
  parse_rfc3339 (print_rfc3339_gen y m d h mi s frac sep off tz)
  = Some (days_from_civil y m d * 86400 + h * 3600 + mi * 60 + Z.min s 59 - off * 60).
Proof.
  intros y m d h mi s frac sep off tz Hy Hv Hh Hmi Hs Hfr Hsep Hoff Htz.
  destruct (valid_ymd_bounds _ _ _ Hv) as [Hm Hd].
  pose proof (days_in_month_le_31 y m) as H31.
  destruct (print_offset_head off tz) as [o [orest [Eo [Hod Ho46]]]].
  pose proof (frac_skip_print frac o orest Hfr Hod Ho46) as HF. unfold frac_skip in HF.
  unfold print_rfc3339_gen, parse_rfc3339.
  rewrite scan_number_pad4 by lia. cbv beta iota.
  rewrite scan_char_same. cbv beta iota.
  rewrite scan_number_pad2 by lia. cbv beta iota.
  rewrite scan_char_same. cbv beta iota.
  rewrite scan_number_pad2 by lia. cbv beta iota.
  unfold sep_ok in Hsep. rewrite Hsep.
  rewrite scan_number_pad2 by lia. cbv beta iota.
  rewrite scan_char_same. cbv beta iota.
  rewrite scan_number_pad2 by lia. cbv beta iota.
  rewrite scan_char_same. cbv beta iota.
  rewrite scan_number_pad2 by lia. cbv beta iota zeta.
  rewrite Eo, HF. cbv beta iota.
  rewrite <- Eo, (print_offset_scan off tz Hoff Htz). cbv beta iota.
  rewrite Hv.
  assert (C1 : (h <? 24) = true) by lia. assert (C2 : (mi <? 60) = true) by lia.
  assert (C3 : (s <=? 60) = true) by lia.
  assert (C4 : (Z.abs (off * 60) <=? max_rfc3339_offset) = true) by (unfold max_rfc3339_offset; lia).
  rewrite C1, C2, C3, C4. reflexivity.
Qed.

(** The spec-level printer ([zulu : bool]) is the instance "Z" / "+HH:MM" / "-HH:MM". *)
Corollary parse_print_rfc3339 : forall y m d h mi s frac sep off (zulu : bool),
  0 <= y <= 9999 -> valid_ymd y m d = true ->
  0 <= h < 24 -> 0 <= mi < 60 -> 0 <= s <= 60 ->
  forallb is_digit frac = true -> sep_ok sep = true ->
  Z.abs off <= 1439 -> (zulu = true -> off = 0) ->
  parse_rfc3339 (print_rfc3339 y m d h mi s frac sep off zulu)
  = Some (days_from_civil y m d * 86400 + h * 3600 + mi * 60 + Z.min s 59 - off * 60).
Proof.
  intros y m d h mi s frac sep off zulu Hy Hv Hh Hmi Hs Hfr Hsep Hoff Hz.
  unfold print_rfc3339. apply parse_print_rfc3339_gen; try assumption.
  destruct zulu; cbn [tz_ok]; auto.
Qed.

(** * Every ISO spelling of one instant denotes the floor of the instant *)

Definition iso_t_lo : Z := -62167219200 + 86400.   (* 0000-01-02T00:00:00Z *)
Definition iso_t_hi : Z := 253402300799 - 86400.   (* 9999-12-30T23:59:59Z *)

Theorem iso_spellings_agree : forall t frac sep off tz,
  iso_t_lo <= t <= iso_t_hi ->
  forallb is_digit frac = true -> sep_ok sep = true ->
  Z.abs off <= 1439 -> tz_ok off tz ->
  parse_rfc3339 (print_instant_gen t frac sep off tz) = Some t.
Proof.
  intros t frac sep off tz Ht Hfr Hsep Hoff Htz.
  unfold iso_t_lo, iso_t_hi in Ht.
  unfold print_instant_gen. cbv zeta.
  set (l := t + off * 60).
  assert (Hl : -62167219200 <= l <= 253402300799) by (unfold l; lia).
  assert (Hday : -719528 <= l / 86400 <= 2932896) by lia.
  pose proof (four_digit_year (l / 86400) Hday) as Hy.
  pose proof (civil_roundtrip_valid (l / 86400)) as Hr.
  destruct (civil_from_days (l / 86400)) as [[y m] d]. destruct Hr as [He Hv].
  rewrite parse_print_rfc3339_gen; try assumption; try lia.
  f_equal. rewrite He. unfold l in *. lia.
Qed.

(** ** with surrounding ASCII white space, through [parse_str_to_epoch_seconds] *)

Lemma drop_while_app : forall p ds o rest,
  forallb p ds = true -> p o = false ->
  drop_while p (ds ++ o :: rest) = o :: rest.
Proof.
  induction ds as [|c ds IH]; intros o rest Hd Ho; cbn [app drop_while].
  - rewrite Ho. reflexivity.
  - cbn [forallb] in Hd. apply andb_prop in Hd. destruct Hd as [Hc Hd].
    rewrite Hc. apply IH; assumption.
Qed.

Lemma forallb_rev : forall (p : N -> bool) l, forallb p l = true -> forallb p (rev l) = true.
Proof.
  intros p l H. rewrite forallb_forall in *. intros x Hx. apply H. apply in_rev. exact Hx.
Qed.

Lemma trim_padded : forall ws1 ws2 p c r b l,
  forallb is_ascii_ws ws1 = true -> forallb is_ascii_ws ws2 = true ->
  p = c :: r -> p = b ++ [l] -> is_ascii_ws c = false -> is_ascii_ws l = false ->
  trim (ws1 ++ p ++ ws2) = p.
Proof.
  intros ws1 ws2 p c r b l H1 H2 Ec El Hc Hl.
  unfold trim, trim_start, trim_end.
  rewrite Ec at 1. cbn [app]. rewrite (drop_while_app _ ws1 c (r ++ ws2) H1 Hc).
  change (c :: r ++ ws2) with ((c :: r) ++ ws2). rewrite <- Ec.
  rewrite rev_app_distr. rewrite El at 1. rewrite rev_app_distr. cbn [rev app].
  rewrite (drop_while_app _ (rev ws2) l (rev b) (forallb_rev _ _ H2) Hl).
  change (l :: rev b) with ([l] ++ rev b). rewrite <- (rev_involutive [l]) at 1.
  rewrite <- rev_app_distr, rev_involutive. symmetry. exact El.
Qed.

Definition ends_with (l : N) (s : bytes) : Prop := exists b, s = b ++ [l].

Lemma ends_with_app : forall l a s, ends_with l s -> ends_with l (a ++ s).
Proof. intros l a s [b E]. exists (a ++ b). rewrite E, app_assoc. reflexivity. Qed.

Lemma ends_with_cons : forall l x s, ends_with l s -> ends_with l (x :: s).
Proof. intros l x s [b E]. exists (x :: b). rewrite E. reflexivity. Qed.

Lemma print_offset_last : forall off tz,
  exists l, ends_with l (print_offset_gen off tz) /\ is_ascii_ws l = false.
Proof.
  intros off tz. destruct tz as [lower|um].
  - destruct lower; cbn [print_offset_gen]; eexists; (split; [exists []; reflexivity | reflexivity]).
  - unfold print_offset_gen. cbv zeta. unfold pad2 at 2. rewrite pad2_explicit.
    eexists. split.
    + apply ends_with_app, ends_with_app, ends_with_cons, ends_with_cons. exists []. reflexivity.
    + apply digit_not_ws, is_digit_48. lia.
Qed.

Lemma print_rfc3339_shape : forall y m d h mi s frac sep off tz,
  exists c r b l, print_rfc3339_gen y m d h mi s frac sep off tz = c :: r
    /\ print_rfc3339_gen y m d h mi s frac sep off tz = b ++ [l]
    /\ is_ascii_ws c = false /\ is_ascii_ws l = false.
Proof.
  intros y m d h mi s frac sep off tz.
  destruct (print_offset_last off tz) as [l [Hend Hl]].
  assert (E : ends_with l (print_rfc3339_gen y m d h mi s frac sep off tz)).
  { unfold print_rfc3339_gen.
    repeat (apply ends_with_app || apply ends_with_cons). exact Hend. }
  destruct E as [b Eb].
  unfold print_rfc3339_gen in *. unfold pad4 in *. rewrite pad4_explicit in *. cbn [app] in *.
  eexists; eexists; exists b, l. split; [reflexivity|]. split; [exact Eb|]. split; [|exact Hl].
  apply digit_not_ws, is_digit_48. lia.
Qed.

Theorem iso_string_agree : forall t frac sep off tz ws1 ws2,
  iso_t_lo <= t <= iso_t_hi ->
  forallb is_digit frac = true -> sep_ok sep = true ->
  Z.abs off <= 1439 -> tz_ok off tz ->
  forallb is_ascii_ws ws1 = true -> forallb is_ascii_ws ws2 = true ->
  parse_str_to_epoch_seconds (ws1 ++ print_instant_gen t frac sep off tz ++ ws2) = Some t.
Proof.
  intros t frac sep off tz ws1 ws2 Ht Hfr Hsep Hoff Htz H1 H2.
  pose proof (iso_spellings_agree t frac sep off tz Ht Hfr Hsep Hoff Htz) as HP.
  unfold parse_str_to_epoch_seconds. cbv zeta.
  assert (ET : trim (ws1 ++ print_instant_gen t frac sep off tz ++ ws2)
               = print_instant_gen t frac sep off tz).
  { unfold print_instant_gen. cbv zeta.
    destruct (civil_from_days ((t + off * 60) / 86400)) as [[y m] d].
    match goal with |- trim (_ ++ ?p ++ _) = _ =>
      match p with print_rfc3339_gen ?y ?m ?d ?h ?mi ?s ?f ?sp ?o ?z =>
        destruct (print_rfc3339_shape y m d h mi s f sp o z) as [c [r [b [l [Ec [El [Hc Hl]]]]]]]
      end end.
    eapply trim_padded; eassumption. }
  rewrite ET, HP. reflexivity.
Qed.

(** * Date-only spelling *)

Lemma trim_start_nonws : forall c r, is_ascii_ws c = false -> trim_start (c :: r) = c :: r.
Proof. intros c r H. unfold trim_start. cbn [drop_while]. rewrite H. reflexivity. Qed.

Lemma scan_year_digit : forall c r,
  is_digit c = true -> scan_year (c :: r) = scan_number (c :: r) 1 4.
Proof.
  intros c r H. unfold scan_year. cbv zeta.
  rewrite (trim_start_nonws c r (digit_not_ws c H)).
  apply is_digit_range in H.
  assert (C : (c = 48 \/ c = 49 \/ c = 50 \/ c = 51 \/ c = 52 \/ c = 53 \/ c = 54 \/ c = 55
               \/ c = 56 \/ c = 57)%N) by lia.
  repeat (destruct C as [->|C]; [reflexivity|]). subst c. reflexivity.
Qed.

Lemma trim_start_pad2 : forall z rest, trim_start (pad2 z ++ rest) = pad2 z ++ rest.
Proof.
  intros z rest. unfold pad2. rewrite pad2_explicit. cbn [app].
  apply trim_start_nonws, digit_not_ws, is_digit_48. lia.
Qed.

Theorem parse_print_date : forall y m d,
  0 <= y <= 9999 -> valid_ymd y m d = true ->
  parse_date_only (print_date y m d) = Some (days_from_civil y m d * 86400).
Proof.
  intros y m d Hy Hv.
  destruct (valid_ymd_bounds _ _ _ Hv) as [Hm Hd].
  pose proof (days_in_month_le_31 y m) as H31.
  unfold print_date, parse_date_only.
  assert (Ey : forall rest, scan_year (pad4 y ++ rest) = Some (y, rest)).
  { intros rest. unfold pad4. rewrite pad4_explicit. cbn [app].
    rewrite scan_year_digit by (apply is_digit_48; lia).
    rewrite scan_number_4; [|lia|apply is_digit_48; lia ..].
    rewrite !digit_val_48. f_equal. f_equal. lia. }
  rewrite Ey. cbv beta iota.
  rewrite scan_char_same. cbv beta iota.
  rewrite trim_start_pad2, scan_number_pad2 by lia. cbv beta iota.
  rewrite scan_char_same. cbv beta iota.
  rewrite <- (app_nil_r (pad2 d)).
  rewrite trim_start_pad2, scan_number_pad2 by lia. cbv beta iota.
  rewrite Hv.
  assert (C1 : (naive_year_min <=? y) = true) by (unfold naive_year_min; lia).
  assert (C2 : (y <=? naive_year_max) = true) by (unfold naive_year_max; lia).
  rewrite C1, C2. reflexivity.
Qed.

Lemma parse_rfc3339_date_none : forall y m d,
  0 <= y <= 9999 -> 0 <= m < 100 -> 0 <= d < 100 ->
  parse_rfc3339 (print_date y m d) = None.
Proof.
  intros y m d Hy Hm Hd. unfold print_date, parse_rfc3339.
  rewrite scan_number_pad4 by lia. cbv beta iota.
  rewrite scan_char_same. cbv beta iota.
  rewrite scan_number_pad2 by lia. cbv beta iota.
  rewrite scan_char_same. cbv beta iota.
  rewrite <- (app_nil_r (pad2 d)).
  rewrite scan_number_pad2 by lia. reflexivity.
Qed.

Theorem date_string_agree : forall y m d,
  0 <= y <= 9999 -> valid_ymd y m d = true ->
  parse_str_to_epoch_seconds (print_date y m d) = Some (days_from_civil y m d * 86400).
Proof.
  intros y m d Hy Hv.
  destruct (valid_ymd_bounds _ _ _ Hv) as [Hm Hd].
  pose proof (days_in_month_le_31 y m) as H31.
  unfold parse_str_to_epoch_seconds. cbv zeta.
  assert (ET : trim (print_date y m d) = print_date y m d).
  { assert (S : exists c r b l, print_date y m d = c :: r /\ print_date y m d = b ++ [l]
                 /\ is_ascii_ws c = false /\ is_ascii_ws l = false).
    { unfold print_date, pad4, pad2. rewrite pad4_explicit, !pad2_explicit. cbn [app].
      eexists; eexists.
      eexists [_; _; _; _; _; _; _; _; _]; eexists.
      split; [reflexivity|]. split; [reflexivity|].
      split; apply digit_not_ws, is_digit_48; lia. }
    destruct S as [c [r [b [l [Ec [El [Hc Hl]]]]]]].
    pose proof (trim_padded [] [] (print_date y m d) c r b l eq_refl eq_refl Ec El Hc Hl) as T.
    cbn [app] in T. rewrite app_nil_r in T. exact T. }
  rewrite ET, parse_rfc3339_date_none by lia.
  rewrite parse_print_date by assumption. reflexivity.
Qed.

(** * ISO and integer spellings of the same instant agree *)

Theorem iso_and_integer_agree : forall t frac sep off tz ws1 ws2 rms rus rns,
  iso_t_lo <= t <= iso_t_hi ->
  forallb is_digit frac = true -> sep_ok sep = true ->
  Z.abs off <= 1439 -> tz_ok off tz ->
  forallb is_ascii_ws ws1 = true -> forallb is_ascii_ws ws2 = true ->
  0 <= rms < 1000 -> 0 <= rus < 1000000 -> 0 <= rns < 1000000000 ->
  let iso := parse_str_to_epoch_seconds (ws1 ++ print_instant_gen t frac sep off tz ++ ws2) in
  iso = Some t /\
  (Z.abs t < 10 ^ 11 -> normalize_integer_epoch t = iso) /\
  (10 ^ 11 <= Z.abs (t * 1000 + rms) < 10 ^ 14 ->
     normalize_integer_epoch (t * 1000 + rms) = iso) /\
  (10 ^ 14 <= Z.abs (t * 1000000 + rus) < 10 ^ 16 ->
     normalize_integer_epoch (t * 1000000 + rus) = iso) /\
  (10 ^ 16 <= Z.abs (t * 1000000000 + rns) < 10 ^ 19 ->
     normalize_integer_epoch (t * 1000000000 + rns) = iso).
Proof.
  intros t frac sep off tz ws1 ws2 rms rus rns Ht Hfr Hsep Hoff Htz H1 H2 Hms Hus Hns iso.
  assert (E : iso = Some t) by (apply iso_string_agree; assumption).
  destruct (unit_spellings_agree t rms rus rns Hms Hus Hns) as [A [B [C D]]].
  rewrite E. repeat split; assumption.
Qed.

(** * Non-vacuity *)

(* "1966-10-31T14:13:19.5Z" : negative instant, fraction *)
Example iso_negative_instant :
  print_instant_gen (-100000001) [53%N] 84%N 0 (TzZulu false)
  = [49;57;54;54;45;49;48;45;51;49;84;49;52;58;49;51;58;49;57;46;53;90]%N
  /\ parse_rfc3339 (print_instant_gen (-100000001) [53%N] 84%N 0 (TzZulu false)) = Some (-100000001)
  /\ iso_t_lo <= -100000001 <= iso_t_hi.
Proof. split; [vm_compute; reflexivity|]. split; [vm_compute; reflexivity|]. unfold iso_t_lo, iso_t_hi. lia. Qed.

(* offsets +23:59 and -23:59 move the civil date across a day / year boundary *)
Example iso_extreme_offsets :
  print_instant_gen 946684800 [] 32%N 1439 (TzNumeric false)
  = [50;48;48;48;45;48;49;45;48;49;32;50;51;58;53;57;58;48;48;43;50;51;58;53;57]%N
  /\ print_instant_gen 946684800 [] 116%N (-1439) (TzNumeric true)
  = [49;57;57;57;45;49;50;45;51;49;116;48;48;58;48;49;58;48;48;226;136;146;50;51;58;53;57]%N
  /\ parse_rfc3339 (print_instant_gen 946684800 [] 32%N 1439 (TzNumeric false)) = Some 946684800
  /\ parse_rfc3339 (print_instant_gen 946684800 [] 116%N (-1439) (TzNumeric true)) = Some 946684800.
Proof. repeat split; vm_compute; reflexivity. Qed.

(* leap day 2000-02-29, non-leap century 1900-03-01 (the day after 02-28), 2100 *)
Example iso_leap_and_century :
  parse_rfc3339 (print_rfc3339 2000 2 29 12 0 0 [] 84%N 0 true) = Some 951825600
  /\ parse_rfc3339 (print_rfc3339 1900 2 29 0 0 0 [] 84%N 0 true) = None
  /\ parse_rfc3339 (print_rfc3339 1900 3 1 0 0 0 [] 84%N 0 true) = Some (-2203891200)
  /\ parse_rfc3339 (print_rfc3339 1900 2 28 23 59 59 [] 84%N 0 true) = Some (-2203891201)
  /\ parse_rfc3339 (print_rfc3339 2100 2 28 23 59 59 [] 84%N 0 true) = Some 4107542399
  /\ parse_rfc3339 (print_rfc3339 2100 3 1 0 0 0 [] 84%N 0 true) = Some 4107542400.
Proof. repeat split; vm_compute; reflexivity. Qed.

(* the leap-second spelling :60 denotes second 59 of that minute (chrono folds it) *)
Example iso_leap_second :
  parse_rfc3339 (print_rfc3339 2016 12 31 23 59 60 [] 84%N 0 true) = Some 1483228799
  /\ parse_rfc3339 (print_rfc3339 2016 12 31 23 59 59 [57%N; 57%N] 84%N 0 true) = Some 1483228799.
Proof. split; vm_compute; reflexivity. Qed.

(* the ends of the four-digit range; one day further the local year is 10000, which the
   four-digit printer cannot spell (it wraps to 0000): the range hypothesis is needed *)
Example iso_range_ends :
  parse_rfc3339 (print_instant_gen iso_t_lo [] 84%N (-1439) (TzNumeric false)) = Some iso_t_lo
  /\ parse_rfc3339 (print_instant_gen iso_t_hi [] 84%N 1439 (TzNumeric false)) = Some iso_t_hi
  /\ parse_rfc3339 (print_instant_gen (iso_t_hi + 86400) [] 84%N 1 (TzNumeric false)) = Some (-62167219201).
Proof. repeat split; vm_compute; reflexivity. Qed.

Example date_only_examples :
  parse_date_only (print_date 1969 12 31) = Some (-86400)
  /\ parse_date_only (print_date 2000 2 29) = Some 951782400
  /\ parse_date_only (print_date 1900 2 29) = None
  /\ parse_date_only (print_date 0 1 1) = Some (-62167219200).
Proof. repeat split; vm_compute; reflexivity. Qed.
