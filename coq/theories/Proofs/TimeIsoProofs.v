(** C16, ISO-8601 side: every RFC 3339 spelling of an instant parses to the
    floor of the instant.  About Model/Time.v ([parse_rfc3339], [parse_date_only],
    [parse_str_to_epoch_seconds]) and the printers of Model/TimePrint.v. *)
From Coq Require Import ZArith NArith List Bool Lia.
From Coq Require Import ZifyBool ZifyNat ZifyN.
From Snel Require Import Base.Bytes Base.Civil Gen.Params Model.Time Model.TimePrint
                         Proofs.CivilProofs Proofs.TimeProofs.
Import ListNotations.
Ltac Zify.zify_post_hook ::= Z.div_mod_to_equations.

(** * Digits *)

Lemma is_digit_48 : forall x, (x < 10)%N -> is_digit (48 + x) = true.
Proof. intros x Hx. unfold is_digit. lia. Qed.

Lemma digit_val_48 : forall x, digit_val (48 + x) = x.
Proof. intros x. unfold digit_val. lia. Qed.

Lemma is_digit_range : forall c, is_digit c = true -> (48 <= c <= 57)%N.
Proof. intros c H. unfold is_digit in H. lia. Qed.

Lemma digit_not_ws : forall c, is_digit c = true -> is_ascii_ws c = false.
Proof. intros c H. apply is_digit_range in H. unfold is_ascii_ws. lia. Qed.

Lemma pad2_explicit : forall n,
  pad_digits 2 n = [(48 + (n / 10) mod 10)%N; (48 + n mod 10)%N].
Proof. reflexivity. Qed.

Lemma pad4_explicit : forall n,
  pad_digits 4 n = [(48 + (n / 10 / 10 / 10) mod 10)%N; (48 + (n / 10 / 10) mod 10)%N;
                    (48 + (n / 10) mod 10)%N; (48 + n mod 10)%N].
Proof. reflexivity. Qed.

(** * [scan_number] on explicit digit pairs / quadruples *)

Lemma scan_number_aux_done : forall s acc, scan_number_aux s 0 0 acc = Some (acc, s).
Proof. intros s acc. destruct s; reflexivity. Qed.

Lemma scan_number_2 : forall a b rest k,
  (k <= 2)%nat -> is_digit a = true -> is_digit b = true ->
  scan_number (a :: b :: rest) k 2
  = Some (Z.of_N (digit_val a) * 10 + Z.of_N (digit_val b), rest).
Proof.
  intros a b rest k Hk Ha Hb. unfold scan_number.
  destruct k as [|[|[|k]]]; try lia;
    cbn [scan_number_aux pred]; rewrite Ha; cbn [scan_number_aux pred]; rewrite Hb;
    cbn [scan_number_aux pred]; rewrite scan_number_aux_done; f_equal; f_equal; lia.
Qed.

Lemma scan_number_4 : forall a b c d rest k,
  (k <= 4)%nat -> is_digit a = true -> is_digit b = true -> is_digit c = true -> is_digit d = true ->
  scan_number (a :: b :: c :: d :: rest) k 4
  = Some (((Z.of_N (digit_val a) * 10 + Z.of_N (digit_val b)) * 10 + Z.of_N (digit_val c)) * 10
          + Z.of_N (digit_val d), rest).
Proof.
  intros a b c d rest k Hk Ha Hb Hc Hd. unfold scan_number.
  destruct k as [|[|[|[|[|k]]]]]; try lia;
    cbn [scan_number_aux pred]; rewrite Ha; cbn [scan_number_aux pred]; rewrite Hb;
    cbn [scan_number_aux pred]; rewrite Hc; cbn [scan_number_aux pred]; rewrite Hd;
    cbn [scan_number_aux pred]; rewrite scan_number_aux_done; f_equal; f_equal; lia.
Qed.

Lemma scan_number_pad2 : forall z rest k,
  (k <= 2)%nat -> (0 <= z < 100)%Z ->
  scan_number (pad2 z ++ rest) k 2 = Some (z, rest).
Proof.
  intros z rest k Hk Hz. unfold pad2. rewrite pad2_explicit. cbn [app].
  rewrite scan_number_2; [|exact Hk|apply is_digit_48; lia|apply is_digit_48; lia].
  rewrite !digit_val_48. f_equal. f_equal. lia.
Qed.

Lemma scan_number_pad4 : forall z rest k,
  (k <= 4)%nat -> (0 <= z < 10000)%Z ->
  scan_number (pad4 z ++ rest) k 4 = Some (z, rest).
Proof.
  intros z rest k Hk Hz. unfold pad4. rewrite pad4_explicit. cbn [app].
  rewrite scan_number_4; [|exact Hk|apply is_digit_48; lia ..].
  rewrite !digit_val_48. f_equal. f_equal. lia.
Qed.

Lemma scan_char_same : forall c r, scan_char (c :: r) c = Some r.
Proof. intros c r. unfold scan_char. rewrite N.eqb_refl. reflexivity. Qed.

(** * Fractional seconds: a digit run followed by a non-digit is skipped entirely *)

Lemma drop_digits_app : forall ds o rest,
  forallb is_digit ds = true -> is_digit o = false ->
  drop_while is_digit (ds ++ o :: rest) = o :: rest.
Proof.
  induction ds as [|c ds IH]; intros o rest Hd Ho; cbn [app drop_while].
  - rewrite Ho. reflexivity.
  - cbn [forallb] in Hd. apply andb_prop in Hd. destruct Hd as [Hc Hd].
    rewrite Hc. apply IH; assumption.
Qed.

Lemma scan_frac_aux_digits : forall n ds o rest acc cnt,
  forallb is_digit ds = true -> is_digit o = false ->
  exists v ds',
    scan_frac_aux (ds ++ o :: rest) n acc cnt
    = (v, (cnt + Nat.min n (length ds))%nat, ds' ++ o :: rest)
    /\ forallb is_digit ds' = true.
Proof.
  induction n as [|n IH]; intros ds o rest acc cnt Hd Ho.
  - exists acc, ds. split; [|exact Hd].
    destruct ds; cbn [app scan_frac_aux Nat.min]; f_equal; f_equal; lia.
  - destruct ds as [|c ds]; cbn [app scan_frac_aux].
    + rewrite Ho. exists acc, []. split; [cbn [length app Nat.min]; f_equal; f_equal; lia | reflexivity].
    + cbn [forallb] in Hd. apply andb_prop in Hd. destruct Hd as [Hc Hd]. rewrite Hc.
      destruct (IH ds o rest (acc * 10 + Z.of_N (digit_val c))%Z (S cnt) Hd Ho) as [v [ds' [E F]]].
      exists v, ds'. split; [|exact F]. rewrite E. cbn [length Nat.min]. f_equal. f_equal. lia.
Qed.

Lemma scan_nanosecond_digits : forall c ds o rest,
  forallb is_digit (c :: ds) = true -> is_digit o = false ->
  exists v, scan_nanosecond ((c :: ds) ++ o :: rest) = Some (v, o :: rest).
Proof.
  intros c ds o rest Hd Ho. unfold scan_nanosecond.
  destruct (scan_frac_aux_digits 9 (c :: ds) o rest 0%Z O Hd Ho) as [v [ds' [E F]]].
  rewrite E. cbn [length Nat.min Nat.add].
  rewrite (drop_digits_app ds' o rest F Ho).
  eexists. reflexivity.
Qed.

(** the "[.frac]" step of [parse_rfc3339], as a function *)
Definition frac_skip (s : bytes) : option bytes :=
  match s with
  | 46%N :: r => match scan_nanosecond r with
                 | None => None
                 | Some (_, r') => Some r'
                 end
  | _ => Some s
  end.

Lemma frac_skip_print : forall frac o rest,
  forallb is_digit frac = true -> is_digit o = false -> o <> 46%N ->
  frac_skip (print_frac frac ++ o :: rest) = Some (o :: rest).
Proof.
  intros frac o rest Hd Ho H46. destruct frac as [|c ds].
  - cbn [print_frac app]. unfold frac_skip.
    destruct o as [|p]; [reflexivity|].
    do 6 (destruct p as [p|p|]; try reflexivity). congruence.
  - cbn [print_frac app]. unfold frac_skip.
    destruct (scan_nanosecond_digits c ds o rest Hd Ho) as [v E].
    change (c :: ds ++ o :: rest) with ((c :: ds) ++ o :: rest). rewrite E. reflexivity.
Qed.

(** * The UTC offset *)

Open Scope Z_scope.

Lemma scan_offset_numeric : forall sgn neg h1 h2 m1 m2,
  (sgn = [43%N] /\ neg = false) \/ (sgn = [45%N] /\ neg = true)
   \/ (sgn = [226%N; 136%N; 146%N] /\ neg = true) ->
  is_digit h1 = true -> is_digit h2 = true -> is_digit m1 = true -> is_digit m2 = true ->
  (m1 <= 53)%N ->
  scan_offset (sgn ++ h1 :: h2 :: 58%N :: [m1; m2])
  = Some ((if neg then Z.opp else (fun x => x))
            (Z.of_N (digit_val h1 * 10 + digit_val h2) * 3600
             + Z.of_N (digit_val m1 * 10 + digit_val m2) * 60), []).
Proof.
  intros sgn neg h1 h2 m1 m2 Hs H1 H2 M1 M2 M53.
  assert (L : (m1 <=? 53)%N = true) by lia.
  destruct Hs as [[-> ->]|[[-> ->]|[-> ->]]]; cbn [app]; unfold scan_offset;
    rewrite H1, H2; cbn [andb]; rewrite scan_char_same; rewrite M1, M2, L; cbn [andb]; reflexivity.
Qed.

Definition tz_ok (off : Z) (tz : tz_spelling) : Prop :=
  match tz with TzZulu _ => off = 0 | TzNumeric _ => True end.

Lemma print_offset_scan : forall off tz,
  Z.abs off <= 1439 -> tz_ok off tz ->
  scan_offset (print_offset_gen off tz) = Some (off * 60, []).
Proof.
  intros off tz Hoff Htz. destruct tz as [lower|um].
  - cbn [tz_ok] in Htz. subst off. destruct lower; reflexivity.
  - unfold print_offset_gen. cbv zeta. unfold pad2. rewrite !pad2_explicit. cbn [app].
    rewrite (scan_offset_numeric (print_sign off um) (off <? 0)).
    + rewrite !digit_val_48. f_equal. f_equal.
      destruct (Z.ltb_spec off 0); cbv beta; lia.
    + unfold print_sign. destruct (off <? 0); destruct um; tauto.
    + apply is_digit_48; lia.
    + apply is_digit_48; lia.
    + apply is_digit_48; lia.
    + apply is_digit_48; lia.
    + lia.
Qed.

Lemma print_offset_head : forall off tz,
  exists o rest, print_offset_gen off tz = o :: rest /\ is_digit o = false /\ o <> 46%N.
Proof.
  intros off tz. destruct tz as [lower|um].
  - destruct lower; cbn [print_offset_gen]; eexists; eexists;
      (split; [reflexivity | split; [reflexivity | discriminate]]).
  - unfold print_offset_gen, print_sign. cbv zeta.
    destruct (off <? 0); destruct um; cbn [app]; eexists; eexists;
      (split; [reflexivity | split; [reflexivity | discriminate]]).
Qed.

Definition sep_ok (sep : N) : bool := (sep =? 84)%N || (sep =? 116)%N || (sep =? 32)%N.

(** * parse (print x) = x *)

Theorem parse_print_rfc3339_gen : forall y m d h mi s frac sep off tz,
  0 <= y <= 9999 -> valid_ymd y m d = true ->
  0 <= h < 24 -> 0 <= mi < 60 -> 0 <= s <= 60 ->
  forallb is_digit frac = true -> sep_ok sep = true ->
  Z.abs off <= 1439 -> tz_ok off tz ->
  parse_rfc3339 (print_rfc3339_gen y m d h mi s frac sep off tz)
  = Some (days_from_civil y m d * 86400 + h * 3600 + mi * 60 + Z.min s 59 - off * 60).
Proof.
  intros y m d h mi s frac sep off tz Hy Hv Hh Hmi Hs Hfr Hsep Hoff Htz.
  destruct (valid_ymd_bounds _ _ _ Hv) as [Hm Hd].
  pose proof (days_in_month_le_31 y m) as H31.
  destruct (print_offset_head off tz) as [o [orest [Eo [Hod Ho46]]]].
  pose proof (frac_skip_print frac o orest Hfr Hod Ho46) as HF. unfold frac_skip in HF.
  unfold print_rfc3339_gen, parse_rfc3339.
  rewrite scan_number_pad4 by lia. cbv beta iota.
  rewrite scan_char_same. cbv beta iota.
  rewrite scan_number_pad2 by lia. cbv beta iota.
  rewrite scan_char_same. cbv beta iota.
  rewrite scan_number_pad2 by lia. cbv beta iota.
  unfold sep_ok in Hsep. rewrite Hsep.
  rewrite scan_number_pad2 by lia. cbv beta iota.
  rewrite scan_char_same. cbv beta iota.
  rewrite scan_number_pad2 by lia. cbv beta iota.
  rewrite scan_char_same. cbv beta iota.
  rewrite scan_number_pad2 by lia. cbv beta iota zeta.
  rewrite Eo, HF. cbv beta iota.
  rewrite <- Eo, (print_offset_scan off tz Hoff Htz). cbv beta iota.
  rewrite Hv.
  assert (C1 : (h <? 24) = true) by lia. assert (C2 : (mi <? 60) = true) by lia.
  assert (C3 : (s <=? 60) = true) by lia.
  assert (C4 : (Z.abs (off * 60) <=? max_rfc3339_offset) = true) by (unfold max_rfc3339_offset; lia).
  rewrite C1, C2, C3, C4. reflexivity.
Qed.
