(** Proofs about Model/Shard.v for C01 — applied writes survive any process
    crash and restart, exactly once.

    Specification side: [stored ls] (every event of an [LStore] label),
    [durable ls] (the events whose WAL entry was written: an [LWalWrite] label
    consumed them from the FIFO [pending] of stored-but-unwritten events; a crash
    or a restart empties that FIFO).  Everything else is about the frozen model. *)
From Coq Require Import NArith List Bool Lia.
From Coq Require Import ZifyBool ZifyNat ZifyN.
From Snel Require Import Model.Shard.
Import ListNotations.
Open Scope N_scope.

(** * Specification-side bookkeeping (plain recursion over the label list) *)

Fixpoint stored (ls : list label) : list event :=
  match ls with
  | [] => []
  | LStore e :: r => e :: stored r
  | _ :: r => stored r
  end.

(** the FIFO of stored-but-unwritten events after one label *)
Definition pend_step (p : list event) (l : label) : list event :=
  match l with
  | LStore e => p ++ [e]
  | LWalWrite => tl p
  | LCrash | LRestart => []
  | _ => p
  end.

(** the event a label makes durable *)
Definition written_by (p : list event) (l : label) : list event :=
  match l, p with
  | LWalWrite, e :: _ => [e]
  | _, _ => []
  end.

Fixpoint durable_from (p : list event) (ls : list label) : list event :=
  match ls with
  | [] => []
  | l :: r => written_by p l ++ durable_from (pend_step p l) r
  end.

Fixpoint pending_from (p : list event) (ls : list label) : list event :=
  match ls with
  | [] => p
  | l :: r => pending_from (pend_step p l) r
  end.

Definition durable (ls : list label) : list event := durable_from [] ls.
Definition pending (ls : list label) : list event := pending_from [] ls.

Definition stored_by (l : label) : list event :=
  match l with LStore e => [e] | _ => [] end.

Lemma stored_snoc : forall ls l, stored (ls ++ [l]) = stored ls ++ stored_by l.
Proof.
  induction ls as [|x r IH]; intros l; cbn [app stored].
  - destruct l; reflexivity.
  - destruct x; cbn [app]; rewrite IH; reflexivity.
Qed.

Lemma pending_from_snoc : forall ls p l,
  pending_from p (ls ++ [l]) = pend_step (pending_from p ls) l.
Proof. induction ls as [|x r IH]; intros p l; cbn [app pending_from]; [reflexivity|apply IH]. Qed.

Lemma durable_from_snoc : forall ls p l,
  durable_from p (ls ++ [l]) = durable_from p ls ++ written_by (pending_from p ls) l.
Proof.
  induction ls as [|x r IH]; intros p l; cbn [app durable_from pending_from].
  - rewrite app_nil_r. reflexivity.
  - rewrite IH, app_assoc. reflexivity.
Qed.

Lemma pending_snoc : forall ls l, pending (ls ++ [l]) = pend_step (pending ls) l.
Proof. intros; apply pending_from_snoc. Qed.
Lemma durable_snoc : forall ls l, durable (ls ++ [l]) = durable ls ++ written_by (pending ls) l.
Proof. intros; apply durable_from_snoc. Qed.

Lemma run_snoc : forall s ls l, run s (ls ++ [l]) = step (run s ls) l.
Proof. intros; unfold run; rewrite fold_left_app; reflexivity. Qed.

(** * Small list facts *)

Lemma len_app : forall A (a b : list A), len (a ++ b) = len a + len b.
Proof. intros; unfold len; rewrite app_length; lia. Qed.
Lemma len_cons : forall A (x : A) l, len (x :: l) = len l + 1.
Proof. intros; unfold len; cbn [length]; lia. Qed.
Lemma len_nil : forall A, len (@nil A) = 0.
Proof. reflexivity. Qed.

Lemma memb_In : forall x l, memb x l = true <-> In x l.
Proof.
  intros x l; unfold memb; rewrite existsb_exists; split.
  - intros [y [Hy E]]. apply N.eqb_eq in E. subst; exact Hy.
  - intros H; exists x; split; [exact H|apply N.eqb_refl].
Qed.

Lemma filter_all : forall A (f : A -> bool) l,
  (forall x, In x l -> f x = true) -> filter f l = l.
Proof.
  induction l as [|x r IH]; intros H; cbn [filter]; [reflexivity|].
  rewrite (H x (or_introl eq_refl)), IH; [reflexivity|].
  intros y Hy; apply H; right; exact Hy.
Qed.

Lemma insert_sorted_In : forall x y l, In y (insert_sorted x l) <-> y = x \/ In y l.
Proof.
  induction l as [|z r IH]; cbn [insert_sorted In]; [intuition|].
  destruct (x <=? z); cbn [In]; rewrite ?IH; intuition.
Qed.

Lemma sort_n_In : forall y l, In y (sort_n l) <-> In y l.
Proof.
  induction l as [|z r IH]; cbn [sort_n fold_right In]; [tauto|].
  fold (sort_n r). rewrite insert_sorted_In, IH. intuition.
Qed.

Lemma dedup_n_In : forall y l, In y (dedup_n l) <-> In y l.
Proof.
  induction l as [|z r IH]; cbn [dedup_n In]; [tauto|].
  destruct (memb z r) eqn:M; cbn [In]; rewrite IH; [|tauto].
  apply memb_In in M. split; [tauto|]. intros [->|H]; tauto.
Qed.

Lemma uids_of_In : forall e evs, In e evs -> memb (euid e) (uids_of evs) = true.
Proof.
  intros e evs H. apply memb_In. unfold uids_of.
  apply sort_n_In, dedup_n_In, in_map, H.
Qed.

Lemma insert_by_ctx_In : forall e x l, In x (insert_by_ctx e l) <-> x = e \/ In x l.
Proof.
  induction l as [|z r IH]; cbn [insert_by_ctx In]; [intuition|].
  destruct (ectx z <=? ectx e); cbn [In]; rewrite ?IH; intuition.
Qed.

Lemma flush_order_In : forall x evs, In x (flush_order evs) <-> In x evs.
Proof.
  intros x evs. unfold flush_order.
  assert (G : forall l acc, In x (fold_left (fun a e => insert_by_ctx e a) l acc) <-> In x acc \/ In x l).
  { induction l as [|z r IH]; intros acc; cbn [fold_left In]; [tauto|].
    rewrite IH, insert_by_ctx_In. intuition. }
  rewrite G. cbn [In]. tauto.
Qed.

(** ** events *)

Lemma ev_eqb_eq : forall a b, ev_eqb a b = true <-> a = b.
Proof.
  intros [k1 c1 u1] [k2 c2 u2]; unfold ev_eqb; cbn [ek ectx euid].
  rewrite !andb_true_iff, !N.eqb_eq. split.
  - intros [[-> ->] ->]; reflexivity.
  - intros E; inversion E; auto.
Qed.

Definition ev_eq_dec : forall a b : event, {a = b} + {a <> b}.
Proof. decide equality; apply N.eq_dec. Defined.

(** number of occurrences of [e] in a result list *)
Definition occ (e : event) (l : list event) : nat := count_occ ev_eq_dec l e.

(** rows of a list of log files / passive copies, rows of a list of directories *)
Definition frows (fs : list (N * list event)) : list event := concat (map snd fs).
Definition drows (ds : list segdir) : list event := concat (map srows ds).

Lemma frows_In : forall e fs, In e (frows fs) <-> exists f, In f fs /\ In e (snd f).
Proof.
  intros e fs; unfold frows; rewrite in_concat; split.
  - intros [l [Hl He]]. apply in_map_iff in Hl. destruct Hl as [f [<- Hf]]. exists f; auto.
  - intros [f [Hf He]]. exists (snd f); split; [apply in_map; exact Hf|exact He].
Qed.

Lemma drows_In : forall e ds, In e (drows ds) <-> exists d, In d ds /\ In e (srows d).
Proof.
  intros e ds; unfold drows; rewrite in_concat; split.
  - intros [l [Hl He]]. apply in_map_iff in Hl. destruct Hl as [d [<- Hd]]. exists d; auto.
  - intros [d [Hd He]]. exists (srows d); split; [apply in_map; exact Hd|exact He].
Qed.

Lemma in_dirs_In : forall ds e, in_dirs ds e = true <-> In e (drows ds).
Proof.
  intros ds e; unfold in_dirs; rewrite existsb_exists, drows_In; split.
  - intros [d [Hd H]]. apply existsb_exists in H. destruct H as [x [Hx E]].
    apply ev_eqb_eq in E. subst x. exists d; auto.
  - intros [d [Hd H]]. exists d; split; [exact Hd|]. apply existsb_exists.
    exists e; split; [exact H|apply ev_eqb_eq; reflexivity].
Qed.

Lemma pruned_unsaved_In : forall ds del e,
  In e (pruned_unsaved ds del) <-> In e (frows del) /\ ~ In e (drows ds).
Proof.
  intros ds del e; unfold pruned_unsaved. fold (frows del).
  rewrite filter_In, negb_true_iff, <- in_dirs_In.
  destruct (in_dirs ds e); intuition congruence.
Qed.

(** ** directories *)

Lemma dir_add_rows_In : forall e ds seg rows,
  In e (drows (dir_add_rows ds seg rows)) <-> In e (drows ds) \/ In e rows.
Proof.
  intros e ds seg rows; induction ds as [|d r IH]; cbn [dir_add_rows].
  - unfold drows; cbn [map concat srows]. rewrite app_nil_r. cbn [In]. tauto.
  - destruct (sid d =? seg).
    + unfold drows; cbn [map concat srows]. rewrite !in_app_iff. tauto.
    + unfold drows in *; cbn [map concat]. rewrite !in_app_iff, IH. tauto.
Qed.

Lemma dir_add_rows_sid : forall d' ds seg rows,
  In d' (dir_add_rows ds seg rows) -> sid d' = seg \/ In d' ds.
Proof.
  intros d' ds seg rows; induction ds as [|d r IH]; cbn [dir_add_rows In].
  - intros [<-|[]]; left; reflexivity.
  - destruct (sid d =? seg); cbn [In].
    + intros [<-|H]; [left; reflexivity|right; right; exact H].
    + intros [<-|H]; [right; left; reflexivity|]. destruct (IH H); tauto.
Qed.

Definition has_uid (ds : list segdir) (seg u : N) : bool :=
  existsb (fun d => (sid d =? seg) && existsb (fun e => euid e =? u) (srows d)) ds.

Lemma dir_has_uid_eq : forall s seg u, dir_has_uid s seg u = has_uid (dirs s) seg u.
Proof. reflexivity. Qed.

Lemma has_uid_add : forall ds seg rows seg' u,
  has_uid (dir_add_rows ds seg rows) seg' u =
  has_uid ds seg' u || ((seg =? seg') && existsb (fun e => euid e =? u) rows).
Proof.
  intros ds seg rows seg' u; induction ds as [|d r IH]; cbn [dir_add_rows].
  - unfold has_uid; cbn [existsb sid srows]. rewrite orb_false_r. reflexivity.
  - destruct (N.eqb_spec (sid d) seg) as [E|E].
    + unfold has_uid; cbn [existsb sid srows]. rewrite existsb_app, E.
      destruct (seg =? seg'); cbn [andb]; [|rewrite orb_false_r; reflexivity].
      rewrite <- !orb_assoc. f_equal. apply orb_comm.
    + unfold has_uid in *; cbn [existsb]. rewrite IH, orb_assoc. reflexivity.
Qed.

Lemma has_uid_none : forall ds seg u,
  (forall d, In d ds -> sid d <> seg) -> has_uid ds seg u = false.
Proof.
  intros ds seg u H; unfold has_uid. apply not_true_is_false. intros T.
  apply existsb_exists in T. destruct T as [d [Hd T]]. apply andb_true_iff in T.
  destruct T as [T _]. apply N.eqb_eq in T. exact (H d Hd T).
Qed.

(** ** WAL files *)

Lemma wal_append_In : forall f' files id e,
  In f' (wal_append files id e) ->
  In f' files \/
  (fst f' = id /\ forall x, In x (snd f') -> x = e \/ exists f, In f files /\ fst f = id /\ In x (snd f)).
Proof.
  intros f' files id e; induction files as [|[i es] r IH]; cbn [wal_append In].
  - intros [<-|[]]. right; cbn [fst snd]. split; [reflexivity|]. intros x [<-|[]]; left; reflexivity.
  - destruct (N.eqb_spec i id) as [E|E]; cbn [In].
    + intros [<-|H]; [|left; right; exact H]. right; cbn [fst snd]. split; [exact E|].
      intros x Hx. apply in_app_iff in Hx. destruct Hx as [Hx|[<-|[]]]; [right|left; reflexivity].
      exists (i, es); cbn [fst snd]; auto.
    + destruct (id <? i); cbn [In].
      * intros [<-|H]; [|left; exact H]. right; cbn [fst snd]. split; [reflexivity|].
        intros x [<-|[]]; left; reflexivity.
      * intros [<-|H]; [left; left; reflexivity|]. destruct (IH H) as [H1|[H1 H2]]; [left; right; exact H1|].
        right; split; [exact H1|]. intros x Hx. destruct (H2 x Hx) as [->|[f [Hf Hf2]]]; [left; reflexivity|].
        right; exists f; split; [right; exact Hf|exact Hf2].
Qed.

Lemma wal_append_keeps : forall x files id e,
  In x (frows files) \/ x = e -> In x (frows (wal_append files id e)).
Proof.
  intros x files id e; induction files as [|[i es] r IH]; cbn [wal_append].
  - unfold frows; cbn [map concat snd In app]. intros [[]| ->]; left; reflexivity.
  - unfold frows in *; cbn [map concat snd]. rewrite in_app_iff.
    destruct (i =? id); [|destruct (id <? i)]; cbn [map concat snd]; rewrite ?in_app_iff; cbn [In].
    + intros [[H|H]| ->]; tauto.
    + intros [[H|H]| ->]; tauto.
    + intros [[H|H]| ->]; [tauto|right; apply IH; tauto|right; apply IH; tauto].
Qed.

Lemma wal_touch_In : forall f' files id,
  In f' (wal_touch files id) -> In f' files \/ f' = (id, []).
Proof.
  intros f' files id; induction files as [|[i es] r IH]; cbn [wal_touch In].
  - intros [<-|[]]; right; reflexivity.
  - destruct (i =? id); [|destruct (id <? i)]; cbn [In].
    + tauto.
    + intros [<-|H]; tauto.
    + intros [<-|H]; [tauto|]. destruct (IH H); tauto.
Qed.

Lemma wal_touch_keeps : forall f files id, In f files -> In f (wal_touch files id).
Proof.
  intros f files id; induction files as [|[i es] r IH]; cbn [wal_touch In]; [tauto|].
  destruct (i =? id); [|destruct (id <? i)]; cbn [In]; [tauto|tauto|].
  intros [H|H]; [left; exact H|right; apply IH, H].
Qed.

Lemma wal_touch_rows : forall x files id, In x (frows (wal_touch files id)) <-> In x (frows files).
Proof.
  intros x files id; rewrite !frows_In; split.
  - intros [f [Hf Hx]]. destruct (wal_touch_In _ _ _ Hf) as [H| ->]; [exists f; auto|destruct Hx].
  - intros [f [Hf Hx]]. exists f; split; [apply wal_touch_keeps, Hf|exact Hx].
Qed.

Lemma wal_touch_has : forall files id, exists es, In (id, es) (wal_touch files id).
Proof.
  intros files id; induction files as [|[i es] r IH]; cbn [wal_touch].
  - exists []; left; reflexivity.
  - destruct (N.eqb_spec i id) as [E|E]; [|destruct (id <? i)].
    + exists es; left; rewrite E; reflexivity.
    + exists []; left; reflexivity.
    + destruct IH as [es' H]. exists es'; right; exact H.
Qed.

Lemma wal_touch_lines_new : forall files id,
  (forall f, In f files -> fst f <> id) -> wal_lines (wal_touch files id) id = 0.
Proof.
  intros files id; induction files as [|[i es] r IH]; intros H; cbn [wal_touch wal_lines].
  - rewrite N.eqb_refl. reflexivity.
  - destruct (N.eqb_spec i id) as [E|E]; [exfalso; exact (H (i, es) (or_introl eq_refl) E)|].
    destruct (id <? i); cbn [wal_lines].
    + rewrite N.eqb_refl. reflexivity.
    + destruct (N.eqb_spec i id) as [E'|_]; [contradiction|]. apply IH.
      intros f Hf; apply H; right; exact Hf.
Qed.

Lemma wal_max_id_is : forall files m,
  (forall f, In f files -> fst f <= m) -> (exists f, In f files /\ fst f = m) -> wal_max_id files = m.
Proof.
  intros files m Hle Hex; unfold wal_max_id.
  assert (G : forall (l : list (N * list event)) a, (forall f, In f l -> fst f <= m) -> a <= m ->
              (a = m \/ exists f, In f l /\ fst f = m) ->
              fold_left (fun x f => N.max x (fst f)) l a = m).
  { induction l as [|f r IH]; intros a Hl Ha Hm; cbn [fold_left].
    - destruct Hm as [Hm|[f [[] _]]]; exact Hm.
    - apply IH.
      + intros g Hg; apply Hl; right; exact Hg.
      + specialize (Hl f (or_introl eq_refl)); lia.
      + destruct Hm as [Hm|[g [[<-|Hg] Hgm]]]; [left; specialize (Hl f (or_introl eq_refl)); lia|left; lia|right; exists g; auto]. }
  apply G; [exact Hle|lia|right; exact Hex].
Qed.

(** * Frame lemmas: what each step leaves unchanged *)

Ltac proj := cbn [cap mem passives inflight live dirs index walq walfiles wcur wcnt wunlinked
                  alloc0 jobs wlost jseg jevs jstage sid srows fst snd].

Lemma store_frame : forall s e,
  cap (store s e) = cap s /\ walq (store s e) = walq s ++ [e] /\ walfiles (store s e) = walfiles s /\
  dirs (store s e) = dirs s /\ wlost (store s e) = wlost s /\ wcur (store s e) = wcur s /\
  wcnt (store s e) = wcnt s /\ wunlinked (store s e) = wunlinked s /\
  inflight (store s e) = inflight s /\ live (store s e) = live s /\ index (store s e) = index s.
Proof. intros s e; unfold store, rotate; destruct (_ <=? _); proj; repeat split; reflexivity. Qed.

(** the volatile part after a STORE *)
Lemma store_cases : forall s e,
  (len (mem s) + 1 < cap s /\ mem (store s e) = mem s ++ [e] /\ passives (store s e) = passives s /\
   jobs (store s e) = jobs s /\ alloc0 (store s e) = alloc0 s) \/
  (cap s <= len (mem s) + 1 /\ mem (store s e) = [] /\
   passives (store s e) = passives s ++ [(alloc0 s, mem s ++ [e])] /\
   jobs (store s e) = jobs s ++ [mkJob (alloc0 s) (mem s ++ [e]) StQueued] /\
   alloc0 (store s e) = N.succ (alloc0 s)).
Proof.
  intros s e; unfold store; proj.
  destruct (N.leb_spec (cap s) (len (mem s ++ [e]))) as [H|H]; unfold rotate; proj;
    rewrite len_app, len_cons, len_nil in H; [right|left]; repeat split; try reflexivity; lia.
Qed.

Lemma rotate_frame : forall s,
  cap (rotate s) = cap s /\ walq (rotate s) = walq s /\ walfiles (rotate s) = walfiles s /\
  dirs (rotate s) = dirs s /\ wlost (rotate s) = wlost s /\ mem (rotate s) = [] /\
  passives (rotate s) = passives s ++ [(alloc0 s, mem s)] /\
  jobs (rotate s) = jobs s ++ [mkJob (alloc0 s) (mem s) StQueued].
Proof. intros s; unfold rotate; proj; repeat split; reflexivity. Qed.

Lemma crash_frame : forall s,
  cap (crash s) = cap s /\ walq (crash s) = [] /\ walfiles (crash s) = walfiles s /\
  dirs (crash s) = dirs s /\ wlost (crash s) = wlost s /\ mem (crash s) = [] /\
  passives (crash s) = [] /\ jobs (crash s) = [] /\ inflight (crash s) = [] /\ live (crash s) = [].
Proof. intros s; unfold crash; proj; repeat split; reflexivity. Qed.

Lemma restart_frame : forall s,
  cap (restart s) = cap s /\ walq (restart s) = [] /\
  walfiles (restart s) = wal_touch (walfiles s) (find_next_wal_id (cap s) (walfiles s)) /\
  dirs (restart s) = dirs s /\ wlost (restart s) = wlost s /\ mem (restart s) = frows (walfiles s) /\
  passives (restart s) = [] /\ jobs (restart s) = [] /\ inflight (restart s) = [] /\
  live (restart s) = sort_n (map sid (dirs s)).
Proof. intros s; unfold restart; proj; repeat split; reflexivity. Qed.

Lemma wal_rotate_frame : forall s,
  cap (wal_rotate s) = cap s /\ walq (wal_rotate s) = walq s /\ dirs (wal_rotate s) = dirs s /\
  wlost (wal_rotate s) = wlost s /\ mem (wal_rotate s) = mem s /\ passives (wal_rotate s) = passives s /\
  jobs (wal_rotate s) = jobs s /\ alloc0 (wal_rotate s) = alloc0 s /\
  (walfiles (wal_rotate s) = walfiles s \/ walfiles (wal_rotate s) = wal_touch (walfiles s) (N.succ (wcur s))).
Proof.
  intros s; unfold wal_rotate; destruct (_ <=? _); proj; repeat split; try reflexivity; [right|left]; reflexivity.
Qed.

Lemma wal_write_frame : forall s,
  cap (wal_write s) = cap s /\ walq (wal_write s) = tl (walq s) /\ dirs (wal_write s) = dirs s /\
  mem (wal_write s) = mem s /\ passives (wal_write s) = passives s /\ jobs (wal_write s) = jobs s /\
  alloc0 (wal_write s) = alloc0 s /\ wcur (wal_write s) = wcur s /\ wunlinked (wal_write s) = wunlinked s.
Proof. intros s; unfold wal_write; destruct (walq s) eqn:E; proj; rewrite ?E; repeat split; reflexivity. Qed.

(** the written entry lands in the current file, or in the ghost list when that file is unlinked *)
Lemma wal_write_cons : forall s e q, walq s = e :: q ->
  wcnt (wal_write s) = N.succ (wcnt s) /\
  ((wunlinked s = true /\ walfiles (wal_write s) = walfiles s /\ wlost (wal_write s) = wlost s ++ [e]) \/
   (wunlinked s = false /\ walfiles (wal_write s) = wal_append (walfiles s) (wcur s) e /\
    wlost (wal_write s) = wlost s)).
Proof.
  intros s e q E; unfold wal_write; rewrite E; proj. split; [reflexivity|].
  destruct (wunlinked s); [left|right]; repeat split; reflexivity.
Qed.

Lemma wal_write_nil : forall s, walq s = [] -> wal_write s = s.
Proof. intros s E; unfold wal_write; rewrite E; reflexivity. Qed.

(** ** the flush worker *)

Lemma fw_frame : forall s l,
  cap (fw_step s l) = cap s /\ mem (fw_step s l) = mem s /\ walq (fw_step s l) = walq s /\
  wcur (fw_step s l) = wcur s /\ wcnt (fw_step s l) = wcnt s /\ alloc0 (fw_step s l) = alloc0 s.
Proof.
  intros s l; unfold fw_step, set_jobs. destruct (jobs s) as [|j rest]; [repeat split; reflexivity|].
  destruct l, (jstage j); repeat match goal with |- context [if ?b then _ else _] => destruct b end;
    proj; repeat split; reflexivity.
Qed.

Lemma clear_passive_rows : forall e ps seg, In e (frows (clear_passive ps seg)) -> In e (frows ps).
Proof.
  intros e ps seg; rewrite !frows_In. intros [f [Hf He]]. unfold clear_passive in Hf.
  apply in_map_iff in Hf. destruct Hf as [p [<- Hp]]. destruct (fst p =? seg); [destruct He|].
  exists p; auto.
Qed.

Lemma fw_passives : forall s l e, In e (frows (passives (fw_step s l))) -> In e (frows (passives s)).
Proof.
  intros s l e; unfold fw_step, set_jobs. destruct (jobs s) as [|j rest]; [tauto|].
  destruct l, (jstage j); repeat match goal with |- context [if ?b then _ else _] => destruct b end;
    proj; try tauto. apply clear_passive_rows.
Qed.

Definition jrows (js : list job) : list event := concat (map jevs js).

Lemma fw_jobs : forall s l e, In e (jrows (jobs (fw_step s l))) -> In e (jrows (jobs s)).
Proof.
  intros s l e; unfold fw_step, set_jobs. destruct (jobs s) as [|j rest] eqn:Ej; [rewrite Ej; tauto|].
  destruct l, (jstage j); repeat match goal with |- context [if ?b then _ else _] => destruct b end;
    proj; rewrite ?Ej; try tauto; unfold jrows; cbn [map concat jevs]; rewrite ?in_app_iff; tauto.
Qed.

(** directories only grow, and only by rows of the job being flushed *)
Lemma fw_dirs : forall s l,
  dirs (fw_step s l) = dirs s \/
  exists j rest rows, jobs s = j :: rest /\ jstage j = StBegun /\ incl rows (jevs j) /\
    dirs (fw_step s l) = dir_add_rows (dirs s) (jseg j) rows.
Proof.
  intros s l; unfold fw_step, set_jobs. destruct (jobs s) as [|j rest] eqn:Ej; [left; reflexivity|].
  destruct l, (jstage j) eqn:Est; repeat match goal with |- context [if ?b then _ else _] => destruct b end;
    proj; try (left; reflexivity); right; exists j, rest.
  - exists []. split; [reflexivity|split; [exact Est|split; [intros x []|reflexivity]]].
  - eexists. split; [reflexivity|split; [exact Est|split; [|reflexivity]]].
    intros x Hx. apply filter_In in Hx. apply flush_order_In, Hx.
Qed.

(** log files are only deleted; what is deleted and in no directory goes to the ghost list *)
Lemma fw_files : forall s l,
  (walfiles (fw_step s l) = walfiles s /\ wlost (fw_step s l) = wlost s) \/
  exists p : N -> bool,
    walfiles (fw_step s l) = filter (fun f => negb (p (fst f))) (walfiles s) /\
    wlost (fw_step s l) = wlost s ++ pruned_unsaved (dirs s) (filter (fun f => p (fst f)) (walfiles s)) /\
    dirs (fw_step s l) = dirs s.
Proof.
  intros s l; unfold fw_step, set_jobs, wal_cleanup. destruct (jobs s) as [|j rest] eqn:Ej; [left; split; reflexivity|].
  destruct l, (jstage j) eqn:Est; repeat match goal with |- context [if ?b then _ else _] => destruct b end;
    proj; try (left; split; reflexivity); right.
  - exists (fun i => i =? id); repeat split; reflexivity.
  - exists (fun i => i <? N.succ (jseg j)); repeat split; reflexivity.
Qed.

(** * Every event anywhere in the state was stored *)

Definition all_events (s : shard) : list event :=
  mem s ++ frows (passives s) ++ jrows (jobs s) ++ walq s ++ frows (walfiles s) ++ drows (dirs s) ++ wlost s.

Lemma all_events_In : forall s e, In e (all_events s) <->
  In e (mem s) \/ In e (frows (passives s)) \/ In e (jrows (jobs s)) \/ In e (walq s) \/
  In e (frows (walfiles s)) \/ In e (drows (dirs s)) \/ In e (wlost s).
Proof. intros; unfold all_events; rewrite !in_app_iff; tauto. Qed.

Lemma frows_app : forall a b, frows (a ++ b) = frows a ++ frows b.
Proof. intros; unfold frows; rewrite map_app, concat_app; reflexivity. Qed.
Lemma jrows_app : forall a b, jrows (a ++ b) = jrows a ++ jrows b.
Proof. intros; unfold jrows; rewrite map_app, concat_app; reflexivity. Qed.

Lemma frows_filter : forall e p fs, In e (frows (filter p fs)) -> In e (frows fs).
Proof.
  intros e p fs; rewrite !frows_In. intros [f [Hf He]]. apply filter_In in Hf. exists f; tauto.
Qed.

Lemma wal_append_rows : forall x files id e,
  In x (frows (wal_append files id e)) <-> In x (frows files) \/ x = e.
Proof.
  intros x files id e; split; [|apply wal_append_keeps].
  rewrite !frows_In. intros [f' [Hf' Hx]].
  destruct (wal_append_In _ _ _ _ Hf') as [H|[_ H]]; [left; exists f'; auto|].
  destruct (H x Hx) as [->|[f [Hf [_ Hxf]]]]; [right; reflexivity|left; exists f; auto].
Qed.

Lemma fw_dirs_mono : forall s l e, In e (drows (dirs s)) -> In e (drows (dirs (fw_step s l))).
Proof.
  intros s l e H. destruct (fw_dirs s l) as [->|[j [rest [rows [_ [_ [_ ->]]]]]]]; [exact H|].
  apply dir_add_rows_In; left; exact H.
Qed.

Lemma fw_wlost_mono : forall s l e, In e (wlost s) -> In e (wlost (fw_step s l)).
Proof.
  intros s l e H. destruct (fw_files s l) as [[_ ->]|[p [_ [-> _]]]]; [exact H|].
  apply in_app_iff; left; exact H.
Qed.

Lemma step_all_events : forall s l e,
  In e (all_events (step s l)) -> In e (all_events s) \/ In e (stored_by l).
Proof.
  intros s l e; rewrite !all_events_In. destruct l as [e0| | | |f| |]; cbn [step stored_by In].
  - destruct (store_frame s e0) as (_ & Eq & Ef & Ed & El & _).
    rewrite Eq, Ef, Ed, El, in_app_iff. cbn [In].
    destruct (store_cases s e0) as [(_ & -> & -> & -> & _)|(_ & -> & -> & -> & _)].
    + rewrite in_app_iff; cbn [In]. tauto.
    + rewrite frows_app, jrows_app, !in_app_iff. unfold frows, jrows; cbn [map concat snd jevs In].
      rewrite !app_nil_r, !in_app_iff; cbn [In]. tauto.
  - unfold flush_cmd. destruct (rotate_frame s) as (_ & -> & -> & -> & -> & -> & -> & ->).
    rewrite frows_app, jrows_app, !in_app_iff. unfold frows at 2, jrows at 2; cbn [map concat snd jevs In].
    rewrite !app_nil_r. tauto.
  - destruct (walq s) as [|e1 q] eqn:Eq; [rewrite (wal_write_nil s Eq), Eq; tauto|].
    destruct (wal_write_frame s) as (_ & Eq' & -> & -> & -> & -> & _).
    rewrite Eq', Eq; cbn [tl In].
    destruct (wal_write_cons s e1 q Eq) as [_ [(_ & -> & ->)|(_ & -> & ->)]].
    + rewrite in_app_iff; cbn [In]. intuition.
    + rewrite wal_append_rows. intuition.
  - destruct (wal_rotate_frame s) as (_ & -> & -> & -> & -> & -> & -> & _ & [-> | ->]); [tauto|].
    rewrite wal_touch_rows. tauto.
  - destruct (fw_frame s f) as (_ & -> & -> & _). intros H.
    destruct H as [H|[H|[H|[H|[H|[H|H]]]]]]; [tauto|apply fw_passives in H; tauto|apply fw_jobs in H; tauto|tauto| | |].
    + destruct (fw_files s f) as [[E _]|[p [E _]]]; rewrite E in H; [tauto|]. apply frows_filter in H; tauto.
    + destruct (fw_dirs s f) as [E|[j [rest [rows [Ej [_ [Hincl E]]]]]]]; rewrite E in H; [tauto|].
      apply dir_add_rows_In in H. destruct H as [H|H]; [tauto|]. left; right; right; left.
      rewrite Ej; unfold jrows; cbn [map concat]. apply in_app_iff; left. apply Hincl, H.
    + destruct (fw_files s f) as [[_ E]|[p [_ [E _]]]]; rewrite E in H; [tauto|].
      apply in_app_iff in H. destruct H as [H|H]; [tauto|]. apply pruned_unsaved_In in H.
      destruct H as [H _]. apply frows_filter in H. tauto.
  - destruct (crash_frame s) as (_ & -> & -> & -> & -> & -> & -> & -> & _).
    unfold frows at 1, jrows at 1; cbn [map concat In]. tauto.
  - destruct (restart_frame s) as (_ & -> & -> & -> & -> & -> & -> & -> & _).
    rewrite wal_touch_rows. unfold frows at 2, jrows at 1; cbn [map concat In]. tauto.
Qed.

Lemma all_events_init : forall c, all_events (init c) = [].
Proof. reflexivity. Qed.

Lemma reach_stored : forall c ls e, In e (all_events (run (init c) ls)) -> In e (stored ls).
Proof.
  intros c ls; induction ls as [|l ls IH] using rev_ind; intros e H.
  - change (run (init c) []) with (init c) in H. rewrite all_events_init in H. destruct H.
  - rewrite run_snoc in H. rewrite stored_snoc, in_app_iff.
    destruct (step_all_events _ _ _ H) as [H1|H1]; [left; apply IH, H1|right; exact H1].
Qed.

(** * The FIFO of the model is the specification's FIFO *)

Lemma walq_step : forall s l, walq (step s l) = pend_step (walq s) l.
Proof.
  intros s l; destruct l as [e0| | | |f| |]; cbn [step pend_step].
  - apply store_frame.
  - apply rotate_frame.
  - apply wal_write_frame.
  - apply wal_rotate_frame.
  - apply fw_frame.
  - reflexivity.
  - reflexivity.
Qed.

Lemma walq_pending : forall c ls, walq (run (init c) ls) = pending ls.
Proof.
  intros c ls; induction ls as [|l ls IH] using rev_ind; [reflexivity|].
  rewrite run_snoc, pending_snoc, walq_step, IH. reflexivity.
Qed.

(** * The recoverability invariant: a durable event is in the ghost list, in a
      log file on disk, or in a segment directory *)

Definition recoverable (s : shard) (e : event) : Prop :=
  In e (frows (walfiles s)) \/ In e (drows (dirs s)).

Definition safe (D : list event) (s : shard) : Prop :=
  forall e, In e D -> In e (wlost s) \/ recoverable s e.

Lemma safe_step : forall D s l, safe D s -> safe (D ++ written_by (walq s) l) (step s l).
Proof.
  intros D s l HS e He. unfold safe, recoverable in *. apply in_app_iff in He.
  destruct l as [e0| | | |f| |]; cbn [step written_by] in *.
  - destruct (store_frame s e0) as (_ & _ & -> & -> & -> & _).
    destruct He as [He|He]; [exact (HS e He)|destruct (walq s); destruct He].
  - unfold flush_cmd. destruct (rotate_frame s) as (_ & _ & -> & -> & -> & _).
    destruct He as [He|He]; [exact (HS e He)|destruct (walq s); destruct He].
  - destruct (walq s) as [|e1 q] eqn:Eq.
    + rewrite (wal_write_nil s Eq). destruct He as [He|[]]; exact (HS e He).
    + destruct (wal_write_frame s) as (_ & _ & -> & _).
      destruct (wal_write_cons s e1 q Eq) as [_ [(_ & -> & ->)|(_ & -> & ->)]].
      * rewrite in_app_iff; cbn [In]. destruct He as [He|[<-|[]]]; [destruct (HS e He); tauto|left; right; left; reflexivity].
      * rewrite wal_append_rows. destruct He as [He|[<-|[]]]; [destruct (HS e He); tauto|right; left; right; reflexivity].
  - assert (He' : In e D) by (destruct He as [He|He]; [exact He|destruct (walq s); destruct He]).
    destruct (wal_rotate_frame s) as (_ & _ & -> & -> & _ & _ & _ & _ & [-> | ->]); [exact (HS e He')|].
    rewrite wal_touch_rows. exact (HS e He').
  - assert (He' : In e D) by (destruct He as [He|He]; [exact He|destruct (walq s); destruct He]).
    destruct (HS e He') as [H|[H|H]].
    + left; apply fw_wlost_mono, H.
    + destruct (fw_files s f) as [[-> ->]|[p [-> [-> ->]]]]; [tauto|].
      apply frows_In in H. destruct H as [g [Hg Hx]].
      destruct (p (fst g)) eqn:Ep.
      * destruct (in_dec ev_eq_dec e (drows (dirs s))) as [Hd|Hd]; [tauto|].
        left. apply in_app_iff; right. apply pruned_unsaved_In. split; [|exact Hd].
        apply frows_In. exists g; split; [apply filter_In; auto|exact Hx].
      * right; left. apply frows_In. exists g; split; [apply filter_In; rewrite Ep; auto|exact Hx].
    + right; right; apply fw_dirs_mono, H.
  - destruct He as [He|He]; [exact (HS e He)|destruct (walq s); destruct He].
  - assert (He' : In e D) by (destruct He as [He|He]; [exact He|destruct (walq s); destruct He]).
    destruct (restart_frame s) as (_ & _ & -> & -> & -> & _). rewrite wal_touch_rows. exact (HS e He').
Qed.

Lemma safe_run : forall c ls, safe (durable ls) (run (init c) ls).
Proof.
  intros c ls; induction ls as [|l ls IH] using rev_ind; [intros e []|].
  rewrite run_snoc, durable_snoc, <- (walq_pending c). apply safe_step, IH.
Qed.

Lemma recoverable_all_events : forall s e, recoverable s e -> In e (all_events s).
Proof. intros s e H; apply all_events_In; unfold recoverable in H; tauto. Qed.

Lemma durable_stored : forall ls e, In e (durable ls) -> In e (stored ls).
Proof.
  intros ls e H. apply (reach_stored 1). destruct (safe_run 1 ls e H) as [H1|H1].
  - apply all_events_In; tauto.
  - apply recoverable_all_events, H1.
Qed.

(** * Reads *)

Lemma of_uid_In : forall u l e, In e (of_uid u l) <-> In e l /\ euid e = u.
Proof. intros; unfold of_uid; rewrite filter_In, N.eqb_eq; tauto. Qed.

Lemma dedup_in : forall l seen e, In e (dedup_ev l seen) -> In e l /\ ~ In (ek e) seen.
Proof.
  induction l as [|x r IH]; intros seen e; cbn [dedup_ev]; [intros []|].
  destruct (memb (ek x) seen) eqn:M.
  - intros H; destruct (IH _ _ H); split; [right|]; assumption.
  - intros [<-|H].
    + split; [left; reflexivity|]. intros T; apply memb_In in T; congruence.
    + destruct (IH _ _ H) as [H1 H2]; split; [right; exact H1|]. intros T; apply H2; right; exact T.
Qed.

Lemma dedup_keys_nodup : forall l seen, NoDup (map ek (dedup_ev l seen)).
Proof.
  induction l as [|x r IH]; intros seen; cbn [dedup_ev map]; [constructor|].
  destruct (memb (ek x) seen); [apply IH|]. cbn [map]. constructor; [|apply IH].
  intros T. apply in_map_iff in T. destruct T as [y [Ey Hy]]. apply dedup_in in Hy.
  destruct Hy as [_ Hy]. apply Hy; left; symmetry; exact Ey.
Qed.

Lemma dedup_keeps : forall l seen e,
  In e l -> ~ In (ek e) seen -> (forall e', In e' l -> ek e' = ek e -> e' = e) -> In e (dedup_ev l seen).
Proof.
  induction l as [|x r IH]; intros seen e Hin Hs Hu; [destruct Hin|]. cbn [dedup_ev].
  destruct (memb (ek x) seen) eqn:M.
  - destruct Hin as [->|Hin]; [apply memb_In in M; contradiction|].
    apply IH; [exact Hin|exact Hs|]. intros e' H1; apply Hu; right; exact H1.
  - destruct (ev_eq_dec x e) as [->|Hne]; [left; reflexivity|]. right.
    destruct Hin as [->|Hin]; [congruence|]. apply IH; [exact Hin| |].
    + intros [T|T]; [|contradiction]. apply Hne, Hu; [left; reflexivity|exact T].
    + intros e' H1; apply Hu; right; exact H1.
Qed.

Lemma select_keys_nodup : forall s u, NoDup (map ek (select s u)).
Proof. intros; apply dedup_keys_nodup. Qed.

Lemma select_at_most_once : forall s u e, (occ e (select s u) <= 1)%nat.
Proof.
  intros s u e. unfold occ. apply NoDup_count_occ. apply (NoDup_map_inv ek), select_keys_nodup.
Qed.

Lemma select_once : forall s u e,
  In e (scan s u) -> (forall e', In e' (scan s u) -> ek e' = ek e -> e' = e) ->
  occ e (select s u) = 1%nat.
Proof.
  intros s u e Hin Hu. unfold occ.
  apply (proj1 (NoDup_count_occ' ev_eq_dec (select s u))).
  - apply (NoDup_map_inv ek), select_keys_nodup.
  - apply dedup_keeps; [exact Hin|intros []|exact Hu].
Qed.

Lemma select_scan : forall s u e, In e (select s u) -> In e (scan s u).
Proof. intros s u e H; apply dedup_in in H; tauto. Qed.

Lemma scan_all_events : forall s u e, In e (scan s u) -> In e (all_events s) /\ euid e = u.
Proof.
  intros s u e H. unfold scan in H. apply of_uid_In in H. destruct H as [H Hu]. split; [|exact Hu].
  apply all_events_In. unfold mem_rows, seg_rows in H. fold (frows (passives s)) in H.
  rewrite !in_app_iff in H. destruct H as [[H|H]|H]; [tauto|tauto|].
  right; right; right; right; right; left.
  fold (drows (scanned_dirs s)) in H. apply drows_In in H. destruct H as [d [Hd Hx]].
  unfold scanned_dirs in Hd. apply filter_In in Hd. apply drows_In. exists d; tauto.
Qed.

(** after a restart every directory is live and every log file has been replayed *)
Lemma scan_restart : forall s u,
  scan (restart s) u = of_uid u (frows (walfiles s) ++ drows (dirs s)).
Proof.
  intros s u. unfold scan, mem_rows, seg_rows, scanned_dirs, restart; proj.
  cbn [map concat]. rewrite app_nil_r. rewrite filter_all; [reflexivity|].
  intros d Hd. apply orb_true_iff; left. apply memb_In, sort_n_In, in_map, Hd.
Qed.

Lemma scan_restart_crash : forall s u, scan (restart (crash s)) u = scan (restart s) u.
Proof. intros; rewrite !scan_restart; reflexivity. Qed.

Lemma scan_restart_In : forall s u e, In e (scan (restart s) u) <-> recoverable s e /\ euid e = u.
Proof. intros; rewrite scan_restart, of_uid_In, in_app_iff; unfold recoverable; tauto. Qed.

Lemma nodup_key_inj : forall P a b, NoDup (map ek P) -> In a P -> In b P -> ek a = ek b -> a = b.
Proof.
  induction P as [|x r IH]; intros a b Hn Ha Hb E; [destruct Ha|].
  cbn [map] in Hn. inversion Hn as [|k ks Hk Hr]; subst.
  destruct Ha as [->|Ha]; destruct Hb as [->|Hb].
  - reflexivity.
  - exfalso; apply Hk. rewrite E. apply in_map, Hb.
  - exfalso; apply Hk. rewrite <- E. apply in_map, Ha.
  - apply IH; assumption.
Qed.

(** a recoverable event is read exactly once after a restart, when keys are unique *)
Lemma recoverable_read_once : forall c ls e,
  NoDup (map ek (stored ls)) -> recoverable (run (init c) ls) e ->
  occ e (select (restart (run (init c) ls)) (euid e)) = 1%nat.
Proof.
  intros c ls e Hn Hr. apply select_once.
  - apply scan_restart_In; split; [exact Hr|reflexivity].
  - intros e' He' Ek. apply scan_restart_In in He'. destruct He' as [He' _].
    apply (nodup_key_inj (stored ls)); [exact Hn| | |exact Ek];
      apply (reach_stored c), recoverable_all_events; assumption.
Qed.

Lemma select_restart_crash : forall s u, select (restart (crash s)) u = select (restart s) u.
Proof. intros; unfold select; rewrite scan_restart_crash; reflexivity. Qed.

(** ** C01, general form *)

Theorem survives_unless_pruned : forall c ls e,
  NoDup (map ek (stored ls)) ->
  In e (durable ls) -> ~ In e (wlost (run (init c) ls)) ->
  occ e (select (restart (crash (run (init c) ls))) (euid e)) = 1%nat /\
  occ e (select (restart (run (init c) ls)) (euid e)) = 1%nat.
Proof.
  intros c ls e Hn Hd Hl. rewrite select_restart_crash.
  assert (R : recoverable (run (init c) ls) e).
  { destruct (safe_run c ls e Hd) as [H|H]; [contradiction|exact H]. }
  split; apply recoverable_read_once; assumption.
Qed.

(** Known class [OpenWalFilePruned] (known/C01.json): the event's WAL entry went to, or was
    in, a log file that the flush worker pruned while no directory held the event. *)
Definition OpenWalFilePruned (c : N) (ls : list label) (e : event) : Prop :=
  In e (wlost (run (init c) ls)).

Theorem durable_exactly_once_outside_known : forall c ls e,
  NoDup (map ek (stored ls)) -> In e (durable ls) -> ~ OpenWalFilePruned c ls e ->
  occ e (select (restart (crash (run (init c) ls))) (euid e)) = 1%nat /\
  occ e (select (restart (run (init c) ls)) (euid e)) = 1%nat.
Proof. exact survives_unless_pruned. Qed.

(** nothing is invented, in any reachable state; in particular after a crash and restart *)
Theorem no_phantom : forall c ls u e,
  In e (select (run (init c) ls) u) -> In e (stored ls) /\ euid e = u.
Proof.
  intros c ls u e H. apply select_scan, scan_all_events in H. destruct H as [H Hu].
  split; [apply (reach_stored c), H|exact Hu].
Qed.

Theorem no_phantom_after_crash : forall c ls u e,
  In e (select (restart (crash (run (init c) ls))) u) -> In e (stored ls) /\ euid e = u.
Proof.
  intros c ls u e H.
  replace (restart (crash (run (init c) ls))) with (run (init c) ((ls ++ [LCrash]) ++ [LRestart])) in H
    by (rewrite !run_snoc; reflexivity).
  apply no_phantom in H. rewrite !stored_snoc in H. cbn [stored_by] in H. rewrite !app_nil_r in H. exact H.
Qed.

(** no result ever contains an event (or a key) twice: un-written events are absent or present once *)
Theorem never_duplicated : forall s u e,
  NoDup (map ek (select s u)) /\ (occ e (select s u) <= 1)%nat.
Proof. intros; split; [apply select_keys_nodup|apply select_at_most_once]. Qed.

(** * The lockstep fragment: one lifetime, no manual FLUSH

    Positions in [stored ls]: the [k]-th memtable rotation (segment [k]) holds the
    positions [k*c .. (k+1)*c-1]; so does WAL file [k]. *)

Definition at_pos (P : list event) (i : N) (e : event) : Prop := nth_error P (N.to_nat i) = Some e.

Lemma at_pos_lt : forall P i e, at_pos P i e -> i < len P.
Proof.
  unfold at_pos, len; intros P i e H.
  assert (H0 : nth_error P (N.to_nat i) <> None) by congruence. apply nth_error_Some in H0. lia.
Qed.

Lemma at_pos_in : forall P i e, at_pos P i e -> In e P.
Proof. unfold at_pos; intros P i e H; eapply nth_error_In, H. Qed.

Lemma at_pos_app_l : forall P Q i e, at_pos P i e -> at_pos (P ++ Q) i e.
Proof.
  unfold at_pos; intros P Q i e H. rewrite nth_error_app1; [exact H|]. apply nth_error_Some; congruence.
Qed.

Lemma at_pos_app_inv : forall P Q i e, at_pos (P ++ Q) i e -> i < len P -> at_pos P i e.
Proof.
  unfold at_pos, len; intros P Q i e H L. rewrite nth_error_app1 in H; [exact H|lia].
Qed.

Lemma at_pos_mid : forall A e B, at_pos (A ++ e :: B) (len A) e.
Proof.
  unfold at_pos, len; intros A e B. rewrite Nat2N.id, nth_error_app2, PeanoNat.Nat.sub_diag; [reflexivity|lia].
Qed.

Lemma at_pos_snoc : forall P x i e, at_pos (P ++ [x]) i e -> at_pos P i e \/ (i = len P /\ e = x).
Proof.
  intros P x i e H. destruct (N.ltb_spec i (len P)) as [L|L].
  - left; eapply at_pos_app_inv; eassumption.
  - right. pose proof (at_pos_lt _ _ _ H) as L2. rewrite len_app, len_cons, len_nil in L2.
    assert (E : i = len P) by lia. split; [exact E|]. subst i.
    pose proof (at_pos_mid P x []) as M. unfold at_pos in *. congruence.
Qed.

Lemma mul_le : forall a b c, a <= b -> a * c <= b * c.
Proof. intros; apply N.mul_le_mono_r; assumption. Qed.

(** ** what the head of the flush queue says about the disk *)

Definition indexed (st : stage) : bool := match st with StQueued | StBegun => false | _ => true end.

(** segment id of the job being processed (next id when idle) *)
Definition hseg (js : list job) (a : N) : N := match js with [] => a | j :: _ => jseg j end.
(** number of segments whose directory is complete *)
Definition pubn (js : list job) (a : N) : N :=
  match js with [] => a | j :: _ => if indexed (jstage j) then jseg j + 1 else jseg j end.
(** strict bound of the existing directory ids *)
Definition dirbound (js : list job) (a : N) : N :=
  match js with [] => a | j :: _ => match jstage j with StQueued => jseg j | _ => jseg j + 1 end end.

(** the queued jobs are the rotations [h, h+1, .., a-1]; job [k] holds the positions of chunk [k] *)
Fixpoint jobs_from (P : list event) (c h : N) (js : list job) (a : N) : Prop :=
  match js with
  | [] => h = a
  | j :: r => jseg j = h /\ jevs j <> [] /\
              (forall i e, h * c <= i < (h + 1) * c -> at_pos P i e -> In e (jevs j)) /\
              jobs_from P c (h + 1) r a
  end.

Lemma jobs_from_le : forall P c js h a, jobs_from P c h js a -> h <= a.
Proof.
  induction js as [|j r IH]; intros h a H; cbn [jobs_from] in H; [lia|].
  destruct H as (_ & _ & _ & H). apply IH in H. lia.
Qed.

Lemma jobs_from_ext : forall P Q c js h a,
  jobs_from P c h js a -> a * c <= len P -> jobs_from (P ++ Q) c h js a.
Proof.
  induction js as [|j r IH]; intros h a H L; cbn [jobs_from] in *; [exact H|].
  destruct H as (H1 & H2 & H3 & H4). repeat split; [exact H1|exact H2| |apply IH; assumption].
  intros i e Hi Hp. apply (H3 i e Hi). apply at_pos_app_inv with (Q := Q); [exact Hp|].
  pose proof (jobs_from_le _ _ _ _ _ H4) as Hle. pose proof (mul_le _ _ c Hle). lia.
Qed.

Lemma jobs_from_snoc : forall P c js h a j,
  jobs_from P c h js a -> jseg j = a -> jevs j <> [] ->
  (forall i e, a * c <= i < (a + 1) * c -> at_pos P i e -> In e (jevs j)) ->
  jobs_from P c h (js ++ [j]) (a + 1).
Proof.
  induction js as [|x r IH]; intros h a j H Hs Hn Hj; cbn [jobs_from app] in *.
  - subst h. repeat split; assumption || reflexivity.
  - destruct H as (H1 & H2 & H3 & H4). repeat split; try assumption. apply IH; assumption.
Qed.

Lemma hseg_snoc : forall js a j, jseg j = a -> hseg (js ++ [j]) (a + 1) = hseg js a.
Proof. intros [|x r] a j H; cbn [app hseg]; [exact H|reflexivity]. Qed.
Lemma pubn_snoc : forall js a j, jseg j = a -> jstage j = StQueued -> pubn (js ++ [j]) (a + 1) = pubn js a.
Proof. intros [|x r] a j H Hq; cbn [app pubn]; [rewrite Hq; exact H|reflexivity]. Qed.
Lemma dirbound_snoc : forall js a j, jseg j = a -> jstage j = StQueued -> dirbound (js ++ [j]) (a + 1) = dirbound js a.
Proof. intros [|x r] a j H Hq; cbn [app dirbound]; [rewrite Hq; exact H|reflexivity]. Qed.

(** ** the lockstep invariant *)

Record lock_inv (c : N) (P D : list event) (s : shard) : Prop := {
  li_cap : cap s = c;
  li_fifo : P = D ++ walq s;
  li_cnt : len D = wcur s * c + wcnt s /\ wcnt s <= c;
  li_ids : forall f, In f (walfiles s) -> fst f <= wcur s;
  li_files : forall f e, In f (walfiles s) -> In e (snd f) -> exists i, i < (fst f + 1) * c /\ at_pos P i e;
  li_mem : len P = alloc0 s * c + len (mem s) /\ len (mem s) < c;
  li_memrows : forall i e, alloc0 s * c <= i -> at_pos P i e -> In e (mem s);
  li_jobs : jobs_from P c (hseg (jobs s) (alloc0 s)) (jobs s) (alloc0 s);
  li_tail : Forall (fun j => jstage j = StQueued) (tl (jobs s));
  li_pub : forall i e, i < pubn (jobs s) (alloc0 s) * c -> at_pos P i e -> In e (drows (dirs s));
  li_unl : wunlinked s = true -> wcur s < pubn (jobs s) (alloc0 s);
  li_dirs : forall d, In d (dirs s) -> sid d < dirbound (jobs s) (alloc0 s);
  li_head : forall j r, jobs s = j :: r -> jstage j = StBegun ->
            forall e, In e (jevs j) -> has_uid (dirs s) (jseg j) (euid e) = true -> In e (drows (dirs s));
  li_lost : forall e, In e (wlost s) -> In e (drows (dirs s))
}.

Lemma lock_init : forall c, 0 < c -> lock_inv c [] [] (init c).
Proof.
  intros c Hc. constructor; unfold init; proj; cbn [hseg pubn dirbound jobs_from tl app].
  - reflexivity.
  - reflexivity.
  - rewrite len_nil. lia.
  - intros f [<-|[]]. cbn [fst]. lia.
  - intros f e [<-|[]] [].
  - rewrite len_nil. lia.
  - intros i e _ H. apply at_pos_in in H. destruct H.
  - reflexivity.
  - constructor.
  - intros i e H. lia.
  - discriminate.
  - intros d [].
  - discriminate.
  - intros e [].
Qed.

Lemma lock_store : forall c P D s e, 0 < c ->
  lock_inv c P D s -> lock_inv c (P ++ [e]) D (store s e).
Proof.
  intros c P D s e Hc [Icap Ififo Icnt Iids Ifiles Imem Imemrows Ijobs Itail Ipub Iunl Idirs Ihead Ilost].
  destruct (store_frame s e) as (Ec & Eq & Ef & Ed & El & Ew & En & Eu & _).
  pose proof (jobs_from_le _ _ _ _ _ Ijobs) as Hha.
  assert (Hext : forall i x, i < alloc0 s * c -> at_pos (P ++ [e]) i x -> at_pos P i x).
  { intros i x Hi Hx. apply at_pos_app_inv with (Q := [e]); [exact Hx|lia]. }
  assert (Hpa : pubn (jobs s) (alloc0 s) <= alloc0 s).
  { destruct (jobs s) as [|j r]; cbn [pubn hseg jobs_from] in *; [lia|].
    destruct Ijobs as (Hs & _ & _ & Hr). apply jobs_from_le in Hr. destruct (indexed (jstage j)); lia. }
  destruct (store_cases s e) as [(Hlt & Em & Ep & Ej & Ea)|(Hge & Em & Ep & Ej & Ea)];
    constructor; rewrite ?Ec, ?Eq, ?Ef, ?Ed, ?El, ?Ew, ?En, ?Eu, ?Em, ?Ej, ?Ea.
  - exact Icap.
  - rewrite Ififo, app_assoc; reflexivity.
  - exact Icnt.
  - exact Iids.
  - intros f x Hf Hx. destruct (Ifiles f x Hf Hx) as [i [Hi Hp]]. exists i; split; [exact Hi|apply at_pos_app_l, Hp].
  - rewrite !len_app, len_cons, len_nil. rewrite Icap in Hlt. lia.
  - intros i x Hi Hp. apply in_app_iff. apply at_pos_snoc in Hp.
    destruct Hp as [Hp|[_ ->]]; [left; eapply Imemrows; eassumption|right; left; reflexivity].
  - apply jobs_from_ext; [exact Ijobs|lia].
  - exact Itail.
  - intros i x Hi Hp. apply (Ipub i x Hi). apply Hext; [|exact Hp]. pose proof (mul_le _ _ c Hpa). lia.
  - exact Iunl.
  - exact Idirs.
  - exact Ihead.
  - exact Ilost.
  - exact Icap.
  - rewrite Ififo, app_assoc; reflexivity.
  - exact Icnt.
  - exact Iids.
  - intros f x Hf Hx. destruct (Ifiles f x Hf Hx) as [i [Hi Hp]]. exists i; split; [exact Hi|apply at_pos_app_l, Hp].
  - rewrite !len_app, len_cons, !len_nil. rewrite Icap in Hge. lia.
  - intros i x Hi Hp. apply at_pos_lt in Hp. rewrite len_app, len_cons, len_nil in Hp.
    rewrite Icap in Hge. lia.
  - rewrite <- N.add_1_r. rewrite hseg_snoc by reflexivity. apply jobs_from_snoc; proj.
    + apply jobs_from_ext; [exact Ijobs|lia].
    + reflexivity.
    + destruct (mem s); discriminate.
    + intros i x Hi Hp. apply in_app_iff. apply at_pos_snoc in Hp.
      destruct Hp as [Hp|[_ ->]]; [left; eapply Imemrows; [|exact Hp]; lia|right; left; reflexivity].
  - destruct (jobs s) as [|j r]; cbn [app tl] in *; [constructor|].
    apply Forall_app; split; [exact Itail|constructor; [reflexivity|constructor]].
  - rewrite <- N.add_1_r, pubn_snoc by reflexivity.
    intros i x Hi Hp. apply (Ipub i x Hi). apply Hext; [|exact Hp]. pose proof (mul_le _ _ c Hpa). lia.
  - rewrite <- N.add_1_r, pubn_snoc by reflexivity. exact Iunl.
  - rewrite <- N.add_1_r, dirbound_snoc by reflexivity. exact Idirs.
  - intros j r Ejr Est. destruct (jobs s) as [|j0 r0] eqn:Ejs; cbn [app] in Ejr.
    + inversion Ejr; subst j; discriminate.
    + inversion Ejr; subst j0 r. apply (Ihead j r0 eq_refl Est).
  - exact Ilost.
Qed.

Lemma lock_wal_write : forall c P D s,
  lock_inv c P D s -> wcnt s < c ->
  lock_inv c P (D ++ written_by (walq s) LWalWrite) (wal_write s).
Proof.
  intros c P D s [Icap Ififo Icnt Iids Ifiles Imem Imemrows Ijobs Itail Ipub Iunl Idirs Ihead Ilost] Hw.
  cbn [written_by]. destruct (walq s) as [|e q] eqn:Eq.
  { rewrite (wal_write_nil s Eq), app_nil_r. constructor; rewrite ?Eq; assumption. }
  destruct (wal_write_frame s) as (Ec & Eq' & Ed & Em & Ep & Ej & Ea & Ew & Eu).
  rewrite Eq in Eq'; cbn [tl] in Eq'.
  destruct (wal_write_cons s e q Eq) as [En Hcase].
  assert (Hpos : at_pos P (len D) e) by (rewrite Ififo; apply at_pos_mid).
  assert (Hposlt : len D < (wcur s + 1) * c) by lia.
  constructor; rewrite ?Ec, ?Eq', ?Ed, ?Em, ?Ep, ?Ej, ?Ea, ?Ew, ?Eu, ?En; try assumption.
  - rewrite Ififo, <- app_assoc. reflexivity.
  - rewrite len_app, len_cons, len_nil. lia.
  - destruct Hcase as [(_ & -> & _)|(_ & -> & _)]; [exact Iids|].
    intros f Hf. destruct (wal_append_In _ _ _ _ Hf) as [H|[H _]]; [apply Iids, H|lia].
  - destruct Hcase as [(_ & -> & _)|(_ & -> & _)]; [exact Ifiles|].
    intros f x Hf Hx. destruct (wal_append_In _ _ _ _ Hf) as [H|[H1 H2]]; [exact (Ifiles f x H Hx)|].
    destruct (H2 x Hx) as [->|[g [Hg [Hg1 Hg2]]]].
    + exists (len D); split; [rewrite H1; exact Hposlt|exact Hpos].
    + destruct (Ifiles g x Hg Hg2) as [i [Hi Hp]]. exists i; split; [rewrite H1, <- Hg1; exact Hi|exact Hp].
  - destruct Hcase as [(Hu & _ & ->)|(_ & _ & ->)]; [|exact Ilost].
    intros x Hx. apply in_app_iff in Hx. destruct Hx as [Hx|[<-|[]]]; [apply Ilost, Hx|].
    apply (Ipub (len D)); [|exact Hpos]. specialize (Iunl Hu).
    assert (Hle : wcur s + 1 <= pubn (jobs s) (alloc0 s)) by lia.
    pose proof (mul_le _ _ c Hle). lia.
Qed.

Lemma lock_wal_rotate : forall c P D s, lock_inv c P D s -> lock_inv c P D (wal_rotate s).
Proof.
  intros c P D s HI. unfold wal_rotate. destruct (N.leb_spec (cap s) (wcnt s)) as [Hr|Hr]; [|exact HI].
  destruct HI as [Icap Ififo Icnt Iids Ifiles Imem Imemrows Ijobs Itail Ipub Iunl Idirs Ihead Ilost].
  assert (E0 : wal_count_entries (wal_touch (walfiles s) (N.succ (wcur s))) = 0).
  { unfold wal_count_entries. rewrite (wal_max_id_is _ (N.succ (wcur s))).
    - apply wal_touch_lines_new. intros f Hf. specialize (Iids f Hf). lia.
    - intros f Hf. destruct (wal_touch_In _ _ _ Hf) as [H| ->]; [specialize (Iids f H); lia|cbn [fst]; lia].
    - destruct (wal_touch_has (walfiles s) (N.succ (wcur s))) as [es H]. exists (N.succ (wcur s), es); auto. }
  constructor; proj; rewrite ?E0; try assumption.
  - lia.
  - intros f Hf. destruct (wal_touch_In _ _ _ Hf) as [H| ->]; [specialize (Iids f H); lia|cbn [fst]; lia].
  - intros f x Hf Hx. destruct (wal_touch_In _ _ _ Hf) as [H| ->]; [exact (Ifiles f x H Hx)|destruct Hx].
  - discriminate.
Qed.

Lemma drows_add_l : forall e ds seg rows, In e (drows ds) -> In e (drows (dir_add_rows ds seg rows)).
Proof. intros; apply dir_add_rows_In; left; assumption. Qed.

Lemma lock_fw : forall c P D s l, 0 < c -> lock_inv c P D s -> lock_inv c P D (fw_step s l).
Proof.
  intros c P D s l Hc HI. pose proof HI as HI0.
  unfold fw_step, set_jobs, wal_cleanup. destruct (jobs s) as [|j rest] eqn:Ej; [exact HI|].
  destruct HI as [Icap Ififo Icnt Iids Ifiles Imem Imemrows Ijobs Itail Ipub Iunl Idirs Ihead Ilost].
  rewrite Ej in *. cbn [hseg jobs_from tl] in *.
  destruct Ijobs as (Hseg & Hne & Hjevs & Hrest).
  assert (Hemp : is_empty (jevs j) = false) by (destruct (jevs j); [congruence|reflexivity]).
  specialize (Ihead j rest eq_refl).
  assert (Hpa : jseg j + 1 <= alloc0 s) by (apply jobs_from_le in Hrest; exact Hrest).
  destruct l; destruct (jstage j) eqn:Est; rewrite ?Hemp; cbn [orb negb]; try exact HI0.
  - (* FwBegin *)
    constructor; proj; cbn [hseg pubn dirbound jobs_from tl indexed jseg jevs jstage] in *;
      rewrite ?Est in *; cbn [indexed] in *; try first [assumption | repeat split; assumption | discriminate
        | intros j0 r Ejr; inversion Ejr; subst j0 r; proj; rewrite ?Est; discriminate].
    + intros d Hd; specialize (Idirs d Hd); lia.
    + intros j0 r Ejr; inversion Ejr; subst j0 r; proj. intros _ e He Hu.
      rewrite has_uid_none in Hu; [discriminate|]. intros d Hd; specialize (Idirs d Hd); lia.
  - (* FwMkdir *)
    constructor; proj; cbn [hseg pubn dirbound jobs_from tl indexed jseg jevs jstage] in *;
      rewrite ?Est in *; cbn [indexed] in *; try first [assumption | repeat split; assumption | discriminate
        | intros j0 r Ejr; inversion Ejr; subst j0 r; proj; rewrite ?Est; discriminate].
    + intros i e Hi Hp. apply drows_add_l, (Ipub i e Hi Hp).
    + intros d Hd. destruct (dir_add_rows_sid _ _ _ _ Hd) as [H|H]; [lia|exact (Idirs d H)].
    + intros j0 r Ejr; inversion Ejr; subst j0 r. intros _ e He Hu. rewrite has_uid_add in Hu.
      cbn [existsb] in Hu. rewrite andb_false_r, orb_false_r in Hu. apply drows_add_l, (Ihead eq_refl e He Hu).
    + intros e He. apply drows_add_l, Ilost, He.
  - (* FwWrite u *)
    destruct (negb (memb u (uids_of (jevs j))) || dir_has_uid s (jseg j) u); [exact HI0|].
    constructor; proj; cbn [hseg pubn dirbound jobs_from tl indexed jseg jevs jstage] in *;
      rewrite ?Est in *; cbn [indexed] in *; try first [assumption | repeat split; assumption | discriminate
        | intros j0 r Ejr; inversion Ejr; subst j0 r; proj; rewrite ?Est; discriminate].
    + intros i e Hi Hp. apply drows_add_l, (Ipub i e Hi Hp).
    + intros d Hd. destruct (dir_add_rows_sid _ _ _ _ Hd) as [H|H]; [lia|exact (Idirs d H)].
    + intros j0 r Ejr; inversion Ejr; subst j0 r. intros _ e He Hu. rewrite has_uid_add in Hu.
      apply orb_true_iff in Hu. destruct Hu as [Hu|Hu]; [apply drows_add_l, (Ihead eq_refl e He Hu)|].
      apply andb_true_iff in Hu. destruct Hu as [_ Hu]. apply existsb_exists in Hu.
      destruct Hu as [x [Hx Hxu]]. apply filter_In in Hx. destruct Hx as [_ Hx].
      apply N.eqb_eq in Hx, Hxu. apply dir_add_rows_In; right. apply filter_In; split.
      * apply flush_order_In, He.
      * apply N.eqb_eq. congruence.
    + intros e He. apply drows_add_l, Ilost, He.
  - (* FwIndex *)
    destruct (forallb (dir_has_uid s (jseg j)) (uids_of (jevs j))) eqn:Hall; cbn [negb]; [|exact HI0].
    constructor; proj; cbn [hseg pubn dirbound jobs_from tl indexed jseg jevs jstage] in *;
      rewrite ?Est in *; cbn [indexed] in *; try first [assumption | repeat split; assumption | discriminate
        | intros j0 r Ejr; inversion Ejr; subst j0 r; proj; rewrite ?Est; discriminate].
    + intros i e Hi Hp. destruct (N.ltb_spec i (jseg j * c)) as [L|L]; [exact (Ipub i e L Hp)|].
      assert (He : In e (jevs j)) by (apply (Hjevs i e); [lia|exact Hp]).
      apply (Ihead eq_refl e He). rewrite <- dir_has_uid_eq.
      rewrite forallb_forall in Hall. apply Hall. apply memb_In, uids_of_In, He.
    + intros Hu; specialize (Iunl Hu); lia.
  - (* FwPublish *)
    constructor; proj; cbn [hseg pubn dirbound jobs_from tl indexed jseg jevs jstage] in *;
      rewrite ?Est in *; cbn [indexed] in *; try first [assumption | repeat split; assumption | discriminate
        | intros j0 r Ejr; inversion Ejr; subst j0 r; proj; rewrite ?Est; discriminate].
  - (* FwClear *)
    constructor; proj; cbn [hseg pubn dirbound jobs_from tl indexed jseg jevs jstage] in *;
      rewrite ?Est in *; cbn [indexed] in *; try first [assumption | repeat split; assumption | discriminate
        | intros j0 r Ejr; inversion Ejr; subst j0 r; proj; rewrite ?Est; discriminate].
  - (* FwWalDel *)
    destruct (N.ltb_spec id (N.succ (jseg j))) as [Hid|Hid]; cbn [negb]; [|exact HI0].
    constructor; proj; cbn [hseg pubn dirbound jobs_from tl indexed jseg jevs jstage] in *;
      rewrite ?Est in *; cbn [indexed] in *; try first [assumption | repeat split; assumption | discriminate
        | intros j0 r Ejr; inversion Ejr; subst j0 r; proj; rewrite ?Est; discriminate].
    + intros f Hf. apply filter_In in Hf. apply Iids, Hf.
    + intros f e Hf. apply filter_In in Hf. apply Ifiles, Hf.
    + intros Hu. apply orb_true_iff in Hu. destruct Hu as [Hu|Hu]; [exact (Iunl Hu)|].
      apply N.eqb_eq in Hu. lia.
    + intros e He. apply in_app_iff in He. destruct He as [He|He]; [apply Ilost, He|].
      apply pruned_unsaved_In in He. destruct He as [He _]. apply frows_In in He.
      destruct He as [f [Hf He]]. apply filter_In in Hf. destruct Hf as [Hf Hfid]. apply N.eqb_eq in Hfid.
      destruct (Ifiles f e Hf He) as [i [Hi Hp]]. apply (Ipub i e); [|exact Hp].
      assert (Hle : fst f + 1 <= jseg j + 1) by lia. pose proof (mul_le _ _ c Hle). lia.
  - (* FwWalClean *)
    constructor; proj; cbn [hseg pubn dirbound jobs_from tl indexed jseg jevs jstage] in *;
      rewrite ?Est in *; cbn [indexed] in *; try first [assumption | repeat split; assumption | discriminate
        | intros j0 r Ejr; inversion Ejr; subst j0 r; proj; rewrite ?Est; discriminate].
    + intros f Hf. apply filter_In in Hf. apply Iids, Hf.
    + intros f e Hf. apply filter_In in Hf. apply Ifiles, Hf.
    + intros Hu. apply orb_true_iff in Hu. destruct Hu as [Hu|Hu]; [exact (Iunl Hu)|].
      apply andb_true_iff in Hu. destruct Hu as [Hu _]. apply N.ltb_lt in Hu. lia.
    + intros e He. apply in_app_iff in He. destruct He as [He|He]; [apply Ilost, He|].
      apply pruned_unsaved_In in He. destruct He as [He _]. apply frows_In in He.
      destruct He as [f [Hf He]]. apply filter_In in Hf. destruct Hf as [Hf Hfid]. apply N.ltb_lt in Hfid.
      destruct (Ifiles f e Hf He) as [i [Hi Hp]]. apply (Ipub i e); [|exact Hp].
      assert (Hle : fst f + 1 <= jseg j + 1) by lia. pose proof (mul_le _ _ c Hle). lia.
  - (* FwDone *)
    assert (Hh : hseg rest (alloc0 s) = jseg j + 1 /\ pubn rest (alloc0 s) = jseg j + 1 /\
                 dirbound rest (alloc0 s) = jseg j + 1 /\
                 (forall j0 r, rest = j0 :: r -> jstage j0 = StQueued)).
    { destruct rest as [|j1 r1]; cbn [hseg pubn dirbound jobs_from] in *.
      - repeat split; try lia. discriminate.
      - destruct Hrest as (Hs1 & _). inversion Itail as [|x y Hq Hqs]; subst.
        rewrite Hq; cbn [indexed]. repeat split; try lia. intros j0 r E; inversion E; subst; exact Hq. }
    destruct Hh as (Hh1 & Hh2 & Hh3 & Hh4).
    constructor; proj; rewrite ?Hh1, ?Hh2, ?Hh3; cbn [pubn dirbound indexed] in *; rewrite ?Est in *; cbn [indexed] in *;
      try first [assumption | discriminate].
    + destruct rest; [constructor|inversion Itail; assumption].
    + intros j0 r Ejr Hst. rewrite (Hh4 j0 r Ejr) in Hst. discriminate.
Qed.

(** ** the fragment and the program order of the WAL thread *)

(** one lifetime, no manual FLUSH *)
Definition lockstep_label (l : label) : bool :=
  match l with LFlushCmd | LCrash | LRestart => false | _ => true end.
Definition lockstep (ls : list label) : bool := forallb lockstep_label ls.

(** The WAL thread checks for a rotation right after each write
    ([entries_written >= cap] in inner_wal_writer.rs), so in a trace of one lifetime
    it never writes while a rotation is due.  Label lists that break this program
    order are not traces of the engine; see [lockstep_needs_wal_order_refuted]. *)
Fixpoint wal_ordered (s : shard) (ls : list label) : bool :=
  match ls with
  | [] => true
  | l :: r => (match l with LWalWrite => wcnt s <? cap s | _ => true end) && wal_ordered (step s l) r
  end.

Lemma wal_ordered_snoc : forall ls s l,
  wal_ordered s (ls ++ [l]) =
  wal_ordered s ls && (match l with LWalWrite => wcnt (run s ls) <? cap (run s ls) | _ => true end).
Proof.
  induction ls as [|x r IH]; intros s l; cbn [app wal_ordered].
  - rewrite andb_true_r. reflexivity.
  - rewrite IH, andb_assoc. reflexivity.
Qed.

Lemma lock_step : forall c P D s l, 0 < c ->
  lock_inv c P D s -> lockstep_label l = true -> (l = LWalWrite -> wcnt s < c) ->
  lock_inv c (P ++ stored_by l) (D ++ written_by (walq s) l) (step s l).
Proof.
  intros c P D s l Hc HI Hl Hw. destruct l as [e0| | | |f| |]; try discriminate Hl; cbn [step stored_by].
  - cbn [written_by]. rewrite app_nil_r. apply lock_store; assumption.
  - rewrite app_nil_r. apply lock_wal_write; [exact HI|apply Hw; reflexivity].
  - cbn [written_by]. rewrite !app_nil_r. apply lock_wal_rotate, HI.
  - cbn [written_by]. rewrite !app_nil_r. apply lock_fw; assumption.
Qed.

Lemma lock_run : forall c ls, 0 < c ->
  lockstep ls = true -> wal_ordered (init c) ls = true ->
  lock_inv c (stored ls) (durable ls) (run (init c) ls).
Proof.
  intros c ls Hc; induction ls as [|l ls IH] using rev_ind; intros Hl Ho.
  - apply lock_init, Hc.
  - unfold lockstep in Hl. rewrite forallb_app in Hl. apply andb_true_iff in Hl. destruct Hl as [Hl1 Hl2].
    cbn [forallb] in Hl2. rewrite andb_true_r in Hl2.
    rewrite wal_ordered_snoc in Ho. apply andb_true_iff in Ho. destruct Ho as [Ho1 Ho2].
    specialize (IH Hl1 Ho1).
    rewrite run_snoc, stored_snoc, durable_snoc, <- (walq_pending c).
    apply lock_step; [exact Hc|exact IH|exact Hl2|].
    intros ->. apply N.ltb_lt in Ho2. rewrite (li_cap _ _ _ _ IH) in Ho2. exact Ho2.
Qed.

(** ** C01 in the lockstep fragment *)

(** whatever went to the ghost list is in a published directory *)
Theorem lockstep_wlost_in_dirs : forall c ls, 0 < c ->
  lockstep ls = true -> wal_ordered (init c) ls = true ->
  forall e, In e (wlost (run (init c) ls)) -> In e (drows (dirs (run (init c) ls))).
Proof. intros c ls Hc Hl Ho. exact (li_lost _ _ _ _ (lock_run c ls Hc Hl Ho)). Qed.

Theorem lockstep_no_loss : forall c ls, 0 < c ->
  lockstep ls = true -> wal_ordered (init c) ls = true ->
  forall e, In e (durable ls) -> recoverable (run (init c) ls) e.
Proof.
  intros c ls Hc Hl Ho e He. destruct (safe_run c ls e He) as [H|H]; [|exact H].
  right. eapply lockstep_wlost_in_dirs; eassumption.
Qed.

Theorem exactly_once_after_first_crash : forall c ls e, 0 < c ->
  lockstep ls = true -> wal_ordered (init c) ls = true ->
  NoDup (map ek (stored ls)) -> In e (durable ls) ->
  occ e (select (restart (crash (run (init c) ls))) (euid e)) = 1%nat /\
  occ e (select (restart (run (init c) ls)) (euid e)) = 1%nat.
Proof.
  intros c ls e Hc Hl Ho Hn He. rewrite select_restart_crash.
  assert (R : recoverable (run (init c) ls) e) by (eapply lockstep_no_loss; eassumption).
  split; apply recoverable_read_once; assumption.
Qed.

(** ** the WAL thread is never behind the flush worker: nothing reaches the ghost list *)

(** at every log-file deletion the WAL thread is idle (queue drained, no rotation due) *)
Fixpoint wal_idle_at_prune (s : shard) (ls : list label) : bool :=
  match ls with
  | [] => true
  | l :: r =>
      (match l with
       | LFw (FwWalDel _) | LFw FwWalClean => is_empty (walq s) && (wcnt s <? cap s)
       | _ => true
       end) && wal_idle_at_prune (step s l) r
  end.

Definition prune_ok (s : shard) (l : label) : bool :=
  match l with
  | LFw (FwWalDel _) | LFw FwWalClean => is_empty (walq s) && (wcnt s <? cap s)
  | _ => true
  end.

Lemma wal_idle_snoc : forall ls s l,
  wal_idle_at_prune s (ls ++ [l]) = wal_idle_at_prune s ls && prune_ok (run s ls) l.
Proof.
  induction ls as [|x r IH]; intros s l; cbn [app wal_idle_at_prune].
  - rewrite andb_true_r. reflexivity.
  - rewrite IH, andb_assoc. reflexivity.
Qed.

Lemma fw_unlinked : forall s l, wunlinked (fw_step s l) = true ->
  wunlinked s = true \/
  exists j rest, jobs s = j :: rest /\ jstage j = StCleared /\ wcur s < jseg j + 1 /\
                 prune_ok s (LFw l) = is_empty (walq s) && (wcnt s <? cap s).
Proof.
  intros s l; unfold fw_step, set_jobs. destruct (jobs s) as [|j rest] eqn:Ej; [tauto|].
  destruct l, (jstage j) eqn:Est; repeat match goal with |- context [if ?b then _ else _] => destruct b eqn:? end;
    proj; try tauto; intros H; apply orb_true_iff in H; destruct H as [H|H]; try tauto; right; exists j, rest.
  - apply N.eqb_eq in H. apply orb_false_iff in Heqb. destruct Heqb as [_ Hb].
    apply negb_false_iff, N.ltb_lt in Hb. repeat split; try reflexivity; try exact Est. lia.
  - apply andb_true_iff in H. destruct H as [H _]. apply N.ltb_lt in H. repeat split; try reflexivity; try exact Est. lia.
Qed.

Lemma pruned_nil : forall ds del,
  (forall e, In e (pruned_unsaved ds del) -> In e (drows ds)) -> pruned_unsaved ds del = [].
Proof.
  intros ds del H. destruct (pruned_unsaved ds del) as [|e r] eqn:E; [reflexivity|].
  assert (Hin : In e (pruned_unsaved ds del)) by (rewrite E; left; reflexivity).
  pose proof (H e (or_introl eq_refl)) as Hd. apply pruned_unsaved_In in Hin. tauto.
Qed.

Lemma idle_step : forall c P D s l, 0 < c ->
  lock_inv c P D s -> lockstep_label l = true -> (l = LWalWrite -> wcnt s < c) ->
  prune_ok s l = true -> wunlinked s = false -> wlost s = [] ->
  wunlinked (step s l) = false /\ wlost (step s l) = [].
Proof.
  intros c P D s l Hc HI Hl Hw Hp Hu Hlost.
  pose proof (lock_step c P D s l Hc HI Hl Hw) as HI'.
  destruct l as [e0| | | |f| |]; try discriminate Hl; cbn [step] in *.
  - destruct (store_frame s e0) as (_ & _ & _ & _ & -> & _ & _ & -> & _). tauto.
  - destruct (walq s) as [|e q] eqn:Eq; [rewrite (wal_write_nil s Eq); tauto|].
    destruct (wal_write_frame s) as (_ & _ & _ & _ & _ & _ & _ & _ & ->).
    destruct (wal_write_cons s e q Eq) as [_ [(Hu' & _)|(_ & _ & ->)]]; [congruence|tauto].
  - destruct (wal_rotate_frame s) as (_ & _ & _ & -> & _). split; [|exact Hlost].
    unfold wal_rotate. destruct (_ <=? _); proj; [reflexivity|exact Hu].
  - split.
    + apply not_true_is_false. intros T. destruct (fw_unlinked s f T) as [H|[j [rest [Ej [Est [Hlt Hpk]]]]]]; [congruence|].
      rewrite Hpk in Hp. apply andb_true_iff in Hp. destruct Hp as [Hq Hn]. apply N.ltb_lt in Hn.
      destruct (walq s) as [|x q] eqn:Eq; [|discriminate Hq].
      destruct HI as [Icap Ififo Icnt _ _ Imem _ Ijobs _ _ _ _ _ _].
      rewrite Ej in Ijobs. cbn [hseg jobs_from] in Ijobs. destruct Ijobs as (_ & _ & _ & Hr).
      apply jobs_from_le in Hr. rewrite Eq, app_nil_r in Ififo. subst P. rewrite Icap in Hn.
      assert (Hle : wcur s + 1 <= alloc0 s) by lia. pose proof (mul_le _ _ c Hle). lia.
    + destruct (fw_files s f) as [[_ ->]|[p [_ [E Ed]]]]; [exact Hlost|].
      rewrite E, Hlost. cbn [app]. apply pruned_nil. intros e He. rewrite <- Ed.
      apply (li_lost _ _ _ _ HI'). rewrite E, Hlost. exact He.
Qed.

Theorem lockstep_wlost_empty : forall c ls, 0 < c ->
  lockstep ls = true -> wal_ordered (init c) ls = true -> wal_idle_at_prune (init c) ls = true ->
  wunlinked (run (init c) ls) = false /\ wlost (run (init c) ls) = [].
Proof.
  intros c ls Hc; induction ls as [|l ls IH] using rev_ind; intros Hl Ho Hp; [split; reflexivity|].
  pose proof Hl as Hl0. pose proof Ho as Ho0.
  unfold lockstep in Hl. rewrite forallb_app in Hl. apply andb_true_iff in Hl. destruct Hl as [Hl1 Hl2].
  cbn [forallb] in Hl2. rewrite andb_true_r in Hl2.
  rewrite wal_ordered_snoc in Ho. apply andb_true_iff in Ho. destruct Ho as [Ho1 Ho2].
  rewrite wal_idle_snoc in Hp. apply andb_true_iff in Hp. destruct Hp as [Hp1 Hp2].
  destruct (IH Hl1 Ho1 Hp1) as [IHu IHl]. pose proof (lock_run c ls Hc Hl1 Ho1) as HI.
  rewrite run_snoc. eapply idle_step; try eassumption.
  intros ->. apply N.ltb_lt in Ho2. rewrite (li_cap _ _ _ _ HI) in Ho2. exact Ho2.
Qed.

(** * COUNT after recovery *)

Lemma dedup_len : forall l seen, len (dedup_ev l seen) <= len l.
Proof.
  induction l as [|x r IH]; intros seen; cbn [dedup_ev]; [lia|].
  destruct (memb (ek x) seen); rewrite ?len_cons.
  - specialize (IH seen). lia.
  - specialize (IH (ek x :: seen)). lia.
Qed.

Lemma of_uid_app : forall u a b, of_uid u (a ++ b) = of_uid u a ++ of_uid u b.
Proof. intros; unfold of_uid; apply filter_app. Qed.

Lemma of_uid_len : forall u l, len (of_uid u l) <= len l.
Proof.
  induction l as [|x r IH]; cbn [of_uid filter]; [lia|]. fold (of_uid u r).
  destruct (euid x =? u); rewrite ?len_cons; lia.
Qed.

(** COUNT filters the in-memory rows by event type like the segment rows (fix dc170f4; the flag is
    regenerated from the source, so this lemma stops checking if the memtable read paths lose the
    special-field conditions again): it is the length of the scan, before id de-duplication. *)
Lemma count_typed : forall s u, count s u = len (of_uid u (mem_rows s)) + len (of_uid u (seg_rows s)).
Proof. reflexivity. Qed.

Theorem count_is_scan : forall s u, count s u = len (scan s u).
Proof. intros s u. rewrite count_typed. unfold scan. rewrite of_uid_app, len_app. reflexivity. Qed.

(** COUNT never reports fewer rows than a selection returns ... *)
Theorem count_ge_select : forall s u, len (select s u) <= count s u.
Proof.
  intros s u. rewrite count_is_scan. unfold select. apply dedup_len.
Qed.

(** ... it equals the selection exactly when no event id occurs twice in the scan ... *)
Lemma dedup_ev_id : forall l seen,
  NoDup (map ek l) -> (forall e, In e l -> memb (ek e) seen = false) -> dedup_ev l seen = l.
Proof.
  induction l as [|x r IH]; intros seen Hn Hs; cbn [dedup_ev]; [reflexivity|].
  cbn [map] in Hn. apply NoDup_cons_iff in Hn as [Hx Hn].
  rewrite (Hs x) by (left; reflexivity). f_equal. apply IH; [exact Hn|].
  intros e He. change (memb (ek e) (ek x :: seen)) with ((ek e =? ek x) || memb (ek e) seen).
  rewrite (Hs e) by (right; exact He).
  destruct (N.eqb_spec (ek e) (ek x)) as [Hk|Hk]; [|reflexivity].
  exfalso. apply Hx. rewrite <- Hk. apply in_map. exact He.
Qed.

Theorem count_exact_when_ids_distinct : forall s u,
  NoDup (map ek (scan s u)) -> count s u = len (select s u).
Proof.
  intros s u Hn. rewrite count_is_scan. unfold select. rewrite dedup_ev_id; [reflexivity|exact Hn|reflexivity].
Qed.

(** ... and this is what it reports after a restart: the lines of the queried type of every log file
    plus the rows of the queried type of every directory *)
Theorem count_after_restart : forall s u,
  count (restart (crash s)) u = len (of_uid u (frows (walfiles s))) + len (of_uid u (drows (dirs s))) /\
  count (restart s) u = len (of_uid u (frows (walfiles s))) + len (of_uid u (drows (dirs s))).
Proof.
  intros s u. assert (G : forall t, count (restart t) u = len (of_uid u (frows (walfiles t))) + len (of_uid u (drows (dirs t)))).
  { intros t. rewrite count_typed. unfold mem_rows, seg_rows, scanned_dirs, restart; proj. cbn [map concat].
    rewrite app_nil_r, filter_all; [reflexivity|].
    intros d Hd. apply orb_true_iff; left. apply memb_In, sort_n_In, in_map, Hd. }
  split; [rewrite G; reflexivity|apply G].
Qed.

Lemma nodup_app_l : forall A (a b : list A), NoDup (a ++ b) -> NoDup a.
Proof.
  induction a as [|x r IH]; intros b H; [constructor|]. cbn [app] in H.
  inversion H as [|y l Hy Hl]; subst. constructor; [|eapply IH; eassumption].
  intros T; apply Hy, in_app_iff; left; exact T.
Qed.

Lemma nodup_snoc : forall A (l : list A) x, NoDup l -> ~ In x l -> NoDup (l ++ [x]).
Proof.
  induction l as [|y r IH]; intros x Hn Hx; cbn [app]; [constructor; [intros []|constructor]|].
  inversion Hn as [|z l Hz Hl]; subst. constructor.
  - intros T. apply in_app_iff in T. destruct T as [T|[T|[]]]; [contradiction|]. apply Hx; left; symmetry; exact T.
  - apply IH; [exact Hl|]. intros T; apply Hx; right; exact T.
Qed.

(** the durable events are pairwise distinct when the stored ones are *)
Lemma durable_pending_nodup : forall ls,
  NoDup (stored ls) -> NoDup (durable ls ++ pending ls) /\ incl (durable ls ++ pending ls) (stored ls).
Proof.
  induction ls as [|l ls IH] using rev_ind; intros Hn; [split; [constructor|intros x []]|].
  rewrite stored_snoc in Hn. rewrite stored_snoc, durable_snoc, pending_snoc.
  assert (Hn0 : NoDup (stored ls)) by (apply nodup_app_l in Hn; exact Hn).
  destruct (IH Hn0) as [IH1 IH2].
  assert (Hsame : NoDup (durable ls ++ pending ls) /\ incl (durable ls ++ pending ls) (stored ls ++ stored_by l)).
  { split; [exact IH1|]. intros x Hx; apply in_app_iff; left; apply IH2, Hx. }
  assert (Hdrop : NoDup (durable ls ++ []) /\ incl (durable ls ++ []) (stored ls ++ stored_by l)).
  { rewrite app_nil_r. split; [apply nodup_app_l in IH1; exact IH1|].
    intros x Hx; apply in_app_iff; left; apply IH2, in_app_iff; left; exact Hx. }
  destruct l as [e0| | | |f| |]; cbn [written_by pend_step stored_by]; rewrite ?app_nil_r in *; try assumption.
  - rewrite app_assoc. split.
    + apply nodup_snoc; [exact IH1|]. intros T. apply IH2 in T.
      apply NoDup_remove_2 in Hn. apply Hn. rewrite app_nil_r. exact T.
    + intros x Hx. apply in_app_iff in Hx. apply in_app_iff. destruct Hx as [Hx|Hx]; [left; apply IH2, Hx|right; exact Hx].
  - destruct (pending ls) as [|e q]; cbn [written_by tl]; rewrite ?app_nil_r in *; [split; assumption|].
    rewrite <- app_assoc. cbn [app]. split; assumption.
Qed.

Lemma durable_nodup : forall ls, NoDup (map ek (stored ls)) -> NoDup (durable ls).
Proof.
  intros ls Hn. apply NoDup_map_inv in Hn. destruct (durable_pending_nodup ls Hn) as [H _].
  apply nodup_app_l in H. exact H.
Qed.

(** when nothing durable was pruned, COUNT covers at least the durable events of the type *)
Theorem count_covers_durable : forall c ls u,
  NoDup (map ek (stored ls)) ->
  (forall e, In e (durable ls) -> ~ In e (wlost (run (init c) ls))) ->
  len (of_uid u (durable ls)) <= len (select (restart (crash (run (init c) ls))) u) /\
  len (select (restart (crash (run (init c) ls))) u) <= count (restart (crash (run (init c) ls))) u.
Proof.
  intros c ls u Hn Hl. split; [|apply count_ge_select].
  assert (Hle : (length (of_uid u (durable ls)) <= length (select (restart (crash (run (init c) ls))) u))%nat).
  { apply NoDup_incl_length.
    - unfold of_uid. apply NoDup_filter, durable_nodup, Hn.
    - intros e He. apply of_uid_In in He. destruct He as [He <-].
      destruct (survives_unless_pruned c ls e Hn He (Hl e He)) as [H _].
      unfold occ in H. apply (count_occ_In ev_eq_dec). lia. }
  unfold len. lia.
Qed.

(** * Known findings as machine-checked witnesses, and non-vacuity examples *)

Fixpoint nodupb (l : list N) : bool :=
  match l with [] => true | x :: r => negb (memb x r) && nodupb r end.

Lemma nodupb_NoDup : forall l, nodupb l = true -> NoDup l.
Proof.
  induction l as [|x r IH]; cbn [nodupb]; intros H; constructor; apply andb_true_iff in H; destruct H as [H1 H2].
  - intros T. apply memb_In in T. rewrite T in H1. discriminate.
  - apply IH, H2.
Qed.

Lemma inb_In : forall e l, existsb (ev_eqb e) l = true -> In e l.
Proof.
  intros e l H. apply existsb_exists in H. destruct H as [x [Hx E]]. apply ev_eqb_eq in E. subst; exact Hx.
Qed.

Definition one_lifetime (ls : list label) : bool :=
  forallb (fun l => match l with LCrash | LRestart => false | _ => true end) ls.
Definition no_manual_flush (ls : list label) : bool :=
  forallb (fun l => match l with LFlushCmd => false | _ => true end) ls.

Module Traces.
  Definition E (k : N) : event := mkEv k 0 0.
  Definition S (k : N) : label := LStore (E k).
  Definition W := LWalWrite.
  Definition Wr := LWalRotate.
  Definition fb := LFw FwBegin.
  Definition fm := LFw FwMkdir.
  Definition fw0 := LFw (FwWrite 0).
  Definition fi := LFw FwIndex.
  Definition fp := LFw FwPublish.
  Definition fc := LFw FwClear.
  Definition wd (n : N) := LFw (FwWalDel n).
  Definition fx := LFw FwWalClean.
  Definition fd := LFw FwDone.
  Definition K := LCrash.
  Definition T := LRestart.

  (** cap 4: three events, manual FLUSH run to completion, a fourth event *)
  Definition manual_flush : list label :=
    [S 1; W; S 2; W; S 3; W; LFlushCmd; fb; fm; fw0; fi; fp; fc; fx; fd; S 4; W].

  (** cap 4, no manual FLUSH: crash during the second WAL rotation, restart,
      further stores and rotations (the trace observed on the engine) *)
  Definition id_drift : list label :=
    [S 1; W; S 2; W; S 3; W; S 4; fb; W; Wr; fm; fw0; fi; fp; fc; wd 0; fx; fd;
     S 5; W; S 6; W; S 7; W; S 8; fb; fm; W; Wr; K; T;
     S 9; fb; W; fm; fw0; fi; fp; fc; wd 2; wd 1; fx; fd;
     S 10; W; S 11; W; S 12; W; Wr; S 13; W; fb; fm; fw0; fi; fp; fc; wd 3; fx; fd;
     S 14; W; S 15; W; S 16; W; Wr].

  (** cap 2, the same drift in its shortest form: crash after the directory of an
      unfinished flush was created; the restart takes the next segment id from the
      directory list (1) but the WAL id from the log files (0) *)
  Definition id_drift_short : list label :=
    [S 1; S 2; W; fb; fm; K; T; S 3; W; Wr; fb; fm; fw0; fi; fp; fc; fx; fd; S 4; W].

  (** cap 2, not a trace of the engine: a third write without the due rotation *)
  Definition unordered : list label :=
    [S 1; W; S 2; W; S 3; W; fb; fm; fw0; fi; fp; fc; fx; fd].

  (** cap 2: the flush worker finishes before the WAL thread has written anything *)
  Definition flush_outruns_wal : list label :=
    [S 1; S 2; fb; fm; fw0; fi; fp; fc; fx; fd; W; W; Wr].

  (** cap 2: a full cycle in lockstep, a second batch half way, one event not yet written *)
  Definition lockstep_ok : list label :=
    [S 1; W; S 2; W; Wr; fb; fm; fw0; fi; fp; fc; wd 0; fx; fd; S 3; W; S 4; W; Wr; fb; fm; fw0; S 5].

  (** cap 2, two event types: the first memtable holds one event of each type *)
  Definition two_types : list label :=
    [LStore (mkEv 1 0 0); LStore (mkEv 2 0 1); LStore (mkEv 3 0 1); W; W; Wr; W].

  (** cap 2, one type: the directory is written, the log not yet pruned *)
  Definition leftover_dir : list label :=
    [S 1; S 2; W; W; Wr; fb; fm; fw0; fi].
End Traces.

(** manual FLUSH of a partly filled memtable: the flush worker prunes the log file
    the writer still has open; the next acknowledged event is lost by a crash *)
Theorem manual_flush_refuted :
  exists c ls e, 0 < c /\ one_lifetime ls = true /\ wal_ordered (init c) ls = true /\
    NoDup (map ek (stored ls)) /\ In e (durable ls) /\
    occ e (select (restart (crash (run (init c) ls))) (euid e)) = 0%nat /\
    In e (wlost (run (init c) ls)).
Proof.
  exists 4, Traces.manual_flush, (Traces.E 4).
  split; [reflexivity|]. split; [vm_compute; reflexivity|]. split; [vm_compute; reflexivity|].
  split; [apply nodupb_NoDup; vm_compute; reflexivity|]. split; [apply inb_In; vm_compute; reflexivity|].
  split; [vm_compute; reflexivity|apply inb_In; vm_compute; reflexivity].
Qed.

(** without any manual FLUSH: a crash and restart lets segment ids run ahead of WAL
    file ids; later the open log file is pruned and durable events are lost *)
Theorem id_drift_refuted :
  exists c ls e, 0 < c /\ no_manual_flush ls = true /\
    NoDup (map ek (stored ls)) /\ In e (durable ls) /\
    occ e (select (restart (crash (run (init c) ls))) (euid e)) = 0%nat /\
    In e (wlost (run (init c) ls)).
Proof.
  exists 4, Traces.id_drift, (Traces.E 16).
  split; [reflexivity|]. split; [vm_compute; reflexivity|].
  split; [apply nodupb_NoDup; vm_compute; reflexivity|]. split; [apply inb_In; vm_compute; reflexivity|].
  split; [vm_compute; reflexivity|apply inb_In; vm_compute; reflexivity].
Qed.

Theorem id_drift_short_refuted :
  exists c ls e, 0 < c /\ no_manual_flush ls = true /\
    NoDup (map ek (stored ls)) /\ In e (durable ls) /\
    occ e (select (restart (crash (run (init c) ls))) (euid e)) = 0%nat /\
    In e (wlost (run (init c) ls)).
Proof.
  exists 2, Traces.id_drift_short, (Traces.E 4).
  split; [reflexivity|]. split; [vm_compute; reflexivity|].
  split; [apply nodupb_NoDup; vm_compute; reflexivity|]. split; [apply inb_In; vm_compute; reflexivity|].
  split; [vm_compute; reflexivity|apply inb_In; vm_compute; reflexivity].
Qed.

(** hence the unconditional statement is false: a durable event can be lost *)
Theorem durable_exactly_once_refuted :
  ~ (forall c ls e, 0 < c -> NoDup (map ek (stored ls)) -> In e (durable ls) ->
       occ e (select (restart (crash (run (init c) ls))) (euid e)) = 1%nat).
Proof.
  intros H. destruct manual_flush_refuted as (c & ls & e & Hc & _ & _ & Hn & Hd & H0 & _).
  rewrite (H c ls e Hc Hn Hd) in H0. discriminate.
Qed.

(** the program-order hypothesis of the lockstep theorems cannot be dropped ... *)
Theorem lockstep_needs_wal_order_refuted :
  exists c ls e, 0 < c /\ lockstep ls = true /\ wal_ordered (init c) ls = false /\
    NoDup (map ek (stored ls)) /\ In e (durable ls) /\
    occ e (select (restart (crash (run (init c) ls))) (euid e)) = 0%nat.
Proof.
  exists 2, Traces.unordered, (Traces.E 3).
  split; [reflexivity|]. split; [vm_compute; reflexivity|]. split; [vm_compute; reflexivity|].
  split; [apply nodupb_NoDup; vm_compute; reflexivity|]. split; [apply inb_In; vm_compute; reflexivity|].
  vm_compute; reflexivity.
Qed.

(** ... and in the lockstep fragment the ghost list need not be empty (its entries
    are then in a published directory, [lockstep_wlost_in_dirs]) *)
Theorem lockstep_wlost_empty_refuted :
  exists c ls, 0 < c /\ lockstep ls = true /\ wal_ordered (init c) ls = true /\
    wlost (run (init c) ls) <> [].
Proof.
  exists 2, Traces.flush_outruns_wal.
  split; [reflexivity|]. split; [vm_compute; reflexivity|]. split; [vm_compute; reflexivity|].
  vm_compute. discriminate.
Qed.

(** COUNT after recovery: the in-memory rows (the replayed WAL) are counted by type, so on the history
    that used to witness the type-blind count (events of two types in the log) COUNT is the selection ... *)
Example count_two_types_exact :
  let c := 2 in let ls := Traces.two_types in let u := 0 in
  0 < c /\ lockstep ls = true /\ wal_ordered (init c) ls = true /\
    NoDup (map ek (stored ls)) /\ wlost (run (init c) ls) = [] /\
    select (restart (crash (run (init c) ls))) u = of_uid u (durable ls) /\
    NoDup (map ek (scan (restart (crash (run (init c) ls))) u)) /\
    count (restart (crash (run (init c) ls))) u = len (select (restart (crash (run (init c) ls))) u).
Proof.
  cbv zeta.
  split; [reflexivity|]. split; [vm_compute; reflexivity|]. split; [vm_compute; reflexivity|].
  split; [apply nodupb_NoDup; vm_compute; reflexivity|]. split; [vm_compute; reflexivity|].
  split; [vm_compute; reflexivity|]. split; [apply nodupb_NoDup; vm_compute; reflexivity|vm_compute; reflexivity].
Qed.

(** ... and rows present in a leftover directory and in the log are counted twice *)
Theorem count_double_refuted :
  exists c ls u, 0 < c /\ lockstep ls = true /\ wal_ordered (init c) ls = true /\
    NoDup (map ek (stored ls)) /\ wlost (run (init c) ls) = [] /\
    select (restart (crash (run (init c) ls))) u = of_uid u (durable ls) /\
    count (restart (crash (run (init c) ls))) u = 2 * len (select (restart (crash (run (init c) ls))) u) /\
    len (select (restart (crash (run (init c) ls))) u) = 2.
Proof.
  exists 2, Traces.leftover_dir, 0.
  split; [reflexivity|]. split; [vm_compute; reflexivity|]. split; [vm_compute; reflexivity|].
  split; [apply nodupb_NoDup; vm_compute; reflexivity|]. split; [vm_compute; reflexivity|].
  split; [vm_compute; reflexivity|split; vm_compute; reflexivity].
Qed.

(** ** the hypotheses of the implications are satisfiable *)

(** [survives_unless_pruned]: on a history with a manual FLUSH, a crash and a restart,
    where another event was pruned *)
Example survives_nonvacuous :
  exists c ls e, NoDup (map ek (stored ls)) /\ In e (durable ls) /\ ~ In e (wlost (run (init c) ls)) /\
    one_lifetime ls = false /\ no_manual_flush ls = false /\ wlost (run (init c) ls) <> [].
Proof.
  exists 4, (Traces.manual_flush ++ [LCrash; LRestart; Traces.S 5; LWalWrite]), (Traces.E 5).
  split; [apply nodupb_NoDup; vm_compute; reflexivity|]. split; [apply inb_In; vm_compute; reflexivity|].
  split; [vm_compute; intros [H|[]]; discriminate H|]. split; [reflexivity|]. split; [reflexivity|].
  vm_compute; discriminate.
Qed.

(** [count_covers_durable]: a history with a crash and a restart in which nothing durable was pruned *)
Example count_covers_nonvacuous :
  exists c ls u, NoDup (map ek (stored ls)) /\
    (forall e, In e (durable ls) -> ~ In e (wlost (run (init c) ls))) /\
    one_lifetime ls = false /\ of_uid u (durable ls) <> [].
Proof.
  exists 2, (Traces.lockstep_ok ++ [LCrash; LRestart; Traces.S 6; LWalWrite]), 0.
  split; [apply nodupb_NoDup; vm_compute; reflexivity|].
  assert (E : wlost (run (init 2) (Traces.lockstep_ok ++ [LCrash; LRestart; Traces.S 6; LWalWrite])) = [])
    by (vm_compute; reflexivity).
  rewrite E. split; [intros e _ []|]. split; [reflexivity|vm_compute; discriminate].
Qed.

(** [no_phantom], [no_phantom_after_crash]: a result can be non-empty *)
Example no_phantom_nonvacuous :
  exists c ls u e, In e (select (run (init c) ls) u) /\ In e (select (restart (crash (run (init c) ls))) u).
Proof.
  exists 2, Traces.lockstep_ok, 0, (Traces.E 3). split; apply inb_In; vm_compute; reflexivity.
Qed.

(** the lockstep theorems: a trace with a full flush cycle satisfies every hypothesis *)
Example lockstep_nonvacuous :
  exists c ls e, 0 < c /\ lockstep ls = true /\ wal_ordered (init c) ls = true /\
    wal_idle_at_prune (init c) ls = true /\ NoDup (map ek (stored ls)) /\ In e (durable ls) /\
    dirs (run (init c) ls) <> [] /\ pending ls <> [].
Proof.
  exists 2, Traces.lockstep_ok, (Traces.E 4).
  split; [reflexivity|]. split; [vm_compute; reflexivity|]. split; [vm_compute; reflexivity|].
  split; [vm_compute; reflexivity|]. split; [apply nodupb_NoDup; vm_compute; reflexivity|].
  split; [apply inb_In; vm_compute; reflexivity|]. split; vm_compute; discriminate.
Qed.

(** [lockstep_wlost_in_dirs] has a non-empty ghost list to talk about *)
Example wlost_in_dirs_nonvacuous :
  exists c ls e, 0 < c /\ lockstep ls = true /\ wal_ordered (init c) ls = true /\
    In e (wlost (run (init c) ls)).
Proof.
  exists 2, Traces.flush_outruns_wal, (Traces.E 1).
  split; [reflexivity|]. split; [vm_compute; reflexivity|]. split; [vm_compute; reflexivity|].
  apply inb_In; vm_compute; reflexivity.
Qed.
