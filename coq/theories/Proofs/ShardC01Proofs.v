(** Proofs about Model/Shard.v for C01 — applied writes survive any process
    crash and restart, exactly once.

    Specification side: [stored ls] (every event of an [LStore] label),
    [durable ls] (the events whose WAL entry was written: an [LWalWrite] label
    consumed them from the FIFO [pending] of stored-but-unwritten events; a crash
    or a restart empties that FIFO).  Everything else is about the frozen model. *)
From Coq Require Import NArith List Bool Lia.
From Coq Require Import ZifyBool ZifyNat ZifyN.
From Snel Require Import Model.Shard.
Import ListNotations.
Open Scope N_scope.

(** * Specification-side bookkeeping (plain recursion over the label list) *)

Fixpoint stored (ls : list label) : list event :=
  match ls with
  | [] => []
  | LStore e :: r => e :: stored r
  | _ :: r => stored r
  end.

(** the FIFO of stored-but-unwritten events after one label *)
Definition pend_step (p : list event) (l : label) : list event :=
  match l with
  | LStore e => p ++ [e]
  | LWalWrite => tl p
  | LCrash | LRestart => []
  | _ => p
  end.

(** the event a label makes durable *)
Definition written_by (p : list event) (l : label) : list event :=
  match l, p with
  | LWalWrite, e :: _ => [e]
  | _, _ => []
  end.

Fixpoint durable_from (p : list event) (ls : list label) : list event :=
  match ls with
  | [] => []
  | l :: r => written_by p l ++ durable_from (pend_step p l) r
  end.

Fixpoint pending_from (p : list event) (ls : list label) : list event :=
  match ls with
  | [] => p
  | l :: r => pending_from (pend_step p l) r
  end.

Definition durable (ls : list label) : list event := durable_from [] ls.
Definition pending (ls : list label) : list event := pending_from [] ls.

Definition stored_by (l : label) : list event :=
  match l with LStore e => [e] | _ => [] end.

Lemma stored_snoc : forall ls l, stored (ls ++ [l]) = stored ls ++ stored_by l.
Proof.
  induction ls as [|x r IH]; intros l; cbn [app stored].
  - destruct l; reflexivity.
  - destruct x; cbn [app]; rewrite IH; reflexivity.
Qed.

Lemma pending_from_snoc : forall ls p l,
  pending_from p (ls ++ [l]) = pend_step (pending_from p ls) l.
Proof. induction ls as [|x r IH]; intros p l; cbn [app pending_from]; [reflexivity|apply IH]. Qed.

Lemma durable_from_snoc : forall ls p l,
  durable_from p (ls ++ [l]) = durable_from p ls ++ written_by (pending_from p ls) l.
Proof.
  induction ls as [|x r IH]; intros p l; cbn [app durable_from pending_from].
  - rewrite app_nil_r. reflexivity.
  - rewrite IH, app_assoc. reflexivity.
Qed.

Lemma pending_snoc : forall ls l, pending (ls ++ [l]) = pend_step (pending ls) l.
Proof. intros; apply pending_from_snoc. Qed.
Lemma durable_snoc : forall ls l, durable (ls ++ [l]) = durable ls ++ written_by (pending ls) l.
Proof. intros; apply durable_from_snoc. Qed.

Lemma run_snoc : forall s ls l, run s (ls ++ [l]) = step (run s ls) l.
Proof. intros; unfold run; rewrite fold_left_app; reflexivity. Qed.

(** * Small list facts *)

Lemma len_app : forall A (a b : list A), len (a ++ b) = len a + len b.
Proof. intros; unfold len; rewrite app_length; lia. Qed.
Lemma len_cons : forall A (x : A) l, len (x :: l) = len l + 1.
Proof. intros; unfold len; cbn [length]; lia. Qed.
Lemma len_nil : forall A, len (@nil A) = 0.
Proof. reflexivity. Qed.

Lemma memb_In : forall x l, memb x l = true <-> In x l.
Proof.
  intros x l; unfold memb; rewrite existsb_exists; split.
  - intros [y [Hy E]]. apply N.eqb_eq in E. subst; exact Hy.
  - intros H; exists x; split; [exact H|apply N.eqb_refl].
Qed.

Lemma filter_all : forall A (f : A -> bool) l,
  (forall x, In x l -> f x = true) -> filter f l = l.
Proof.
  induction l as [|x r IH]; intros H; cbn [filter]; [reflexivity|].
  rewrite (H x (or_introl eq_refl)), IH; [reflexivity|].
  intros y Hy; apply H; right; exact Hy.
Qed.

Lemma insert_sorted_In : forall x y l, In y (insert_sorted x l) <-> y = x \/ In y l.
Proof.
  induction l as [|z r IH]; cbn [insert_sorted In]; [intuition|].
  destruct (x <=? z); cbn [In]; rewrite ?IH; intuition.
Qed.

Lemma sort_n_In : forall y l, In y (sort_n l) <-> In y l.
Proof.
  induction l as [|z r IH]; cbn [sort_n fold_right In]; [tauto|].
  fold (sort_n r). rewrite insert_sorted_In, IH. intuition.
Qed.

Lemma dedup_n_In : forall y l, In y (dedup_n l) <-> In y l.
Proof.
  induction l as [|z r IH]; cbn [dedup_n In]; [tauto|].
  destruct (memb z r) eqn:M; cbn [In]; rewrite IH; [|tauto].
  apply memb_In in M. split; [tauto|]. intros [->|H]; tauto.
Qed.

Lemma uids_of_In : forall e evs, In e evs -> memb (euid e) (uids_of evs) = true.
Proof.
  intros e evs H. apply memb_In. unfold uids_of.
  apply sort_n_In, dedup_n_In, in_map, H.
Qed.

Lemma insert_by_ctx_In : forall e x l, In x (insert_by_ctx e l) <-> x = e \/ In x l.
Proof.
  induction l as [|z r IH]; cbn [insert_by_ctx In]; [intuition|].
  destruct (ectx z <=? ectx e); cbn [In]; rewrite ?IH; intuition.
Qed.

Lemma flush_order_In : forall x evs, In x (flush_order evs) <-> In x evs.
Proof.
  intros x evs. unfold flush_order.
  assert (G : forall l acc, In x (fold_left (fun a e => insert_by_ctx e a) l acc) <-> In x acc \/ In x l).
  { induction l as [|z r IH]; intros acc; cbn [fold_left In]; [tauto|].
    rewrite IH, insert_by_ctx_In. intuition. }
  rewrite G. cbn [In]. tauto.
Qed.

(** ** events *)

Lemma ev_eqb_eq : forall a b, ev_eqb a b = true <-> a = b.
Proof.
  intros [k1 c1 u1] [k2 c2 u2]; unfold ev_eqb; cbn [ek ectx euid].
  rewrite !andb_true_iff, !N.eqb_eq. split.
  - intros [[-> ->] ->]; reflexivity.
  - intros E; inversion E; auto.
Qed.

Definition ev_eq_dec : forall a b : event, {a = b} + {a <> b}.
Proof. decide equality; apply N.eq_dec. Defined.

(** number of occurrences of [e] in a result list *)
Definition occ (e : event) (l : list event) : nat := count_occ ev_eq_dec l e.

(** rows of a list of log files / passive copies, rows of a list of directories *)
Definition frows (fs : list (N * list event)) : list event := concat (map snd fs).
Definition drows (ds : list segdir) : list event := concat (map srows ds).

Lemma frows_In : forall e fs, In e (frows fs) <-> exists f, In f fs /\ In e (snd f).
Proof.
  intros e fs; unfold frows; rewrite in_concat; split.
  - intros [l [Hl He]]. apply in_map_iff in Hl. destruct Hl as [f [<- Hf]]. exists f; auto.
  - intros [f [Hf He]]. exists (snd f); split; [apply in_map; exact Hf|exact He].
Qed.

Lemma drows_In : forall e ds, In e (drows ds) <-> exists d, In d ds /\ In e (srows d).
Proof.
  intros e ds; unfold drows; rewrite in_concat; split.
  - intros [l [Hl He]]. apply in_map_iff in Hl. destruct Hl as [d [<- Hd]]. exists d; auto.
  - intros [d [Hd He]]. exists (srows d); split; [apply in_map; exact Hd|exact He].
Qed.

Lemma in_dirs_In : forall ds e, in_dirs ds e = true <-> In e (drows ds).
Proof.
  intros ds e; unfold in_dirs; rewrite existsb_exists, drows_In; split.
  - intros [d [Hd H]]. apply existsb_exists in H. destruct H as [x [Hx E]].
    apply ev_eqb_eq in E. subst x. exists d; auto.
  - intros [d [Hd H]]. exists d; split; [exact Hd|]. apply existsb_exists.
    exists e; split; [exact H|apply ev_eqb_eq; reflexivity].
Qed.

Lemma pruned_unsaved_In : forall ds del e,
  In e (pruned_unsaved ds del) <-> In e (frows del) /\ ~ In e (drows ds).
Proof.
  intros ds del e; unfold pruned_unsaved. fold (frows del).
  rewrite filter_In, negb_true_iff, <- in_dirs_In.
  destruct (in_dirs ds e); intuition congruence.
Qed.

(** ** directories *)

Lemma dir_add_rows_In : forall e ds seg rows,
  In e (drows (dir_add_rows ds seg rows)) <-> In e (drows ds) \/ In e rows.
Proof.
  intros e ds seg rows; induction ds as [|d r IH]; cbn [dir_add_rows].
  - unfold drows; cbn [map concat srows]. rewrite app_nil_r. cbn [In]. tauto.
  - destruct (sid d =? seg).
    + unfold drows; cbn [map concat srows]. rewrite !in_app_iff. tauto.
    + unfold drows in *; cbn [map concat]. rewrite !in_app_iff, IH. tauto.
Qed.

Lemma dir_add_rows_sid : forall d' ds seg rows,
  In d' (dir_add_rows ds seg rows) -> sid d' = seg \/ In d' ds.
Proof.
  intros d' ds seg rows; induction ds as [|d r IH]; cbn [dir_add_rows In].
  - intros [<-|[]]; left; reflexivity.
  - destruct (sid d =? seg); cbn [In].
    + intros [<-|H]; [left; reflexivity|right; right; exact H].
    + intros [<-|H]; [right; left; reflexivity|]. destruct (IH H); tauto.
Qed.

Definition has_uid (ds : list segdir) (seg u : N) : bool :=
  existsb (fun d => (sid d =? seg) && existsb (fun e => euid e =? u) (srows d)) ds.

Lemma dir_has_uid_eq : forall s seg u, dir_has_uid s seg u = has_uid (dirs s) seg u.
Proof. reflexivity. Qed.

Lemma has_uid_add : forall ds seg rows seg' u,
  has_uid (dir_add_rows ds seg rows) seg' u =
  has_uid ds seg' u || ((seg =? seg') && existsb (fun e => euid e =? u) rows).
Proof.
  intros ds seg rows seg' u; induction ds as [|d r IH]; cbn [dir_add_rows].
  - unfold has_uid; cbn [existsb sid srows]. rewrite orb_false_r. reflexivity.
  - destruct (N.eqb_spec (sid d) seg) as [E|E].
    + unfold has_uid; cbn [existsb sid srows]. rewrite existsb_app, E.
      destruct (seg =? seg'); cbn [andb]; [|rewrite orb_false_r; reflexivity].
      rewrite <- !orb_assoc. f_equal. apply orb_comm.
    + unfold has_uid in *; cbn [existsb]. rewrite IH, orb_assoc. reflexivity.
Qed.

Lemma has_uid_none : forall ds seg u,
  (forall d, In d ds -> sid d <> seg) -> has_uid ds seg u = false.
Proof.
  intros ds seg u H; unfold has_uid. apply not_true_is_false. intros T.
  apply existsb_exists in T. destruct T as [d [Hd T]]. apply andb_true_iff in T.
  destruct T as [T _]. apply N.eqb_eq in T. exact (H d Hd T).
Qed.

(** ** WAL files *)

Lemma wal_append_In : forall f' files id e,
  In f' (wal_append files id e) ->
  In f' files \/
  (fst f' = id /\ forall x, In x (snd f') -> x = e \/ exists f, In f files /\ fst f = id /\ In x (snd f)).
Proof.
  intros f' files id e; induction files as [|[i es] r IH]; cbn [wal_append In].
  - intros [<-|[]]. right; cbn [fst snd]. split; [reflexivity|]. intros x [<-|[]]; left; reflexivity.
  - destruct (N.eqb_spec i id) as [E|E]; cbn [In].
    + intros [<-|H]; [|left; right; exact H]. right; cbn [fst snd]. split; [exact E|].
      intros x Hx. apply in_app_iff in Hx. destruct Hx as [Hx|[<-|[]]]; [right|left; reflexivity].
      exists (i, es); cbn [fst snd]; auto.
    + destruct (id <? i); cbn [In].
      * intros [<-|H]; [|left; exact H]. right; cbn [fst snd]. split; [reflexivity|].
        intros x [<-|[]]; left; reflexivity.
      * intros [<-|H]; [left; left; reflexivity|]. destruct (IH H) as [H1|[H1 H2]]; [left; right; exact H1|].
        right; split; [exact H1|]. intros x Hx. destruct (H2 x Hx) as [->|[f [Hf Hf2]]]; [left; reflexivity|].
        right; exists f; split; [right; exact Hf|exact Hf2].
Qed.

Lemma wal_append_keeps : forall x files id e,
  In x (frows files) \/ x = e -> In x (frows (wal_append files id e)).
Proof.
  intros x files id e; induction files as [|[i es] r IH]; cbn [wal_append].
  - unfold frows; cbn [map concat snd In app]. intros [[]| ->]; left; reflexivity.
  - unfold frows in *; cbn [map concat snd]. rewrite in_app_iff.
    destruct (i =? id); [|destruct (id <? i)]; cbn [map concat snd]; rewrite ?in_app_iff; cbn [In].
    + intros [[H|H]| ->]; tauto.
    + intros [[H|H]| ->]; tauto.
    + intros [[H|H]| ->]; [tauto|right; apply IH; tauto|right; apply IH; tauto].
Qed.

Lemma wal_touch_In : forall f' files id,
  In f' (wal_touch files id) -> In f' files \/ f' = (id, []).
Proof.
  intros f' files id; induction files as [|[i es] r IH]; cbn [wal_touch In].
  - intros [<-|[]]; right; reflexivity.
  - destruct (i =? id); [|destruct (id <? i)]; cbn [In].
    + tauto.
    + intros [<-|H]; tauto.
    + intros [<-|H]; [tauto|]. destruct (IH H); tauto.
Qed.

Lemma wal_touch_keeps : forall f files id, In f files -> In f (wal_touch files id).
Proof.
  intros f files id; induction files as [|[i es] r IH]; cbn [wal_touch In]; [tauto|].
  destruct (i =? id); [|destruct (id <? i)]; cbn [In]; [tauto|tauto|].
  intros [H|H]; [left; exact H|right; apply IH, H].
Qed.

Lemma wal_touch_rows : forall x files id, In x (frows (wal_touch files id)) <-> In x (frows files).
Proof.
  intros x files id; rewrite !frows_In; split.
  - intros [f [Hf Hx]]. destruct (wal_touch_In _ _ _ Hf) as [H| ->]; [exists f; auto|destruct Hx].
  - intros [f [Hf Hx]]. exists f; split; [apply wal_touch_keeps, Hf|exact Hx].
Qed.

Lemma wal_touch_has : forall files id, exists es, In (id, es) (wal_touch files id).
Proof.
  intros files id; induction files as [|[i es] r IH]; cbn [wal_touch].
  - exists []; left; reflexivity.
  - destruct (N.eqb_spec i id) as [E|E]; [|destruct (id <? i)].
    + exists es; left; rewrite E; reflexivity.
    + exists []; left; reflexivity.
    + destruct IH as [es' H]. exists es'; right; exact H.
Qed.

Lemma wal_touch_lines_new : forall files id,
  (forall f, In f files -> fst f <> id) -> wal_lines (wal_touch files id) id = 0.
Proof.
  intros files id; induction files as [|[i es] r IH]; intros H; cbn [wal_touch wal_lines].
  - rewrite N.eqb_refl. reflexivity.
  - destruct (N.eqb_spec i id) as [E|E]; [exfalso; exact (H (i, es) (or_introl eq_refl) E)|].
    destruct (id <? i); cbn [wal_lines].
    + rewrite N.eqb_refl. reflexivity.
    + destruct (N.eqb_spec i id) as [E'|_]; [contradiction|]. apply IH.
      intros f Hf; apply H; right; exact Hf.
Qed.

Lemma wal_max_id_is : forall files m,
  (forall f, In f files -> fst f <= m) -> (exists f, In f files /\ fst f = m) -> wal_max_id files = m.
Proof.
  intros files m Hle Hex; unfold wal_max_id.
  assert (G : forall (l : list (N * list event)) a, (forall f, In f l -> fst f <= m) -> a <= m ->
              (a = m \/ exists f, In f l /\ fst f = m) ->
              fold_left (fun x f => N.max x (fst f)) l a = m).
  { induction l as [|f r IH]; intros a Hl Ha Hm; cbn [fold_left].
    - destruct Hm as [Hm|[f [[] _]]]; exact Hm.
    - apply IH.
      + intros g Hg; apply Hl; right; exact Hg.
      + specialize (Hl f (or_introl eq_refl)); lia.
      + destruct Hm as [Hm|[g [[<-|Hg] Hgm]]]; [left; specialize (Hl f (or_introl eq_refl)); lia|left; lia|right; exists g; auto]. }
  apply G; [exact Hle|lia|right; exact Hex].
Qed.

(** * Frame lemmas: what each step leaves unchanged *)

Ltac proj := cbn [cap mem passives inflight live dirs index walq walfiles wcur wcnt wunlinked
                  alloc0 jobs wlost jseg jevs jstage sid srows fst snd].

Lemma store_frame : forall s e,
  cap (store s e) = cap s /\ walq (store s e) = walq s ++ [e] /\ walfiles (store s e) = walfiles s /\
  dirs (store s e) = dirs s /\ wlost (store s e) = wlost s /\ wcur (store s e) = wcur s /\
  wcnt (store s e) = wcnt s /\ wunlinked (store s e) = wunlinked s /\
  inflight (store s e) = inflight s /\ live (store s e) = live s /\ index (store s e) = index s.
Proof. intros s e; unfold store, rotate; destruct (_ <=? _); proj; repeat split; reflexivity. Qed.

(** the volatile part after a STORE *)
Lemma store_cases : forall s e,
  (len (mem s) + 1 < cap s /\ mem (store s e) = mem s ++ [e] /\ passives (store s e) = passives s /\
   jobs (store s e) = jobs s /\ alloc0 (store s e) = alloc0 s) \/
  (cap s <= len (mem s) + 1 /\ mem (store s e) = [] /\
   passives (store s e) = passives s ++ [(alloc0 s, mem s ++ [e])] /\
   jobs (store s e) = jobs s ++ [mkJob (alloc0 s) (mem s ++ [e]) StQueued] /\
   alloc0 (store s e) = N.succ (alloc0 s)).
Proof.
  intros s e; unfold store; proj.
  destruct (N.leb_spec (cap s) (len (mem s ++ [e]))) as [H|H]; unfold rotate; proj;
    rewrite len_app, len_cons, len_nil in H; [right|left]; repeat split; try reflexivity; lia.
Qed.

Lemma rotate_frame : forall s,
  cap (rotate s) = cap s /\ walq (rotate s) = walq s /\ walfiles (rotate s) = walfiles s /\
  dirs (rotate s) = dirs s /\ wlost (rotate s) = wlost s /\ mem (rotate s) = [] /\
  passives (rotate s) = passives s ++ [(alloc0 s, mem s)] /\
  jobs (rotate s) = jobs s ++ [mkJob (alloc0 s) (mem s) StQueued].
Proof. intros s; unfold rotate; proj; repeat split; reflexivity. Qed.

Lemma crash_frame : forall s,
  cap (crash s) = cap s /\ walq (crash s) = [] /\ walfiles (crash s) = walfiles s /\
  dirs (crash s) = dirs s /\ wlost (crash s) = wlost s /\ mem (crash s) = [] /\
  passives (crash s) = [] /\ jobs (crash s) = [] /\ inflight (crash s) = [] /\ live (crash s) = [].
Proof. intros s; unfold crash; proj; repeat split; reflexivity. Qed.

Lemma restart_frame : forall s,
  cap (restart s) = cap s /\ walq (restart s) = [] /\
  walfiles (restart s) = wal_touch (walfiles s) (find_next_wal_id (cap s) (walfiles s)) /\
  dirs (restart s) = dirs s /\ wlost (restart s) = wlost s /\ mem (restart s) = frows (walfiles s) /\
  passives (restart s) = [] /\ jobs (restart s) = [] /\ inflight (restart s) = [] /\
  live (restart s) = sort_n (map sid (dirs s)).
Proof. intros s; unfold restart; proj; repeat split; reflexivity. Qed.

Lemma wal_rotate_frame : forall s,
  cap (wal_rotate s) = cap s /\ walq (wal_rotate s) = walq s /\ dirs (wal_rotate s) = dirs s /\
  wlost (wal_rotate s) = wlost s /\ mem (wal_rotate s) = mem s /\ passives (wal_rotate s) = passives s /\
  jobs (wal_rotate s) = jobs s /\ alloc0 (wal_rotate s) = alloc0 s /\
  (walfiles (wal_rotate s) = walfiles s \/ walfiles (wal_rotate s) = wal_touch (walfiles s) (N.succ (wcur s))).
Proof.
  intros s; unfold wal_rotate; destruct (_ <=? _); proj; repeat split; try reflexivity; [right|left]; reflexivity.
Qed.

Lemma wal_write_frame : forall s,
  cap (wal_write s) = cap s /\ walq (wal_write s) = tl (walq s) /\ dirs (wal_write s) = dirs s /\
  mem (wal_write s) = mem s /\ passives (wal_write s) = passives s /\ jobs (wal_write s) = jobs s /\
  alloc0 (wal_write s) = alloc0 s /\ wcur (wal_write s) = wcur s /\ wunlinked (wal_write s) = wunlinked s.
Proof. intros s; unfold wal_write; destruct (walq s) eqn:E; proj; rewrite ?E; repeat split; reflexivity. Qed.

(** the written entry lands in the current file, or in the ghost list when that file is unlinked *)
Lemma wal_write_cons : forall s e q, walq s = e :: q ->
  wcnt (wal_write s) = N.succ (wcnt s) /\
  ((wunlinked s = true /\ walfiles (wal_write s) = walfiles s /\ wlost (wal_write s) = wlost s ++ [e]) \/
   (wunlinked s = false /\ walfiles (wal_write s) = wal_append (walfiles s) (wcur s) e /\
    wlost (wal_write s) = wlost s)).
Proof.
  intros s e q E; unfold wal_write; rewrite E; proj. split; [reflexivity|].
  destruct (wunlinked s); [left|right]; repeat split; reflexivity.
Qed.

Lemma wal_write_nil : forall s, walq s = [] -> wal_write s = s.
Proof. intros s E; unfold wal_write; rewrite E; reflexivity. Qed.

(** ** the flush worker *)

Lemma fw_frame : forall s l,
  cap (fw_step s l) = cap s /\ mem (fw_step s l) = mem s /\ walq (fw_step s l) = walq s /\
  wcur (fw_step s l) = wcur s /\ wcnt (fw_step s l) = wcnt s /\ alloc0 (fw_step s l) = alloc0 s.
Proof.
  intros s l; unfold fw_step, set_jobs. destruct (jobs s) as [|j rest]; [repeat split; reflexivity|].
  destruct l, (jstage j); repeat match goal with |- context [if ?b then _ else _] => destruct b end;
    proj; repeat split; reflexivity.
Qed.

Lemma clear_passive_rows : forall e ps seg, In e (frows (clear_passive ps seg)) -> In e (frows ps).
Proof.
  intros e ps seg; rewrite !frows_In. intros [f [Hf He]]. unfold clear_passive in Hf.
  apply in_map_iff in Hf. destruct Hf as [p [<- Hp]]. destruct (fst p =? seg); [destruct He|].
  exists p; auto.
Qed.

Lemma fw_passives : forall s l e, In e (frows (passives (fw_step s l))) -> In e (frows (passives s)).
Proof.
  intros s l e; unfold fw_step, set_jobs. destruct (jobs s) as [|j rest]; [tauto|].
  destruct l, (jstage j); repeat match goal with |- context [if ?b then _ else _] => destruct b end;
    proj; try tauto. apply clear_passive_rows.
Qed.

Definition jrows (js : list job) : list event := concat (map jevs js).

Lemma fw_jobs : forall s l e, In e (jrows (jobs (fw_step s l))) -> In e (jrows (jobs s)).
Proof.
  intros s l e; unfold fw_step, set_jobs. destruct (jobs s) as [|j rest] eqn:Ej; [rewrite Ej; tauto|].
  destruct l, (jstage j); repeat match goal with |- context [if ?b then _ else _] => destruct b end;
    proj; rewrite ?Ej; try tauto; unfold jrows; cbn [map concat jevs]; rewrite ?in_app_iff; tauto.
Qed.

(** directories only grow, and only by rows of the job being flushed *)
Lemma fw_dirs : forall s l,
  dirs (fw_step s l) = dirs s \/
  exists j rest rows, jobs s = j :: rest /\ jstage j = StBegun /\ incl rows (jevs j) /\
    dirs (fw_step s l) = dir_add_rows (dirs s) (jseg j) rows.
Proof.
  intros s l; unfold fw_step, set_jobs. destruct (jobs s) as [|j rest] eqn:Ej; [left; reflexivity|].
  destruct l, (jstage j) eqn:Est; repeat match goal with |- context [if ?b then _ else _] => destruct b end;
    proj; try (left; reflexivity); right; exists j, rest.
  - exists []. split; [reflexivity|split; [exact Est|split; [intros x []|reflexivity]]].
  - eexists. split; [reflexivity|split; [exact Est|split; [|reflexivity]]].
    intros x Hx. apply filter_In in Hx. apply flush_order_In, Hx.
Qed.

(** log files are only deleted; what is deleted and in no directory goes to the ghost list *)
Lemma fw_files : forall s l,
  (walfiles (fw_step s l) = walfiles s /\ wlost (fw_step s l) = wlost s) \/
  exists p : N -> bool,
    walfiles (fw_step s l) = filter (fun f => negb (p (fst f))) (walfiles s) /\
    wlost (fw_step s l) = wlost s ++ pruned_unsaved (dirs s) (filter (fun f => p (fst f)) (walfiles s)) /\
    dirs (fw_step s l) = dirs s.
Proof.
  intros s l; unfold fw_step, set_jobs, wal_cleanup. destruct (jobs s) as [|j rest] eqn:Ej; [left; split; reflexivity|].
  destruct l, (jstage j) eqn:Est; repeat match goal with |- context [if ?b then _ else _] => destruct b end;
    proj; try (left; split; reflexivity); right.
  - exists (fun i => i =? id); repeat split; reflexivity.
  - exists (fun i => i <? N.succ (jseg j)); repeat split; reflexivity.
Qed.
