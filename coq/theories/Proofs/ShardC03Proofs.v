(** Proofs about Model/Shard.v for C03: reads see every applied write exactly
    once at every stage of its flush (histories without crash / restart). *)
From Coq Require Import NArith List Bool Lia Permutation.
From Coq Require Import ZifyBool ZifyNat ZifyN.
From Snel Require Import Model.Shard.
Import ListNotations.
Open Scope N_scope.

(** * Generic list facts *)

Lemma nodup_app {A} (l1 l2 : list A) :
  NoDup (l1 ++ l2) <-> NoDup l1 /\ NoDup l2 /\ (forall x, In x l1 -> In x l2 -> False).
Proof.
  induction l1 as [|a l1 IH]; cbn [app].
  - split; [intros H; repeat split; auto; constructor | tauto].
  - split.
    + intros H. apply NoDup_cons_iff in H as [Hn H]. apply IH in H as (H1 & H2 & H3).
      split; [constructor; auto; intro Ha; apply Hn, in_app_iff; auto|].
      split; [exact H2|]. intros x [->|Hx] Hx2; [apply Hn, in_app_iff; auto | eauto].
    + intros (H1 & H2 & H3). apply NoDup_cons_iff in H1 as [Hn H1]. constructor.
      * rewrite in_app_iff. intros [Ha|Ha]; [auto | eapply H3; [left; reflexivity | exact Ha]].
      * apply IH. repeat split; auto. intros x Hx Hx2. eapply H3; [right; exact Hx | exact Hx2].
Qed.

Lemma nodup_concat_in {A} (ls : list (list A)) l :
  NoDup (concat ls) -> In l ls -> NoDup l.
Proof.
  induction ls as [|x r IH]; cbn [concat]; [intros _ []|].
  intros H [->|Hl]; apply nodup_app in H as (H1 & H2 & _); auto.
Qed.

Lemma nodup_concat_filter {A B} (f : A -> list B) p (l : list A) :
  NoDup (concat (map f l)) -> NoDup (concat (map f (filter p l))).
Proof.
  induction l as [|x r IH]; cbn [map concat filter]; [auto|].
  intros H. apply nodup_app in H as (H1 & H2 & H3).
  destruct (p x); cbn [map concat]; [|auto].
  apply nodup_app. repeat split; auto.
  intros y Hy Hy2. apply (H3 y Hy).
  apply in_concat in Hy2 as (z & Hz & Hyz). apply in_map_iff in Hz as (a & <- & Ha).
  apply filter_In in Ha as [Ha _]. apply in_concat. exists (f a). split; [apply in_map; exact Ha | exact Hyz].
Qed.

Lemma in_concat_filter {A B} (f : A -> list B) p (l : list A) y :
  In y (concat (map f (filter p l))) -> In y (concat (map f l)).
Proof.
  intros H. apply in_concat in H as (z & Hz & Hyz). apply in_map_iff in Hz as (a & <- & Ha).
  apply filter_In in Ha as [Ha _]. apply in_concat. exists (f a). split; [apply in_map; exact Ha | exact Hyz].
Qed.

Lemma nodup_map_inj {A B} (f : A -> B) (l : list A) :
  NoDup l -> (forall a b, In a l -> In b l -> f a = f b -> a = b) -> NoDup (map f l).
Proof.
  induction l as [|x r IH]; cbn [map]; intros Hn Hinj; [constructor|].
  apply NoDup_cons_iff in Hn as [Hx Hn]. constructor.
  - intros Hin. apply in_map_iff in Hin as (y & Hy & Hyr).
    assert (y = x) by (apply Hinj; [right; exact Hyr | left; reflexivity | exact Hy]). subst y. auto.
  - apply IH; [exact Hn|]. intros a b Ha Hb. apply Hinj; right; assumption.
Qed.

Lemma nodup_map_inj_on {A B} (f : A -> B) (l : list A) :
  NoDup (map f l) -> forall a b, In a l -> In b l -> f a = f b -> a = b.
Proof.
  induction l as [|x r IH]; cbn [map]; intros Hn a b Ha Hb Hab; [destruct Ha|].
  apply NoDup_cons_iff in Hn as [Hx Hn].
  destruct Ha as [->|Ha], Hb as [->|Hb]; auto.
  - exfalso. apply Hx. rewrite Hab. apply in_map. exact Hb.
  - exfalso. apply Hx. rewrite <- Hab. apply in_map. exact Ha.
Qed.

Lemma filter_all {A} (p : A -> bool) l : forallb p l = true -> filter p l = l.
Proof.
  induction l as [|x r IH]; cbn [forallb filter]; [auto|].
  intros H. apply andb_true_iff in H as [Hx Hr]. rewrite Hx, IH; auto.
Qed.

Lemma in_tl {A} (x : A) l : In x (tl l) -> In x l.
Proof. destruct l; cbn [tl]; [auto | intros; right; assumption]. Qed.

Lemma len_app {A} (a b : list A) : len (a ++ b) = len a + len b.
Proof. unfold len. rewrite app_length. lia. Qed.

(** * Helpers of the model *)

Lemma memb_true x l : memb x l = true <-> In x l.
Proof.
  unfold memb. rewrite existsb_exists. split.
  - intros (y & Hy & He). apply N.eqb_eq in He. subst. exact Hy.
  - intros H. exists x. split; [exact H | apply N.eqb_refl].
Qed.

Lemma memb_false x l : memb x l = false <-> ~ In x l.
Proof. rewrite <- memb_true. destruct (memb x l); split; congruence. Qed.

Lemma memb_cons x y l : memb x (y :: l) = (x =? y) || memb x l.
Proof. reflexivity. Qed.

Lemma memb_app x l l' : memb x (l ++ l') = memb x l || memb x l'.
Proof. apply existsb_app. Qed.

Lemma ev_eqb_eq a b : ev_eqb a b = true <-> a = b.
Proof.
  unfold ev_eqb. destruct a as [k1 c1 u1], b as [k2 c2 u2]; cbn [ek ectx euid].
  rewrite !andb_true_iff, !N.eqb_eq. split; [intros [[-> ->] ->]; reflexivity | intros H; inversion H; auto].
Qed.

Lemma insert_sorted_in y x l : In y (insert_sorted x l) <-> y = x \/ In y l.
Proof.
  induction l as [|z r IH]; cbn [insert_sorted In]; [intuition|].
  destruct (x <=? z); cbn [In]; [intuition | rewrite IH; intuition].
Qed.

Lemma sort_n_in y l : In y (sort_n l) <-> In y l.
Proof.
  unfold sort_n. induction l as [|z r IH]; cbn [fold_right In]; [tauto|].
  rewrite insert_sorted_in, IH. intuition.
Qed.

Lemma dedup_n_in y l : In y (dedup_n l) <-> In y l.
Proof.
  induction l as [|z r IH]; cbn [dedup_n In]; [tauto|].
  destruct (memb z r) eqn:Hm; cbn [In]; rewrite IH; [|tauto].
  apply memb_true in Hm. split; [auto | intros [->|H]; auto].
Qed.

Lemma uids_of_in e evs : In e evs -> memb (euid e) (uids_of evs) = true.
Proof.
  intros H. apply memb_true. unfold uids_of. apply sort_n_in, dedup_n_in, in_map, H.
Qed.

Lemma insert_by_ctx_perm e l : Permutation (insert_by_ctx e l) (e :: l).
Proof.
  induction l as [|x r IH]; cbn [insert_by_ctx]; [reflexivity|].
  destruct (ectx x <=? ectx e); [|reflexivity].
  rewrite IH. apply perm_swap.
Qed.

Lemma flush_order_perm l : Permutation (flush_order l) l.
Proof.
  unfold flush_order.
  assert (G : forall evs acc, Permutation (fold_left (fun acc e => insert_by_ctx e acc) evs acc) (acc ++ evs)).
  { induction evs as [|a r IH]; intros acc; cbn [fold_left]; [rewrite app_nil_r; reflexivity|].
    rewrite IH, insert_by_ctx_perm. cbn [app]. apply Permutation_middle. }
  apply (G l []).
Qed.

Lemma flush_order_in e l : In e (flush_order l) <-> In e l.
Proof.
  split; apply Permutation_in; [apply flush_order_perm | symmetry; apply flush_order_perm].
Qed.

(** * Rows of the passive copies and of the directories *)

Definition prows (ps : list (N * list event)) : list event := concat (map snd ps).
Definition all_rows (ds : list segdir) : list event := concat (map srows ds).
Definition rows_of (ds : list segdir) (seg : N) : list event :=
  concat (map srows (filter (fun d => sid d =? seg) ds)).

Lemma prows_snoc ps a l : prows (ps ++ [(a, l)]) = prows ps ++ l.
Proof. unfold prows. rewrite map_app, concat_app. cbn [map concat snd]. rewrite app_nil_r. reflexivity. Qed.

Lemma prows_in ps a l e : In (a, l) ps -> In e l -> In e (prows ps).
Proof.
  intros Hp He. apply in_concat. exists l. split; [|exact He].
  apply in_map_iff. exists (a, l). split; [reflexivity | exact Hp].
Qed.

Lemma prows_nodup_in ps a l : NoDup (prows ps) -> In (a, l) ps -> NoDup l.
Proof.
  intros Hn Hp. eapply nodup_concat_in; [exact Hn|].
  apply in_map_iff. exists (a, l). split; [reflexivity | exact Hp].
Qed.

Lemma prows_disjoint ps a b l1 l2 e :
  NoDup (prows ps) -> In (a, l1) ps -> In (b, l2) ps -> a <> b -> In e l1 -> In e l2 -> False.
Proof.
  unfold prows. induction ps as [|p r IH]; cbn [map concat]; intros Hn H1 H2 Hab He1 He2; [destruct H1|].
  apply nodup_app in Hn as (Hp & Hr & Hd).
  destruct H1 as [->|H1], H2 as [E|H2].
  - inversion E; subst. auto.
  - apply (Hd e); [exact He1 | eapply prows_in; eauto].
  - subst p. apply (Hd e); [exact He2 | eapply prows_in; eauto].
  - eapply IH; eauto.
Qed.

Lemma cp_in_other ps seg a l : In (a, l) ps -> a <> seg -> In (a, l) (clear_passive ps seg).
Proof.
  intros H Hne. unfold clear_passive. apply in_map_iff. exists (a, l). split; [|exact H].
  cbn [fst]. destruct (N.eqb_spec a seg); [contradiction | reflexivity].
Qed.

Lemma cp_sub ps seg e : In e (prows (clear_passive ps seg)) -> In e (prows ps).
Proof.
  unfold prows, clear_passive. induction ps as [|p r IH]; cbn [map concat]; [auto|].
  rewrite !in_app_iff. intros [H|H]; [|right; auto].
  destruct (fst p =? seg); cbn [snd] in H; [destruct H | left; exact H].
Qed.

Lemma cp_nodup ps seg : NoDup (prows ps) -> NoDup (prows (clear_passive ps seg)).
Proof.
  induction ps as [|p r IH]; [auto|].
  change (prows (p :: r)) with (snd p ++ prows r).
  change (prows (clear_passive (p :: r) seg))
    with (snd (if fst p =? seg then (fst p, []) else p) ++ prows (clear_passive r seg)).
  intros H. apply nodup_app in H as (H1 & H2 & H3). apply nodup_app. split; [|split].
  - destruct (fst p =? seg); cbn [snd]; [constructor | exact H1].
  - apply IH, H2.
  - intros x Hx Hx2. apply cp_sub in Hx2. destruct (fst p =? seg); cbn [snd] in Hx; [destruct Hx | eauto].
Qed.

Lemma rows_of_sub_all ds seg e : In e (rows_of ds seg) -> In e (all_rows ds).
Proof. apply in_concat_filter. Qed.

Lemma rows_of_fresh ds al e : (forall d, In d ds -> sid d < al) -> ~ In e (rows_of ds al).
Proof.
  intros Hlt H. apply in_concat in H as (z & Hz & _). apply in_map_iff in Hz as (d & _ & Hd).
  apply filter_In in Hd as [Hd He]. apply Hlt in Hd. lia.
Qed.

Lemma rows_of_add ds seg r seg' e :
  In e (rows_of (dir_add_rows ds seg r) seg') <-> In e (rows_of ds seg') \/ (seg' = seg /\ In e r).
Proof.
  unfold rows_of. induction ds as [|d ds IH]; cbn [dir_add_rows].
  - cbn [filter sid map concat]. destruct (N.eqb_spec seg seg') as [->|Hne]; cbn [map concat srows In].
    + rewrite app_nil_r. intuition.
    + intuition congruence.
  - destruct (N.eqb_spec (sid d) seg) as [Hd|Hd]; cbn [filter sid].
    + clear IH. rewrite Hd. destruct (N.eqb_spec seg seg') as [->|Hne]; cbn [map concat srows].
      * rewrite !in_app_iff. intuition.
      * intuition congruence.
    + destruct (sid d =? seg'); cbn [map concat]; [rewrite !in_app_iff|]; rewrite IH; intuition.
Qed.

Lemma all_rows_add ds seg r : Permutation (all_rows (dir_add_rows ds seg r)) (all_rows ds ++ r).
Proof.
  unfold all_rows. induction ds as [|d ds IH]; cbn [dir_add_rows map concat srows app].
  - rewrite app_nil_r. reflexivity.
  - destruct (sid d =? seg); cbn [map concat srows].
    + rewrite <- !app_assoc. apply Permutation_app_head, Permutation_app_comm.
    + rewrite IH, app_assoc. reflexivity.
Qed.

Lemma all_rows_add_in ds seg r e : In e (all_rows (dir_add_rows ds seg r)) <-> In e (all_rows ds) \/ In e r.
Proof.
  rewrite <- in_app_iff. split; apply Permutation_in; [|symmetry]; apply all_rows_add.
Qed.

Lemma add_sid ds seg r d : In d (dir_add_rows ds seg r) -> sid d = seg \/ In d ds.
Proof.
  induction ds as [|x ds IH]; cbn [dir_add_rows].
  - intros [<-|[]]. left. reflexivity.
  - destruct (sid x =? seg).
    + intros [<-|H]; [left; reflexivity | right; right; exact H].
    + intros [<-|H]; [right; left; reflexivity|]. apply IH in H as [H|H]; [left | right; right]; exact H.
Qed.

Lemma dir_has_uid_spec s seg u :
  dir_has_uid s seg u = true <-> exists e, In e (rows_of (dirs s) seg) /\ euid e = u.
Proof.
  unfold dir_has_uid, rows_of. rewrite existsb_exists. split.
  - intros (d & Hd & H). apply andb_true_iff in H as [Hs H]. apply existsb_exists in H as (e & He & Hu).
    exists e. split; [|apply N.eqb_eq, Hu]. apply in_concat. exists (srows d). split; [|exact He].
    apply in_map, filter_In. auto.
  - intros (e & He & Hu). apply in_concat in He as (z & Hz & He). apply in_map_iff in Hz as (d & <- & Hd).
    apply filter_In in Hd as [Hd Hs]. exists d. split; [exact Hd|]. rewrite Hs. cbn [andb].
    apply existsb_exists. exists e. split; [exact He | apply N.eqb_eq, Hu].
Qed.

Lemma rows_of_scanned s seg e :
  memb seg (live s) = true -> In e (rows_of (dirs s) seg) -> In e (seg_rows s).
Proof.
  intros Hl H. unfold rows_of in H. apply in_concat in H as (z & Hz & He). apply in_map_iff in Hz as (d & <- & Hd).
  apply filter_In in Hd as [Hd Hs]. apply N.eqb_eq in Hs. subst seg.
  unfold seg_rows, scanned_dirs. apply in_concat. exists (srows d). split; [|exact He].
  apply in_map, filter_In. split; [exact Hd|]. rewrite Hl. reflexivity.
Qed.

Lemma seg_rows_sub_all s e : In e (seg_rows s) -> In e (all_rows (dirs s)).
Proof. apply in_concat_filter. Qed.

(** * The response writer's de-duplication *)

Lemma dedup_keys l : forall seen,
  NoDup (map ek (dedup_ev l seen)) /\
  forall e, In e (dedup_ev l seen) -> memb (ek e) seen = false /\ In e l.
Proof.
  induction l as [|x r IH]; intros seen; cbn [dedup_ev].
  - split; [constructor | intros e []].
  - destruct (memb (ek x) seen) eqn:Hm.
    + destruct (IH seen) as [H1 H2]. split; [exact H1|]. intros e He. apply H2 in He as [Ha Hb]. split; [exact Ha | right; exact Hb].
    + destruct (IH (ek x :: seen)) as [H1 H2]. split.
      * cbn [map]. constructor; [|exact H1]. intros Hin. apply in_map_iff in Hin as (y & Hy & Hyr).
        apply H2 in Hyr as [Hf _]. rewrite memb_cons, Hy, N.eqb_refl in Hf. discriminate.
      * intros e [->|He]; [split; [exact Hm | left; reflexivity]|].
        apply H2 in He as [Hf Hr]. rewrite memb_cons in Hf. apply orb_false_iff in Hf as [_ Hf].
        split; [exact Hf | right; exact Hr].
Qed.

Lemma dedup_in l : forall seen e,
  (forall a b, In a l -> In b l -> ek a = ek b -> a = b) ->
  In e l -> memb (ek e) seen = false -> In e (dedup_ev l seen).
Proof.
  induction l as [|x r IH]; intros seen e Hinj He Hm; [destruct He|]. cbn [dedup_ev].
  assert (Hinj' : forall a b, In a r -> In b r -> ek a = ek b -> a = b) by (intros a b Ha Hb; apply Hinj; right; assumption).
  destruct (memb (ek x) seen) eqn:Hx.
  - destruct He as [->|He]; [congruence|]. apply IH; assumption.
  - destruct He as [->|He]; [left; reflexivity|].
    destruct (N.eqb_spec (ek e) (ek x)) as [Hk|Hk].
    + left. apply Hinj; [left; reflexivity | right; exact He | auto].
    + right. apply IH; try assumption. rewrite memb_cons, Hm.
      destruct (N.eqb_spec (ek e) (ek x)); [contradiction | reflexivity].
Qed.

Lemma dedup_id l : forall seen,
  NoDup (map ek l) -> (forall e, In e l -> memb (ek e) seen = false) -> dedup_ev l seen = l.
Proof.
  induction l as [|x r IH]; intros seen Hn Hs; cbn [dedup_ev]; [reflexivity|].
  cbn [map] in Hn. apply NoDup_cons_iff in Hn as [Hx Hn].
  rewrite (Hs x) by (left; reflexivity). f_equal. apply IH; [exact Hn|].
  intros e He. rewrite memb_cons, (Hs e) by (right; exact He).
  destruct (N.eqb_spec (ek e) (ek x)) as [Hk|Hk]; [|reflexivity].
  exfalso. apply Hx. rewrite <- Hk. apply in_map. exact He.
Qed.

(** * The inductive invariant of crash-free runs

    [A] is the list of applied events.  Only the memtable, the passive copies,
    the live list, the directories, the flush queue and the allocator matter. *)

Definition has_passive (st : stage) : bool :=
  match st with StQueued | StBegun | StIndexed | StPublished => true | _ => false end.
Definition written (st : stage) : bool :=
  match st with StQueued | StBegun => false | _ => true end.
Definition published (st : stage) : bool :=
  match st with StPublished | StCleared | StWalCleaned => true | _ => false end.

Record JobOk (ps : list (N * list event)) (lv : list N) (ds : list segdir) (j : job) : Prop := {
  (* the passive copy is released only after the Published stage *)
  jo_pas : has_passive (jstage j) = true -> In (jseg j, jevs j) ps;
  (* from the Indexed stage on the directory holds every rotated event *)
  jo_wr : written (jstage j) = true -> forall e, In e (jevs j) -> In e (rows_of ds (jseg j));
  jo_pub : published (jstage j) = true -> jevs j <> [] -> memb (jseg j) lv = true;
  (* before that, the directory holds exactly the already written types *)
  jo_w : written (jstage j) = false -> forall e e', In e (jevs j) -> In e' (rows_of ds (jseg j)) ->
         euid e' = euid e -> In e (rows_of ds (jseg j));
  jo_n3 : written (jstage j) = false -> forall e, In e (jevs j) -> In e (all_rows ds) ->
          In e (rows_of ds (jseg j)) }.

Record InvC (A m : list event) (ps : list (N * list event)) (lv : list N)
            (ds : list segdir) (js : list job) (al : N) : Prop := {
  i_mem : forall e, In e m -> In e A;
  i_pas : forall e, In e (prows ps) -> In e A;
  i_dir : forall e, In e (all_rows ds) -> In e A;
  i_cov : forall e, In e A ->
          In e m \/ (exists j, In j js /\ In e (jevs j)) \/
          (exists seg, memb seg lv = true /\ In e (rows_of ds seg));
  i_jnd : NoDup (map jseg js);
  i_jlt : forall j, In j js -> jseg j < al;
  i_dlt : forall d, In d ds -> sid d < al;
  i_tlq : forall j, In j (tl js) -> jstage j = StQueued;
  i_job : forall j, In j js -> JobOk ps lv ds j;
  i_n1 : NoDup (m ++ prows ps);
  i_n2 : NoDup (all_rows ds);
  i_n4 : forall e, In e m -> ~ In e (all_rows ds) }.

Definition Inv (A : list event) (s : shard) : Prop :=
  InvC A (mem s) (passives s) (live s) (dirs s) (jobs s) (alloc0 s).

Ltac dI I := destruct I as [Imem Ipas Idir Icov Ijnd Ijlt Idlt Itlq Ijob In1 In2 In4].

Lemma inv_init c : Inv [] (init c).
Proof.
  unfold Inv, init. cbn [mem passives live dirs jobs alloc0].
  split; cbn [prows all_rows map concat app tl In]; try (intros; contradiction); constructor.
Qed.

(** ** STORE: memtable insert *)
Lemma inv_ins A m ps lv ds js al e :
  InvC A m ps lv ds js al -> ~ In (ek e) (map ek A) ->
  InvC (A ++ [e]) (m ++ [e]) ps lv ds js al.
Proof.
  intros I Hk. assert (HeA : ~ In e A) by (intros H; apply Hk, in_map, H).
  dI I. split; auto.
  - intros x Hx. apply in_app_iff in Hx as [Hx|[<-|[]]]; apply in_app_iff; [left; auto | right; left; reflexivity].
  - intros x Hx. apply in_app_iff. left. auto.
  - intros x Hx. apply in_app_iff. left. auto.
  - intros x Hx. apply in_app_iff in Hx as [Hx|[<-|[]]].
    + destruct (Icov x Hx) as [H|H]; [left; apply in_app_iff; left; exact H | right; exact H].
    + left. apply in_app_iff. right. left. reflexivity.
  - apply (Permutation_NoDup (l := e :: m ++ prows ps)).
    + rewrite <- app_assoc. cbn [app]. apply Permutation_middle.
    + constructor; [|exact In1]. intros H. apply in_app_iff in H as [H|H]; auto.
  - intros x Hx. apply in_app_iff in Hx as [Hx|[<-|[]]]; [auto|]. intros H. auto.
Qed.

(** ** rotation *)
Lemma jobok_ps_mono ps ps' lv ds j :
  (forall p, In p ps -> In p ps') -> JobOk ps lv ds j -> JobOk ps' lv ds j.
Proof. intros Hs []. split; auto. Qed.

Lemma inv_rotate A m ps lv ds js al :
  InvC A m ps lv ds js al ->
  InvC A [] (ps ++ [(al, m)]) lv ds (js ++ [mkJob al m StQueued]) (N.succ al).
Proof.
  intros I. dI I. split.
  - intros e [].
  - intros e He. rewrite prows_snoc in He. apply in_app_iff in He as [He|He]; auto.
  - exact Idir.
  - intros e He. destruct (Icov e He) as [H|[(j & Hj & H)|H]].
    + right. left. exists (mkJob al m StQueued). split; [apply in_app_iff; right; left; reflexivity | exact H].
    + right. left. exists j. split; [apply in_app_iff; left; exact Hj | exact H].
    + right. right. exact H.
  - rewrite map_app. cbn [map jseg]. apply nodup_app. split; [exact Ijnd|]. split; [repeat constructor; intros []|].
    intros x Hx [<-|[]]. apply in_map_iff in Hx as (j & Hj & Hin). apply Ijlt in Hin. lia.
  - intros j Hj. apply in_app_iff in Hj as [Hj|[<-|[]]]; [apply Ijlt in Hj; lia | cbn [jseg]; lia].
  - intros d Hd. apply Idlt in Hd. lia.
  - intros j Hj. destruct js as [|j0 js]; [destruct Hj|]. cbn [app tl] in Hj.
    apply in_app_iff in Hj as [Hj|[<-|[]]]; [apply Itlq; exact Hj | reflexivity].
  - intros j Hj. apply in_app_iff in Hj as [Hj|[<-|[]]].
    + eapply jobok_ps_mono; [|apply Ijob, Hj]. intros p Hp. apply in_app_iff. left. exact Hp.
    + split; cbn [jstage jseg jevs has_passive written published]; try discriminate.
      * intros _. apply in_app_iff. right. left. reflexivity.
      * intros _ e e' _ He'. exfalso. eapply rows_of_fresh; eauto.
      * intros _ e He Hd. exfalso. eapply In4; eauto.
  - cbn [app]. rewrite prows_snoc. eapply Permutation_NoDup; [apply Permutation_app_comm | exact In1].
  - exact In2.
  - intros e [].
Qed.

(** ** the head job advances a stage *)
Lemma inv_adv A m ps lv ds j rest al st' :
  InvC A m ps lv ds (j :: rest) al ->
  JobOk ps lv ds (mkJob (jseg j) (jevs j) st') ->
  InvC A m ps lv ds (mkJob (jseg j) (jevs j) st' :: rest) al.
Proof.
  intros I Hj. dI I. split; auto.
  - intros e He. destruct (Icov e He) as [H|[(j0 & [<-|Hj0] & H)|H]]; auto.
    + right. left. eexists. split; [left; reflexivity | exact H].
    + right. left. exists j0. split; [right; exact Hj0 | exact H].
  - intros j0 [<-|Hj0]; [apply (Ijlt j); left; reflexivity | apply Ijlt; right; exact Hj0].
  - intros j0 [<-|Hj0]; [exact Hj | apply Ijob; right; exact Hj0].
Qed.

Lemma jobok_stage ps lv ds j st' :
  JobOk ps lv ds j ->
  (has_passive st' = true -> has_passive (jstage j) = true) ->
  (written st' = true -> written (jstage j) = true \/ forall e, In e (jevs j) -> In e (rows_of ds (jseg j))) ->
  (published st' = true -> published (jstage j) = true \/ (jevs j <> [] -> memb (jseg j) lv = true)) ->
  (written st' = false -> written (jstage j) = false) ->
  JobOk ps lv ds (mkJob (jseg j) (jevs j) st').
Proof.
  intros [Jp Jwr Jpub Jw Jn] H1 H2 H3 H4. split; cbn [jstage jseg jevs]; auto.
  - intros Hw. destruct (H2 Hw); auto.
  - intros Hp. destruct (H3 Hp); auto.
  - intros Hw. apply Jw, H4, Hw.
Qed.

(** ** the live list grows *)
Lemma inv_live A m ps lv lv' ds js al :
  InvC A m ps lv ds js al -> (forall x, memb x lv = true -> memb x lv' = true) ->
  InvC A m ps lv' ds js al.
Proof.
  intros I Hl. dI I. split; auto.
  - intros e He. destruct (Icov e He) as [H|[H|(seg & Hs & H)]]; auto.
    right. right. exists seg. auto.
  - intros j Hj. destruct (Ijob j Hj). split; auto.
Qed.

(** ** the passive copy of the head job is released *)
Lemma inv_clear A m ps lv ds j rest al :
  InvC A m ps lv ds (j :: rest) al -> has_passive (jstage j) = false ->
  InvC A m (clear_passive ps (jseg j)) lv ds (j :: rest) al.
Proof.
  intros I Hp. dI I. split; auto.
  - intros e He. apply Ipas. eapply cp_sub. exact He.
  - intros j0 Hj0. destruct (Ijob j0 Hj0). split; auto.
    intros Hp0. destruct Hj0 as [<-|Hj0]; [congruence|].
    apply cp_in_other; [auto|]. cbn [map] in Ijnd. apply NoDup_cons_iff in Ijnd as [Hn _].
    intros E. apply Hn. rewrite <- E. apply in_map. exact Hj0.
  - apply nodup_app in In1 as (H1 & H2 & H3). apply nodup_app. split; [exact H1|]. split; [apply cp_nodup, H2|].
    intros x Hx Hx2. apply cp_sub in Hx2. eauto.
Qed.

(** ** the head job leaves the queue *)
Lemma inv_done A m ps lv ds j rest al :
  InvC A m ps lv ds (j :: rest) al ->
  (jevs j <> [] -> written (jstage j) = true /\ published (jstage j) = true) ->
  InvC A m ps lv ds rest al.
Proof.
  intros I Hd. dI I. split; auto.
  - intros e He. destruct (Icov e He) as [H|[(j0 & [<-|Hj0] & H)|H]]; auto.
    + assert (Hne : jevs j <> []) by (intros E; rewrite E in H; destruct H).
      destruct (Hd Hne) as [Hw Hp]. destruct (Ijob j (or_introl eq_refl)).
      right. right. exists (jseg j). auto.
    + right. left. exists j0. auto.
  - cbn [map] in Ijnd. apply NoDup_cons_iff in Ijnd as [_ H]. exact H.
  - intros j0 Hj0. apply Ijlt. right. exact Hj0.
  - intros j0 Hj0. apply Itlq. cbn [tl]. apply in_tl. exact Hj0.
  - intros j0 Hj0. apply Ijob. right. exact Hj0.
Qed.

(** ** rows are added to the directory of the head job (FwMkdir, FwWrite) *)
Lemma inv_add_rows A m ps lv ds j rest al r :
  InvC A m ps lv ds (j :: rest) al -> jstage j = StBegun ->
  (forall e, In e r -> In e (jevs j)) -> NoDup r ->
  (forall e, In e r -> ~ In e (rows_of ds (jseg j))) ->
  (forall e e', In e (jevs j) -> In e' r -> euid e' = euid e -> In e r) ->
  InvC A m ps lv (dir_add_rows ds (jseg j) r) (j :: rest) al.
Proof.
  intros I Hst Hsub Hnd Hfresh Hcl.
  dI I.
  pose proof (Ijob j (or_introl eq_refl)) as Hj. destruct Hj as [Jp _ _ Jw Jn]. rewrite Hst in *.
  specialize (Jp eq_refl). specialize (Jw eq_refl). specialize (Jn eq_refl).
  assert (HrP : forall e, In e r -> In e (prows ps)) by (intros e He; eapply prows_in; eauto).
  apply nodup_app in In1 as (N1m & N1p & N1d).
  split; auto.
  - intros e He. apply all_rows_add_in in He as [He|He]; auto.
  - intros e He. destruct (Icov e He) as [H|[H|(seg & Hs & H)]]; auto.
    right. right. exists seg. split; [exact Hs|]. apply rows_of_add. left. exact H.
  - intros d Hd. apply add_sid in Hd as [->|Hd]; [apply Ijlt; left; reflexivity | auto].
  - intros j0 Hj0. destruct Hj0 as [<-|Hj0].
    + split; rewrite Hst; cbn [has_passive written published]; try discriminate; auto.
      * intros _ e e' He He'. apply rows_of_add in He' as [He'|[_ He']]; intros Hu; apply rows_of_add.
        -- left. eapply Jw; eauto.
        -- right. split; [reflexivity|]. eapply Hcl; eauto.
      * intros _ e He Hd. apply rows_of_add. apply all_rows_add_in in Hd as [Hd|Hd]; [left; auto | right; auto].
    + assert (Hne : jseg j0 <> jseg j).
      { cbn [map] in Ijnd. apply NoDup_cons_iff in Ijnd as [Hn _].
        intros E. apply Hn. rewrite <- E. apply in_map. exact Hj0. }
      pose proof (Itlq j0 Hj0) as Hq.
      destruct (Ijob j0 (or_intror Hj0)) as [Kp Kw Kpub Kww Kn]. rewrite Hq in *.
      split; rewrite Hq; cbn [has_passive written published]; try discriminate; auto.
      * intros _ e e' He He' Hu. apply rows_of_add. left.
        apply rows_of_add in He' as [He'|[E _]]; [|contradiction]. eapply Kww; eauto.
      * intros _ e He Hd. apply rows_of_add. left. apply all_rows_add_in in Hd as [Hd|Hd]; [auto|].
        exfalso. eapply (prows_disjoint ps (jseg j0) (jseg j)); eauto.
  - apply nodup_app. auto.
  - eapply Permutation_NoDup; [symmetry; apply all_rows_add|].
    apply nodup_app. split; [exact In2|]. split; [exact Hnd|].
    intros x Hx Hx2. apply (Hfresh x Hx2). apply Jn; auto.
  - intros e He Hd. apply all_rows_add_in in Hd as [Hd|Hd]; [eapply In4; eauto|].
    apply (N1d e He). auto.
Qed.


(** * Every crash-free label preserves the invariant *)

Lemma inv_store A s e : Inv A s -> ~ In (ek e) (map ek A) -> Inv (A ++ [e]) (store s e).
Proof.
  intros I Hk. unfold store. cbv zeta.
  destruct (cap s <=? len _); unfold Inv, rotate; cbn [mem passives live dirs jobs alloc0].
  - apply inv_rotate, inv_ins; assumption.
  - apply inv_ins; assumption.
Qed.

Lemma inv_flush_cmd A s : Inv A s -> Inv A (flush_cmd s).
Proof. intros I. unfold flush_cmd, rotate, Inv. cbn [mem passives live dirs jobs alloc0]. apply inv_rotate, I. Qed.

Lemma inv_wal_write A s : Inv A s -> Inv A (wal_write s).
Proof. intros I. unfold wal_write. destruct (walq s); exact I. Qed.

Lemma inv_wal_rotate A s : Inv A s -> Inv A (wal_rotate s).
Proof. intros I. unfold wal_rotate. destruct (cap s <=? wcnt s); exact I. Qed.

Lemma is_empty_true {T} (l : list T) : is_empty l = true -> l = [].
Proof. destruct l; [reflexivity | discriminate]. Qed.

Ltac stage_side :=
  cbn [has_passive written published];
  solve [ intros; discriminate | intros _; reflexivity | intros _; left; reflexivity | auto ].

Lemma inv_fw A s l : Inv A s -> Inv A (fw_step s l).
Proof.
  intros I. unfold fw_step. destruct (jobs s) as [|j rest] eqn:Hj; [exact I|].
  assert (I' : InvC A (mem s) (passives s) (live s) (dirs s) (j :: rest) (alloc0 s)) by (rewrite <- Hj; exact I).
  pose proof (i_job _ _ _ _ _ _ _ I' j (or_introl eq_refl)) as Jok.
  destruct l; destruct (jstage j) eqn:Hst; try exact I.
  - (* FwBegin *)
    unfold Inv; cbn [mem passives live dirs jobs alloc0].
    apply inv_adv; [exact I'|]. apply jobok_stage; [exact Jok|..]; rewrite Hst; stage_side.
  - (* FwMkdir *)
    unfold Inv; cbn [mem passives live dirs jobs alloc0].
    apply inv_add_rows; [exact I' | exact Hst | intros e [] | constructor | intros e [] | intros e e' _ []].
  - (* FwWrite *)
    destruct (negb (memb u (uids_of (jevs j))) || dir_has_uid s (jseg j) u) eqn:Hc; [exact I|].
    apply orb_false_iff in Hc as [_ Hc].
    unfold Inv; cbn [mem passives live dirs jobs alloc0].
    apply inv_add_rows; [exact I' | exact Hst |..].
    + intros e He. apply filter_In in He as [He _]. apply flush_order_in, He.
    + apply NoDup_filter. eapply Permutation_NoDup; [symmetry; apply flush_order_perm|].
      destruct Jok as [Jp _ _ _ _]. rewrite Hst in Jp. specialize (Jp eq_refl).
      pose proof (i_n1 _ _ _ _ _ _ _ I') as Hn. apply nodup_app in Hn as (_ & Hn & _).
      eapply prows_nodup_in; eauto.
    + intros e He Hr. apply filter_In in He as [_ Hu]. apply N.eqb_eq in Hu.
      assert (Hd : dir_has_uid s (jseg j) u = true) by (apply dir_has_uid_spec; exists e; auto).
      congruence.
    + intros e e' He He' Hu. apply filter_In in He' as [_ Hu']. apply N.eqb_eq in Hu'.
      apply filter_In. split; [apply flush_order_in, He | apply N.eqb_eq; congruence].
  - (* FwIndex *)
    destruct (is_empty (jevs j) || negb (forallb (dir_has_uid s (jseg j)) (uids_of (jevs j)))) eqn:Hc; [exact I|].
    apply orb_false_iff in Hc as [_ Hc]. apply negb_false_iff in Hc.
    unfold Inv; cbn [mem passives live dirs jobs alloc0].
    apply inv_adv; [exact I'|]. apply jobok_stage; [exact Jok|..]; rewrite Hst; try stage_side.
    intros _. right. intros e He.
    pose proof (uids_of_in e _ He) as Hm. apply memb_true in Hm.
    rewrite forallb_forall in Hc. apply Hc in Hm. apply dir_has_uid_spec in Hm as (e' & He' & Hu).
    destruct Jok as [_ _ _ Jw _]. rewrite Hst in Jw. eapply Jw; eauto.
  - (* FwPublish *)
    destruct (is_empty (jevs j)) eqn:He.
    + unfold set_jobs, Inv; cbn [mem passives live dirs jobs alloc0].
      apply inv_adv; [exact I'|]. apply jobok_stage; [exact Jok|..]; rewrite Hst; try stage_side.
      intros _. right. intros Hne. apply is_empty_true in He. contradiction.
    + unfold Inv; cbn [mem passives live dirs jobs alloc0].
      set (lv' := if memb (jseg j) (live s) then live s else live s ++ [jseg j]).
      assert (Hmono : forall x, memb x (live s) = true -> memb x lv' = true).
      { intros x Hx. unfold lv'. destruct (memb (jseg j) (live s)); [exact Hx|]. rewrite memb_app, Hx. reflexivity. }
      assert (Hin : memb (jseg j) lv' = true).
      { unfold lv'. destruct (memb (jseg j) (live s)) eqn:Hm; [exact Hm|].
        rewrite memb_app, memb_cons, N.eqb_refl. apply orb_true_r. }
      pose proof (inv_live _ _ _ _ _ _ _ _ I' Hmono) as I2.
      apply inv_adv; [exact I2|].
      apply jobok_stage; [exact (i_job _ _ _ _ _ _ _ I2 j (or_introl eq_refl))|..]; rewrite Hst; stage_side.
  - (* FwClear *)
    assert (I2 : InvC A (mem s) (passives s) (live s) (dirs s) (mkJob (jseg j) (jevs j) StCleared :: rest) (alloc0 s)).
    { apply inv_adv; [exact I'|]. apply jobok_stage; [exact Jok|..]; rewrite Hst; stage_side. }
    destruct (is_empty (jevs j)).
    + exact I2.
    + exact (inv_clear _ _ _ _ _ _ _ _ I2 eq_refl).
  - (* FwWalDel *)
    destruct (is_empty (jevs j) || negb (id <? N.succ (jseg j))); [exact I | exact I'].
  - (* FwWalClean *)
    assert (I2 : InvC A (mem s) (passives s) (live s) (dirs s) (mkJob (jseg j) (jevs j) StWalCleaned :: rest) (alloc0 s)).
    { apply inv_adv; [exact I'|]. apply jobok_stage; [exact Jok|..]; rewrite Hst; stage_side. }
    destruct (is_empty (jevs j)); exact I2.
  - (* FwDone, nothing was flushed *)
    destruct (is_empty (jevs j)) eqn:He; [|exact I].
    unfold Inv; cbn [mem passives live dirs jobs alloc0].
    eapply inv_done; [exact I'|]. intros Hne. apply is_empty_true in He. contradiction.
  - (* FwDone *)
    unfold Inv; cbn [mem passives live dirs jobs alloc0].
    eapply inv_done; [exact I'|]. rewrite Hst. intros _. split; reflexivity.
Qed.

(** * Crash-free histories *)

Definition is_crash (l : label) : bool := match l with LCrash | LRestart => true | _ => false end.
Definition no_crash (ls : list label) : Prop := forallb (fun l => negb (is_crash l)) ls = true.

(** the events of the STORE labels, in order *)
Fixpoint applied (ls : list label) : list event :=
  match ls with
  | [] => []
  | LStore e :: r => e :: applied r
  | _ :: r => applied r
  end.

Lemma applied_app a b : applied (a ++ b) = applied a ++ applied b.
Proof.
  induction a as [|l a IH]; cbn [app applied]; [reflexivity|].
  destruct l; rewrite IH; reflexivity.
Qed.

Lemma run_snoc s ls l : run s (ls ++ [l]) = step (run s ls) l.
Proof. unfold run. rewrite fold_left_app. reflexivity. Qed.

Lemma inv_run c ls :
  no_crash ls -> NoDup (map ek (applied ls)) -> Inv (applied ls) (run (init c) ls).
Proof.
  unfold no_crash. induction ls as [|l ls IH] using rev_ind; intros Hc Hk.
  - apply inv_init.
  - rewrite forallb_app in Hc. apply andb_true_iff in Hc as [Hc Hl]. cbn [forallb] in Hl.
    rewrite run_snoc. rewrite applied_app in *.
    destruct l; cbn [is_crash negb andb] in Hl; try discriminate; cbn [applied step] in *;
      rewrite ?app_nil_r in *.
    + rewrite map_app in Hk. apply nodup_app in Hk as (Hk1 & _ & Hk3).
      apply inv_store; [apply IH; assumption|]. intros Hin. apply (Hk3 _ Hin). left. reflexivity.
    + apply inv_flush_cmd, IH; assumption.
    + apply inv_wal_write, IH; assumption.
    + apply inv_wal_rotate, IH; assumption.
    + apply inv_fw, IH; assumption.
Qed.

(** * What a read sees *)

Lemma inv_rows A s : Inv A s -> forall e, In e (mem_rows s ++ seg_rows s) <-> In e A.
Proof.
  intros I e. dI I. split.
  - intros H. apply in_app_iff in H as [H|H].
    + unfold mem_rows in H. apply in_app_iff in H as [H|H]; auto.
    + apply Idir, seg_rows_sub_all, H.
  - intros H. apply in_app_iff. destruct (Icov e H) as [Hm|[(j & Hj & He)|(seg & Hs & He)]].
    + left. apply in_app_iff. left. exact Hm.
    + destruct (Ijob j Hj) as [Jp Jwr Jpub _ _].
      destruct (has_passive (jstage j)) eqn:Hp.
      * left. apply in_app_iff. right. eapply prows_in; eauto.
      * right. assert (Hne : jevs j <> []) by (intros E; rewrite E in He; destruct He).
        apply (rows_of_scanned s (jseg j)).
        -- apply Jpub; [destruct (jstage j); try discriminate; reflexivity | exact Hne].
        -- apply Jwr; [destruct (jstage j); try discriminate; reflexivity | exact He].
    + right. eapply rows_of_scanned; eauto.
Qed.

Lemma inv_nodup_rows A s :
  Inv A s -> NoDup (mem_rows s) /\ NoDup (seg_rows s).
Proof.
  intros I. dI I. split; [exact In1|]. apply nodup_concat_filter, In2.
Qed.

(** ** C03, selections *)

Theorem select_exact : forall c ls u,
  no_crash ls -> NoDup (map ek (applied ls)) ->
  Permutation (select (run (init c) ls) u) (of_uid u (applied ls)).
Proof.
  intros c ls u Hc Hk. pose proof (inv_run c ls Hc Hk) as I.
  set (s := run (init c) ls) in *. pose proof (inv_rows _ _ I) as Hrows.
  apply NoDup_Permutation.
  - apply (NoDup_map_inv ek). apply dedup_keys.
  - apply NoDup_filter. apply (NoDup_map_inv ek). exact Hk.
  - intros e. unfold select, scan, of_uid. split.
    + intros He. apply dedup_keys in He as [_ He]. apply filter_In in He as [He Hu].
      apply filter_In. split; [apply Hrows, He | exact Hu].
    + intros He. apply filter_In in He as [He Hu]. apply dedup_in; [|apply filter_In; split; [apply Hrows, He | exact Hu]|reflexivity].
      intros a b Ha Hb. apply filter_In in Ha as [Ha _], Hb as [Hb _].
      apply (nodup_map_inj_on ek (applied ls) Hk); apply Hrows; assumption.
Qed.

Theorem read_your_writes : forall c ls e,
  no_crash ls -> NoDup (map ek (applied ls)) ->
  In e (applied ls) -> In e (select (run (init c) ls) (euid e)).
Proof.
  intros c ls e Hc Hk He. eapply Permutation_in; [symmetry; apply select_exact; assumption|].
  apply filter_In. split; [exact He | apply N.eqb_refl].
Qed.

(** ** Known classes *)

(** a read for type [u] while some in-flight segment has no files for [u] *)
Definition ReadDuringFlushDropsSegmentFlow (s : shard) (u : N) : bool := fragile s u.
(** some row is both in memory (a passive copy) and in a scanned segment *)
Definition CountDuringFlush (s : shard) : bool :=
  existsb (fun e => existsb (ev_eqb e) (seg_rows s)) (mem_rows s).

Lemma CountDuringFlush_false s :
  CountDuringFlush s = false <-> forall e, In e (mem_rows s) -> ~ In e (seg_rows s).
Proof.
  unfold CountDuringFlush. split.
  - intros H e Hm Hs. assert (T : existsb (fun e => existsb (ev_eqb e) (seg_rows s)) (mem_rows s) = true); [|congruence].
    apply existsb_exists. exists e. split; [exact Hm|]. apply existsb_exists. exists e. split; [exact Hs | apply ev_eqb_eq; reflexivity].
  - intros H. destruct (existsb _ (mem_rows s)) eqn:E; [|reflexivity]. exfalso.
    apply existsb_exists in E as (e & Hm & E). apply existsb_exists in E as (e' & Hs & E).
    apply ev_eqb_eq in E. subst e'. exact (H e Hm Hs).
Qed.

Theorem outcomes_exact_outside_known : forall c ls u,
  no_crash ls -> NoDup (map ek (applied ls)) ->
  let s := run (init c) ls in
  ReadDuringFlushDropsSegmentFlow s u = false ->
  select_outcomes s u = [select s u] /\
  forall r, In r (select_outcomes s u) -> Permutation r (of_uid u (applied ls)).
Proof.
  intros c ls u Hc Hk s Hf. unfold ReadDuringFlushDropsSegmentFlow in Hf.
  unfold select_outcomes. rewrite Hf. split; [reflexivity|].
  intros r [<-|[]]. apply select_exact; assumption.
Qed.

(** COUNT filters the in-memory rows by event type like the segment rows (fix dc170f4; [count] reads the
    regenerated flag, so this stops checking if the memtable read paths lose the condition again). *)
Lemma count_typed : forall s u, count s u = len (of_uid u (mem_rows s)) + len (of_uid u (seg_rows s)).
Proof. reflexivity. Qed.

Theorem count_exact_outside_known : forall c ls u,
  no_crash ls -> NoDup (map ek (applied ls)) ->
  let s := run (init c) ls in
  CountDuringFlush s = false ->
  count s u = len (select s u).
Proof.
  intros c ls u Hc Hk s H2. pose proof (inv_run c ls Hc Hk) as I. fold s in I.
  pose proof (inv_rows _ _ I) as Hrows. destruct (inv_nodup_rows _ _ I) as [Nm Ns].
  rewrite CountDuringFlush_false in H2.
  assert (Hscan : scan s u = of_uid u (mem_rows s) ++ of_uid u (seg_rows s)).
  { unfold scan, of_uid. rewrite filter_app. reflexivity. }
  assert (Hsel : select s u = scan s u).
  { unfold select. apply dedup_id; [|reflexivity]. apply nodup_map_inj.
    - rewrite Hscan. apply nodup_app. split; [apply NoDup_filter, Nm|]. split; [apply NoDup_filter, Ns|].
      intros x Hx Hx2. apply filter_In in Hx as [Hx _]. apply filter_In in Hx2 as [Hx2 _]. exact (H2 x Hx Hx2).
    - intros a b Ha Hb. unfold scan, of_uid in Ha, Hb. apply filter_In in Ha as [Ha _], Hb as [Hb _].
      apply (nodup_map_inj_on ek (applied ls) Hk); apply Hrows; assumption. }
  rewrite Hsel, Hscan, len_app. reflexivity.
Qed.

(** * Witnesses: known findings and non-vacuity *)

Fixpoint nodupb (l : list N) : bool :=
  match l with [] => true | x :: r => negb (memb x r) && nodupb r end.

Lemma nodupb_sound l : nodupb l = true -> NoDup l.
Proof.
  induction l as [|x r IH]; cbn [nodupb]; intros H; [constructor|].
  apply andb_true_iff in H as [Hx Hr]. apply negb_true_iff, memb_false in Hx. constructor; auto.
Qed.

(** all stage labels of one complete background flush writing the types [us] *)
Definition flush_all (us : list N) : list label :=
  [LFw FwBegin; LFw FwMkdir] ++ map (fun u => LFw (FwWrite u)) us
  ++ [LFw FwIndex; LFw FwPublish; LFw FwClear; LFw FwWalClean; LFw FwDone].

(** Known finding ReadDuringFlushDropsSegmentFlow: segment 0 (type 0) is complete
    and published, segment 1 (type 1 only) has just begun its flush; a read for
    type 0 may return the in-memory rows only, and event 0 is then missing. *)
Definition ls_fragile : list label :=
  [LStore (mkEv 0 0 0)] ++ flush_all [0] ++ [LStore (mkEv 1 0 1); LFw FwBegin].

Lemma fragile_outcome_refuted :
  exists c ls u e,
    let s := run (init c) ls in
    no_crash ls /\ NoDup (map ek (applied ls)) /\
    ReadDuringFlushDropsSegmentFlow s u = true /\
    In e (applied ls) /\ euid e = u /\
    In (select_mem_only s u) (select_outcomes s u) /\ ~ In e (select_mem_only s u).
Proof.
  exists 1, ls_fragile, 0, (mkEv 0 0 0). cbv zeta.
  split; [vm_compute; reflexivity|]. split; [apply nodupb_sound; vm_compute; reflexivity|].
  split; [vm_compute; reflexivity|]. split; [vm_compute; auto|]. split; [reflexivity|].
  split; [vm_compute; auto|]. vm_compute. intros [].
Qed.

(** Known finding of COUNT, CountDuringFlush: between FwPublish and FwClear the rotated event is in the
    passive copy and in the published segment and is counted twice.  (The former finding
    CountIgnoresTypeInMemory - memory holds an event of another type - is repaired by dc170f4: on its
    witness [ls_count_a] COUNT is now the selection, see [count_other_type_exact].) *)
Definition ls_count_a : list label := [LStore (mkEv 0 0 1)].
Definition ls_count_b : list label :=
  [LStore (mkEv 0 0 0); LFw FwBegin; LFw FwMkdir; LFw (FwWrite 0); LFw FwIndex; LFw FwPublish].

Lemma count_refuted :
  exists c ls u, let s := run (init c) ls in
     no_crash ls /\ NoDup (map ek (applied ls)) /\
     CountDuringFlush s = true /\
     jobs s = [mkJob 0 (applied ls) StPublished] /\
     count s u = 2 /\ len (select s u) = 1.
Proof.
  exists 1, ls_count_b, 0. cbv zeta.
  split; [vm_compute; reflexivity|]. split; [apply nodupb_sound; vm_compute; reflexivity|].
  repeat split; vm_compute; reflexivity.
Qed.

Example count_other_type_exact :
  let s := run (init 2) ls_count_a in
  no_crash ls_count_a /\ NoDup (map ek (applied ls_count_a)) /\ mem_rows s = [mkEv 0 0 1] /\
  CountDuringFlush s = false /\ count s 0 = 0 /\ select s 0 = [] /\ count s 1 = 1.
Proof.
  cbv zeta. split; [vm_compute; reflexivity|]. split; [apply nodupb_sound; vm_compute; reflexivity|].
  repeat split; vm_compute; reflexivity.
Qed.

(** Non-vacuity: a crash-free history with unique ids and three rotations
    (capacity 2): segment 0 complete, segment 1 in flight with both of its types
    written, segment 2 queued behind it, one event in the active memtable. *)
Definition ls_ex : list label :=
  [LStore (mkEv 0 1 0); LStore (mkEv 1 0 1)] ++ flush_all [1; 0]
  ++ [LStore (mkEv 2 0 0); LWalWrite; LStore (mkEv 3 1 1); LFw FwBegin; LFw FwMkdir; LFw (FwWrite 0);
      LStore (mkEv 4 0 0); LFlushCmd; LFw (FwWrite 1); LStore (mkEv 5 2 1)].

Example select_exact_example :
  let s := run (init 2) ls_ex in
  no_crash ls_ex /\ NoDup (map ek (applied ls_ex)) /\
  map jstage (jobs s) = [StBegun; StQueued] /\ live s = [0] /\ inflight s = [1] /\
  select s 0 = [mkEv 2 0 0; mkEv 4 0 0; mkEv 0 1 0] /\
  select s 1 = [mkEv 5 2 1; mkEv 3 1 1; mkEv 1 0 1].
Proof.
  cbv zeta. split; [vm_compute; reflexivity|]. split; [apply nodupb_sound; vm_compute; reflexivity|].
  repeat split; vm_compute; reflexivity.
Qed.

Example outcomes_exact_example :
  let s := run (init 2) ls_ex in
  no_crash ls_ex /\ NoDup (map ek (applied ls_ex)) /\ inflight s = [1] /\
  ReadDuringFlushDropsSegmentFlow s 0 = false /\ ReadDuringFlushDropsSegmentFlow s 1 = false.
Proof.
  cbv zeta. split; [vm_compute; reflexivity|]. split; [apply nodupb_sound; vm_compute; reflexivity|].
  repeat split; vm_compute; reflexivity.
Qed.

(** three rotations (one of an empty memtable), events of two types: segment 0
    complete and released, segments 1 and 2 queued, one event in the memtable *)
Definition ls_ex_count : list label :=
  [LStore (mkEv 0 1 0); LStore (mkEv 1 0 1)] ++ flush_all [0; 1]
  ++ [LStore (mkEv 2 0 0); LWalWrite; LStore (mkEv 3 1 1); LFlushCmd; LStore (mkEv 4 0 0)].

Example count_exact_example :
  let s := run (init 2) ls_ex_count in
  no_crash ls_ex_count /\ NoDup (map ek (applied ls_ex_count)) /\
  map jstage (jobs s) = [StQueued; StQueued] /\ live s = [0] /\
  CountDuringFlush s = false /\ count s 0 = 3 /\ count s 1 = 2 /\ len (mem_rows s) = 3.
Proof.
  cbv zeta. split; [vm_compute; reflexivity|]. split; [apply nodupb_sound; vm_compute; reflexivity|].
  repeat split; vm_compute; reflexivity.
Qed.
